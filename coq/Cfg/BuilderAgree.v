(* The compositional abstraction Cfg/Flow.v agrees with the graph-level model Cfg/Builder.v on EVERY function body
   (no size bound): a statement is marked dead by Flow iff the builder puts it into a block the depth-first walk from
   ENTRY does not reach.  This lifts BuilderBounded.flow_agrees_with_builder_bounded (dead-statement part). *)
From Coq Require Import NArith List Bool Arith Lia ZifyBool ZifyNat ZifyN.
From PV Require Import Py.PyAST Cfg.Flow Cfg.FlowSpec Cfg.FlowComplete Cfg.Builder Cfg.BuilderReach Cfg.BuilderFrame
  Cfg.BuilderTryNS Cfg.BuilderTrySS Cfg.BuilderFrameAll Cfg.BuilderBounded Cfg.BuilderSim.
Import ListNotations.
Local Open Scope N_scope.

Definition S_block_all := proj1 (proj2 S_all).

Definition b_start0 : st := set_cur build_s2 2.

Lemma inv_start : inv b_start0.
Proof.
  pose proof wf_build_start as W. split.
  - apply wf_wfb. exact W.
  - reflexivity.
  - intros b Hb. cbv in Hb. destruct Hb as [E|[E|[E|[]]]]; subst b; reflexivity.
  - intros x f [].
Qed.

(* ---- the simulation for a whole function ---- *)
Lemma build_sim body (l0 : lam) :
  lok_block false body = true -> l0 2 = true ->
  let g := build' body in
  exists l', agree 3 l0 l' /\
    (l0 0 = true -> l0 1 = true -> forall b, reach (edges g) b -> l' b = true) /\
    (forall b, b <> 1 -> b < next g -> l' b = true -> reach (edges g) b) /\
    (forall k e b, placed g k e b -> b < next g /\ ((k = 0 /\ e = 0) \/ (In (k, l' b) (fn_marks body) /\ In (k, e) (spans_block body)))) /\
    (forall k m, In (k, m) (fn_marks body) -> In k (elif_block body) \/ exists e b, placed g k e b /\ l' b = m).
Proof.
  intros Hlok H2 g.
  destruct (S_block_all body b_start0 l0 false inv_start Hlok) as (l' & A & F & C & So & Co & Da & Db & Dc & Cn); [discriminate|].
  change (cur b_start0) with 2 in *. rewrite H2 in *. change (next b_start0) with 3 in *.
  change (flow_block true body) with (flow_block true body) in *. fold (fn_marks body) in Da, Db.
  set (s3 := process_block' b_start0 body) in *.
  assert (Eg : g = connect s3 (cur s3) exit_id ENormal) by reflexivity.
  pose proof (inv_lframe _ _ inv_start F) as I3.
  pose proof (m_next _ _ _ (lf_mid _ _ F)) as N3. change (next b_start0) with 3 in N3.
  assert (Hinc : incl (edges s3) (edges g)) by (rewrite Eg; cbn [connect edges]; apply incl_appl, incl_refl).
  assert (Hr2 : reach (edges g) 2).
  { eapply reach_step; [apply reach_entry|]. apply Hinc. apply (lframe_incl _ _ F). left. reflexivity. }
  exists l'. split; [exact A|]. split; [|split; [|split]].
  - intros H0 H1 b Hb. apply (reach_closed (edges g) (fun c => l' c = true)); [change (l' 0 = true); rewrite (A 0) by lia; exact H0| |exact Hb].
    change (closed l' (edges g)).
    rewrite Eg. cbn [connect edges]. apply closed_snoc. split.
    + apply So.
      * intros _. repeat split; [exact H1|intros x f []|intros x h []|intros lp []].
      * intros _ lp Hlp. discriminate.
      * intros u v t [Heq|[]]. inversion Heq; subst. intros _. exact H2.
    + intros _. change (l' 1 = true). rewrite (A 1) by lia. exact H1.
  - intros b Hb1 Hb2 Hb3. destruct (Co (edges g) Hinc (fun _ => Hr2)) as (P4 & _).
    destruct (N.lt_ge_cases b 3) as [Hlt|Hge].
    + assert (b = 0 \/ b = 2) as [->| ->] by lia; [apply reach_entry|exact Hr2].
    + apply P4; [exact Hge|rewrite Eg in Hb2; exact Hb2|exact Hb3].
  - intros k e b Hp. rewrite Eg in Hp. autorewrite with plc in Hp. split; [rewrite Eg; apply (placed_lt s3 k e b I3 Hp)|].
    destruct (Da k e b Hp) as [Hp0|[Hk|Hm]]; [|left; exact Hk|right; exact Hm].
    exfalso. destruct Hp0 as (lst & y & Hin & Hy & _). cbn in Hin. destruct Hin as [Hin|[Hin|[Hin|[]]]]; inversion Hin; subst; destruct Hy.
  - intros k m Hin. destruct (Db k m Hin) as [He|(e & b & Hp & Hm)]; [left; exact He|]. right. exists e, b. split; [|exact Hm].
    rewrite Eg. autorewrite with plc. exact Hp.
Qed.

(* ---- the observables of BuilderBounded ---- *)
Lemma mem_In k l : mem k l = true <-> In k l.
Proof. apply memb_In. Qed.

Lemma in_dead_ids body k : In k (dead_ids body) <-> In (k, false) (fn_marks body).
Proof.
  unfold dead_ids. rewrite in_map_iff. split.
  - intros ([k' m] & Hk & Hin). cbn in Hk. subst k'. apply filter_In in Hin. destruct Hin as (Hin & Hm). cbn in Hm. destruct m; [discriminate|exact Hin].
  - intro Hin. exists (k, false). split; [reflexivity|]. apply filter_In. split; [exact Hin|reflexivity].
Qed.

Lemma in_dead_stmt_lines g k :
  In k (dead_stmt_lines g) <-> exists e b, placed g k e b /\ ~ reach (edges g) b.
Proof.
  unfold dead_stmt_lines. rewrite in_flat_map. split.
  - intros ([b lst] & Hin & Hk). apply in_rev in Hin. cbn [fst snd] in Hk. destruct (is_reach (reachable g) b) eqn:Er; [destruct Hk|].
    apply in_map_iff in Hk. destruct Hk as (x & Hx & Hxl). exists (b_end x), b. split; [exists lst, x; repeat split; assumption|].
    intro R. apply reachable_spec in R. congruence.
  - intros (e & b & (lst & x & Hin & Hx & Hk & _) & Hr). exists (b, lst). split; [apply -> in_rev; exact Hin|]. cbn [fst snd].
    destruct (is_reach (reachable g) b) eqn:Er; [exfalso; apply Hr; apply reachable_spec; exact Er|].
    apply in_map_iff. exists x. split; assumption.
Qed.

Theorem agree_dead_all body : lok_block false body = true -> agree_dead body = true.
Proof.
  intro Hlok. unfold agree_dead. rewrite build_resolved.
  destruct (build_sim body (fun _ => true) Hlok eq_refl) as (l' & A & So & Co & Da & Db).
  set (g := build' body) in *.
  apply andb_true_iff. split; apply forallb_forall; intros k Hk.
  - apply in_dead_stmt_lines in Hk. destruct Hk as (e & b & Hp & Hr).
    destruct (N.eqb_spec k 0) as [->|Hk0]; [reflexivity|]. cbn [orb]. apply mem_In. apply in_dead_ids.
    destruct (N.eq_dec b 1) as [->|Hb1].
    + (* the exit block: use the labelling in which EXIT is dead *)
      destruct (build_sim body (fun b => negb (N.eqb b 1)) Hlok eq_refl) as (l2 & A2 & _ & _ & Da2 & _). fold g in Da2.
      destruct (Da2 k e 1 Hp) as (_ & [(Hk & _)|(Hm & _)]); [contradiction|]. rewrite (A2 1) in Hm by lia. exact Hm.
    + destruct (Da k e b Hp) as (Hlt & [(Hk & _)|(Hm & _)]); [contradiction|].
      destruct (l' b) eqn:El; [exfalso; apply Hr; apply Co; assumption|exact Hm].
  - apply in_dead_ids in Hk. destruct (Db k false Hk) as [He|(e & b & Hp & Hm)].
    + apply orb_true_iff. right. apply mem_In. exact He.
    + apply orb_true_iff. left. apply mem_In. apply in_dead_stmt_lines. exists e, b. split; [exact Hp|].
      intro R. rewrite (So eq_refl eq_refl b R) in Hm. discriminate.
Qed.

(* ---- renumbering does not change which break/continue statements are legal ---- *)
Lemma lok_renumber :
  (forall s n inl, lok_stmt inl (fst (rn_stmt n s)) = lok_stmt inl s) /\
  (forall b n inl, lok_block inl (fst (rn_block n b)) = lok_block inl b) /\
  (forall a n inl, lok_arms inl (fst (rn_arms n a)) = lok_arms inl a) /\
  (forall o n inl, lok_oblock inl (fst (rn_oblock n o)) = lok_oblock inl o).
Proof.
  apply ast_mutind; intros; cbn [rn_stmt rn_block rn_arms rn_oblock]; try reflexivity;
    repeat match goal with
    | |- context [rn_block ?n ?b] => let p := fresh "p" in let E := fresh "E" in
        match goal with H : forall n inl, lok_block inl (fst (rn_block n b)) = _ |- _ => pose proof (H n) as E end;
        destruct (rn_block n b) as [? ?]; cbn [fst] in E
    | |- context [rn_arms ?n ?a] => let E := fresh "E" in
        match goal with H : forall n inl, lok_arms inl (fst (rn_arms n a)) = _ |- _ => pose proof (H n) as E end;
        destruct (rn_arms n a) as [? ?]; cbn [fst] in E
    | |- context [rn_oblock ?n ?o] => let E := fresh "E" in
        match goal with H : forall n inl, lok_oblock inl (fst (rn_oblock n o)) = _ |- _ => pose proof (H n) as E end;
        destruct (rn_oblock n o) as [? ?]; cbn [fst] in E
    | |- context [rn_stmt ?n ?s] => let E := fresh "E" in
        match goal with H : forall n inl, lok_stmt inl (fst (rn_stmt n s)) = _ |- _ => pose proof (H n) as E end;
        destruct (rn_stmt n s) as [? ?]; cbn [fst] in E
    end; cbn [fst lok_stmt lok_block lok_arms lok_oblock];
    repeat match goal with E : forall inl, _ = _ |- _ => rewrite E; clear E end; reflexivity.
Qed.

Lemma lok_in_loop b : lok_block false (in_loop b) = lok_block true b.
Proof.
  unfold in_loop, renumber. destruct lok_renumber as (_ & Hb & _). rewrite Hb. cbn. rewrite !andb_true_r. reflexivity.
Qed.

(* [check_one] of BuilderBounded without its complexity component *)
Definition check_dead (b : block) : bool :=
  (if lok_block false b then agree_dead b else true) && (if lok_block true b then agree_dead (in_loop b) else true).

Theorem flow_agrees_with_builder : forall b, check_dead b = true.
Proof.
  intro b. unfold check_dead. apply andb_true_iff. split.
  - destruct (lok_block false b) eqn:E; [apply agree_dead_all; exact E|reflexivity].
  - destruct (lok_block true b) eqn:E; [|reflexivity]. apply agree_dead_all. rewrite lok_in_loop. exact E.
Qed.

(* Prop-level reading: the statements of unreachable blocks are exactly the statements Flow marks dead
   (statement 0 = the location-less elif test node; elif tests have no statement of their own in the graph) *)
Theorem flow_dead_iff_unreachable body : lok_block false body = true ->
  (forall k, In k (dead_stmt_lines (build body)) -> k = 0 \/ In k (dead_ids body)) /\
  (forall k, In k (dead_ids body) -> In k (dead_stmt_lines (build body)) \/ In k (elif_block body)).
Proof.
  intro Hlok. pose proof (agree_dead_all body Hlok) as H. unfold agree_dead in H. apply andb_true_iff in H. destruct H as (H1 & H2).
  split; intros k Hk.
  - pose proof (proj1 (forallb_forall _ _) H1 k Hk) as Q. apply orb_true_iff in Q. destruct Q as [Q|Q]; [left; apply N.eqb_eq; exact Q|right; apply mem_In; exact Q].
  - pose proof (proj1 (forallb_forall _ _) H2 k Hk) as Q. apply orb_true_iff in Q. destruct Q as [Q|Q]; [left|right]; apply mem_In; exact Q.
Qed.

Print Assumptions flow_agrees_with_builder.
