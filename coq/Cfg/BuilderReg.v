(* Regularity of the conditional edges the builder (Cfg/Builder.v, guard-free form process_stmt') creates on the construct
   list of C03 (no with / match / raise / finally): every block has at most one ECondTrue out-edge and a block with an
   ECondFalse out-edge also has an ECondTrue out-edge.  Hence "number of distinct blocks with a conditional out-edge"
   (what complexity.go counts) = "number of ECondTrue edges".  The argument needs the "current block has no out-edge
   yet" invariant [wf] of Cfg/BuilderFrame.v; the frame lemmas are used as black boxes for the sub-blocks. *)
From Coq Require Import NArith List Bool Arith Lia ZifyBool ZifyNat ZifyN Permutation.
From PV Require Import Py.PyAST Cfg.FlowSpec Cfg.Builder Cfg.BuilderReach Cfg.BuilderFrame Cfg.BuilderTryNS Cfg.BuilderTrySS
  Cfg.BuilderFrameAll.
Import ListNotations.
Local Open Scope N_scope.

Definition isT (e : N * N * ety) : bool := match e with (_, _, ECondTrue) => true | _ => false end.
Definition esrc (e : N * N * ety) : N := fst (fst e).
Definition creg (E : list (N * N * ety)) : Prop :=
  NoDup (map esrc (filter isT E)) /\ forall u v, In (u, v, ECondFalse) E -> exists v', In (u, v', ECondTrue) E.

Lemma NoDup_snoc {A} (l : list A) a : NoDup l -> ~ In a l -> NoDup (l ++ [a]).
Proof.
  intros ND Hn. apply (Permutation_NoDup (l := a :: l)); [apply Permutation_cons_append|]. constructor; assumption.
Qed.

Lemma creg_nil : creg [].
Proof. split; [constructor|intros u v []]. Qed.

Lemma in_snoc_e {A} (x : A) l y : In x (l ++ [y]) -> In x l \/ x = y.
Proof. intro H. apply in_app_or in H. destruct H as [H|[H|[]]]; auto. Qed.

Lemma creg_T E a b : creg E -> (forall v, ~ In (a, v, ECondTrue) E) -> creg (E ++ [(a, b, ECondTrue)]).
Proof.
  intros (ND & HF) Hn. split.
  - rewrite filter_app, map_app. cbn [filter isT map esrc fst]. apply NoDup_snoc; [exact ND|].
    intro Hin. apply in_map_iff in Hin. destruct Hin as ([[u v] t] & Hu & Hf). apply filter_In in Hf. destruct Hf as (Hf & Ht).
    cbn in Hu. subst u. destruct t; try discriminate. exact (Hn v Hf).
  - intros u v Hin. apply in_snoc_e in Hin. destruct Hin as [Hin|Heq]; [|discriminate].
    destruct (HF u v Hin) as (v' & Hv'). exists v'. apply in_or_app. left. exact Hv'.
Qed.

Lemma creg_F E a b : creg E -> (exists v', In (a, v', ECondTrue) E) -> creg (E ++ [(a, b, ECondFalse)]).
Proof.
  intros (ND & HF) (v' & Hv'). split.
  - rewrite filter_app, map_app. cbn [filter isT map]. rewrite app_nil_r. exact ND.
  - intros u v Hin. apply in_snoc_e in Hin. destruct Hin as [Hin|Heq].
    + destruct (HF u v Hin) as (w & Hw). exists w. apply in_or_app. left. exact Hw.
    + inversion Heq; subst. exists v'. apply in_or_app. left. exact Hv'.
Qed.

Definition plain (t : ety) : Prop := t <> ECondTrue /\ t <> ECondFalse.

Lemma creg_o E a b t : plain t -> creg E -> creg (E ++ [(a, b, t)]).
Proof.
  intros (H1 & H2) (ND & HF). split.
  - rewrite filter_app, map_app. replace (filter isT [(a, b, t)]) with (@nil (N * N * ety)) by (destruct t; try reflexivity; contradiction).
    cbn [map]. rewrite app_nil_r. exact ND.
  - intros u v Hin. apply in_snoc_e in Hin. destruct Hin as [Hin|Heq]; [|inversion Heq; subst; contradiction].
    destruct (HF u v Hin) as (w & Hw). exists w. apply in_or_app. left. exact Hw.
Qed.

Lemma creg_connect_all s a l t : plain t -> creg (edges s) -> creg (edges (connect_all s a l t)).
Proof.
  intro P. revert s. induction l as [|x r IH]; intros s C; [exact C|]. cbn [connect_all]. apply IH. cbn [connect edges].
  apply creg_o; assumption.
Qed.

Lemma plain_N : plain ENormal. Proof. split; discriminate. Qed.
Lemma plain_X : plain EException. Proof. split; discriminate. Qed.
Lemma plain_L : plain ELoop. Proof. split; discriminate. Qed.
Lemma plain_B : plain EBreak. Proof. split; discriminate. Qed.
Lemma plain_C : plain EContinue. Proof. split; discriminate. Qed.
Lemma plain_R : plain EReturn. Proof. split; discriminate. Qed.
Global Hint Resolve plain_N plain_X plain_L plain_B plain_C plain_R : plainDB.

(* a block without out-edges has no ECondTrue edge *)
Lemma noout_noT s a : noout s a -> forall v, ~ In (a, v, ECondTrue) (edges s).
Proof. intros No v Hin. exact (No _ _ _ Hin eq_refl). Qed.

(* ---- [wfb] through the primitives ---- *)
Lemma wfb_nb s : wfb s -> wfb (nb s).
Proof. intro W. apply (wfb_mid (fun _ => True) s); [apply mid_nb, mid_refl_b; exact W|exact W|reflexivity|reflexivity]. Qed.
Lemma wfb_add_stmt s b x : wfb s -> wfb (add_stmt s b x).
Proof. intro W. apply (wfb_mid (fun _ => True) s); [apply mid_add_stmt, mid_refl_b; exact W|exact W|reflexivity|reflexivity]. Qed.
Lemma wfb_connect s a b t : wfb s -> a < next s -> b < next s -> wfb (connect s a b t).
Proof.
  intros W Ha Hb. apply (wfb_mid (fun _ => True) s); [|exact W|reflexivity|reflexivity].
  apply mid_connect; [apply mid_refl_b; exact W|left; exact I|exact Ha|exact Hb].
Qed.
Lemma wfb_set_cur s c : wfb s -> wfb (set_cur s c).
Proof. intros [W1 W2 W3 W4 W5]. split; assumption. Qed.
Lemma wfb_connect_all s a l t : wfb s -> a < next s -> (forall b, In b l -> b < next s) -> wfb (connect_all s a l t).
Proof.
  intros W Ha Hl. apply (wfb_mid (fun _ => True) s); [|exact W|apply ca_loops|apply ca_excs].
  apply mid_connect_all; [apply mid_refl_b; exact W|left; exact I|exact Ha|exact Hl].
Qed.

Lemma noout_nb s p : noout s p -> noout (nb s) p.
Proof. apply noout_edges_eq. reflexivity. Qed.
Lemma noout_add_stmt s b x p : noout s p -> noout (add_stmt s b x) p.
Proof. apply noout_edges_eq. reflexivity. Qed.
Lemma noout_set_cur s c p : noout s p -> noout (set_cur s c) p.
Proof. apply noout_edges_eq. reflexivity. Qed.
Lemma noout_set_loops s l p : noout s p -> noout (set_loops s l) p.
Proof. apply noout_edges_eq. reflexivity. Qed.
Lemma noout_set_excs s l p : noout s p -> noout (set_excs s l) p.
Proof. apply noout_edges_eq. reflexivity. Qed.

(* ---- the specification ---- *)
Definition R_stmt (x : stmt) : Prop :=
  c03_stmt x = true -> forall s, wf s -> creg (edges s) -> creg (edges (process_stmt' s x)).
Definition R_block (b : block) : Prop :=
  c03_block b = true -> forall s, wf s -> creg (edges s) -> creg (edges (process_block' s b)).
Definition R_oblock (o : oblock) : Prop := match o with OSome b => R_block b | ONone => True end.

(* a sub-block processed from a block [c] without out-edges *)
Lemma R_sub b t c :
  R_block b -> c03_block b = true -> wfb t -> c < next t -> noout t c -> creg (edges t) ->
  let t' := process_block' (set_cur t c) b in
  wf t' /\ creg (edges t') /\ mid (eq c) (set_cur t c) t' /\ loops t' = loops t /\ excs t' = excs t /\
  (cur t' = c \/ next t <= cur t') /\ next t <= next t' /\ incl (edges t) (edges t') /\
  (forall p, noout t p -> p < next t -> p <> c -> noout t' p).
Proof.
  intros Rb Hc Wb Hlt No Cr t'.
  assert (W : wf (set_cur t c)) by (apply wfb_wf; assumption).
  destruct (frame_block b _ W) as (F & Q). fold t' in Q. rewrite Q in F. fold t' in F.
  pose proof F as [M L X Cl K].
  split; [apply (wf_frame _ _ W F)|]. split; [apply (Rb Hc _ W); exact Cr|]. split; [exact M|]. split; [exact L|]. split; [exact X|].
  split; [destruct K as [(K & _)|(K & _)]; [left; exact K|right; exact K]|].
  split; [exact (m_next _ _ _ M)|]. split.
  - destruct (m_edges _ _ _ M) as (D & ED & _). rewrite ED. cbn [set_cur edges]. apply incl_appl, incl_refl.
  - intros p Np Hp Hne. apply (noout_mid (eq c) (set_cur t c)); [exact Np|exact M|congruence|exact Hp].
Qed.

Lemma R_block_nil : R_block BNil.
Proof. intros _ s _ C. exact C. Qed.

Lemma R_block_cons x b : R_stmt x -> R_block b -> R_block (BCons x b).
Proof.
  intros Rx Rb H s W C. cbn [c03_block] in H. apply andb_true_iff in H. destruct H as (H1 & H2).
  cbn [process_block']. destruct (frame_stmt x s W) as (F & Q). apply (Rb H2).
  - rewrite <- Q. apply (wf_frame _ _ W F).
  - apply (Rx H1); assumption.
Qed.

Lemma R_simple s x : creg (edges s) -> creg (edges (add_stmt s (cur s) x)).
Proof. exact (fun C => C). Qed.

Lemma R_after s : creg (edges s) -> creg (edges (after_terminator s)).
Proof. exact (fun C => C). Qed.

Lemma R_return k : R_stmt (Return k).
Proof.
  intros _ s W C. cbn [process_stmt']. apply R_after. destruct (return_target _ _); cbn [connect edges add_stmt]; apply creg_o; auto with plainDB.
Qed.
Lemma R_break k : R_stmt (Break k).
Proof.
  intros _ s W C. cbn [process_stmt']. destruct (loops _); [exact C|]. apply R_after.
  destruct (jump_target _); cbn [connect edges add_stmt]; apply creg_o; auto with plainDB.
Qed.
Lemma R_continue k : R_stmt (Continue k).
Proof.
  intros _ s W C. cbn [process_stmt']. destruct (loops _); [exact C|]. apply R_after.
  destruct (jump_target _); cbn [connect edges add_stmt]; apply creg_o; auto with plainDB.
Qed.

Ltac rlia := autorewrite with bst; lia.

(* ---- if ---- *)
Lemma if_start s k e : wf s -> creg (edges s) ->
  let s4 := connect (nb (nb (add_stmt s (cur s) (mk k e KOther)))) (cur s) (next s) ECondTrue in
  wfb s4 /\ creg (edges s4) /\ noout s4 (next s) /\ noout s4 (N.succ (next s)) /\ In (cur s, next s, ECondTrue) (edges s4).
Proof.
  intros W C s4. pose proof (wf_wfb _ W) as Wb. pose proof (wf_cur _ W) as Wc.
  assert (Wb3 : wfb (nb (nb (add_stmt s (cur s) (mk k e KOther))))) by (apply wfb_nb, wfb_nb, wfb_add_stmt; exact Wb).
  split; [apply wfb_connect; [exact Wb3|rlia|rlia]|].
  split; [unfold s4; autorewrite with bst; apply creg_T; [exact C|apply noout_noT, W]|].
  split; [|split].
  - apply noout_connect; [|lia]. apply (noout_edges_eq s); [reflexivity|]. apply noout_fresh_b; [exact Wb|lia].
  - apply noout_connect; [|lia]. apply (noout_edges_eq s); [reflexivity|]. apply noout_fresh_b; [exact Wb|lia].
  - unfold s4. autorewrite with bst. apply in_or_app. right. left. reflexivity.
Qed.

Lemma R_if_nil_none k body : R_block body -> R_stmt (If k body ANil ONone).
Proof.
  intros Rb H s W C. cbn [c03_stmt c03_arms c03_oblock] in H. rewrite !andb_true_r in H.
  open_stmt'. bsimp. pose proof (wf_cur _ W) as Wc.
  destruct (if_start s k (end_stmt (If k body ANil ONone)) W C) as (Wb4 & C4 & No4 & _ & In4).
  destruct (R_sub body _ (next s) Rb H Wb4 ltac:(rlia) No4 C4) as (W5 & C5 & M5 & L5 & X5 & K5 & N5 & I5 & Np5).
  rewrite <- Es5p in *. apply creg_o; [auto with plainDB|]. apply creg_F; [exact C5|]. exists (next s). apply I5. exact In4.
Qed.

(* the else block: a fresh block entered by an ECondFalse edge from [c], which already has its ECondTrue edge *)
Lemma else_start t c v : wf t -> creg (edges t) -> c < next t -> In (c, v, ECondTrue) (edges t) ->
  let t2 := connect (nb t) c (next t) ECondFalse in
  wfb t2 /\ creg (edges t2) /\ noout t2 (next t) /\ next t2 = N.succ (next t) /\ incl (edges t) (edges t2) /\
  (forall p, noout t p -> p <> c -> noout t2 p).
Proof.
  intros W C Hc Hin t2. pose proof (wf_wfb _ W) as Wb.
  split; [apply wfb_connect; [apply wfb_nb; exact Wb|rlia|rlia]|].
  split; [unfold t2; autorewrite with bst; apply creg_F; [exact C|exists v; exact Hin]|].
  split; [apply noout_connect; [apply noout_nb, noout_fresh_b; [exact Wb|lia]|lia]|].
  split; [reflexivity|]. split; [unfold t2; autorewrite with bst; apply incl_appl, incl_refl|].
  intros p Np Hne. apply noout_connect; [apply noout_nb; exact Np|congruence].
Qed.

Lemma R_if_nil_some k body eb : R_block body -> R_block eb -> R_stmt (If k body ANil (OSome eb)).
Proof.
  intros Rb Re H s W C. cbn [c03_stmt c03_arms c03_oblock] in H. rewrite !andb_true_r in H.
  apply andb_true_iff in H. destruct H as (H1 & H2).
  open_stmt'. bsimp. pose proof (wf_cur _ W) as Wc.
  destruct (if_start s k (end_stmt (If k body ANil (OSome eb))) W C) as (Wb4 & C4 & No4 & _ & In4).
  destruct (R_sub body _ (next s) Rb H1 Wb4 ltac:(rlia) No4 C4) as (W5 & C5 & M5 & L5 & X5 & K5 & N5 & I5 & Np5).
  rewrite <- Es5p in *. autorewrite with bst in N5.
  destruct (else_start s5p (cur s) (next s) W5 C5 ltac:(lia) (I5 _ In4)) as (Wb7 & C7 & No7 & N7 & I7 & _).
  destruct (R_sub eb _ (next s5p) Re H2 Wb7 ltac:(rlia) No7 C7) as (W8 & C8 & _).
  rewrite <- Es8p in *. apply creg_o; [auto with plainDB|]. apply creg_o; [auto with plainDB|]. exact C8.
Qed.

(* ---- the final else of an elif chain and the chain itself ---- *)
Lemma R_kelse els merge t c v : R_oblock els -> c03_oblock els = true ->
  wf t -> creg (edges t) -> c < next t -> In (c, v, ECondTrue) (edges t) ->
  creg (edges (kelse_of' els merge t c)).
Proof.
  intros Re H W C Hc Hin. destruct els as [|eb]; cbn [kelse_of' R_oblock c03_oblock] in *.
  - cbn [connect edges]. apply creg_F; [exact C|exists v; exact Hin].
  - rewrite new_block_eq. cbv beta iota zeta.
    destruct (else_start t c v W C Hc Hin) as (Wb2 & C2 & No2 & N2 & _).
    destruct (R_sub eb _ (next t) Re H Wb2 ltac:(rlia) No2 C2) as (W3 & C3 & _).
    cbn [connect edges]. apply creg_o; [auto with plainDB|exact C3].
Qed.

Definition R_elif (a : arms) : Prop :=
  c03_arms a = true -> forall els merge s, R_oblock els -> c03_oblock els = true -> wf s -> creg (edges s) -> a <> ANil ->
  creg (edges (process_elif' s a (kelse_of' els merge) merge)).

Lemma R_elif_nil : R_elif ANil.
Proof. intros _ els merge s _ _ _ _ H. exfalso. apply H. reflexivity. Qed.

(* the condition block of an elif: the current block gets the (location-less) test and its ECondTrue edge *)
Lemma elif_start s : wf s -> creg (edges s) ->
  let s3 := connect (nb (add_stmt s (cur s) (mk 0 0 KOther))) (cur s) (next s) ECondTrue in
  wfb s3 /\ creg (edges s3) /\ noout s3 (next s) /\ In (cur s, next s, ECondTrue) (edges s3).
Proof.
  intros W C s3. pose proof (wf_wfb _ W) as Wb. pose proof (wf_cur _ W) as Wc.
  split; [apply wfb_connect; [apply wfb_nb, wfb_add_stmt; exact Wb|rlia|rlia]|].
  split; [unfold s3; autorewrite with bst; apply creg_T; [exact C|apply noout_noT, W]|].
  split.
  - apply noout_connect; [|lia]. apply (noout_edges_eq s); [reflexivity|]. apply noout_fresh_b; [exact Wb|lia].
  - unfold s3. autorewrite with bst. apply in_or_app. right. left. reflexivity.
Qed.

Lemma R_elif_cons k1 b1 rest : R_block b1 -> R_elif rest -> R_elif (ACons k1 b1 rest).
Proof.
  intros Rb Rr H els merge s Re He W C _. cbn [c03_arms] in H. apply andb_true_iff in H. destruct H as (H1 & H2).
  cbn beta iota delta [process_elif'] fix match. peel_all ident:(p). bsimp. pose proof (wf_cur _ W) as Wc.
  destruct (elif_start s W C) as (Wb3 & C3 & No3 & In3).
  destruct (R_sub b1 _ (next s) Rb H1 Wb3 ltac:(rlia) No3 C3) as (W4 & C4 & M4 & L4 & X4 & K4 & N4 & I4 & Np4).
  rewrite <- Es4p in *. autorewrite with bst in N4.
  apply creg_o; [auto with plainDB|].
  destruct rest as [|k2 b2 rest'].
  - apply (R_kelse els merge s4p (cur s) (next s)); try assumption; [lia|apply I4; exact In3].
  - destruct (else_start s4p (cur s) (next s) W4 C4 ltac:(lia) (I4 _ In3)) as (Wb2 & C2 & No2 & N2 & _).
    apply (Rr H2 els merge); try assumption; [|discriminate].
    apply wfb_wf; [exact Wb2|rlia|exact No2].
Qed.

Lemma R_if_elif k body k1 b1 rest els :
  R_block body -> R_elif (ACons k1 b1 rest) -> R_oblock els -> R_stmt (If k body (ACons k1 b1 rest) els).
Proof.
  intros Rb Ra Re H s W C. cbn [c03_stmt] in H.
  apply andb_true_iff in H. destruct H as (H & H3). apply andb_true_iff in H. destruct H as (H1 & H2).
  open_stmt'. bsimp. pose proof (wf_cur _ W) as Wc.
  destruct (if_start s k (end_stmt (If k body (ACons k1 b1 rest) els)) W C) as (Wb4 & C4 & No4 & _ & In4).
  destruct (R_sub body _ (next s) Rb H1 Wb4 ltac:(rlia) No4 C4) as (W5 & C5 & M5 & L5 & X5 & K5 & N5 & I5 & Np5).
  rewrite <- Es5p in *. autorewrite with bst in N5.
  destruct (else_start s5p (cur s) (next s) W5 C5 ltac:(lia) (I5 _ In4)) as (Wb7 & C7 & No7 & N7 & _).
  apply creg_o; [auto with plainDB|]. rewrite Es8p.
  apply (Ra H2 els (N.succ (next s))); try assumption; [|discriminate].
  apply wfb_wf; [exact Wb7|rlia|exact No7].
Qed.

(* ---- loops ---- *)
Lemma loop_start s k e hasel : wf s -> creg (edges s) ->
  let s9 := loop_s9 s k e hasel in
  wf (set_cur s9 (N.succ (next s))) /\ creg (edges s9).
Proof.
  intros W C s9. pose proof (wf_cur _ W) as Wc. pose proof (wf_wfb _ W) as Wb.
  destruct (loop_s6_proj s k e hasel) as (P1 & P2 & P3 & P4 & P5). set (s6 := loop_s6 s k e hasel) in *.
  assert (M6 : mid (eq (cur s)) s s6).
  { unfold s6, loop_s6. cbv zeta.
    assert (M : mid (eq (cur s)) s (nb (nb (add_stmt (connect (nb s) (cur s) (next s) ENormal) (next s) (mk k e KOther))))).
    { repeat apply mid_nb. apply mid_add_stmt. apply mid_connect; [apply mid_nb, mid_refl; exact W|left; reflexivity|ulia|ulia]. }
    destruct hasel; [apply mid_nb|]; exact M. }
  assert (Wb6 : wfb s6) by (apply (wfb_mid _ _ _ M6 Wb); assumption).
  assert (No6 : forall p, next s <= p -> noout s6 p).
  { intros p Hp u v t Hin. rewrite P5 in Hin. apply in_app_or in Hin. destruct Hin as [Hin|[Heq|[]]].
    - pose proof (wf_bnd _ W u v t Hin). lia.
    - inversion Heq; subst. lia. }
  assert (Hn6 : N.succ (N.succ (N.succ (next s))) <= next s6) by (rewrite P1; destruct hasel; lia).
  assert (M9 : mid (loop_B s) s6 s9).
  { unfold s9, loop_s9. apply mid_connect; [apply mid_connect; [apply mid_set_loops, mid_refl_b; exact Wb6| | |]| | |];
      autorewrite with bst; fold s6; try (left; left; reflexivity); try lia. destruct hasel; lia. }
  split.
  - apply (wf_intro (loop_B s) s6); [apply mid_set_cur; exact M9|apply Wb6| | | |]; unfold s9, loop_s9; autorewrite with bst; fold s6.
    + lia.
    + rewrite P4. eapply fin_lt_mono; [apply W|lia].
    + rewrite P4. intros l [<-|Hl].
      * cbn [loop_ctx l_header l_exit l_excdepth]. repeat split; lia.
      * destruct (wf_loops _ W l Hl) as (H1 & H2 & H3). repeat split; lia.
    + repeat apply noout_connect; try lia. apply (noout_edges_eq s6); [reflexivity|]. apply No6. lia.
  - unfold s9, loop_s9. autorewrite with bst. fold s6. rewrite P5.
    apply creg_F; [apply creg_T; [apply creg_o; [auto with plainDB|exact C]|]|].
    + intros v Hin. apply in_snoc_e in Hin. destruct Hin as [Hin|Heq]; [|discriminate].
      pose proof (wf_bnd _ W _ _ _ Hin). lia.
    + exists (N.succ (next s)). apply in_or_app. right. left. reflexivity.
Qed.

Lemma R_loop_none s k e body : R_block body -> c03_block body = true -> wf s -> creg (edges s) ->
  forall s10, s10 = process_block' (set_cur (loop_s9 s k e false) (N.succ (next s))) body ->
  creg (edges s10 ++ [(cur s10, next s, ELoop)]).
Proof.
  intros Rb H W C s10 E10. destruct (loop_start s k e false W C) as (W9 & C9).
  apply creg_o; [auto with plainDB|]. rewrite E10. apply (Rb H _ W9). exact C9.
Qed.

Lemma wfb_pop s0 t : wfb s0 -> wfb t -> next s0 <= next t -> excs t = excs s0 -> wfb (set_loops t (loops s0)).
Proof.
  intros W0 [T1 T2 T3 T4 T5] Hn Hx. split; autorewrite with bst; try assumption.
  rewrite Hx. eapply loops_lt_mono; [apply W0|exact Hn].
Qed.

Lemma R_loop_some s k e body eb : R_block body -> R_block eb -> c03_block body = true -> c03_block eb = true ->
  wf s -> creg (edges s) ->
  forall s10, s10 = process_block' (set_cur (loop_s9 s k e true) (N.succ (next s))) body ->
  forall t1, t1 = process_block' (set_cur (set_loops (connect s10 (cur s10) (next s) ELoop) (loops s)) (N.succ (N.succ (N.succ (next s))))) eb ->
  forall d, creg (edges t1 ++ [(cur t1, d, ENormal)]).
Proof.
  intros Rb Re H1 H2 W C s10 E10 t1 Et1 d. destruct (loop_start s k e true W C) as (W9 & C9).
  pose proof (wf_cur _ W) as Wc. pose proof (wf_wfb _ W) as Wb.
  destruct (loop_prefix s k e true body W (frame_block body)) as (M6 & Wb6 & No6 & M10 & L10 & X10 & C10 & N10 & K10 & No10 & Np10 & Q10).
  destruct (loop_s6_proj s k e true) as (P1 & P2 & P3 & P4 & P5). rewrite <- Q10 in E10. clear Q10. rewrite <- E10 in *.
  rewrite P1 in *.
  destruct (frame_block body _ W9) as (F10 & Q10). rewrite <- E10 in F10. pose proof (wf_frame _ _ W9 F10) as W10.
  assert (C10' : creg (edges s10)).
  { rewrite E10. destruct (frame_block body _ W9) as (_ & Q). rewrite Q. apply (Rb H1 _ W9). exact C9. }
  set (elseb := N.succ (N.succ (N.succ (next s)))) in *.
  set (s12 := set_loops (connect s10 (cur s10) (next s) ELoop) (loops s)) in *.
  assert (Wb12 : wfb s12).
  { apply wfb_pop; [exact Wb|apply wfb_connect; [apply wf_wfb; exact W10|exact C10|lia]|rlia|autorewrite with bst; exact X10]. }
  assert (No12 : noout s12 elseb).
  { apply noout_set_loops, noout_connect; [apply Np10; unfold elseb; lia|unfold elseb; lia]. }
  assert (C12 : creg (edges s12)) by (unfold s12; autorewrite with bst; apply creg_o; [auto with plainDB|exact C10']).
  destruct (R_sub eb s12 elseb Re H2 Wb12 ltac:(unfold s12, elseb; rlia) No12 C12) as (_ & C13 & _).
  rewrite <- Et1 in C13. apply creg_o; [auto with plainDB|exact C13].
Qed.

Lemma R_while_none k body : R_block body -> R_stmt (While k body ONone).
Proof.
  intros Rb H s W C. cbn [c03_stmt c03_oblock] in H. rewrite andb_true_r in H. open_stmt'. bsimp.
  apply (R_loop_none s k (end_stmt (While k body ONone)) body Rb H W C). exact Es10p.
Qed.
Lemma R_for_none k body : R_block body -> R_stmt (For k body ONone).
Proof.
  intros Rb H s W C. cbn [c03_stmt c03_oblock] in H. rewrite andb_true_r in H. open_stmt'. bsimp.
  apply (R_loop_none s k (end_stmt (For k body ONone)) body Rb H W C). exact Es10p.
Qed.

Lemma R_while_some k body eb : R_block body -> R_block eb -> R_stmt (While k body (OSome eb)).
Proof.
  intros Rb Re H s W C. cbn [c03_stmt c03_oblock] in H. apply andb_true_iff in H. destruct H as (H1 & H2). open_stmt'. bsimp.
  destruct (loop_start s k (end_stmt (While k body (OSome eb))) true W C) as (W9 & _).
  destruct (frame_block body _ W9) as (F10 & Q10). rewrite Q10 in F10.
  assert (L10 : loops s10p = loop_ctx s :: loops s) by (rewrite Es10p; exact (fr_loops _ _ F10)). rewrite L10 in *. cbn [tl] in *.
  apply (R_loop_some s k (end_stmt (While k body (OSome eb))) body eb Rb Re H1 H2 W C s10p Es10p). exact Et1p.
Qed.
Lemma R_for_some k body eb : R_block body -> R_block eb -> R_stmt (For k body (OSome eb)).
Proof.
  intros Rb Re H s W C. cbn [c03_stmt c03_oblock] in H. apply andb_true_iff in H. destruct H as (H1 & H2). open_stmt'. bsimp.
  destruct (loop_start s k (end_stmt (For k body (OSome eb))) true W C) as (W9 & _).
  destruct (frame_block body _ W9) as (F10 & Q10). rewrite Q10 in F10.
  assert (L10 : loops s10p = loop_ctx s :: loops s) by (rewrite Es10p; exact (fr_loops _ _ F10)). rewrite L10 in *. cbn [tl] in *.
  apply (R_loop_some s k (end_stmt (For k body (OSome eb))) body eb Rb Re H1 H2 W C s10p Es10p). exact Et1p.
Qed.

(* ---- class ---- *)
Lemma R_class k nm body : R_block body -> R_stmt (Class k nm body).
Proof.
  intros Rb H s W C. cbn [c03_stmt] in H. open_stmt'. bsimp.
  pose proof (wf_cur _ W) as Wc. pose proof (wf_wfb _ W) as Wb.
  set (t0 := add_stmt (set_cur (connect (nb s) (cur s) (next s) ENormal) (next s)) (next s) (mk k (end_stmt (Class k nm body)) KOther)).
  assert (M0 : mid (eq (cur s)) s t0).
  { apply mid_add_stmt, mid_set_cur. apply mid_connect; [apply mid_nb, mid_refl; exact W|left; reflexivity|ulia|ulia]. }
  assert (W0 : wf t0).
  { apply (wf_same _ _ _ M0 W); [unfold t0; ulia|reflexivity|reflexivity|]. apply (noout_entry s); [exact W|reflexivity|]. unfold t0. ulia. }
  apply (Rb H t0 W0). unfold t0. autorewrite with bst. apply creg_o; [auto with plainDB|exact C].
Qed.

(* ---- comprehensions ---- *)
Lemma comp_reg k cl : forall s prev, wfb s -> prev < next s -> creg (edges s) ->
  let r := comp_clauses s k cl prev in
  creg (edges (snd r)) /\ incl (edges s) (edges (snd r)) /\ (fst r = prev \/ exists v, In (fst r, v, ECondTrue) (edges (snd r))).
Proof.
  induction cl as [|nifs cl IH]; intros s prev Wb Hp C.
  - cbn. split; [exact C|split; [apply incl_refl|left; reflexivity]].
  - cbn [comp_clauses]. nbs. cbv zeta.
    set (X := mk k k KOther).
    match goal with |- context [connect ?a (next s) ?b ECondTrue] => set (s5 := connect a (next s) b ECondTrue) end.
    assert (Wb5 : wfb s5).
    { unfold s5. apply wfb_connect; [apply wfb_nb, wfb_add_stmt, wfb_connect; [apply wfb_nb; exact Wb|rlia|rlia]|rlia|rlia]. }
    assert (C5 : creg (edges s5)).
    { unfold s5. autorewrite with bst. apply creg_T; [apply creg_o; [auto with plainDB|exact C]|].
      intros v Hin. apply in_snoc_e in Hin. destruct Hin as [Hin|Heq]; [|discriminate]. pose proof (wb_bnd _ Wb _ _ _ Hin). lia. }
    assert (N5 : next s5 = N.succ (N.succ (next s))) by reflexivity.
    assert (In5 : In (next s, N.succ (next s), ECondTrue) (edges s5)).
    { unfold s5. autorewrite with bst. apply in_or_app. right. left. reflexivity. }
    assert (I5 : incl (edges s) (edges s5)).
    { unfold s5. autorewrite with bst. intros x Hx. repeat (apply in_or_app; left). exact Hx. }
    assert (No5 : forall p, N.succ (N.succ (next s)) <= p -> noout s5 p) by (intros p Hp'; apply noout_fresh_b; [exact Wb5|lia]).
    assert (Hfin : forall s6, wfb s6 -> next s < next s6 -> creg (edges s6) -> incl (edges s5) (edges s6) ->
              let r := comp_clauses s6 k cl (next s) in
              creg (edges (snd r)) /\ incl (edges s) (edges (snd r)) /\ (fst r = prev \/ exists v, In (fst r, v, ECondTrue) (edges (snd r)))).
    { intros s6 Wb6 N6 C6 I6. destruct (IH s6 (next s) Wb6 N6 C6) as (C' & I' & L'). split; [exact C'|].
      split; [eapply incl_tran; [exact I5|eapply incl_tran; [exact I6|exact I']]|]. right.
      destruct L' as [L'|L']; [|exact L']. rewrite L'. exists (N.succ (next s)). apply I', I6. exact In5. }
    clearbody s5. destruct (Nat.ltb 0 nifs); nbs; cbv zeta.
    + apply Hfin.
      * apply wfb_connect; [apply wfb_add_stmt, wfb_connect; [apply wfb_connect; [apply wfb_nb, wfb_add_stmt, wfb_connect;
          [apply wfb_nb; exact Wb5|rlia|rlia]|rlia|rlia]|rlia|rlia]|rlia|rlia].
      * rlia.
      * autorewrite with bst. apply creg_o; [auto with plainDB|]. apply creg_F.
        -- apply creg_T; [apply creg_o; [auto with plainDB|exact C5]|].
           intros v Hin. apply in_snoc_e in Hin. destruct Hin as [Hin|Heq]; [|inversion Heq; lia].
           exact (No5 (next s5) ltac:(lia) _ _ _ Hin eq_refl).
        -- exists (N.succ (next s5)). apply in_or_app. right. left. reflexivity.
      * autorewrite with bst. intros x Hx. repeat (apply in_or_app; left). exact Hx.
    + apply Hfin.
      * apply wfb_connect; [apply wfb_connect; [apply wfb_nb, wfb_add_stmt; exact Wb5|rlia|rlia]|rlia|rlia].
      * rlia.
      * autorewrite with bst. apply creg_o; [auto with plainDB|]. apply creg_o; [auto with plainDB|exact C5].
      * autorewrite with bst. intros x Hx. repeat (apply in_or_app; left). exact Hx.
Qed.

Lemma R_comp k cl : R_stmt (Comp k cl).
Proof.
  intros _ s W C. cbn [process_stmt']. unfold process_comp. nbs. cbv zeta.
  pose proof (wf_cur _ W) as Wc. pose proof (wf_wfb _ W) as Wb.
  set (s4 := nb (add_stmt (connect (nb s) (cur s) (next s) ENormal) (next s) (mk k k KOther))).
  assert (Wb4 : wfb s4) by (apply wfb_nb, wfb_add_stmt, wfb_connect; [apply wfb_nb; exact Wb|rlia|rlia]).
  assert (C4 : creg (edges s4)) by (unfold s4; autorewrite with bst; apply creg_o; [auto with plainDB|exact C]).
  destruct (comp_reg k cl s4 (next s) Wb4 ltac:(unfold s4; rlia) C4) as (C5 & I5 & L5).
  destruct (comp_clauses s4 k cl (next s)) as [last s5]. cbn [fst snd] in *.
  destruct (N.eqb_spec last (next s)) as [El|El]; autorewrite with bst.
  - apply creg_o; [auto with plainDB|exact C5].
  - apply creg_F; [exact C5|]. destruct L5 as [L5|L5]; [contradiction|exact L5].
Qed.

(* ---- exception handlers ---- *)
Definition F_handlers_all (a : arms) : F_handlers a := proj1 (proj2 (proj1 (proj2 (proj2 frame_all)) a)).

Definition R_handlers (a : arms) : Prop :=
  c03_arms a = true -> forall s hbs nxt, wfb s -> NoDup hbs -> (forall h, In h hbs -> h < next s /\ noout s h) -> nxt < next s ->
  creg (edges s) -> creg (edges (process_handlers' s a hbs nxt)).

Lemma R_handlers_nil : R_handlers ANil.
Proof. intros _ s hbs nxt _ _ _ _ C. exact C. Qed.

Lemma R_handlers_cons k b r : R_block b -> R_handlers r -> R_handlers (ACons k b r).
Proof.
  intros Rb Rr H s hbs nxt Wb ND Hh Hn C. cbn [c03_arms] in H. apply andb_true_iff in H. destruct H as (H1 & H2).
  destruct hbs as [|hb hbr]; [exact C|].
  cbn beta iota delta [process_handlers'] fix match. peel_all ident:(p). bsimp.
  set (X := mk k (N.max k (end_block b)) KOther) in *.
  change (s2p = process_block' (set_cur (add_stmt s hb X) hb) b) in Es2p.
  destruct (Hh hb (or_introl eq_refl)) as (Hb1 & Hb2).
  destruct (R_sub b (add_stmt s hb X) hb Rb H1 (wfb_add_stmt _ _ _ Wb) Hb1 (noout_add_stmt _ _ _ _ Hb2) C)
    as (W2 & C2 & M2 & L2 & X2 & K2 & N2 & I2 & Np2).
  rewrite <- Es2p in *. autorewrite with bst in N2, K2.
  inversion ND as [|? ? Hnin ND']; subst.
  apply (Rr H2).
  - apply wfb_connect; [apply wf_wfb; exact W2|apply W2|lia].
  - exact ND'.
  - intros h Hin. destruct (Hh h (or_intror Hin)) as (Q1 & Q2). split; [rlia|].
    apply noout_connect.
    + apply Np2; [apply noout_add_stmt; exact Q2|rlia|]. intros ->. exact (Hnin Hin).
    + destruct K2 as [->|K2]; [intros ->; exact (Hnin Hin)|lia].
  - rlia.
  - autorewrite with bst. apply creg_o; [auto with plainDB|exact C2].
Qed.

(* ---- try / except (/ else), no finally ---- *)
Lemma new_blocks_edges n : forall s, edges (snd (new_blocks s n)) = edges s.
Proof.
  induction n as [|n IH]; intro s; [reflexivity|]. cbn [new_blocks]. rewrite new_block_eq.
  specialize (IH (nb s)). destruct (new_blocks (nb s) n) as [l s2]. cbn [fst snd] in *. exact IH.
Qed.

Ltac open_try' :=
  cbn beta iota delta [process_stmt'] fix match; peel_all ident:(p);
  match goal with |- context [new_blocks ?t ?n] =>
    let hbs := fresh "hbs" in let s6 := fresh "s6" in let Enb := fresh "Enb" in
    destruct (new_blocks t n) as [hbs s6] eqn:Enb end;
  cbv beta iota; peel_all ident:(p).

(* try body, normal exit edge, exception edges, handlers: from the state [t7] with the context pushed *)
Lemma R_try_body t7 tryb hbs nat afe body hs :
  R_block body -> R_handlers hs -> c03_block body = true -> c03_arms hs = true ->
  wfb t7 -> tryb < next t7 -> noout t7 tryb -> NoDup hbs ->
  (forall h, In h hbs -> h < next t7 /\ noout t7 h /\ h <> tryb) -> nat < next t7 -> afe < next t7 -> creg (edges t7) ->
  let s8 := process_block' (set_cur t7 tryb) body in
  let s10 := connect_all (connect s8 (cur s8) nat ENormal) tryb hbs EException in
  let s11 := process_handlers' s10 hs hbs afe in
  creg (edges s11) /\ wfb s11 /\ next t7 <= next s11 /\ loops s11 = loops t7 /\ excs s11 = excs t7 /\
  (forall p, noout t7 p -> p < next t7 -> p <> tryb -> ~ In p hbs -> noout s11 p).
Proof.
  intros Rb Rh H1 H2 Wb Ht Not ND Hh Hnat Hafe C s8 s10 s11.
  destruct (R_sub body t7 tryb Rb H1 Wb Ht Not C) as (W8 & C8 & M8 & L8 & X8 & K8 & N8 & I8 & Np8). fold s8 in W8, C8, M8, L8, X8, K8, N8, I8, Np8.
  assert (Wb10 : wfb s10).
  { apply wfb_connect_all; [apply wfb_connect; [apply wf_wfb; exact W8|apply W8|lia]|rlia|].
    intros h Hin. destruct (Hh h Hin) as (Q & _). rlia. }
  assert (N10 : next s10 = next s8) by (unfold s10; rlia).
  assert (C10 : creg (edges s10)).
  { apply creg_connect_all; [auto with plainDB|]. cbn [connect edges]. apply creg_o; [auto with plainDB|exact C8]. }
  assert (No10 : forall p, noout t7 p -> p < next t7 -> p <> tryb -> noout s10 p).
  { intros p Np Hp Hne. apply noout_connect_all; [|congruence]. apply noout_connect; [apply Np8; assumption|].
    destruct K8 as [->|K8]; [congruence|lia]. }
  assert (Hh10 : forall h, In h hbs -> h < next s10 /\ noout s10 h).
  { intros h Hin. destruct (Hh h Hin) as (Q1 & Q2 & Q3). split; [lia|apply No10; assumption]. }
  destruct (F_handlers_all hs s10 hbs afe Wb10 ND Hh10 ltac:(lia)) as (M11 & L11 & X11 & Q11). rewrite Q11 in M11, L11, X11. fold s11 in M11, L11, X11.
  split; [apply (Rh H2); try assumption; lia|].
  split; [apply (wfb_mid _ _ _ M11 Wb10); assumption|]. split; [pose proof (m_next _ _ _ M11); lia|].
  split; [rewrite L11; unfold s10; autorewrite with bst; exact L8|]. split; [rewrite X11; unfold s10; autorewrite with bst; exact X8|].
  intros p Np Hp Hne Hnin. apply (noout_mid (fun u => In u hbs) s10); [apply No10; assumption|exact M11|exact Hnin|lia].
Qed.

Lemma R_try_nn k body hs : R_block body -> R_handlers hs -> R_stmt (Try k body hs ONone ONone).
Proof.
  intros Rb Rh H s W C. cbn [c03_stmt c03_oblock] in H. rewrite !andb_true_r in H. apply andb_true_iff in H. destruct H as (H1 & H2).
  open_try'. bsimp. pose proof (wf_cur _ W) as Wc.
  set (t5 := nb (connect (nb s) (cur s) (next s) ENormal)) in *.
  assert (M5 : mid (eq (cur s)) s t5) by (apply mid_nb, mid_connect; [apply mid_nb, mid_refl; exact W|left; reflexivity|ulia|ulia]).
  destruct (try_setup s t5 (arms_length hs) None hbs s6 W M5 eq_refl eq_refl eq_refl) as (M7 & Wb7 & N7 & L7 & X7 & No7 & ND & Hh); [unfold t5; ulia|discriminate|exact Enb|].
  assert (N5 : next t5 = N.succ (N.succ (next s))) by reflexivity.
  pose proof (new_blocks_edges (arms_length hs) t5) as E6. rewrite Enb in E6. cbn [snd] in E6.
  set (t7 := set_excs s6 ({| x_finally := None; x_handlers := hbs; x_processing := false |} :: excs s6)) in *.
  assert (C7 : creg (edges t7)).
  { unfold t7. autorewrite with bst. rewrite E6. unfold t5. autorewrite with bst. apply creg_o; [auto with plainDB|exact C]. }
  destruct (R_try_body t7 (next s) hbs (N.succ (next s)) (N.succ (next s)) body hs Rb Rh H1 H2 Wb7) as (C11 & _); try assumption; try lia.
  { apply No7. lia. }
  { intros h Hin. apply Hh in Hin. split; [lia|split; [apply No7; lia|lia]]. }
  subst s8p. rewrite Es11p. exact C11.
Qed.

Lemma R_try_sn k body hs eb : R_block body -> R_handlers hs -> R_block eb -> R_stmt (Try k body hs (OSome eb) ONone).
Proof.
  intros Rb Rh Re H s W C. cbn [c03_stmt c03_oblock] in H. rewrite andb_true_r in H.
  apply andb_true_iff in H. destruct H as (H & H3). apply andb_true_iff in H. destruct H as (H1 & H2).
  open_try'. bsimp. pose proof (wf_cur _ W) as Wc.
  set (elseb := N.succ (N.succ (next s))) in *.
  set (t5 := nb (nb (connect (nb s) (cur s) (next s) ENormal))) in *.
  assert (M5 : mid (eq (cur s)) s t5) by (apply mid_nb, mid_nb, mid_connect; [apply mid_nb, mid_refl; exact W|left; reflexivity|ulia|ulia]).
  destruct (try_setup s t5 (arms_length hs) None hbs s6 W M5 eq_refl eq_refl eq_refl) as (M7 & Wb7 & N7 & L7 & X7 & No7 & ND & Hh); [unfold t5; ulia|discriminate|exact Enb|].
  assert (N5 : next t5 = N.succ (N.succ (N.succ (next s)))) by reflexivity.
  pose proof (new_blocks_edges (arms_length hs) t5) as E6. rewrite Enb in E6. cbn [snd] in E6.
  set (t7 := set_excs s6 ({| x_finally := None; x_handlers := hbs; x_processing := false |} :: excs s6)) in *.
  assert (C7 : creg (edges t7)).
  { unfold t7. autorewrite with bst. rewrite E6. unfold t5. autorewrite with bst. apply creg_o; [auto with plainDB|exact C]. }
  destruct (R_try_body t7 (next s) hbs elseb (N.succ (next s)) body hs Rb Rh H1 H2 Wb7) as (C11 & Wb11 & N11 & L11 & X11 & Np11);
    try assumption; try (unfold elseb; lia).
  { apply No7. lia. }
  { intros h Hin. apply Hh in Hin. split; [lia|split; [apply No7; lia|lia]]. }
  subst s8p. rewrite <- Es11p in *.
  assert (No11 : noout s11p elseb).
  { apply Np11; [apply No7; unfold elseb; lia|unfold elseb; lia|unfold elseb; lia|]. intro Hin. apply Hh in Hin. unfold elseb in Hin. lia. }
  destruct (R_sub eb s11p elseb Re H3 Wb11 ltac:(unfold elseb; lia) No11 C11) as (_ & C12 & _).
  rewrite <- Et1p in C12. apply creg_o; [auto with plainDB|exact C12].
Qed.

(* ---- every construct ---- *)
Definition R_arms (a : arms) : Prop := R_elif a /\ R_handlers a.

Theorem R_all : (forall x, R_stmt x) /\ (forall b, R_block b) /\ (forall a, R_arms a) /\ (forall o, R_oblock o).
Proof.
  apply ast_mutind.
  - intros k _ s _ C. exact C.
  - intros k _ s _ C. exact C.
  - exact R_return.
  - intros k H. discriminate.
  - exact R_break.
  - exact R_continue.
  - intros k body Rb elifs Ra els Re. destruct elifs as [|k1 b1 rest].
    + destruct els as [|eb]; [apply R_if_nil_none; exact Rb|apply R_if_nil_some; [exact Rb|exact Re]].
    + apply R_if_elif; [exact Rb|apply Ra|exact Re].
  - intros k body Rb els Re. destruct els as [|eb]; [apply R_while_none; exact Rb|apply R_while_some; [exact Rb|exact Re]].
  - intros k body Rb els Re. destruct els as [|eb]; [apply R_for_none; exact Rb|apply R_for_some; [exact Rb|exact Re]].
  - intros k body Rb hs Rh els Re fin Rf. destruct Rh as (_ & Rh).
    destruct fin as [|fb]; [|intro H; cbn [c03_stmt] in H; rewrite andb_false_r in H; discriminate].
    destruct els as [|eb]; [apply R_try_nn; assumption|apply R_try_sn; assumption].
  - intros k body _ H. discriminate.
  - intros k cases _ H. discriminate.
  - intros k cl. apply R_comp.
  - intros k nm body _ _ s _ C. exact C.
  - intros k nm body Rb. apply R_class; exact Rb.
  - exact R_block_nil.
  - intros x Rx b Rb. apply R_block_cons; assumption.
  - split; [exact R_elif_nil|exact R_handlers_nil].
  - intros k b Rb a (Ra1 & Ra2). split; [apply R_elif_cons; assumption|apply R_handlers_cons; assumption].
  - exact I.
  - intros b Rb. exact Rb.
Qed.

(* the whole function *)
Theorem build_regular body : c03_block body = true -> creg (edges (build' body)).
Proof.
  intro H. unfold build'. rewrite new_block_eq. cbv beta iota zeta.
  change (next init) with 2. change (connect (nb init) entry_id 2 ENormal) with build_s2.
  cbn [connect edges]. apply creg_o; [auto with plainDB|].
  apply (proj1 (proj2 R_all) body H _ wf_build_start).
  change (creg ([] ++ [(entry_id, 2, ENormal)])). apply creg_o; [auto with plainDB|apply creg_nil].
Qed.

Print Assumptions build_regular.
