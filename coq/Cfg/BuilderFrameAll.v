(* The frame lemma for every construct ([frame_all]) and the resolution of the [connect_unless_exit] guards for
   whole functions ([build_resolved] : build = build'). *)
From Coq Require Import NArith List Bool Arith Lia ZifyBool ZifyNat ZifyN.
From PV Require Import Py.PyAST Cfg.Builder Cfg.BuilderReach Cfg.BuilderFrame Cfg.BuilderTryNS Cfg.BuilderTrySS.
Import ListNotations.
Local Open Scope N_scope.

Lemma F_try_ns k body hs fb : F_block body -> F_handlers hs -> F_block fb -> F_stmt (Try k body hs ONone (OSome fb)).
Proof.
  intros Fb Fh Ff s W. apply try_ns_open. intros hbs s6 s8u s11u t2u Enb f0 exitb0 t70 Es8u Es11u Et2u t30 s130.
  subst f0 exitb0 t70 t30 s130.
  cbn beta iota delta [process_stmt'] fix match. peel_all ident:(p).
  match goal with |- context [new_blocks ?t ?n] => replace (new_blocks t n) with (hbs, s6) end.
  cbv beta iota. peel_all ident:(p). bsimp.
  pose proof (wf_cur _ W) as Wc.
  set (f := N.succ (N.succ (next s))) in *.
  set (t5 := nb (nb (connect (nb s) (cur s) (next s) ENormal))) in *.
  assert (M5 : mid (eq (cur s)) s t5) by (repeat apply mid_nb; apply mid_connect; [apply mid_nb, mid_refl; exact W|left; reflexivity|ulia|ulia]).
  destruct (try_setup s t5 (arms_length hs) (Some f) hbs s6 W M5 eq_refl eq_refl eq_refl) as (M7 & Wb7 & N7 & L7 & X7 & No7 & ND & Hh);
    [unfold t5; ulia|intros g Hg; inversion Hg; subst g; unfold t5, f; ulia|exact Enb|].
  assert (N5 : next t5 = N.succ (N.succ (N.succ (next s)))) by reflexivity.
  set (t7 := set_excs s6 ({| x_finally := Some f; x_handlers := hbs; x_processing := false |} :: excs s6)) in *.
  destruct (try_body_spec t7 (next s) hbs f f body hs s8u s11u s8p s11p Wb7) as (M11 & L11 & X11 & Q11);
    try assumption; try (unfold f; lia).
  { apply No7. lia. }
  { intros h Hin. apply Hh in Hin. split; [lia|split; [apply No7; lia|lia]]. }
  rewrite <- Q11 in *. clear Q11 Es11p.
  assert (M11' : mid (try_B' s) t7 s11u) by (apply (try_B_weaken s t5 t7 hbs); [lia|exact Hh|exact M11]).
  destruct (try_fin_spec s t7 s11u f hbs fb t2u t2p Wb7 M11' L11) as (M13 & L13 & X13 & Q2 & Q13);
    try assumption; try (unfold f; lia).
  { rewrite X11. exact X7. }
  { apply (noout_mid (try_B (next s) hbs) t7); [apply No7; unfold f; lia|exact M11| |unfold f; lia].
    intros [H|H]; [unfold f in H; lia|]. apply Hh in H. unfold f in H. lia. }
  clear Et2p. subst t2p. rewrite Q13 in *. split; [|reflexivity].
  eapply (try_finish s t7); [exact W|exact M7|exact No7|lia|exact M13|congruence|exact X13].
Qed.


Lemma F_try_ss k body hs eb fb :
  F_block body -> F_handlers hs -> F_block eb -> F_block fb -> F_stmt (Try k body hs (OSome eb) (OSome fb)).
Proof.
  intros Fb Fh Fe Ff s W. apply try_ss_open. intros hbs s6 s8u s11u t1u t2u Enb f0 elseb0 exitb0 t70 Es8u Es11u Et1u Et2u t30 s130.
  subst f0 elseb0 exitb0 t70 t30 s130.
  cbn beta iota delta [process_stmt'] fix match. peel_all ident:(p).
  match goal with |- context [new_blocks ?t ?n] => replace (new_blocks t n) with (hbs, s6) end.
  cbv beta iota. repeat peel_step_fin2 ident:(p) (N.succ (N.succ (next s))). bsimp.
  pose proof (wf_cur _ W) as Wc.
  set (f := N.succ (N.succ (next s))) in *.
  set (elseb := N.succ f) in *.
  set (t5 := nb (nb (nb (connect (nb s) (cur s) (next s) ENormal)))) in *.
  assert (M5 : mid (eq (cur s)) s t5) by (repeat apply mid_nb; apply mid_connect; [apply mid_nb, mid_refl; exact W|left; reflexivity|ulia|ulia]).
  destruct (try_setup s t5 (arms_length hs) (Some f) hbs s6 W M5 eq_refl eq_refl eq_refl) as (M7 & Wb7 & N7 & L7 & X7 & No7 & ND & Hh);
    [unfold t5; ulia|intros g Hg; inversion Hg; subst g; unfold t5, f; ulia|exact Enb|].
  assert (N5 : next t5 = N.succ (N.succ (N.succ (N.succ (next s))))) by reflexivity.
  set (t7 := set_excs s6 ({| x_finally := Some f; x_handlers := hbs; x_processing := false |} :: excs s6)) in *.
  destruct (try_body_spec t7 (next s) hbs elseb f body hs s8u s11u s8p s11p Wb7) as (M11 & L11 & X11 & Q11);
    try assumption; try (unfold elseb, f; lia).
  { apply No7. lia. }
  { intros h Hin. apply Hh in Hin. split; [lia|split; [apply No7; lia|lia]]. }
  rewrite <- Q11 in *. clear Q11 Es11p.
  assert (M11' : mid (try_B' s) t7 s11u) by (apply (try_B_weaken s t5 t7 hbs); [lia|exact Hh|exact M11]).
  assert (Hpend : forall p, next s <= p -> p < next t5 -> p <> next s -> noout s11u p).
  { intros p H1 H2 H3. apply (noout_mid (try_B (next s) hbs) t7); [apply No7; exact H1|exact M11| |lia].
    intros [H|H]; [lia|]. apply Hh in H. lia. }
  pose proof (m_next _ _ _ M11) as N11.
  destruct (try_else_spec s t7 s11u elseb f eb t1u t1p Wb7 M11' L11 X11) as (M12 & L12 & X12 & Q1 & Q12 & Np12);
    try assumption; try (unfold elseb, f; lia).
  { apply Hpend; unfold elseb, f; lia. }
  clear Et1p. subst t1p. rewrite Q12 in *.
  destruct (try_fin_spec s t7 _ f hbs fb t2u t2p Wb7 M12 L12) as (M13 & L13 & X13 & Q2 & Q13);
    try assumption; try (unfold f; lia).
  { rewrite X12. exact X7. }
  { apply Np12; [apply Hpend; unfold f; lia|unfold f; lia|unfold elseb; lia]. }
  clear Et2p. subst t2p. rewrite Q13 in *. split; [|reflexivity].
  eapply (try_finish s t7); [exact W|exact M7|exact No7|lia|exact M13|congruence|exact X13].
Qed.



Lemma F_elif_nil : F_elif ANil.
Proof. intros els merge s Fe W Hm Hne. exfalso. apply Hne. reflexivity. Qed.

Lemma F_simple_stmt s x y : wf s -> process_stmt s x = add_stmt s (cur s) y -> process_stmt' s x = add_stmt s (cur s) y ->
  frame s (process_stmt s x) /\ process_stmt s x = process_stmt' s x.
Proof. intros W E E'. rewrite E, E'. split; [apply frame_add_stmt; exact W|reflexivity]. Qed.

Theorem frame_all :
  (forall x, F_stmt x) /\ (forall b, F_block b) /\ (forall a, F_arms a) /\ (forall o, F_oblock o).
Proof.
  apply ast_mutind.
  - intros k s W. eapply F_simple_stmt; [exact W|reflexivity|reflexivity].
  - intros k s W. eapply F_simple_stmt; [exact W|reflexivity|reflexivity].
  - exact F_return.
  - exact F_raise.
  - exact F_break.
  - exact F_continue.
  - intros k body Fb elifs Fa els Fe. destruct elifs as [|k1 b1 rest].
    + destruct els as [|eb]; [apply F_if_nil_none; exact Fb|apply F_if_nil_some; [exact Fb|exact Fe]].
    + apply F_if_elif; [exact Fb|apply Fa|exact Fe].
  - intros k body Fb els Fe. destruct els as [|eb]; [apply F_while_none; exact Fb|apply F_while_some; [exact Fb|exact Fe]].
  - intros k body Fb els Fe. destruct els as [|eb]; [apply F_for_none; exact Fb|apply F_for_some; [exact Fb|exact Fe]].
  - intros k body Fb hs Fh els Fe fin Ff. destruct Fh as (_ & Fh & _).
    destruct els as [|eb]; destruct fin as [|fb].
    + apply F_try_nn; assumption.
    + apply F_try_ns; assumption.
    + apply F_try_sn; assumption.
    + apply F_try_ss; assumption.
  - intros k body Fb. apply F_with; exact Fb.
  - intros k cases Fc. destruct Fc as (_ & _ & Fc). destruct cases as [|k1 b1 r]; [apply F_match_nil|apply F_match_cons; exact Fc].
  - intros k cl. apply F_comp.
  - intros k nm body _ s W. eapply F_simple_stmt; [exact W|reflexivity|reflexivity].
  - intros k nm body Fb. apply F_class; exact Fb.
  - exact F_block_nil.
  - intros x Fx b Fb. apply F_block_cons; assumption.
  - split; [exact F_elif_nil|split; [exact F_handlers_nil|exact F_cases_nil]].
  - intros k b Fb a (Fa1 & Fa2 & Fa3). split; [apply F_elif_cons; assumption|split; [apply F_handlers_cons; assumption|apply F_cases_cons; assumption]].
  - exact I.
  - intros b Fb. exact Fb.
Qed.

Definition frame_stmt := proj1 frame_all.
Definition frame_block := proj1 (proj2 frame_all).

(* ---- the whole function: [build] = [build'] ---- *)
Definition build_s2 : st := connect (nb init) entry_id 2 ENormal.

Lemma wf_build_start : wf (set_cur build_s2 2).
Proof.
  split; cbn.
  - lia.
  - lia.
  - intros u v t [H|[]]. inversion H; subst. unfold entry_id. lia.
  - intros b Hb. unfold haskey. cbn. assert (b = 0 \/ b = 1 \/ b = 2) as [->|[->| ->]] by lia; auto.
  - intros x [].
  - intros l [].
  - intros u v t [H|[]]. inversion H; subst. unfold entry_id. lia.
Qed.

Theorem build_resolved body : build body = build' body.
Proof.
  unfold build, build'. rewrite new_block_eq. cbv beta iota zeta.
  change (next init) with 2. change (connect (nb init) entry_id 2 ENormal) with build_s2.
  destruct (frame_block body _ wf_build_start) as (F & Q). rewrite <- Q.
  set (s3 := process_block (set_cur build_s2 2) body) in *.
  pose proof (wf_frame _ _ wf_build_start F) as W3.
  assert (Hc : 2 <= cur s3).
  { destruct (fr_cur _ _ F) as [(K & _)|(K & _)]; [rewrite K; cbn; lia|cbn in K; lia]. }
  assert (H1 : N.eqb (cur s3) exit_id = false) by (apply N.eqb_neq; unfold exit_id; lia).
  rewrite H1, (noout_has_succ _ _ exit_id (wf_noout _ W3)). reflexivity.
Qed.

Print Assumptions build_resolved.
