(* Unfolding of [process_stmt] on try/finally without else, in continuation-passing form: the results of the
   recursive calls are variables with equations, the propagation edges of the finally block are [fin_prop].
   (The kernel needs ~20 s to check the one conversion this file contains: the builder code of the try statement uses
   every intermediate state several times and the conversion test does not share the comparisons.) *)
From Coq Require Import NArith List Bool Arith Lia.
From PV Require Import Py.PyAST Cfg.Builder Cfg.BuilderReach Cfg.BuilderFrame.
Import ListNotations.
Local Open Scope N_scope.

Definition try_ns_hyp (s : st) (body : block) (hs : arms) (fb : block) (K : st -> Prop) : Prop :=
  forall hbs s6 s8 s11 t2,
    new_blocks (nb (nb (connect (nb s) (cur s) (next s) ENormal))) (arms_length hs) = (hbs, s6) ->
    let f := N.succ (N.succ (next s)) in
    let exitb := N.succ (next s) in
    let t7 := set_excs s6 ({| x_finally := Some f; x_handlers := hbs; x_processing := false |} :: excs s6) in
    s8 = process_block (set_cur t7 (next s)) body ->
    s11 = process_handlers (connect_all (connect_unless_exit s8 (cur s8) f ENormal) (next s) hbs EException) hs hbs f ->
    t2 = process_block (set_processing (set_cur s11 f) true) fb ->
    let t3 := set_processing t2 false in
    let s13 := fin_prop (connect_unless_exit t3 (cur t3) exitb ENormal) f in
    K (set_cur (set_excs s13 (tl (excs s13))) exitb).

Lemma try_ns_open s k body hs fb (K : st -> Prop) :
  try_ns_hyp s body hs fb K -> K (process_stmt s (Try k body hs ONone (OSome fb))).
Proof.
  intro H. cbn beta iota delta [process_stmt] fix match. peel_all ident:(u).
  match goal with |- context [new_blocks ?t ?n] =>
    let hbs := fresh "hbs" in let s6 := fresh "s6" in let Enb := fresh "Enb" in
    destruct (new_blocks t n) as [hbs s6] eqn:Enb end.
  cbv beta iota. repeat peel_step_fin ident:(u) (N.succ (N.succ (next s))).
  eapply (H hbs s6 s8u s11u t2u); [exact Enb|exact Es8u|exact Es11u|exact Et2u].
Qed.
