(* Flow: the reachability abstraction of cfg_builder.go + reachability.go + complexity.go.

   For one function body it computes, by structural recursion, which statements the
   CFG builder followed by the depth-first walk from ENTRY considers reachable, and the
   cyclomatic complexity complexity.go reports.  Abstract state per statement list:
   [L] = "the block receiving the next statement is reachable";
   result: [rn] = reachable after the statement (normal flow), [rk] = a reachable edge
   to the exit block of the innermost enclosing loop exists (break, or a try/finally
   whose finally block propagates break), [rmarks] = (statement id, reachable) for every
   statement of this function (nested defs are separate functions), [rcx] = decision
   points counted by complexity.go.

   Facts about the builder this abstraction relies on (checked by the correspondence
   run against the implementation on every check run):
   - handlers of a try are reachable iff the try block is (exception edges from the try block);
   - a finally block is reachable iff its try statement is (normal end, or a routed
     return/break/continue/raise, one of which always escapes a reachable block);
   - loop header reachable iff the loop statement is; loop exit = else-end or a break edge;
   - with/match merge blocks are reachable iff the statement is;
   - every finally block has unconditional break/continue/return/exception propagation edges. *)
From Coq Require Import NArith List Bool.
From PV Require Import Py.PyAST.
Import ListNotations.

Record res := { rn : bool; rk : bool; rmarks : list (N * bool); rcx : nat }.

Definition gate (L : bool) (n : nat) : nat := if L then n else 0.

Definition comp_cx (clauses : list nat) : nat :=
  fold_right (fun nifs acc => 1 + (if Nat.ltb 0 nifs then 1 else 0) + acc) 0 clauses.

Definition opt_n (L : bool) (o : option res) : bool := match o with Some r => rn r | None => L end.

Fixpoint flow_stmt (L : bool) (s : stmt) {struct s} : res :=
  match s with
  | Simple k | Pass k | Def k _ _ => {| rn := L; rk := false; rmarks := [(k, L)]; rcx := 0 |}
  | Comp k cl => {| rn := L; rk := false; rmarks := [(k, L)]; rcx := gate L (comp_cx cl) |}
  | Return k | Continue k => {| rn := false; rk := false; rmarks := [(k, L)]; rcx := 0 |}
  | Raise k => {| rn := false; rk := false; rmarks := [(k, L)]; rcx := gate L 1 |}
  | Break k => {| rn := false; rk := L; rmarks := [(k, L)]; rcx := 0 |}
  | If k body elifs els =>
      let rb := flow_block L body in
      let ra := flow_arms L elifs in
      let re := flow_oblock L els in
      {| rn := rn rb || rn ra || opt_n L re;
         rk := rk rb || rk ra || match re with Some r => rk r | None => false end;
         rmarks := (k, L) :: rmarks rb ++ rmarks ra ++ match re with Some r => rmarks r | None => [] end;
         rcx := gate L (1 + arms_length elifs) + rcx rb + rcx ra + match re with Some r => rcx r | None => 0 end |}
  | While k body els | For k body els =>
      let rb := flow_block L body in
      let re := flow_oblock L els in
      {| rn := opt_n L re || rk rb;
         rk := match re with Some r => rk r | None => false end;
         rmarks := (k, L) :: rmarks rb ++ match re with Some r => rmarks r | None => [] end;
         rcx := gate L 1 + rcx rb + match re with Some r => rcx r | None => 0 end |}
  | Try k body handlers els fin =>
      let rb := flow_block L body in
      let rh := flow_arms L handlers in
      let re := flow_oblock (rn rb) els in
      let rf := flow_oblock L fin in
      let n_nofin := opt_n (rn rb) re || rn rh in
      let k_nofin := rk rb || rk rh || match re with Some r => rk r | None => false end in
      {| rn := match rf with Some r => rn r | None => n_nofin end;
         rk := match rf with Some _ => L | None => k_nofin end;
         rmarks := rmarks rb ++ rmarks rh ++ match re with Some r => rmarks r | None => [] end
                   ++ match rf with Some r => rmarks r | None => [] end;
         rcx := gate L (arms_length handlers) + rcx rb + rcx rh + match re with Some r => rcx r | None => 0 end
                + match rf with Some r => rcx r | None => 0 end |}
  | With k body =>
      let rb := flow_block L body in
      {| rn := L; rk := rk rb; rmarks := (k, L) :: rmarks rb; rcx := gate L 1 + rcx rb |}
  | Match k cases =>
      let ra := flow_arms L cases in
      {| rn := L; rk := rk ra; rmarks := (k, L) :: rmarks ra;
         rcx := gate L (if Nat.ltb 0 (arms_length cases) then 1 else 0) + rcx ra |}
  | Class k _ body =>
      let rb := flow_block L body in
      {| rn := rn rb; rk := rk rb; rmarks := (k, L) :: rmarks rb; rcx := rcx rb |}
  end
with flow_block (L : bool) (b : block) {struct b} : res :=
  match b with
  | BNil => {| rn := L; rk := false; rmarks := []; rcx := 0 |}
  | BCons s b' =>
      let r1 := flow_stmt L s in
      let r2 := flow_block (rn r1) b' in
      {| rn := rn r2; rk := rk r1 || rk r2; rmarks := rmarks r1 ++ rmarks r2; rcx := rcx r1 + rcx r2 |}
  end
with flow_arms (L : bool) (a : arms) {struct a} : res :=
  (* elif arms, except handlers, match cases: every arm is entered from a block that is reachable iff L *)
  match a with
  | ANil => {| rn := false; rk := false; rmarks := []; rcx := 0 |}
  | ACons k b a' =>
      let r1 := flow_block L b in
      let r2 := flow_arms L a' in
      {| rn := rn r1 || rn r2; rk := rk r1 || rk r2; rmarks := (k, L) :: rmarks r1 ++ rmarks r2; rcx := rcx r1 + rcx r2 |}
  end
with flow_oblock (L : bool) (o : oblock) {struct o} : option res :=
  match o with ONone => None | OSome b => Some (flow_block L b) end.

(* ---- observables of one function body ---- *)
Definition fn_marks (body : block) : list (N * bool) := rmarks (flow_block true body).
Definition dead_ids (body : block) : list N :=
  map fst (filter (fun p => negb (snd p)) (fn_marks body)).
Definition live_ids (body : block) : list N :=
  map fst (filter (fun p => snd p) (fn_marks body)).
(* complexity.go: decision points + 1 *)
Definition complexity (body : block) : nat := S (rcx (flow_block true body)).

(* ---- every definition of a module, with its dotted name (BuildAll registry, cfg_builder.go:153-194, 250-285) ---- *)
Fixpoint defs_stmt (scope : list N) (s : stmt) {struct s} : list (list N * N * block) :=
  match s with
  | Simple _ | Pass _ | Return _ | Raise _ | Break _ | Continue _ | Comp _ _ => []
  | If _ body elifs els => defs_block scope body ++ defs_arms scope elifs ++ defs_oblock scope els
  | While _ body els | For _ body els => defs_block scope body ++ defs_oblock scope els
  | Try _ body handlers els fin =>
      defs_block scope body ++ defs_arms scope handlers ++ defs_oblock scope els ++ defs_oblock scope fin
  | With _ body => defs_block scope body
  | Match _ cases => defs_arms scope cases
  | Def k name body => (scope ++ [name], k, body) :: defs_block (scope ++ [name]) body
  | Class _ name body => defs_block (scope ++ [name]) body
  end
with defs_block (scope : list N) (b : block) {struct b} : list (list N * N * block) :=
  match b with BNil => [] | BCons s b' => defs_stmt scope s ++ defs_block scope b' end
with defs_arms (scope : list N) (a : arms) {struct a} : list (list N * N * block) :=
  match a with ANil => [] | ACons _ b a' => defs_block scope b ++ defs_arms scope a' end
with defs_oblock (scope : list N) (o : oblock) {struct o} : list (list N * N * block) :=
  match o with ONone => [] | OSome b => defs_block scope b end.

Definition module_defs (m : block) : list (list N * N * block) := defs_block [] m.
