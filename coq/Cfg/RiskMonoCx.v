(* C03: the complexity risk level is monotone in the complexity (any thresholds) and in the thresholds. *)
From Coq Require Import Arith Lia.
From PV Require Import Cfg.FlowSpec.

Definition cx_risk_rank (r : risk) : nat := match r with Low => 0 | Medium => 1 | High => 2 end.

Theorem cx_risk_mono c c' lo med : c <= c' ->
  cx_risk_rank (risk_of c lo med) <= cx_risk_rank (risk_of c' lo med).
Proof.
  intro H. unfold risk_of.
  destruct (Nat.leb_spec c lo), (Nat.leb_spec c' lo), (Nat.leb_spec c med), (Nat.leb_spec c' med);
    cbn [cx_risk_rank]; lia.
Qed.

Theorem cx_risk_threshold_mono c lo lo' med med' : lo <= lo' -> med <= med' ->
  cx_risk_rank (risk_of c lo' med') <= cx_risk_rank (risk_of c lo med).
Proof.
  intros H1 H2. unfold risk_of.
  destruct (Nat.leb_spec c lo), (Nat.leb_spec c lo'), (Nat.leb_spec c med), (Nat.leb_spec c med');
    cbn [cx_risk_rank]; lia.
Qed.

Example cx_risk_mono_nonvacuous :
  cx_risk_rank (risk_of 9 9 19) < cx_risk_rank (risk_of 10 9 19) /\ cx_risk_rank (risk_of 19 9 19) < cx_risk_rank (risk_of 20 9 19).
Proof. vm_compute. split; repeat constructor. Qed.
