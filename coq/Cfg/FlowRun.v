(* Entry points for the correspondence checks of C01-C04 (harness/cfgcommon.py). *)
From Coq Require Import NArith List Bool.
From PV Require Import Py.PyAST Py.PySem Cfg.Flow Cfg.FlowSpec Cfg.Builder.
Import ListNotations.

(* per definition: (qualified name path, def line, dead statement ids, complexity (model), must-be-dead ids (spec),
   mccabe (spec, from the model's dead set), c03 constructs only?) *)
Definition analyse_module (m : block) : list (list N * N * list N * N * list N * N * bool) :=
  map (fun d => match d with (qn, k, body) =>
         (qn, k, dead_ids body, N.of_nat (complexity body), must_dead_block body,
          N.of_nat (mccabe (dead_ids body) body), c03_block body) end) (module_defs m).

Definition outcome_code (o : outcome) : N :=
  match o with ONormal => 0 | ORet => 1 | OBrk => 2 | OCont => 3 | OExc => 4 | OFuel => 5 end%N.

(* traces of every definition of a module under every oracle *)
Definition run_module (fuel : N) (oracles : list oracle) (m : block) : list (N * list (N * list N)) :=
  map (fun d => match d with (_, k, body) =>
         (k, map (fun o => let '(out, t) := run (N.to_nat fuel) o body in (outcome_code out, t)) oracles) end)
      (module_defs m).

(* mccabe of the definition at line k0 of module m for a given dead set (the implementation's own findings) *)
Definition mccabe_at (m : block) (k0 : N) (dead : list N) : N :=
  match filter (fun d => N.eqb (snd (fst d)) k0) (module_defs m) with
  | (_, _, body) :: _ => N.of_nat (mccabe dead body)
  | [] => 0%N
  end.

(* graph-level model (Cfg/Builder.v): per definition (def line, dead ranges, complexity, start lines of dead statements) *)
Definition build_module (m : block) : list (N * list (N * N) * N * list N) :=
  map (fun d => match d with (_, k, body) =>
         let g := build body in (k, dead_ranges g, N.of_nat (complexity_g g), dead_stmt_lines g) end) (module_defs m).
