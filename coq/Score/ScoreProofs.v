(* Proofs about the health-score model (C15). *)
From Coq Require Import ZArith QArith Qround Lia Lqa List Bool.
From PV Require Import Gen.DomainConst Score.ScoreQ.
Open Scope Q_scope.

(* ---------- small facts about the helpers ---------- *)
Lemma Qltb_lt a b : Qltb a b = true <-> a < b.
Proof.
  unfold Qltb. rewrite negb_true_iff. split; intro H.
  - apply Qnot_le_lt. intro C. apply Qle_bool_iff in C. congruence.
  - destruct (Qle_bool b a) eqn:E; [|reflexivity]. apply Qle_bool_iff in E. exfalso. apply (Qlt_not_le _ _ H E).
Qed.
Lemma Qltb_ge a b : Qltb a b = false <-> b <= a.
Proof.
  unfold Qltb. rewrite negb_false_iff. apply Qle_bool_iff.
Qed.
Lemma Qle_bool_false a b : Qle_bool a b = false <-> b < a.
Proof.
  split; intro H.
  - apply Qnot_le_lt. intro C. apply Qle_bool_iff in C. congruence.
  - destruct (Qle_bool a b) eqn:E; [|reflexivity]. apply Qle_bool_iff in E. exfalso. apply (Qlt_not_le _ _ H E).
Qed.

Lemma round_half_away_mono a b : a <= b -> (round_half_away a <= round_half_away b)%Z.
Proof.
  intro H. unfold round_half_away.
  destruct (Qle_bool 0 a) eqn:Ea; destruct (Qle_bool 0 b) eqn:Eb.
  - apply Qfloor_resp_le. lra.
  - apply Qle_bool_iff in Ea. apply Qle_bool_false in Eb. lra.
  - apply Qle_bool_false in Ea. apply Qle_bool_iff in Eb.
    assert (0 <= Qfloor (b + (1#2)))%Z by (change 0%Z with (Qfloor 0); apply Qfloor_resp_le; lra).
    assert (0 <= Qfloor (- a + (1#2)))%Z by (change 0%Z with (Qfloor 0); apply Qfloor_resp_le; lra).
    lia.
  - assert (Qfloor (- b + (1#2)) <= Qfloor (- a + (1#2)))%Z by (apply Qfloor_resp_le; lra). lia.
Qed.

Lemma round_half_away_Z (z : Z) : round_half_away (inject_Z z) = z.
Proof.
  unfold round_half_away.
  assert (F : forall y : Z, Qfloor (inject_Z y + (1#2)) = y).
  { intro y. pose proof (Qfloor_le (inject_Z y + (1#2))) as H1. pose proof (Qlt_floor (inject_Z y + (1#2))) as H2.
    remember (Qfloor (inject_Z y + (1#2))) as f eqn:Ef. clear Ef. rewrite inject_Z_plus in H2. change (inject_Z 1) with 1 in H2.
    assert (f < y + 1)%Z by (rewrite Zlt_Qlt, inject_Z_plus; change (inject_Z 1) with 1; lra).
    assert (y < f + 1)%Z by (rewrite Zlt_Qlt, inject_Z_plus; change (inject_Z 1) with 1; lra). lia. }
  destruct (Qle_bool 0 (inject_Z z)).
  - apply F.
  - rewrite <- inject_Z_opp, F. lia.
Qed.

Lemma round_half_away_le_Z a (z : Z) : a <= inject_Z z -> (round_half_away a <= z)%Z.
Proof. intro H. pose proof (round_half_away_mono _ _ H) as M. rewrite round_half_away_Z in M. exact M. Qed.
Lemma round_half_away_ge_Z a (z : Z) : inject_Z z <= a -> (z <= round_half_away a)%Z.
Proof. intro H. pose proof (round_half_away_mono _ _ H) as M. rewrite round_half_away_Z in M. exact M. Qed.
Lemma round_half_away_nonneg a : 0 <= a -> (0 <= round_half_away a)%Z.
Proof. intro H. apply round_half_away_ge_Z. exact H. Qed.

Lemma cap20_le p : cap20 p <= 20.
Proof. unfold cap20. destruct (Qltb 20 p) eqn:E; [lra|]. apply Qltb_ge in E. exact E. Qed.
Lemma cap20_nonneg p : 0 <= p -> 0 <= cap20 p.
Proof. unfold cap20. destruct (Qltb 20 p); lra. Qed.
Lemma cap20_mono p q : p <= q -> cap20 p <= cap20 q.
Proof.
  intro H. unfold cap20. destruct (Qltb 20 p) eqn:E1; destruct (Qltb 20 q) eqn:E2;
  try apply Qltb_lt in E1; try apply Qltb_lt in E2; try apply Qltb_ge in E1; try apply Qltb_ge in E2; lra.
Qed.
Lemma clamp01_range q : 0 <= clamp01 q <= 1.
Proof.
  unfold clamp01. destruct (Qltb q 0) eqn:E1; [lra|]. destruct (Qltb 1 q) eqn:E2; [lra|].
  apply Qltb_ge in E1, E2. lra.
Qed.
Lemma clamp01_mono p q : p <= q -> clamp01 p <= clamp01 q.
Proof.
  intro H. unfold clamp01.
  destruct (Qltb p 0) eqn:A1; destruct (Qltb q 0) eqn:A2; destruct (Qltb 1 p) eqn:B1; destruct (Qltb 1 q) eqn:B2;
  try apply Qltb_lt in A1; try apply Qltb_lt in A2; try apply Qltb_lt in B1; try apply Qltb_lt in B2;
  try apply Qltb_ge in A1; try apply Qltb_ge in A2; try apply Qltb_ge in B1; try apply Qltb_ge in B2; lra.
Qed.

(* ---------- well-formed inputs ("metrics in their valid ranges") ---------- *)
Definition counts_nonneg (s : summary) : Prop :=
  (0 <= total_files s /\ 0 <= deps_total_modules s /\ 0 <= deps_modules_in_cycles s /\ 0 <= deps_max_depth s /\
   0 <= critical_dead s /\ 0 <= warning_dead s /\ 0 <= info_dead s /\
   0 <= cbo_classes s /\ 0 <= high_coupling s /\ 0 <= medium_coupling s /\
   0 <= lcom_classes s /\ 0 <= high_lcom s /\ 0 <= medium_lcom s)%Z.

(* ---------- penalty ranges (caps 20,20,20,20,20,16,12) ---------- *)
Lemma complexity_penalty_range s : (0 <= complexity_penalty s <= 20)%Z.
Proof.
  unfold complexity_penalty. destruct (Qle_bool (average_complexity s) 2) eqn:E; [lia|].
  apply Qle_bool_false in E. split.
  - apply round_half_away_nonneg, cap20_nonneg.
    apply Qmult_le_0_compat; [|lra]. apply Qle_shift_div_l; lra.
  - apply round_half_away_le_Z. apply cap20_le.
Qed.

Lemma Qmin_le_l a b : Qmin a b <= a.
Proof. unfold Qmin. destruct (Qle_bool a b) eqn:E; [lra|]. apply Qle_bool_false in E. lra. Qed.
Lemma Qmin_le_r a b : Qmin a b <= b.
Proof. unfold Qmin. destruct (Qle_bool a b) eqn:E; [apply Qle_bool_iff in E; lra|lra]. Qed.
Lemma Qmin_glb a b c : c <= a -> c <= b -> c <= Qmin a b.
Proof. unfold Qmin. destruct (Qle_bool a b); auto. Qed.
Lemma Qmin_mono a b b' : b <= b' -> Qmin a b <= Qmin a b'.
Proof. intro H. apply Qmin_glb; [apply Qmin_le_l| eapply Qle_trans; [apply Qmin_le_r|exact H]]. Qed.

Lemma dead_code_penalty_range nf s : 0 < nf -> (0 <= dead_code_penalty nf s <= 20)%Z.
Proof.
  intro Hnf. unfold dead_code_penalty. destruct (Qle_bool (weighted_dead s) 0) eqn:E; [lia|].
  apply Qle_bool_false in E. split.
  - change 0%Z with (Qfloor 0). apply Qfloor_resp_le. apply Qmin_glb.
    + unfold inject, domain_MaxDeadCodePenalty, inject_Z, Qle; simpl; lia.
    + apply Qle_shift_div_l; lra.
  - change 20%Z with (Qfloor (inject domain_MaxDeadCodePenalty)). apply Qfloor_resp_le, Qmin_le_l.
Qed.

Lemma duplication_penalty_range s : (0 <= duplication_penalty s <= 20)%Z.
Proof.
  unfold duplication_penalty, domain_DuplicationThresholdLow, domain_DuplicationThresholdHigh.
  destruct (Qle_bool (code_duplication s) (0 # 1)) eqn:E; [lia|]. apply Qle_bool_false in E. split.
  - apply round_half_away_nonneg, cap20_nonneg. apply Qmult_le_0_compat; [|lra]. apply Qle_shift_div_l; lra.
  - apply round_half_away_le_Z, cap20_le.
Qed.

Lemma inject_nonneg z : (0 <= z)%Z -> 0 <= inject z.
Proof. intro H. unfold inject. change 0 with (inject_Z 0). rewrite <- Zle_Qle. exact H. Qed.
Lemma inject_pos z : (0 < z)%Z -> 0 < inject z.
Proof. intro H. unfold inject. change 0 with (inject_Z 0). rewrite <- Zlt_Qlt. exact H. Qed.
Lemma inject_le a b : (a <= b)%Z -> inject a <= inject b.
Proof. intro H. unfold inject. rewrite <- Zle_Qle. exact H. Qed.

Lemma ratio_penalty_range c h m full : (0 <= c)%Z -> (0 <= h)%Z -> (0 <= m)%Z -> 0 < full ->
  (0 <= ratio_penalty c h m full <= 20)%Z.
Proof.
  intros Hc Hh Hm Hf. unfold ratio_penalty. destruct (c =? 0)%Z eqn:E; [lia|].
  apply Z.eqb_neq in E. assert (0 < inject c) by (apply inject_pos; lia).
  pose proof (inject_nonneg h Hh). pose proof (inject_nonneg m Hm). split.
  - apply round_half_away_nonneg, cap20_nonneg. apply Qmult_le_0_compat; [|lra].
    apply Qle_shift_div_l; [lra|]. ring_simplify. apply Qle_shift_div_l; [lra|]. lra.
  - apply round_half_away_le_Z, cap20_le.
Qed.

Ltac qconst :=
  unfold inject, domain_MaxCyclesPenalty, domain_MaxMSDPenalty, domain_MaxArchPenalty, domain_MaxDeadCodePenalty,
         domain_MaxScoreBase in *;
  repeat match goal with
  | |- context [inject_Z (Zpos ?p)] => change (inject_Z (Zpos p)) with (Zpos p # 1)
  | H : context [inject_Z (Zpos ?p)] |- _ => change (inject_Z (Zpos p)) with (Zpos p # 1) in H
  end.

Lemma dependency_penalty_range s : counts_nonneg s -> (0 <= dependency_penalty s <= 16)%Z.
Proof.
  intros W. unfold dependency_penalty. destruct (negb (deps_enabled s)); [lia|].
  assert (A : (0 <= (if (0 <? deps_total_modules s)%Z then
      round_half_away (inject domain_MaxCyclesPenalty *
         clamp01 (inject (deps_modules_in_cycles s) / inject (deps_total_modules s))) else 0) <= 10)%Z).
  { destruct (0 <? deps_total_modules s)%Z; [|lia].
    pose proof (clamp01_range (inject (deps_modules_in_cycles s) / inject (deps_total_modules s))) as [C1 C2].
    remember (clamp01 (inject (deps_modules_in_cycles s) / inject (deps_total_modules s))) as c eqn:Ec. clear Ec.
    split; [apply round_half_away_nonneg | apply round_half_away_le_Z]; qconst; lra. }
  assert (B : (0 <= (if (0 <? deps_total_modules s)%Z then
        Z.min domain_MaxDepthPenalty (Z.max 0 (deps_max_depth s - expected_depth (deps_total_modules s))) else 0) <= 3)%Z).
  { destruct (0 <? deps_total_modules s)%Z; unfold domain_MaxDepthPenalty; lia. }
  assert (C : (0 <= (if Qltb 0 (deps_msd s) then round_half_away (clamp01 (deps_msd s) * inject domain_MaxMSDPenalty) else 0) <= 3)%Z).
  { destruct (Qltb 0 (deps_msd s)); [|lia].
    pose proof (clamp01_range (deps_msd s)) as [C1 C2].
    remember (clamp01 (deps_msd s)) as c eqn:Ec. clear Ec.
    split; [apply round_half_away_nonneg | apply round_half_away_le_Z]; qconst; lra. }
  lia.
Qed.

Lemma architecture_penalty_range s : (0 <= architecture_penalty s <= 12)%Z.
Proof.
  unfold architecture_penalty. destruct (negb (arch_enabled s)); [lia|].
  pose proof (clamp01_range (arch_compliance s)) as [C1 C2].
  remember (clamp01 (arch_compliance s)) as c eqn:Ec. clear Ec.
  split; [apply round_half_away_nonneg | apply round_half_away_le_Z]; qconst; lra.
Qed.

Theorem penalty_caps nf s : counts_nonneg s -> 0 < nf ->
  Forall2 (fun p cap => 0 <= p <= cap)%Z (penalties nf s) (20 :: 20 :: 20 :: 20 :: 20 :: 16 :: 12 :: nil)%Z.
Proof.
  intros W Hnf. destruct W as (?&?&?&?&?&?&?&?&?&?&?&?&?) eqn:EW. unfold penalties.
  repeat constructor.
  - apply complexity_penalty_range.
  - apply complexity_penalty_range.
  - apply dead_code_penalty_range, Hnf.
  - apply dead_code_penalty_range, Hnf.
  - apply duplication_penalty_range.
  - apply duplication_penalty_range.
  - apply ratio_penalty_range; auto; reflexivity.
  - apply ratio_penalty_range; auto; reflexivity.
  - apply ratio_penalty_range; auto; reflexivity.
  - apply ratio_penalty_range; auto; reflexivity.
  - apply dependency_penalty_range; repeat split; assumption.
  - apply dependency_penalty_range; repeat split; assumption.
  - apply architecture_penalty_range.
  - apply architecture_penalty_range.
Qed.
