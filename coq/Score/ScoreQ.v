(* Model of domain/analyze.go (health score) over exact rationals.
   Every Go function has one Gallina counterpart with the same name.
   float64 inputs are modelled as Q; math.Round is round-half-away-from-zero,
   int(x) on a non-negative float is Qfloor. math.Log10 is a parameter. *)
From Coq Require Import ZArith QArith Qround Lia.
From PV Require Import Gen.DomainConst.
From PV Require Export Score.ScoreBase.
Open Scope Q_scope.

(* Validate: true = no error *)
Definition validate (s : summary) : bool :=
  negb (Qltb (average_complexity s) 0) &&
  negb (Qltb (code_duplication s) 0 || Qltb 100 (code_duplication s)) &&
  (if arch_enabled s then negb (Qltb (arch_compliance s) 0 || Qltb 1 (arch_compliance s)) else true) &&
  (if deps_enabled s then
     negb (Qltb (deps_msd s) 0 || Qltb 1 (deps_msd s)) &&
     negb ((0 <? deps_total_modules s)%Z && (deps_total_modules s <? deps_modules_in_cycles s)%Z)
   else true) &&
  (if (0 <? lcom_classes s)%Z then
     negb (lcom_classes s <? high_lcom s)%Z && negb (lcom_classes s <? medium_lcom s)%Z &&
     negb (lcom_classes s <? high_lcom s + medium_lcom s)%Z else true) &&
  (if (0 <? cbo_classes s)%Z then
     negb (cbo_classes s <? high_coupling s)%Z && negb (cbo_classes s <? medium_coupling s)%Z &&
     negb (cbo_classes s <? high_coupling s + medium_coupling s)%Z else true).

Definition cap20 (p : Q) : Q := if Qltb 20 p then 20 else p.

Definition complexity_penalty (s : summary) : Z :=
  if Qle_bool (average_complexity s) 2 then 0%Z
  else round_half_away (cap20 ((average_complexity s - 2) / 13 * 20)).

Definition weighted_dead (s : summary) : Q :=
  inject (critical_dead s) * 1 + inject (warning_dead s) * (1#2) + inject (info_dead s) * (1#5).

Definition dead_code_penalty (nf : Q) (s : summary) : Z :=
  if Qle_bool (weighted_dead s) 0 then 0%Z
  else Qfloor (Qmin (inject domain_MaxDeadCodePenalty) (weighted_dead s / nf)).

Definition duplication_penalty (s : summary) : Z :=
  if Qle_bool (code_duplication s) domain_DuplicationThresholdLow then 0%Z
  else round_half_away (cap20 ((code_duplication s - domain_DuplicationThresholdLow)
         / (domain_DuplicationThresholdHigh - domain_DuplicationThresholdLow) * 20)).

Definition ratio_penalty (classes hi med : Z) (full : Q) : Z :=
  if (classes =? 0)%Z then 0%Z
  else round_half_away (cap20 ((inject hi + (1#2) * inject med) / inject classes / full * 20)).

Definition coupling_penalty (s : summary) : Z :=
  ratio_penalty (cbo_classes s) (high_coupling s) (medium_coupling s) (1#4).
Definition cohesion_penalty (s : summary) : Z :=
  ratio_penalty (lcom_classes s) (high_lcom s) (medium_lcom s) (3#10).

Definition clamp01 (q : Q) : Q := if Qltb q 0 then 0 else if Qltb 1 q then 1 else q.

(* expected depth: int(max(3, ceil(log2(n+1)) + 1)); N.log2_up is ceil(log2) *)
Definition expected_depth (n : Z) : Z :=
  Z.max 3 (Z.log2_up (n + 1) + 1).

Definition dependency_penalty (s : summary) : Z :=
  if negb (deps_enabled s) then 0%Z else
  ((if (0 <? deps_total_modules s)%Z then
      round_half_away (inject domain_MaxCyclesPenalty *
         clamp01 (inject (deps_modules_in_cycles s) / inject (deps_total_modules s)))
    else 0)
   + (if (0 <? deps_total_modules s)%Z then
        Z.min domain_MaxDepthPenalty (Z.max 0 (deps_max_depth s - expected_depth (deps_total_modules s)))
      else 0)
   + (if Qltb 0 (deps_msd s) then round_half_away (clamp01 (deps_msd s) * inject domain_MaxMSDPenalty) else 0))%Z.

Definition architecture_penalty (s : summary) : Z :=
  if negb (arch_enabled s) then 0%Z
  else round_half_away (inject domain_MaxArchPenalty * (1 - clamp01 (arch_compliance s))).

Definition clampZ (lo hi z : Z) : Z := Z.max lo (Z.min hi z).

Definition normalize_to_score_base (penalty maxp : Z) : Z :=
  if (maxp =? 0)%Z then 0%Z
  else clampZ 0 domain_MaxScoreBase
         (round_half_away (inject penalty / inject maxp * inject domain_MaxScoreBase)).

Definition penalty_to_score (penalty maxp : Z) : Z :=
  if (maxp =? 0)%Z then 100%Z
  else clampZ 0 100 (100 - round_half_away (inject penalty * 100 / inject maxp))%Z.

(* 1 + log10(files/10) for files > 10; log10 is an oracle *)
Definition norm_factor (log10 : Q -> Q) (files : Z) : Q :=
  if (10 <? files)%Z then 1 + log10 (inject files / 10) else 1.

Definition grade_of (score : Z) : grade :=
  if (domain_GradeAThreshold <=? score)%Z then GA
  else if (domain_GradeBThreshold <=? score)%Z then GB
  else if (domain_GradeCThreshold <=? score)%Z then GC
  else if (domain_GradeDThreshold <=? score)%Z then GD else GF.

Record result := {
  r_health : Z; r_grade : grade;
  r_complexity : Z; r_deadcode : Z; r_duplication : Z; r_coupling : Z;
  r_cohesion : Z; r_dependency : Z; r_architecture : Z;
  r_valid : bool
}.

Definition penalties (nf : Q) (s : summary) : list Z :=
  (complexity_penalty s :: dead_code_penalty nf s :: duplication_penalty s :: coupling_penalty s ::
   cohesion_penalty s :: dependency_penalty s :: architecture_penalty s :: nil)%list.

Definition total_penalty (nf : Q) (s : summary) : Z :=
  List.fold_right Z.add 0%Z (penalties nf s).

Definition raw_score (nf : Q) (s : summary) : Z :=
  Z.max domain_MinimumScore (100 - total_penalty nf s).

Definition calculate_health_score (log10 : Q -> Q) (s : summary) : result :=
  if negb (validate s) then
    {| r_health := 0; r_grade := GNA; r_complexity := 0; r_deadcode := 0; r_duplication := 0;
       r_coupling := 0; r_cohesion := 0; r_dependency := 0; r_architecture := 0; r_valid := false |}
  else
    let nf := norm_factor log10 (total_files s) in
    let sc := raw_score nf s in
    {| r_health := sc; r_grade := grade_of sc;
       r_complexity := penalty_to_score (complexity_penalty s) domain_MaxScoreBase;
       r_deadcode := penalty_to_score (dead_code_penalty nf s) domain_MaxScoreBase;
       r_duplication := penalty_to_score (duplication_penalty s) domain_MaxScoreBase;
       r_coupling := penalty_to_score (coupling_penalty s) domain_MaxScoreBase;
       r_cohesion := penalty_to_score (cohesion_penalty s) domain_MaxScoreBase;
       r_dependency := penalty_to_score
          (normalize_to_score_base (dependency_penalty s) domain_MaxDependencyPenalty) domain_MaxScoreBase;
       r_architecture := round_half_away (arch_compliance s * 100);
       r_valid := true |}.

(* CalculateFallbackScore *)
Definition fallback_score (s : summary) : Z :=
  Z.max domain_MinimumScore
   (100 - (if Qltb (inject domain_FallbackComplexityThreshold) (average_complexity s)
           then domain_FallbackComplexityThreshold else 0)
        - (if (0 <? dead_code_count s)%Z then domain_FallbackPenalty else 0)
        - (if (0 <? high_complexity_count s)%Z then domain_FallbackPenalty else 0)
        - (if (0 <? high_lcom s)%Z then domain_FallbackPenalty else 0))%Z.

(* ---------- app/analyze_usecase.go: calculateSummary ---------- *)
(* What each analysis reports when it runs. *)
Record analyses := {
  a_cx_files : Z; a_avg_cx : Q; a_high_cx : Z;
  a_dead_files : Z; a_dead_total : Z; a_crit : Z; a_warn : Z; a_info : Z;
  a_clone_lines : Z; a_clone_groups : Z;
  a_cbo_classes : Z; a_cbo_high : Z; a_cbo_med : Z;
  a_lcom_classes : Z; a_lcom_high : Z; a_lcom_med : Z;
  a_modules : Z; a_in_cycles : Z; a_depth : Z; a_msd : Q;
  a_arch : option Q
}.
Record selection := { sel_cx : bool; sel_dead : bool; sel_clone : bool; sel_cbo : bool; sel_lcom : bool; sel_sys : bool }.

(* CodeDuplication from k-core group density *)
Definition code_duplication_of (lines groups : Z) : Q :=
  if ((0 <? lines) && (0 <? groups))%Z%bool then
    let lk := inject lines / domain_GroupDensityLinesUnit in
    let lk := if Qltb lk domain_GroupDensityMinLines then domain_GroupDensityMinLines else lk in
    Qmin domain_DuplicationThresholdHigh (inject groups / lk * domain_GroupDensityCoefficient)
  else 0.

Definition assemble (sel : selection) (a : analyses) : summary :=
  {| total_files := if sel_cx sel then a_cx_files a else if sel_dead sel then a_dead_files a else 0%Z;
     deps_enabled := sel_sys sel;
     arch_enabled := sel_sys sel && (match a_arch a with Some _ => true | None => false end);
     deps_total_modules := if sel_sys sel then a_modules a else 0%Z;
     deps_modules_in_cycles := if sel_sys sel then a_in_cycles a else 0%Z;
     deps_max_depth := if sel_sys sel then a_depth a else 0%Z;
     deps_msd := if sel_sys sel then a_msd a else 0;
     arch_compliance := if sel_sys sel then (match a_arch a with Some c => c | None => 0 end) else 0;
     average_complexity := if sel_cx sel then a_avg_cx a else 0;
     high_complexity_count := if sel_cx sel then a_high_cx a else 0%Z;
     dead_code_count := if sel_dead sel then a_dead_total a else 0%Z;
     critical_dead := if sel_dead sel then a_crit a else 0%Z;
     warning_dead := if sel_dead sel then a_warn a else 0%Z;
     info_dead := if sel_dead sel then a_info a else 0%Z;
     code_duplication := if sel_clone sel then code_duplication_of (a_clone_lines a) (a_clone_groups a) else 0;
     cbo_classes := if sel_cbo sel then a_cbo_classes a else 0%Z;
     high_coupling := if sel_cbo sel then a_cbo_high a else 0%Z;
     medium_coupling := if sel_cbo sel then a_cbo_med a else 0%Z;
     lcom_classes := if sel_lcom sel then a_lcom_classes a else 0%Z;
     high_lcom := if sel_lcom sel then a_lcom_high a else 0%Z;
     medium_lcom := if sel_lcom sel then a_lcom_med a else 0%Z |}.

(* health score as printed: CalculateHealthScore, or the fallback when validation fails *)
Definition final_score (log10 : Q -> Q) (s : summary) : Z :=
  if validate s then r_health (calculate_health_score log10 s) else fallback_score s.
