(* Shared vocabulary of the health-score model and of the functions generated from domain/analyze.go
   (coq/Gen/ScoreGen.v): the summary record, rounding and comparison helpers, grades. *)
From Coq Require Import ZArith QArith Qround.
Open Scope Q_scope.

Definition Qmin (a b : Q) : Q := if Qle_bool a b then a else b.
Definition Qltb (a b : Q) : bool := negb (Qle_bool b a).

(* math.Round *)
Definition round_half_away (q : Q) : Z :=
  if Qle_bool 0 q then Qfloor (q + (1#2)) else (- Qfloor ((- q) + (1#2)))%Z.

Record summary := {
  total_files : Z;
  deps_enabled : bool; arch_enabled : bool;
  deps_total_modules : Z; deps_modules_in_cycles : Z; deps_max_depth : Z;
  deps_msd : Q; arch_compliance : Q;
  average_complexity : Q; high_complexity_count : Z;
  dead_code_count : Z; critical_dead : Z; warning_dead : Z; info_dead : Z;
  code_duplication : Q;
  cbo_classes : Z; high_coupling : Z; medium_coupling : Z;
  lcom_classes : Z; high_lcom : Z; medium_lcom : Z
}.

Definition inject (z : Z) : Q := inject_Z z.

Definition Qmax (a b : Q) : Q := if Qle_bool a b then b else a.

Inductive grade := GA | GB | GC | GD | GF | GNA.

