(* C15: the grade is monotone in the score, hence in the measured quantities; valid summaries are never N/A. *)
From Coq Require Import ZArith QArith Lia List Bool.
From PV Require Import Gen.DomainConst Score.ScoreBase Score.ScoreQ Score.ScoreProofs Score.ScoreMono.

(* A best (4) ... F worst (0); N/A below everything *)
Definition grade_rank (g : grade) : Z :=
  match g with GA => 4 | GB => 3 | GC => 2 | GD => 1 | GF => 0 | GNA => -1 end%Z.

Lemma grade_of_not_na sc : grade_of sc <> GNA.
Proof.
  unfold grade_of.
  destruct (_ <=? sc)%Z; [discriminate|]. destruct (_ <=? sc)%Z; [discriminate|].
  destruct (_ <=? sc)%Z; [discriminate|]. destruct (_ <=? sc)%Z; discriminate.
Qed.

Theorem grade_rank_mono sc sc' : (sc <= sc')%Z -> (grade_rank (grade_of sc) <= grade_rank (grade_of sc'))%Z.
Proof.
  intro H.
  unfold grade_of, domain_GradeAThreshold, domain_GradeBThreshold, domain_GradeCThreshold, domain_GradeDThreshold.
  destruct (90 <=? sc)%Z eqn:A; destruct (90 <=? sc')%Z eqn:A';
  destruct (75 <=? sc)%Z eqn:B; destruct (75 <=? sc')%Z eqn:B';
  destruct (60 <=? sc)%Z eqn:C; destruct (60 <=? sc')%Z eqn:C';
  destruct (45 <=? sc)%Z eqn:D; destruct (45 <=? sc')%Z eqn:D'; cbn [grade_rank]; lia.
Qed.

(* two scores with the same grade and anything between them: same grade (grades are intervals) *)
Theorem grade_convex a b c : (a <= b <= c)%Z -> grade_of a = grade_of c -> grade_of b = grade_of a.
Proof.
  intros [H1 H2] E.
  pose proof (grade_rank_mono _ _ H1) as R1. pose proof (grade_rank_mono _ _ H2) as R2.
  rewrite <- E in R2.
  pose proof (grade_of_not_na a). pose proof (grade_of_not_na b).
  destruct (grade_of a), (grade_of b); cbn [grade_rank] in *; try reflexivity; try lia; congruence.
Qed.

(* making measured quantities worse never improves the grade *)
Theorem grade_monotone nf s s' : 0 < nf -> counts_nonneg s -> worse s s' ->
  (grade_rank (grade_of (raw_score nf s')) <= grade_rank (grade_of (raw_score nf s)))%Z.
Proof. intros Hnf W Hw. apply grade_rank_mono. apply score_monotone; assumption. Qed.

Section WithLog.
Variable log10 : Q -> Q.

Theorem valid_grade_not_na s : validate s = true -> r_grade (calculate_health_score log10 s) <> GNA.
Proof. intro V. rewrite (grade_is_table log10 s V). apply grade_of_not_na. Qed.

Theorem invalid_is_na s : validate s = false ->
  r_grade (calculate_health_score log10 s) = GNA /\ r_health (calculate_health_score log10 s) = 0%Z.
Proof. intro V. unfold calculate_health_score. rewrite V. split; reflexivity. Qed.
End WithLog.

Example grade_rank_mono_nonvacuous : (grade_rank (grade_of 44) < grade_rank (grade_of 45))%Z /\ grade_of 60 = grade_of 74.
Proof. split; vm_compute; reflexivity. Qed.
