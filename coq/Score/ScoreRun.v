(* Entry points used by the correspondence check (harness/c15.py). *)
From Coq Require Import ZArith QArith List.
From PV Require Import Gen.DomainConst Score.ScoreQ.
Import ListNotations.
Open Scope Z_scope.

Definition grade_code (g : grade) : Z :=
  match g with GA => 0 | GB => 1 | GC => 2 | GD => 3 | GF => 4 | GNA => 5 end.

Definition result_list (r : result) : list Z :=
  [r_health r; grade_code (r_grade r); r_complexity r; r_deadcode r; r_duplication r; r_coupling r;
   r_cohesion r; r_dependency r; r_architecture r; if r_valid r then 1 else 0].

(* l = value of math.Log10(files/10) supplied by the harness *)
Definition run_score (l : Q) (s : summary) : list Z :=
  result_list (calculate_health_score (fun _ => l) s) ++ [fallback_score s].

(* calculateSummary: CalculateHealthScore, with the fallback score and its grade when invalid *)
Definition run_assemble (l : Q) (sel : selection) (a : analyses) : list Z :=
  let s := assemble sel a in
  let r := calculate_health_score (fun _ => l) s in
  if r_valid r then result_list r ++ [total_files s]
  else [fallback_score s; grade_code (grade_of (fallback_score s)); 0; 0; 0; 0; 0; 0; 0; 0; total_files s].
