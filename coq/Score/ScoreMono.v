(* C15: range, formula, grade table, monotonicity, skip-never-lowers. *)
From Coq Require Import ZArith QArith Qround Lia Lqa List Bool.
From PV Require Import Gen.DomainConst Score.ScoreQ Score.ScoreProofs.
Open Scope Q_scope.

Lemma fold_penalties nf s :
  total_penalty nf s =
  (complexity_penalty s + (dead_code_penalty nf s + (duplication_penalty s + (coupling_penalty s +
   (cohesion_penalty s + (dependency_penalty s + (architecture_penalty s + 0)))))))%Z.
Proof. reflexivity. Qed.

Theorem raw_score_range nf s : counts_nonneg s -> 0 < nf -> (0 <= raw_score nf s <= 100)%Z.
Proof.
  intros W Hnf. unfold raw_score, domain_MinimumScore. rewrite fold_penalties.
  destruct W as (?&?&?&?&?&?&?&?&?&?&?&?&?).
  pose proof (complexity_penalty_range s). pose proof (dead_code_penalty_range nf s Hnf).
  pose proof (duplication_penalty_range s).
  assert (0 <= coupling_penalty s <= 20)%Z by (apply ratio_penalty_range; auto; reflexivity).
  assert (0 <= cohesion_penalty s <= 20)%Z by (apply ratio_penalty_range; auto; reflexivity).
  assert (0 <= dependency_penalty s <= 16)%Z by (apply dependency_penalty_range; repeat split; assumption).
  pose proof (architecture_penalty_range s). lia.
Qed.

Theorem score_formula nf s :
  raw_score nf s = Z.max 0 (100 - fold_right Z.add 0%Z (penalties nf s)).
Proof. reflexivity. Qed.

Lemma penalty_to_score_range p m : (0 <= penalty_to_score p m <= 100)%Z.
Proof. unfold penalty_to_score, clampZ. destruct (m =? 0)%Z; lia. Qed.

(* ---------- oracle for math.Log10 ---------- *)
Section WithLog.
Variable log10 : Q -> Q.
Hypothesis log10_nonneg : forall x, 1 <= x -> 0 <= log10 x.

Lemma norm_factor_pos files : 0 < norm_factor log10 files.
Proof.
  unfold norm_factor. destruct (10 <? files)%Z eqn:E; [|lra].
  apply Z.ltb_lt in E. assert (1 <= inject files / 10).
  { apply Qle_shift_div_l; [lra|]. unfold inject. change (1 * 10) with (inject_Z 10). rewrite <- Zle_Qle. lia. }
  pose proof (log10_nonneg _ H). lra.
Qed.

Theorem score_range s : counts_nonneg s ->
  (0 <= r_health (calculate_health_score log10 s) <= 100)%Z.
Proof.
  intro W. unfold calculate_health_score. destruct (negb (validate s)); simpl; [lia|].
  apply raw_score_range; [exact W|apply norm_factor_pos].
Qed.

Definition in_0_100 (z : Z) : Prop := (0 <= z <= 100)%Z.

Theorem category_range s : 0 <= arch_compliance s <= 1 ->
  let r := calculate_health_score log10 s in
  in_0_100 (r_complexity r) /\ in_0_100 (r_deadcode r) /\ in_0_100 (r_duplication r) /\
  in_0_100 (r_coupling r) /\ in_0_100 (r_cohesion r) /\ in_0_100 (r_dependency r) /\ in_0_100 (r_architecture r).
Proof.
  intros [C1 C2]. unfold calculate_health_score, in_0_100. destruct (negb (validate s)); simpl; [lia|].
  repeat split; try apply penalty_to_score_range.
  - apply round_half_away_nonneg. apply Qmult_le_0_compat; lra.
  - apply round_half_away_le_Z. change (inject_Z 100) with (100#1). lra.
Qed.

Theorem health_is_formula s : validate s = true ->
  r_health (calculate_health_score log10 s) =
  Z.max 0 (100 - fold_right Z.add 0%Z (penalties (norm_factor log10 (total_files s)) s)).
Proof. intro V. unfold calculate_health_score. rewrite V. reflexivity. Qed.

Theorem grade_is_table s : validate s = true ->
  r_grade (calculate_health_score log10 s) = grade_of (r_health (calculate_health_score log10 s)).
Proof. intro V. unfold calculate_health_score. rewrite V. reflexivity. Qed.

End WithLog.

Theorem grade_table sc :
  (grade_of sc = GA <-> 90 <= sc)%Z /\ (grade_of sc = GB <-> 75 <= sc < 90)%Z /\
  (grade_of sc = GC <-> 60 <= sc < 75)%Z /\ (grade_of sc = GD <-> 45 <= sc < 60)%Z /\
  (grade_of sc = GF <-> sc < 45)%Z.
Proof.
  unfold grade_of, domain_GradeAThreshold, domain_GradeBThreshold, domain_GradeCThreshold, domain_GradeDThreshold.
  destruct (90 <=? sc)%Z eqn:A; [apply Z.leb_le in A|apply Z.leb_gt in A].
  { repeat split; intros; try lia; try discriminate. }
  destruct (75 <=? sc)%Z eqn:B; [apply Z.leb_le in B|apply Z.leb_gt in B].
  { repeat split; intros; try lia; try discriminate. }
  destruct (60 <=? sc)%Z eqn:C; [apply Z.leb_le in C|apply Z.leb_gt in C].
  { repeat split; intros; try lia; try discriminate. }
  destruct (45 <=? sc)%Z eqn:D; [apply Z.leb_le in D|apply Z.leb_gt in D].
  { repeat split; intros; try lia; try discriminate. }
  repeat split; intros; try lia; try discriminate.
Qed.

(* ---------- monotonicity of every penalty in its measured quantity ---------- *)
Lemma Qdiv_le_compat_r a b c : 0 < c -> a <= b -> a / c <= b / c.
Proof. intros Hc H. unfold Qdiv. apply Qmult_le_compat_r; [exact H|]. apply Qlt_le_weak, Qinv_lt_0_compat, Hc. Qed.

Lemma complexity_penalty_mono s s' :
  average_complexity s <= average_complexity s' -> (complexity_penalty s <= complexity_penalty s')%Z.
Proof.
  intro H. unfold complexity_penalty.
  destruct (Qle_bool (average_complexity s) 2) eqn:E.
  - destruct (Qle_bool (average_complexity s') 2) eqn:E'; [lia|].
    pose proof (complexity_penalty_range s') as R. unfold complexity_penalty in R. rewrite E' in R. lia.
  - apply Qle_bool_false in E. destruct (Qle_bool (average_complexity s') 2) eqn:E'.
    + apply Qle_bool_iff in E'. lra.
    + apply round_half_away_mono, cap20_mono. apply Qmult_le_compat_r; [|lra]. apply Qdiv_le_compat_r; lra.
Qed.

Lemma weighted_dead_mono s s' :
  (critical_dead s <= critical_dead s')%Z -> (warning_dead s <= warning_dead s')%Z -> (info_dead s <= info_dead s')%Z ->
  weighted_dead s <= weighted_dead s'.
Proof.
  intros A B C. unfold weighted_dead. apply inject_le in A, B, C. lra.
Qed.

Lemma dead_code_penalty_mono nf s s' : 0 < nf -> weighted_dead s <= weighted_dead s' ->
  (dead_code_penalty nf s <= dead_code_penalty nf s')%Z.
Proof.
  intros Hnf H. unfold dead_code_penalty.
  destruct (Qle_bool (weighted_dead s) 0) eqn:E.
  - destruct (Qle_bool (weighted_dead s') 0) eqn:E'; [lia|].
    pose proof (dead_code_penalty_range nf s' Hnf) as R. unfold dead_code_penalty in R. rewrite E' in R. lia.
  - apply Qle_bool_false in E. destruct (Qle_bool (weighted_dead s') 0) eqn:E'.
    + apply Qle_bool_iff in E'. lra.
    + apply Qfloor_resp_le, Qmin_mono, Qdiv_le_compat_r; assumption.
Qed.


Lemma duplication_penalty_mono s s' :
  code_duplication s <= code_duplication s' -> (duplication_penalty s <= duplication_penalty s')%Z.
Proof.
  intro H. unfold duplication_penalty, domain_DuplicationThresholdLow, domain_DuplicationThresholdHigh.
  destruct (Qle_bool (code_duplication s) (0#1)) eqn:E.
  - destruct (Qle_bool (code_duplication s') (0#1)) eqn:E'; [lia|].
    pose proof (duplication_penalty_range s') as R.
    unfold duplication_penalty, domain_DuplicationThresholdLow, domain_DuplicationThresholdHigh in R. rewrite E' in R. lia.
  - apply Qle_bool_false in E. destruct (Qle_bool (code_duplication s') (0#1)) eqn:E'.
    + apply Qle_bool_iff in E'. lra.
    + apply round_half_away_mono, cap20_mono. apply Qmult_le_compat_r; [|lra]. apply Qdiv_le_compat_r; lra.
Qed.

Lemma ratio_penalty_mono c h m h' m' full : (0 < c)%Z -> 0 < full ->
  (2 * h + m <= 2 * h' + m')%Z -> (ratio_penalty c h m full <= ratio_penalty c h' m' full)%Z.
Proof.
  intros Hc Hf H. unfold ratio_penalty. destruct (c =? 0)%Z eqn:E; [lia|].
  apply round_half_away_mono, cap20_mono. apply Qmult_le_compat_r; [|lra].
  apply Qdiv_le_compat_r; [exact Hf|]. apply Qdiv_le_compat_r; [apply inject_pos, Hc|].
  apply inject_le in H. unfold inject in *. rewrite !inject_Z_plus, !inject_Z_mult in H.
  change (inject_Z 2) with (2#1) in H. lra.
Qed.

Lemma dependency_penalty_mono s s' :
  deps_enabled s = deps_enabled s' -> deps_total_modules s = deps_total_modules s' ->
  (0 <= deps_total_modules s)%Z ->
  (deps_modules_in_cycles s <= deps_modules_in_cycles s')%Z -> (deps_max_depth s <= deps_max_depth s')%Z ->
  deps_msd s <= deps_msd s' ->
  (dependency_penalty s <= dependency_penalty s')%Z.
Proof.
  intros En Tm Tn Cy De Ms. unfold dependency_penalty. rewrite <- En, <- Tm.
  destruct (negb (deps_enabled s)); [lia|].
  assert (A : ((if (0 <? deps_total_modules s)%Z then round_half_away (inject domain_MaxCyclesPenalty *
         clamp01 (inject (deps_modules_in_cycles s) / inject (deps_total_modules s))) else 0) <=
      (if (0 <? deps_total_modules s)%Z then round_half_away (inject domain_MaxCyclesPenalty *
         clamp01 (inject (deps_modules_in_cycles s') / inject (deps_total_modules s))) else 0))%Z).
  { destruct (0 <? deps_total_modules s)%Z eqn:E; [|lia]. apply Z.ltb_lt in E.
    apply round_half_away_mono. apply Qmult_le_l; [reflexivity|].
    apply clamp01_mono, Qdiv_le_compat_r; [apply inject_pos, E| apply inject_le, Cy]. }
  assert (B : ((if (0 <? deps_total_modules s)%Z then
        Z.min domain_MaxDepthPenalty (Z.max 0 (deps_max_depth s - expected_depth (deps_total_modules s))) else 0) <=
      (if (0 <? deps_total_modules s)%Z then
        Z.min domain_MaxDepthPenalty (Z.max 0 (deps_max_depth s' - expected_depth (deps_total_modules s))) else 0))%Z).
  { destruct (0 <? deps_total_modules s)%Z; lia. }
  assert (C : ((if Qltb 0 (deps_msd s) then round_half_away (clamp01 (deps_msd s) * inject domain_MaxMSDPenalty) else 0) <=
      (if Qltb 0 (deps_msd s') then round_half_away (clamp01 (deps_msd s') * inject domain_MaxMSDPenalty) else 0))%Z).
  { destruct (Qltb 0 (deps_msd s)) eqn:E.
    - apply Qltb_lt in E. destruct (Qltb 0 (deps_msd s')) eqn:E'; [| apply Qltb_ge in E'; lra].
      apply round_half_away_mono. apply Qmult_le_compat_r; [apply clamp01_mono, Ms|]. qconst. lra.
    - destruct (Qltb 0 (deps_msd s')); [|lia]. apply round_half_away_nonneg.
      pose proof (clamp01_range (deps_msd s')). apply Qmult_le_0_compat; [tauto|]. qconst. lra. }
  lia.
Qed.

Lemma architecture_penalty_mono s s' : arch_enabled s = arch_enabled s' ->
  arch_compliance s' <= arch_compliance s -> (architecture_penalty s <= architecture_penalty s')%Z.
Proof.
  intros En H. unfold architecture_penalty. rewrite <- En. destruct (negb (arch_enabled s)); [lia|].
  apply round_half_away_mono. apply Qmult_le_l; [reflexivity|]. apply clamp01_mono in H. lra.
Qed.

(* s' is s with measured quantities made worse (or equal), all totals and enabled flags fixed *)
Record worse (s s' : summary) : Prop := {
  w_files : total_files s = total_files s';
  w_deps : deps_enabled s = deps_enabled s'; w_arch : arch_enabled s = arch_enabled s';
  w_modules : deps_total_modules s = deps_total_modules s';
  w_cboc : cbo_classes s = cbo_classes s'; w_lcomc : lcom_classes s = lcom_classes s';
  w_cx : average_complexity s <= average_complexity s';
  w_crit : (critical_dead s <= critical_dead s')%Z; w_warn : (warning_dead s <= warning_dead s')%Z;
  w_info : (info_dead s <= info_dead s')%Z;
  w_dup : code_duplication s <= code_duplication s';
  w_cbo : (2 * high_coupling s + medium_coupling s <= 2 * high_coupling s' + medium_coupling s')%Z;
  w_lcom : (2 * high_lcom s + medium_lcom s <= 2 * high_lcom s' + medium_lcom s')%Z;
  w_cyc : (deps_modules_in_cycles s <= deps_modules_in_cycles s')%Z;
  w_depth : (deps_max_depth s <= deps_max_depth s')%Z;
  w_msd : deps_msd s <= deps_msd s';
  w_comp : arch_compliance s' <= arch_compliance s
}.

Theorem score_monotone nf s s' : 0 < nf -> counts_nonneg s -> worse s s' ->
  (raw_score nf s' <= raw_score nf s)%Z.
Proof.
  intros Hnf W M. destruct M. destruct W as (?&?&?&?&?&?&?&?&?&?&?&?&?).
  unfold raw_score. rewrite !fold_penalties.
  pose proof (complexity_penalty_mono s s' w_cx0).
  pose proof (dead_code_penalty_mono nf s s' Hnf (weighted_dead_mono s s' w_crit0 w_warn0 w_info0)).
  pose proof (duplication_penalty_mono s s' w_dup0).
  assert (coupling_penalty s <= coupling_penalty s')%Z.
  { unfold coupling_penalty. rewrite <- w_cboc0. destruct (Z.eq_dec (cbo_classes s) 0) as [e|n].
    - unfold ratio_penalty. rewrite e. simpl. lia.
    - apply ratio_penalty_mono; [lia|reflexivity|assumption]. }
  assert (cohesion_penalty s <= cohesion_penalty s')%Z.
  { unfold cohesion_penalty. rewrite <- w_lcomc0. destruct (Z.eq_dec (lcom_classes s) 0) as [e|n].
    - unfold ratio_penalty. rewrite e. simpl. lia.
    - apply ratio_penalty_mono; [lia|reflexivity|assumption]. }
  pose proof (dependency_penalty_mono s s' w_deps0 w_modules0 ltac:(assumption) w_cyc0 w_depth0 w_msd0).
  pose proof (architecture_penalty_mono s s' w_arch0 w_comp0).
  lia.
Qed.
