(* C15: skipping an analysis never lowers the score. *)
From Coq Require Import ZArith QArith Qround Lia Lqa List Bool.
From PV Require Import Gen.DomainConst Score.ScoreQ Score.ScoreProofs Score.ScoreMono.
Open Scope Q_scope.

Definition sel_le (a b : selection) : Prop :=
  (sel_cx a = true -> sel_cx b = true) /\ (sel_dead a = true -> sel_dead b = true) /\
  (sel_clone a = true -> sel_clone b = true) /\ (sel_cbo a = true -> sel_cbo b = true) /\
  (sel_lcom a = true -> sel_lcom b = true) /\ (sel_sys a = true -> sel_sys b = true).

Record analyses_ok (a : analyses) : Prop := {
  ok_files : a_dead_files a = a_cx_files a;   (* both analyses process the same file list *)
  ok_files_nn : (0 <= a_cx_files a)%Z;
  ok_dead_nn : (0 <= a_crit a /\ 0 <= a_warn a /\ 0 <= a_info a)%Z;
  ok_cbo_nn : (0 <= a_cbo_classes a /\ 0 <= a_cbo_high a /\ 0 <= a_cbo_med a)%Z;
  ok_lcom_nn : (0 <= a_lcom_classes a /\ 0 <= a_lcom_high a /\ 0 <= a_lcom_med a)%Z;
  ok_deps_nn : (0 <= a_modules a /\ 0 <= a_in_cycles a /\ 0 <= a_depth a)%Z;
}.

Section Skip.
Variable log10 : Q -> Q.
Hypothesis log10_nonneg : forall x, 1 <= x -> 0 <= log10 x.

Definition score_of (sel : selection) (a : analyses) : Z :=
  let s := assemble sel a in raw_score (norm_factor log10 (total_files s)) s.

Lemma assemble_counts_nonneg sel a : analyses_ok a -> counts_nonneg (assemble sel a).
Proof.
  intros [F Fn (?&?&?) (?&?&?) (?&?&?) (?&?&?)]. unfold counts_nonneg, assemble; simpl.
  destruct (sel_cx sel), (sel_dead sel), (sel_cbo sel), (sel_lcom sel), (sel_sys sel); repeat split; lia.
Qed.

Theorem skip_never_lowers sel sel' a : analyses_ok a -> sel_le sel sel' ->
  (score_of sel' a <= score_of sel a)%Z.
Proof.
  intros OK LE. pose proof (assemble_counts_nonneg sel a OK) as W. pose proof (assemble_counts_nonneg sel' a OK) as W'.
  destruct OK as [F Fn (?&?&?) (?&?&?) (?&?&?) (?&?&?)].
  destruct LE as (Lcx & Ldead & Lclone & Lcbo & Llcom & Lsys).
  unfold score_of, raw_score. rewrite !fold_penalties.
  set (s := assemble sel a) in *. set (s' := assemble sel' a) in *.
  pose proof (norm_factor_pos log10 log10_nonneg (total_files s)) as Hnf.
  pose proof (norm_factor_pos log10 log10_nonneg (total_files s')) as Hnf'.
  (* complexity *)
  assert (P1 : (complexity_penalty s <= complexity_penalty s')%Z).
  { destruct (sel_cx sel) eqn:E.
    - unfold s, s', complexity_penalty, assemble; simpl. rewrite E, (Lcx eq_refl). lia.
    - assert (complexity_penalty s = 0%Z) as -> by (unfold s, complexity_penalty, assemble; simpl; rewrite E; reflexivity).
      apply complexity_penalty_range. }
  (* dead code *)
  assert (P2 : (dead_code_penalty (norm_factor log10 (total_files s)) s <=
                dead_code_penalty (norm_factor log10 (total_files s')) s')%Z).
  { destruct (sel_dead sel) eqn:E.
    - assert (total_files s = total_files s') as ->.
      { unfold s, s', assemble; simpl. rewrite E, (Ldead eq_refl), F. destruct (sel_cx sel), (sel_cx sel'); reflexivity. }
      apply dead_code_penalty_mono; [exact Hnf'|].
      unfold weighted_dead, s, s', assemble; simpl. rewrite E, (Ldead eq_refl). lra.
    - assert (dead_code_penalty (norm_factor log10 (total_files s)) s = 0%Z) as ->.
      { unfold dead_code_penalty, weighted_dead, s, assemble; simpl. rewrite E. reflexivity. }
      apply dead_code_penalty_range, Hnf'. }
  (* duplication *)
  assert (P3 : (duplication_penalty s <= duplication_penalty s')%Z).
  { destruct (sel_clone sel) eqn:E.
    - unfold s, s', duplication_penalty, assemble; simpl. rewrite E, (Lclone eq_refl). lia.
    - assert (duplication_penalty s = 0%Z) as -> by (unfold s, duplication_penalty, assemble; simpl; rewrite E; reflexivity).
      apply duplication_penalty_range. }
  (* coupling *)
  assert (P4 : (coupling_penalty s <= coupling_penalty s')%Z).
  { destruct (sel_cbo sel) eqn:E.
    - unfold s, s', coupling_penalty, assemble; simpl. rewrite E, (Lcbo eq_refl). lia.
    - assert (coupling_penalty s = 0%Z) as -> by (unfold s, coupling_penalty, assemble; simpl; rewrite E; reflexivity).
      destruct W' as (?&?&?&?&?&?&?&?&?&?&?&?&?). apply ratio_penalty_range; auto; reflexivity. }
  assert (P5 : (cohesion_penalty s <= cohesion_penalty s')%Z).
  { destruct (sel_lcom sel) eqn:E.
    - unfold s, s', cohesion_penalty, assemble; simpl. rewrite E, (Llcom eq_refl). lia.
    - assert (cohesion_penalty s = 0%Z) as -> by (unfold s, cohesion_penalty, assemble; simpl; rewrite E; reflexivity).
      destruct W' as (?&?&?&?&?&?&?&?&?&?&?&?&?). apply ratio_penalty_range; auto; reflexivity. }
  assert (P6 : (dependency_penalty s <= dependency_penalty s')%Z).
  { destruct (sel_sys sel) eqn:E.
    - unfold s, s', dependency_penalty, assemble; simpl. rewrite E, (Lsys eq_refl). lia.
    - assert (dependency_penalty s = 0%Z) as -> by (unfold s, dependency_penalty, assemble; simpl; rewrite E; reflexivity).
      apply dependency_penalty_range, W'. }
  assert (P7 : (architecture_penalty s <= architecture_penalty s')%Z).
  { destruct (sel_sys sel) eqn:E.
    - unfold s, s', architecture_penalty, assemble; simpl. rewrite E, (Lsys eq_refl). lia.
    - assert (architecture_penalty s = 0%Z) as -> by (unfold s, architecture_penalty, assemble; simpl; rewrite E; reflexivity).
      apply architecture_penalty_range. }
  lia.
Qed.
End Skip.

(* Non-vacuity: a concrete analysis vector satisfying the premises, with a skipped analysis that matters. *)
Definition sample_analyses : analyses :=
  {| a_cx_files := 20; a_avg_cx := 7#1; a_high_cx := 1; a_dead_files := 20; a_dead_total := 10; a_crit := 10;
     a_warn := 0; a_info := 0; a_clone_lines := 2000; a_clone_groups := 1;
     a_cbo_classes := 10; a_cbo_high := 1; a_cbo_med := 2; a_lcom_classes := 10; a_lcom_high := 0; a_lcom_med := 3;
     a_modules := 20; a_in_cycles := 4; a_depth := 7; a_msd := 1#2; a_arch := Some (9#10) |}.
Example sample_ok : analyses_ok sample_analyses.
Proof. constructor; simpl; lia. Qed.
Example sample_scores :
  let l := fun _ : Q => 3#10 in
  (score_of l {| sel_cx := true; sel_dead := true; sel_clone := true; sel_cbo := true; sel_lcom := true; sel_sys := true |} sample_analyses,
   score_of l {| sel_cx := false; sel_dead := true; sel_clone := false; sel_cbo := false; sel_lcom := false; sel_sys := false |} sample_analyses)
  = (33, 93)%Z.
Proof. vm_compute. reflexivity. Qed.
