(* The hand-written model Score/ScoreQ.v equals, function by function, the Gallina text the translator generates from
   domain/analyze.go on every run (coq/Gen/ScoreGen.v).  A change of a formula, constant, comparison or rounding in the
   Go source changes ScoreGen.v and breaks the corresponding lemma below (a broken tie), or — if the lemma still holds —
   flows into every C15 theorem through these equalities. *)
From Coq Require Import ZArith QArith Qround Lia Lqa Bool.
From PV Require Import Gen.DomainConst Gen.ScoreGen Score.ScoreBase Score.ScoreQ.
Open Scope Q_scope.

Lemma tie_complexity s : go_calculateComplexityPenalty s = complexity_penalty s.
Proof. reflexivity. Qed.

Lemma Qle_bool_inject0 q : Qle_bool q (inject 0) = Qle_bool q 0.
Proof. reflexivity. Qed.

Lemma tie_dead_code s nf : go_calculateDeadCodePenalty s nf = dead_code_penalty nf s.
Proof. reflexivity. Qed.

Lemma tie_duplication s : go_calculateDuplicationPenalty s = duplication_penalty s.
Proof. reflexivity. Qed.

Lemma tie_coupling s : go_calculateCouplingPenalty s = coupling_penalty s.
Proof. reflexivity. Qed.

Lemma tie_cohesion s : go_calculateCohesionPenalty s = cohesion_penalty s.
Proof. reflexivity. Qed.

Lemma clamp01_unfold r :
  (if Qltb (inject 1) (if Qltb r (inject 0) then inject 0 else r) then inject 1
   else (if Qltb r (inject 0) then inject 0 else r)) = clamp01 r.
Proof.
  unfold clamp01. change (inject 0) with 0. change (inject 1) with 1.
  destruct (Qltb r 0) eqn:E; [|reflexivity].
  destruct (Qltb 1 0) eqn:E2; [discriminate|reflexivity].
Qed.

Lemma expected_depth_unfold n :
  Qfloor (Qmax (inject 3) (inject (Z.log2_up (n + 1)) + inject 1)) = expected_depth n.
Proof.
  unfold expected_depth, Qmax, inject. rewrite <- inject_Z_plus.
  destruct (Qle_bool (inject_Z 3) (inject_Z (Z.log2_up (n + 1) + 1))) eqn:E.
  - apply Qle_bool_iff in E. rewrite <- Zle_Qle in E. rewrite Qfloor_Z. lia.
  - rewrite Qfloor_Z. assert (~ (3 <= Z.log2_up (n + 1) + 1)%Z).
    { intro C. rewrite Zle_Qle in C. apply Qle_bool_iff in C. congruence. }
    lia.
Qed.

Lemma tie_dependency s : go_calculateDependencyPenalty s = dependency_penalty s.
Proof.
  unfold go_calculateDependencyPenalty, dependency_penalty.
  destruct (negb (deps_enabled s)); [reflexivity|].
  cbv zeta.
  rewrite (clamp01_unfold (inject (deps_modules_in_cycles s) / inject (deps_total_modules s))).
  rewrite (clamp01_unfold (deps_msd s)).
  rewrite expected_depth_unfold.
  destruct (0 <? deps_total_modules s)%Z; destruct (Qltb (inject 0) (deps_msd s)) eqn:M;
  change (Qltb (inject 0) (deps_msd s)) with (Qltb 0 (deps_msd s)) in M; rewrite ?M;
  repeat match goal with |- context [(?a <? 0)%Z] => destruct (a <? 0)%Z eqn:?  end;
  repeat match goal with |- context [(domain_MaxDepthPenalty <? ?a)%Z] => destruct (domain_MaxDepthPenalty <? a)%Z eqn:? end;
  repeat match goal with H : (_ <? _)%Z = true |- _ => apply Z.ltb_lt in H | H : (_ <? _)%Z = false |- _ => apply Z.ltb_ge in H end;
  unfold domain_MaxDepthPenalty in *; try lia.
Qed.

Lemma tie_architecture s : go_calculateArchitecturePenalty s = architecture_penalty s.
Proof.
  unfold go_calculateArchitecturePenalty, architecture_penalty.
  destruct (negb (arch_enabled s)); [reflexivity|]. cbv zeta.
  rewrite (clamp01_unfold (arch_compliance s)). reflexivity.
Qed.

Lemma tie_normalize p m : go_normalizeToScoreBase p m = normalize_to_score_base p m.
Proof.
  unfold go_normalizeToScoreBase, normalize_to_score_base, clampZ. destruct (m =? 0)%Z; [reflexivity|]. cbv zeta.
  set (r := round_half_away _).
  destruct (r <? 0)%Z eqn:A; [apply Z.ltb_lt in A | apply Z.ltb_ge in A];
  match goal with |- context [(domain_MaxScoreBase <? ?a)%Z] => destruct (domain_MaxScoreBase <? a)%Z eqn:B end;
  [apply Z.ltb_lt in B | apply Z.ltb_ge in B | apply Z.ltb_lt in B | apply Z.ltb_ge in B];
  unfold domain_MaxScoreBase in *; lia.
Qed.

Lemma tie_penalty_to_score p m : go_penaltyToScore p m = penalty_to_score p m.
Proof.
  unfold go_penaltyToScore, penalty_to_score, clampZ. destruct (m =? 0)%Z; [reflexivity|]. cbv zeta.
  set (r := round_half_away _).
  destruct (100 - r <? 0)%Z eqn:A; [apply Z.ltb_lt in A | apply Z.ltb_ge in A];
  match goal with |- context [(100 <? ?a)%Z] => destruct (100 <? a)%Z eqn:B end;
  [apply Z.ltb_lt in B | apply Z.ltb_ge in B | apply Z.ltb_lt in B | apply Z.ltb_ge in B]; lia.
Qed.

Lemma tie_grade sc : go_GetGradeFromScore sc = grade_of sc.
Proof. reflexivity. Qed.
