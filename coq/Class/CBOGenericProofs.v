(* Lemmas about Class/CBOGeneric.v (C13): whatever the base / the type arguments are, a Subscript node
   contributes nothing to the dependency set, although the property counts the base (and the classes
   named inside the generic annotation). *)
From Coq Require Import ZArith NArith List String Bool.
From PV Require Import Class.Syntax Class.SetK Class.CBO Class.CBOGeneric.
Import ListNotations.
Open Scope N_scope.

Lemma subscript_never_named : forall c args, extract_class_name_subscript (build_subscript c args) = None.
Proof. intros c args. reflexivity. Qed.

Lemma generic_base_never_counted : forall o g, generic_base_deps o g = [].
Proof. intros o [b a]. reflexivity. Qed.

Lemma qualified_generic_never_counted : forall o c args, qualified_generic_deps o c args = [].
Proof. intros o c args. reflexivity. Qed.

Lemma subscript_never_counted : forall o g c args,
  generic_base_deps o g = [] /\ qualified_generic_deps o c args = [].
Proof. intros o g c args. split; [apply generic_base_never_counted | apply qualified_generic_never_counted]. Qed.

Definition w_gbase : gbase := GBase (Plain (nm "Repository")) [Plain (nm "User")].
Lemma cbo_generic_base_refuted :
  generic_base_deps default_options w_gbase = [] /\ generic_base_required w_gbase = [Plain (nm "Repository")].
Proof. split; vm_compute; reflexivity. Qed.

Lemma cbo_qualified_generic_refuted :
  qualified_generic_deps default_options (Qual (nm "typing") (nm "List")) [Plain (nm "User")] = [] /\
  qualified_generic_spec [Plain (nm "User")] = [Plain (nm "User")].
Proof. split; vm_compute; reflexivity. Qed.

(* the spec sides are not vacuous: a built-in base / argument is not required *)
Lemma generic_base_builtin_not_required : generic_base_required (GBase (Plain (nm "dict")) [Plain (nm "User")]) = [].
Proof. vm_compute; reflexivity. Qed.
