(* Lemmas about Class/CBOGeneric.v (C13): a parametrised base class is counted (the base, not its type
   arguments), and the classes named inside a generic whose container is written through its module are
   exactly the ones counted. *)
From Coq Require Import ZArith NArith List String Bool.
From PV Require Import Class.Syntax Class.SetK Class.CBO Class.CBOProofs Class.CBOGeneric.
Import ListNotations.
Open Scope N_scope.

Lemma generic_base_is_plain_base : forall o g, generic_base_deps o g = dep_of_name o (gb_base g).
Proof. intros o [b a]. reflexivity. Qed.

(* the base is counted unless it is a built-in, whatever the type arguments *)
Lemma generic_base_counted : forall g, ref_ok (gb_base g) ->
  generic_base_deps default_options g = generic_base_required g.
Proof.
  intros [b a] H; unfold generic_base_deps, generic_base_required, extract_class_name_subscript; simpl in *.
  rewrite extract_class_name_ok, should_include_ref_default by assumption. destruct (is_builtin b); reflexivity.
Qed.
Lemma generic_base_required_allowed : forall g z, In z (generic_base_required g) -> In z (generic_base_allowed g).
Proof. intros [b a] z; unfold generic_base_required, generic_base_allowed; simpl. destruct (negb (is_builtin b)); simpl; tauto. Qed.

Lemma generic_base_counted_within : forall g, ref_ok (gb_base g) ->
  generic_base_deps default_options g = generic_base_required g /\
  (forall z, In z (generic_base_deps default_options g) -> In z (generic_base_allowed g)).
Proof.
  intros g H. split; [exact (generic_base_counted g H)|].
  rewrite (generic_base_counted g H). exact (generic_base_required_allowed g).
Qed.

(* the type arguments of mod.Container[...] are counted, the container is not *)
Lemma qualified_generic_exact : forall c args, Forall ref_ok args ->
  set_of (qualified_generic_deps default_options c args) = qualified_generic_spec args.
Proof.
  intros c args H; unfold qualified_generic_deps, qualified_generic_spec; simpl. apply set_of_ext. intros z.
  rewrite filter_In, in_flat_map, negb_true_iff. split.
  - intros [r [Hr Hz]]. rewrite Forall_forall in H. apply dep_of_name_In in Hz; [| auto]. destruct Hz; subst; auto.
  - intros [Hr Hz]. exists z; split; auto. rewrite Forall_forall in H. apply dep_of_name_In; auto.
Qed.

Definition w_gbase : gbase := GBase (Plain (nm "Repository")) [Plain (nm "User")].
Lemma cbo_generic_base_counted :
  generic_base_deps default_options w_gbase = [Plain (nm "Repository")] /\ generic_base_required w_gbase = [Plain (nm "Repository")].
Proof. split; vm_compute; reflexivity. Qed.

Lemma cbo_qualified_generic_counted :
  qualified_generic_deps default_options (Qual (nm "typing") (nm "Dict")) [Plain (nm "str"); Plain (nm "User")] = [Plain (nm "User")] /\
  qualified_generic_spec [Plain (nm "str"); Plain (nm "User")] = [Plain (nm "User")].
Proof. split; vm_compute; reflexivity. Qed.

(* the spec sides are not vacuous: a built-in base / argument is not required *)
Lemma generic_base_builtin_not_required : generic_base_required (GBase (Plain (nm "dict")) [Plain (nm "User")]) = [].
Proof. vm_compute; reflexivity. Qed.
