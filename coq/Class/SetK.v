(* Finite sets of keys (pairs of N) as strictly sorted lists: two lists with the same elements
   have the same [set_of], so set equality is Leibniz equality.  Models Go's map[string]bool
   used as a set (cbo.go:149, lcom.go:219-246) with the iteration order abstracted away. *)
From Coq Require Import NArith List Bool Lia Permutation.
Import ListNotations.
Open Scope N_scope.

Definition K := (N * N)%type.

Definition kcmp (a b : K) : comparison :=
  match N.compare (fst a) (fst b) with
  | Eq => N.compare (snd a) (snd b)
  | c => c
  end.
Definition klt (a b : K) : Prop := kcmp a b = Lt.
Definition keqb (a b : K) : bool := (fst a =? fst b) && (snd a =? snd b).

Lemma keqb_eq : forall a b, keqb a b = true <-> a = b.
Proof.
  intros [a1 a2] [b1 b2]; unfold keqb; simpl. rewrite andb_true_iff, !N.eqb_eq.
  split; [intros [-> ->]; reflexivity | intros H; inversion H; auto].
Qed.
Lemma keqb_refl : forall a, keqb a a = true.
Proof. intros; apply keqb_eq; reflexivity. Qed.
Lemma keqb_neq : forall a b, keqb a b = false <-> a <> b.
Proof.
  intros a b; split; intros H.
  - intros E; apply keqb_eq in E; congruence.
  - destruct (keqb a b) eqn:E; auto. apply keqb_eq in E; contradiction.
Qed.

Lemma kcmp_eq : forall a b, kcmp a b = Eq <-> a = b.
Proof.
  intros [a1 a2] [b1 b2]; unfold kcmp; simpl. split.
  - destruct (N.compare_spec a1 b1); try discriminate. subst.
    destruct (N.compare_spec a2 b2); try discriminate. subst; reflexivity.
  - intros H; inversion H; subst. rewrite !N.compare_refl; reflexivity.
Qed.
Lemma kcmp_lt_iff : forall a b, kcmp a b = Lt <-> (fst a < fst b \/ (fst a = fst b /\ snd a < snd b)).
Proof.
  intros [a1 a2] [b1 b2]; unfold kcmp; simpl.
  destruct (N.compare_spec a1 b1); subst.
  - rewrite N.compare_lt_iff. split; [right; auto | intros [H | [_ H]]; [lia | auto]].
  - split; [left; auto | reflexivity].
  - split; [discriminate | intros [H0 | [H0 _]]; lia].
Qed.
Lemma kcmp_gt_iff : forall a b, kcmp a b = Gt <-> kcmp b a = Lt.
Proof.
  intros [a1 a2] [b1 b2]; unfold kcmp; simpl.
  rewrite (N.compare_antisym a1 b1), (N.compare_antisym a2 b2).
  destruct (N.compare a1 b1), (N.compare a2 b2); simpl; split; congruence.
Qed.
Lemma klt_trans : forall a b c, klt a b -> klt b c -> klt a c.
Proof. unfold klt; intros a b c; rewrite !kcmp_lt_iff; lia. Qed.
Lemma klt_irrefl : forall a, ~ klt a a.
Proof. unfold klt; intros a; rewrite kcmp_lt_iff; lia. Qed.

Fixpoint insert (x : K) (l : list K) : list K :=
  match l with
  | [] => [x]
  | y :: r => match kcmp x y with
              | Lt => x :: l
              | Eq => l
              | Gt => y :: insert x r
              end
  end.
Definition set_of (l : list K) : list K := fold_right insert [] l.

Inductive ssorted : list K -> Prop :=
  | ss_nil : ssorted []
  | ss_cons : forall x l, Forall (klt x) l -> ssorted l -> ssorted (x :: l).

Lemma In_insert : forall z x l, In z (insert x l) <-> z = x \/ In z l.
Proof.
  induction l as [| y r IH]; simpl.
  - intuition.
  - destruct (kcmp x y) eqn:E; simpl.
    + apply kcmp_eq in E; subst. intuition.
    + intuition.
    + rewrite IH. intuition.
Qed.
Lemma In_set_of : forall z l, In z (set_of l) <-> In z l.
Proof.
  induction l; simpl; [tauto|]. rewrite In_insert, IHl. intuition.
Qed.
Lemma insert_sorted : forall x l, ssorted l -> ssorted (insert x l).
Proof.
  induction 1 as [| y r Hy Hr IH]; simpl.
  - constructor; [constructor | constructor].
  - destruct (kcmp x y) eqn:E.
    + constructor; assumption.
    + constructor; [| constructor; assumption].
      constructor; [exact E|]. eapply Forall_impl; [| exact Hy]. intros; eapply klt_trans; eauto.
    + constructor; [| exact IH].
      apply Forall_forall; intros z Hz. apply In_insert in Hz as [-> | Hz].
      * apply kcmp_gt_iff; exact E.
      * rewrite Forall_forall in Hy; auto.
Qed.
Lemma set_of_sorted : forall l, ssorted (set_of l).
Proof. induction l; simpl; [constructor | apply insert_sorted; assumption]. Qed.

Lemma sorted_ext : forall l1 l2, ssorted l1 -> ssorted l2 -> (forall z, In z l1 <-> In z l2) -> l1 = l2.
Proof.
  induction l1 as [| x r IH]; intros l2 S1 S2 H.
  - destruct l2 as [| y r2]; auto. exfalso. apply (H y); left; reflexivity.
  - destruct l2 as [| y r2]; [exfalso; apply (H x); left; reflexivity|].
    inversion S1 as [| ? ? F1 R1]; inversion S2 as [| ? ? F2 R2]; subst.
    rewrite Forall_forall in F1, F2.
    assert (x = y).
    { destruct (proj1 (H x) (or_introl eq_refl)) as [E | I]; [auto|].
      destruct (proj2 (H y) (or_introl eq_refl)) as [E | I2]; [auto|].
      exfalso. apply (klt_irrefl x). eapply klt_trans; [apply F1; exact I2 | apply F2; exact I]. }
    subst y. f_equal. apply IH; auto.
    intros z; split; intros I.
    + destruct (proj1 (H z) (or_intror I)) as [E | ?]; auto. subst z. exfalso; apply (klt_irrefl x); auto.
    + destruct (proj2 (H z) (or_intror I)) as [E | ?]; auto. subst z. exfalso; apply (klt_irrefl x); auto.
Qed.

(* the set depends only on which keys occur *)
Theorem set_of_ext : forall l1 l2, (forall z, In z l1 <-> In z l2) -> set_of l1 = set_of l2.
Proof.
  intros. apply sorted_ext; try apply set_of_sorted. intros z; rewrite !In_set_of; auto.
Qed.
Corollary set_of_perm : forall l1 l2, Permutation l1 l2 -> set_of l1 = set_of l2.
Proof.
  intros; apply set_of_ext; intros z; split; apply Permutation_in; [assumption | apply Permutation_sym; assumption].
Qed.

Lemma insert_in_sorted : forall x l, ssorted l -> In x l -> insert x l = l.
Proof.
  intros. apply sorted_ext; auto using insert_sorted.
  intros z; rewrite In_insert. intuition; subst; auto.
Qed.
Lemma insert_notin_length : forall x l, ~ In x l -> length (insert x l) = S (length l).
Proof.
  induction l as [| y r IH]; simpl; intros H; auto.
  destruct (kcmp x y) eqn:E; simpl; auto.
  - apply kcmp_eq in E; subst; exfalso; auto.
  - rewrite IH; auto.
Qed.

(* one more distinct key: the set grows by exactly one *)
Theorem set_of_add_new : forall x l, ~ In x l -> length (set_of (x :: l)) = S (length (set_of l)).
Proof. intros; simpl. apply insert_notin_length. rewrite In_set_of; assumption. Qed.
Theorem set_of_add_old : forall x l, In x l -> set_of (x :: l) = set_of l.
Proof. intros; simpl. apply insert_in_sorted; [apply set_of_sorted | rewrite In_set_of; assumption]. Qed.

Lemma set_of_nodup : forall l, NoDup (set_of l).
Proof.
  intros l. generalize (set_of_sorted l). induction 1 as [| x r F S IH]; constructor; auto.
  intros I. rewrite Forall_forall in F. apply (klt_irrefl x); auto.
Qed.
