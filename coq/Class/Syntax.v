(* Class-level syntax shared by C13 (CBO) and C14 (LCOM4).

   Not the Python AST: only what the two properties quantify over.  A class has a name,
   base classes and members; a member is an annotated attribute, a method, or a statement
   written directly in the class body; a method has decorators, parameter annotations, a
   return annotation and a body that is a list of *mentions*; a mention is a kind
   (instantiate a class / obj.x / obj.m()) at a syntactic *position*.

   harness/classgen.py has one concrete Python template per position (same constructor
   names; compared on every check run) and pretty-prints a class to a .py file and to a
   term of this file.

   [pos_path] is the model of internal/parser/ast_builder.go for these templates: the
   parser.Node child fields one descends through from the ClassDef node to the root node of
   the mention's expression, or [None] when ast_builder.go does not build that
   sub-expression at all.  It is compared with the real parser through the hook op
   "find-path" for every position and every mention kind on every check run.
   (Before the fix: commit "parser keeps the operand of unary operators ..." the entries
   PNegOperand, PSubscriptObject, PWithItem, PWithItemAs, PWithAsTarget, PFString and
   PDictSplat were [None]: F13.) *)
From Coq Require Import NArith List String Ascii Bool.
Import ListNotations.
Open Scope N_scope.

(* ---- names: the N code of an identifier is its bytes read as a little-endian base-256
   number; the harness and the translator use the same function, there is no table ---- *)
Definition name := N.
Fixpoint nm (s : string) : N :=
  match s with
  | EmptyString => 0
  | String a r => N_of_ascii a + 256 * nm r
  end.

(* ---- child fields of parser.Node (internal/parser/ast.go:122-143) ---- *)
Inductive field :=
  | FChildren | FBody | FOrelse | FFinalbody | FHandlers | FArgs | FKeywords | FTargets
  | FBases | FDecorator | FValue | FLeft | FRight | FTest | FIter.

Definition field_name (f : field) : string :=
  match f with
  | FChildren => "Children" | FBody => "Body" | FOrelse => "Orelse" | FFinalbody => "Finalbody"
  | FHandlers => "Handlers" | FArgs => "Args" | FKeywords => "Keywords" | FTargets => "Targets"
  | FBases => "Bases" | FDecorator => "Decorator" | FValue => "Value" | FLeft => "Left"
  | FRight => "Right" | FTest => "Test" | FIter => "Iter"
  end%string.

Definition all_fields : list field :=
  [FChildren; FBody; FOrelse; FFinalbody; FHandlers; FArgs; FKeywords; FTargets;
   FBases; FDecorator; FValue; FLeft; FRight; FTest; FIter].

(* a walker that traverses the fields named in [walk] reaches a node at path [p] iff every
   field on the path is traversed *)
Definition walks (walk : list string) (f : field) : bool :=
  existsb (String.eqb (field_name f)) walk.
Definition path_walked (walk : list string) (p : list field) : bool := forallb (walks walk) p.

(* ---- positions ---- *)
Inductive position :=
  | PBody | PIfBody | PIfElse | PElifBody | PElifElse | PForBody
  | PForElse | PWhileBody | PWhileElse | PTryBody | PExceptBody | PTryElse
  | PFinally | PWithBody | PNestedDefBody | PMatchCaseBody | PExceptIfElse | PClassBody
  | PAssignValue | PAugAssignValue | PAnnAssignValue | PAttrAssignValue | PAttrAugAssignValue | PAttrAnnAssignValue | PSubscriptAssignValue | PChainAssignValue | PTupleAssignValue | PReturnValue | PCallArg | PKeywordArg
  | PStarArg | PKwSplatArg | PIfTest | PElifTest | PWhileTest | PTernaryTest
  | PTernaryBody | PTernaryElse | PAssertTest | PAssertMsg | PRaise | PRaiseFrom
  | PNotOperand | PNegOperand | PBinLeft | PBinRight | PBoolLeft | PBoolRight
  | PCompareLeft | PCompareRight | PSubscriptObject | PSubscriptIndex | PSliceBound | PAttributeObject
  | PMethodCallObject | PCalledResult | PWithItem | PWithItemAs | PForIter | PFString
  | PFStringSpecWidth | PFStringSpecPrecision | PFStringSpecFirst | PFStringSpecOfSecond | PFStringConversion | PFStringDebug | PFStringWithSpec | PFStringSecond | PFStringNested
  | PListElt | PTupleElt | PSetElt | PDictKey | PDictValue | PDictSplat
  | PListCompElt | PListCompIter | PListCompCond | PDictCompValue | PSetCompElt | PGenExpElt
  | PLambdaBody | PNestedDefDefault | PNestedDefDecorator | PNestedDefDecoratorArg | PYieldValue | PWalrusValue
  | PExceptType | PMatchSubject | PClassAssignValue | PMethodDefault | PMethodDecoratorArg | PAssignTarget
  | PAugAssignTarget | PAnnAssignTarget | PForTarget | PWithAsTarget | PTupleTarget | PDelTarget.

Definition all_positions : list position :=
  [PBody; PIfBody; PIfElse; PElifBody; PElifElse; PForBody;
   PForElse; PWhileBody; PWhileElse; PTryBody; PExceptBody; PTryElse;
   PFinally; PWithBody; PNestedDefBody; PMatchCaseBody; PExceptIfElse; PClassBody;
   PAssignValue; PAugAssignValue; PAnnAssignValue; PAttrAssignValue; PAttrAugAssignValue; PAttrAnnAssignValue; PSubscriptAssignValue; PChainAssignValue; PTupleAssignValue; PReturnValue; PCallArg; PKeywordArg;
   PStarArg; PKwSplatArg; PIfTest; PElifTest; PWhileTest; PTernaryTest;
   PTernaryBody; PTernaryElse; PAssertTest; PAssertMsg; PRaise; PRaiseFrom;
   PNotOperand; PNegOperand; PBinLeft; PBinRight; PBoolLeft; PBoolRight;
   PCompareLeft; PCompareRight; PSubscriptObject; PSubscriptIndex; PSliceBound; PAttributeObject;
   PMethodCallObject; PCalledResult; PWithItem; PWithItemAs; PForIter; PFString;
   PFStringSpecWidth; PFStringSpecPrecision; PFStringSpecFirst; PFStringSpecOfSecond; PFStringConversion; PFStringDebug; PFStringWithSpec; PFStringSecond; PFStringNested;
   PListElt; PTupleElt; PSetElt; PDictKey; PDictValue; PDictSplat;
   PListCompElt; PListCompIter; PListCompCond; PDictCompValue; PSetCompElt; PGenExpElt;
   PLambdaBody; PNestedDefDefault; PNestedDefDecorator; PNestedDefDecoratorArg; PYieldValue; PWalrusValue;
   PExceptType; PMatchSubject; PClassAssignValue; PMethodDefault; PMethodDecoratorArg; PAssignTarget;
   PAugAssignTarget; PAnnAssignTarget; PForTarget; PWithAsTarget; PTupleTarget; PDelTarget].

Definition pos_path (p : position) : option (list field) :=
  match p with
  | PBody => Some [FBody; FBody]
  | PIfBody => Some [FBody; FBody; FBody]
  | PIfElse => Some [FBody; FBody; FOrelse; FBody]
  | PElifBody => Some [FBody; FBody; FOrelse; FBody]
  | PElifElse => Some [FBody; FBody; FOrelse; FOrelse; FBody]
  | PForBody => Some [FBody; FBody; FBody]
  | PForElse => Some [FBody; FBody; FOrelse; FBody]
  | PWhileBody => Some [FBody; FBody; FBody]
  | PWhileElse => Some [FBody; FBody; FOrelse; FBody]
  | PTryBody => Some [FBody; FBody; FBody]
  | PExceptBody => Some [FBody; FBody; FHandlers; FBody]
  | PTryElse => Some [FBody; FBody; FOrelse]
  | PFinally => Some [FBody; FBody; FFinalbody]
  | PWithBody => Some [FBody; FBody; FBody]
  | PNestedDefBody => Some [FBody; FBody; FBody]
  | PMatchCaseBody => Some [FBody; FBody; FBody; FBody]
  | PExceptIfElse => Some [FBody; FBody; FHandlers; FBody; FOrelse; FBody]
  | PClassBody => Some [FBody]
  | PAssignValue => Some [FBody; FBody; FValue]
  | PAugAssignValue => Some [FBody; FBody; FValue]
  | PAnnAssignValue => Some [FBody; FBody; FValue]
  | PAttrAssignValue => Some [FBody; FBody; FValue]
  | PAttrAugAssignValue => Some [FBody; FBody; FValue]
  | PAttrAnnAssignValue => Some [FBody; FBody; FValue]
  | PSubscriptAssignValue => Some [FBody; FBody; FValue]
  | PChainAssignValue => Some [FBody; FBody; FValue; FValue]
  | PTupleAssignValue => Some [FBody; FBody; FValue; FChildren]
  | PReturnValue => Some [FBody; FBody; FValue]
  | PCallArg => Some [FBody; FBody; FArgs]
  | PKeywordArg => Some [FBody; FBody; FKeywords; FValue]
  | PStarArg => Some [FBody; FBody; FArgs; FChildren]
  | PKwSplatArg => Some [FBody; FBody; FArgs; FChildren]
  | PIfTest => Some [FBody; FBody; FTest]
  | PElifTest => Some [FBody; FBody; FOrelse; FTest]
  | PWhileTest => Some [FBody; FBody; FTest]
  | PTernaryTest => Some [FBody; FBody; FValue; FTest]
  | PTernaryBody => Some [FBody; FBody; FValue; FBody]
  | PTernaryElse => Some [FBody; FBody; FValue; FOrelse]
  | PAssertTest => Some [FBody; FBody; FTest]
  | PAssertMsg => Some [FBody; FBody; FValue]
  | PRaise => Some [FBody; FBody; FValue]
  | PRaiseFrom => Some [FBody; FBody; FChildren]
  | PNotOperand => Some [FBody; FBody; FValue; FChildren]
  | PNegOperand => Some [FBody; FBody; FValue; FValue]
  | PBinLeft => Some [FBody; FBody; FValue; FLeft]
  | PBinRight => Some [FBody; FBody; FValue; FRight]
  | PBoolLeft => Some [FBody; FBody; FValue; FChildren]
  | PBoolRight => Some [FBody; FBody; FValue; FChildren]
  | PCompareLeft => Some [FBody; FBody; FValue; FLeft]
  | PCompareRight => Some [FBody; FBody; FValue; FChildren]
  | PSubscriptObject => Some [FBody; FBody; FValue; FValue]
  | PSubscriptIndex => Some [FBody; FBody; FValue; FChildren]
  | PSliceBound => Some [FBody; FBody; FValue; FChildren; FChildren]
  | PAttributeObject => Some [FBody; FBody; FValue; FValue]
  | PMethodCallObject => Some [FBody; FBody; FValue; FValue; FValue]
  | PCalledResult => Some [FBody; FBody; FValue; FValue]
  | PWithItem => Some [FBody; FBody; FChildren; FValue]
  | PWithItemAs => Some [FBody; FBody; FChildren; FValue]
  | PForIter => Some [FBody; FBody; FIter]
  | PFString => Some [FBody; FBody; FValue; FChildren; FValue]
  (* f-strings beyond the plain interpolation: a replacement field nested in the format specification
     (width / precision: buildFormattedString turns EVERY child of the interpolation into a FormattedValue, the
     format_specifier child becomes a node whose Children hold the nested interpolation's expression), the
     conversion / debug / spec suffixes next to the expression, a later interpolation, an f-string inside an f-string *)
  | PFStringSpecWidth => Some [FBody; FBody; FValue; FChildren; FValue; FChildren; FChildren]
  | PFStringSpecPrecision => Some [FBody; FBody; FValue; FChildren; FValue; FChildren; FChildren]
  | PFStringSpecFirst => Some [FBody; FBody; FValue; FChildren; FValue; FChildren; FChildren]
  | PFStringSpecOfSecond => Some [FBody; FBody; FValue; FChildren; FValue; FChildren; FChildren]
  | PFStringConversion => Some [FBody; FBody; FValue; FChildren; FValue]
  | PFStringDebug => Some [FBody; FBody; FValue; FChildren; FValue]
  | PFStringWithSpec => Some [FBody; FBody; FValue; FChildren; FValue]
  | PFStringSecond => Some [FBody; FBody; FValue; FChildren; FValue]
  | PFStringNested => Some [FBody; FBody; FValue; FChildren; FValue; FChildren; FValue]
  | PListElt => Some [FBody; FBody; FValue; FChildren]
  | PTupleElt => Some [FBody; FBody; FValue; FChildren]
  | PSetElt => Some [FBody; FBody; FValue; FChildren]
  | PDictKey => Some [FBody; FBody; FValue; FChildren]
  | PDictValue => Some [FBody; FBody; FValue; FChildren]
  | PDictSplat => Some [FBody; FBody; FValue; FChildren]
  | PListCompElt => Some [FBody; FBody; FValue; FValue]
  | PListCompIter => Some [FBody; FBody; FValue; FChildren; FIter]
  | PListCompCond => Some [FBody; FBody; FValue; FChildren; FTest]
  | PDictCompValue => Some [FBody; FBody; FValue; FValue; FChildren]
  | PSetCompElt => Some [FBody; FBody; FValue; FValue]
  | PGenExpElt => Some [FBody; FBody; FValue; FArgs]
  | PLambdaBody => Some [FBody; FBody; FValue; FBody]
  | PNestedDefDefault => Some [FBody; FBody; FArgs; FValue]
  | PNestedDefDecorator => Some [FBody; FBody; FDecorator; FValue]
  | PNestedDefDecoratorArg => Some [FBody; FBody; FDecorator; FValue; FArgs]
  | PYieldValue => Some [FBody; FBody; FValue]
  | PWalrusValue => Some [FBody; FBody; FTest; FChildren; FValue]
  | PExceptType => Some [FBody; FBody; FHandlers; FValue]
  | PMatchSubject => Some [FBody; FBody; FTest]
  | PClassAssignValue => Some [FBody; FValue]
  | PMethodDefault => Some [FBody; FArgs; FValue]
  | PMethodDecoratorArg => Some [FBody; FDecorator; FValue; FArgs]
  | PAssignTarget => Some [FBody; FBody; FTargets]
  | PAugAssignTarget => Some [FBody; FBody; FTargets]
  | PAnnAssignTarget => Some [FBody; FBody; FTargets]
  | PForTarget => Some [FBody; FBody; FTargets]
  | PWithAsTarget => Some [FBody; FBody; FChildren; FTargets]
  | PTupleTarget => Some [FBody; FBody; FTargets; FChildren]
  | PDelTarget => Some [FBody; FBody; FTargets]
  end.

(* positions that are store targets: they can hold obj.x, never an instantiation *)
Definition is_store_target (p : position) : bool :=
  match p with
  | PAssignTarget | PAugAssignTarget | PAnnAssignTarget | PForTarget | PWithAsTarget | PTupleTarget | PDelTarget => true
  | _ => false
  end.
(* positions written outside any method: directly in the class body, or in a method's header
   (default value, decorator argument), where the receiver is not in scope *)
Definition outside_method_body (p : position) : bool :=
  match p with
  | PClassBody | PClassAssignValue | PMethodDefault | PMethodDecoratorArg => true
  | _ => false
  end.

(* positions written directly in the class body: not part of any method *)
Definition class_level (p : position) : bool :=
  match p with PClassBody | PClassAssignValue => true | _ => false end.

(* [reached walk skip p extra]: the walker that starts [skip] fields below the ClassDef node
   (0 for CBO, which walks from the class node; 1 for LCOM, which walks from each method
   node) reaches the node [extra] fields below the root of a mention at position [p] *)
Definition reached (walk : list string) (skip : nat) (p : position) (extra : list field) : bool :=
  match pos_path p with
  | None => false
  | Some path => path_walked walk (skipn skip path ++ extra)
  end.

(* ---- argument slots: a mention written INSIDE the call of another mention ----
   X(Inner()), X(k=Inner()), X( *Inner()), X( **Inner()), X([Inner()]); likewise for self.m(...).
   [slot_path] is the field path from the host's Call node down to the root node of the nested
   expression (ast_builder.go: buildCall / buildCallArguments); checked against the parser with
   "find-path" like [pos_path].  A nested mention is described by the position of the outermost
   mention of its statement and the chain of slots that leads down to it. *)
Inductive slot := SArg | SKeyword | SStarArg | SKwSplat | SListArg.
Definition all_slots : list slot := [SArg; SKeyword; SStarArg; SKwSplat; SListArg].
Definition slot_path (s : slot) : list field :=
  match s with
  | SArg => [FArgs]
  | SKeyword => [FKeywords; FValue]
  | SStarArg => [FArgs; FChildren]
  | SKwSplat => [FArgs; FChildren]
  | SListArg => [FArgs; FChildren]
  end.

(* [reached_at walk skip p slots extra]: as [reached], for the mention nested through [slots]
   inside the mention at position [p] *)
Definition reached_at (walk : list string) (skip : nat) (p : position) (slots : list slot) (extra : list field) : bool :=
  match pos_path p with
  | None => false
  | Some path => path_walked walk (skipn skip path ++ flat_map slot_path slots ++ extra)
  end.
Lemma reached_at_nil : forall walk skip p extra, reached_at walk skip p [] extra = reached walk skip p extra.
Proof. reflexivity. Qed.

Lemma path_walked_app : forall walk a b, path_walked walk (a ++ b) = path_walked walk a && path_walked walk b.
Proof. intros; unfold path_walked; apply forallb_app. Qed.

(* a walker that traverses every slot path reaches a nested mention whenever it reaches the same
   node un-nested *)
Lemma reached_at_slots : forall walk skip p slots extra,
  (forall s, path_walked walk (slot_path s) = true) ->
  reached walk skip p extra = true -> reached_at walk skip p slots extra = true.
Proof.
  intros walk skip p slots extra Hs. unfold reached, reached_at. destruct (pos_path p) as [path|]; [| auto].
  rewrite !path_walked_app. intros H. apply andb_true_iff in H as [H1 H2]. rewrite H1, H2, andb_true_r. simpl.
  induction slots as [| s r IH]; simpl; [reflexivity|]. rewrite path_walked_app, Hs, IH. reflexivity.
Qed.

(* ---- class references and type annotations ---- *)
(* a class reference as written: X is (0, X); mod.X is (mod, X) *)
Definition cref := (N * N)%type.
Definition Plain (n : name) : cref := (0, n).
Definition Qual (m n : name) : cref := (m, n).
Definition is_plain (r : cref) : bool := fst r =? 0.

Inductive ty :=
  | TRef (r : cref)                      (* X, mod.X *)
  | TGen1 (container : name) (a : ty)     (* List[X], Optional[X] *)
  | TGen2 (container : name) (a b : ty)   (* Dict[K, V] *)
  | TUnion (a b : ty)                     (* X | Y *)
  | TNone                                 (* None *)
  | TStr.                                 (* a string literal: names no class syntactically *)

(* classes named by an annotation: the type arguments inside generics and both sides of a
   union.  The container of a generic (List, Dict, Optional, ...) is a typing construct, not a
   coupled class; cbo.go:264-271 ignores it as well. *)
Fixpoint ty_refs (t : ty) : list cref :=
  match t with
  | TRef r => [r]
  | TGen1 _ a => ty_refs a
  | TGen2 _ a b => ty_refs a ++ ty_refs b
  | TUnion a b => ty_refs a ++ ty_refs b
  | TNone | TStr => []
  end.

(* ---- mentions ---- *)
Inductive kind :=
  | KInst (r : cref)            (* X(...), mod.X(...) *)
  | KAttr (obj x : name)        (* obj.x : self.x, cls.x, other.x *)
  | KCall (obj m : name).       (* obj.m() *)

(* a mention: its kind, the position of the outermost mention of its statement, and the chain of
   argument slots from that outermost mention down to it ([] for the outermost mention itself) *)
Record mention := MentionAt { m_kind : kind; m_pos : position; m_slots : list slot }.
Definition Mention (k : kind) (p : position) : mention := MentionAt k p [].

Record method := Method {
  md_name : name;
  md_decos : list name;            (* decorator names: staticmethod, classmethod, property, ... *)
  md_params : list (option ty);    (* annotation of each parameter after the receiver *)
  md_ret : option ty;
  md_body : list mention }.

Inductive member :=
  | MAttr (a : name) (t : ty)      (* a: T   in the class body *)
  | MMethod (m : method)
  | MStmt (m : mention).           (* a statement directly in the class body (PClassBody, PClassAssignValue) *)

Record class := Class { c_name : name; c_bases : list cref; c_members : list member }.

(* ---- the file around the class ---- *)
Inductive import :=
  | ImpFrom (x : name)             (* from m import X *)
  | ImpFromAs (x a : name)         (* from m import X as A *)
  | ImpMod (m : name)              (* import m *)
  | ImpModAs (m a : name).         (* import m as a *)

Record file := File { f_imports : list import; f_classes : list name }.

(* the name an import statement binds *)
Definition bound_name (i : import) : name :=
  match i with ImpFrom x => x | ImpFromAs _ a => a | ImpMod m => m | ImpModAs _ a => a end.

Definition mem (x : name) (l : list name) : bool := existsb (N.eqb x) l.

Definition opt_refs (o : option ty) : list cref := match o with Some t => ty_refs t | None => [] end.
