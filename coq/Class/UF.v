(* Union-find over a fixed vertex list, as a labelling (quick-find): [find] is a lookup, [union x y]
   relabels the whole class of x with the label of y.  lcom.go:135-166 keeps a parent forest with
   union by rank and path compression instead; both represent the same partition after the same
   sequence of unions, and only the partition is observable (the groups are sorted before output).
   The forest, ranks and compression are NOT modelled.

   Main theorem: after running the unions [es], two vertices carry the same label iff they are
   connected by a path of edges of [es] (inductive [conn]). *)
From Coq Require Import NArith List Bool Lia.
Import ListNotations.
Open Scope N_scope.

Definition labels := list (N * N).     (* vertex, label *)

Fixpoint find (l : labels) (a : N) : N :=
  match l with
  | [] => a
  | (v, r) :: t => if v =? a then r else find t a
  end.

Definition union (l : labels) (x y : N) : labels :=
  let lx := find l x in
  let ly := find l y in
  map (fun p => (fst p, if snd p =? lx then ly else snd p)) l.

Definition init (vs : list N) : labels := map (fun v => (v, v)) vs.
Definition uf_run (vs : list N) (es : list (N * N)) : labels :=
  fold_left (fun l e => union l (fst e) (snd e)) es (init vs).
Definition same (l : labels) (a b : N) : bool := find l a =? find l b.

(* connectivity: the reflexive, symmetric, transitive closure of the edge list *)
Inductive conn (es : list (N * N)) : N -> N -> Prop :=
  | conn_refl : forall a, conn es a a
  | conn_edge : forall a b, In (a, b) es -> conn es a b
  | conn_sym : forall a b, conn es a b -> conn es b a
  | conn_trans : forall a b c, conn es a b -> conn es b c -> conn es a c.

Lemma conn_mono : forall es es' a b, (forall e, In e es -> In e es') -> conn es a b -> conn es' a b.
Proof.
  intros es es' a b H C. induction C.
  - apply conn_refl.
  - apply conn_edge; auto.
  - apply conn_sym; auto.
  - eapply conn_trans; eauto.
Qed.

Definition keys (l : labels) : list N := map fst l.

Lemma keys_union : forall l x y, keys (union l x y) = keys l.
Proof. intros; unfold keys, union. rewrite map_map. reflexivity. Qed.

Lemma find_map : forall (g : N -> N) l a, In a (keys l) ->
  find (map (fun p => (fst p, g (snd p))) l) a = g (find l a).
Proof.
  induction l as [| [v r] t IH]; simpl; intros a H; [contradiction|].
  destruct (v =? a) eqn:E; [reflexivity|].
  apply IH. destruct H as [H | H]; [apply N.eqb_neq in E; contradiction | exact H].
Qed.

Lemma find_union : forall l x y a, In a (keys l) ->
  find (union l x y) a = if find l a =? find l x then find l y else find l a.
Proof. intros. unfold union. apply (find_map (fun r => if r =? find l x then find l y else r)); assumption. Qed.

Lemma find_init : forall vs a, find (init vs) a = a.
Proof.
  induction vs as [| v t IH]; simpl; intros a; [reflexivity|].
  destruct (v =? a) eqn:E; [apply N.eqb_eq in E; auto | apply IH].
Qed.

Definition endpoints_in (vs : list N) (es : list (N * N)) : Prop :=
  forall a b, In (a, b) es -> In a vs /\ In b vs.

Lemma conn_endpoints_iff : forall vs es a b, endpoints_in vs es -> conn es a b -> (In a vs <-> In b vs).
Proof.
  intros vs es a b H C; induction C; try tauto. split; intros; apply (H a b); assumption.
Qed.
Lemma conn_endpoints : forall vs es a b, endpoints_in vs es -> conn es a b -> In a vs -> In b vs.
Proof. intros vs es a b H C Ha. apply (conn_endpoints_iff vs es a b H C). exact Ha. Qed.

(* the invariant carried through the fold *)
Definition inv (vs : list N) (l : labels) (done : list (N * N)) : Prop :=
  keys l = vs /\ forall a b, In a vs -> In b vs -> (find l a = find l b <-> conn done a b).

Lemma inv_step : forall vs l done x y, inv vs l done -> In x vs -> In y vs -> endpoints_in vs done ->
  inv vs (union l x y) ((x, y) :: done).
Proof.
  intros vs l done x y [K I] Hx Hy He. split; [rewrite keys_union; exact K|].
  assert (E' : endpoints_in vs ((x, y) :: done)).
  { intros a b [H | H]; [inversion H; subst; auto | apply He; auto]. }
  intros a b Ha Hb. rewrite !find_union by (rewrite K; assumption).
  assert (M : forall u v, conn done u v -> conn ((x, y) :: done) u v).
  { intros u v; apply conn_mono; intros e; simpl; auto. }
  assert (XY : conn ((x, y) :: done) x y) by (apply conn_edge; left; reflexivity).
  split.
  - destruct (find l a =? find l x) eqn:Ea, (find l b =? find l x) eqn:Eb;
      rewrite ?N.eqb_eq, ?N.eqb_neq in *; intros H.
    + apply M, I; auto; congruence.
    + apply (I y b) in H; auto. apply (I a x) in Ea; auto.
      eapply conn_trans; [apply M; exact Ea|]. eapply conn_trans; [exact XY | apply M; exact H].
    + apply (I a y) in H; auto. apply (I b x) in Eb; auto.
      eapply conn_trans; [apply M; exact H|]. apply conn_sym. eapply conn_trans; [apply M; exact Eb | exact XY].
    + apply M, I; auto.
  - intros C.
    assert (G : forall u v, conn ((x, y) :: done) u v -> In u vs -> In v vs ->
              (if find l u =? find l x then find l y else find l u) = (if find l v =? find l x then find l y else find l v)).
    { clear a b Ha Hb C. intros u v C. induction C; intros Hu Hv.
      - reflexivity.
      - destruct H as [H | H].
        + injection H as <- <-. rewrite N.eqb_refl. destruct (find l y =? find l x); reflexivity.
        + assert (find l a = find l b) as -> by (apply I; auto; apply conn_edge; exact H). reflexivity.
      - symmetry; apply IHC; assumption.
      - assert (In b vs) by (eapply conn_endpoints; eauto).
        rewrite IHC1, IHC2 by assumption. reflexivity. }
    apply G; assumption.
Qed.

Lemma inv_fold : forall vs es l done, inv vs l done -> endpoints_in vs done -> endpoints_in vs es ->
  inv vs (fold_left (fun l e => union l (fst e) (snd e)) es l) (rev es ++ done).
Proof.
  induction es as [| [x y] r IH]; simpl; intros l done I Hd He; [exact I|].
  rewrite <- app_assoc; simpl. apply IH.
  - apply inv_step; auto; apply (He x y); left; reflexivity.
  - intros a b [H | H]; [inversion H; subst; apply (He a b); left; reflexivity | apply Hd; exact H].
  - intros a b H; apply (He a b); right; exact H.
Qed.

(* union-find correctness: same label iff connected *)
Theorem uf_run_conn : forall vs es a b, endpoints_in vs es -> In a vs -> In b vs ->
  (same (uf_run vs es) a b = true <-> conn es a b).
Proof.
  intros vs es a b He Ha Hb. unfold same, uf_run. rewrite N.eqb_eq.
  assert (I0 : inv vs (init vs) []).
  { split; [unfold keys, init; rewrite map_map; apply map_id|].
    intros u v _ _. rewrite !find_init. split; [intros ->; apply conn_refl|].
    intros C. induction C; auto; try congruence. contradiction. }
  destruct (inv_fold vs es (init vs) [] I0) as [_ I]; [intros ? ? [] | exact He |].
  rewrite I by assumption. rewrite app_nil_r.
  split; apply conn_mono; intros e; rewrite <- in_rev; auto.
Qed.

(* the partition as a list of groups: one per first vertex of its class, members in vertex order *)
Fixpoint groups_from (sm : N -> N -> bool) (all seen todo : list N) : list (list N) :=
  match todo with
  | [] => []
  | v :: r => if existsb (sm v) seen then groups_from sm all (v :: seen) r
              else filter (sm v) all :: groups_from sm all (v :: seen) r
  end.
Definition groups (sm : N -> N -> bool) (vs : list N) : list (list N) := groups_from sm vs [] vs.

Lemma groups_from_ext : forall sm sm' all seen todo,
  (forall a b, In a all -> In b all -> sm a b = sm' a b) ->
  incl seen all -> incl todo all ->
  groups_from sm all seen todo = groups_from sm' all seen todo.
Proof.
  intros sm sm' all seen todo H. revert seen. induction todo as [| v r IH]; simpl; intros seen Hs Ht; [reflexivity|].
  assert (Hv : In v all) by (apply Ht; left; reflexivity).
  assert (existsb (sm v) seen = existsb (sm' v) seen) as ->.
  { clear - H Hs Hv. induction seen as [| s t IH]; simpl; auto.
    rewrite H, IH; auto; [intros x Hx; apply Hs; right; exact Hx | apply Hs; left; reflexivity]. }
  assert (filter (sm v) all = filter (sm' v) all) as ->.
  { apply filter_ext_in. intros a Ha. apply H; assumption. }
  rewrite (IH (v :: seen)); auto.
  - intros x [<- | Hx]; auto.
  - intros x Hx; apply Ht; right; exact Hx.
Qed.

(* the groups depend only on the relation restricted to the vertices *)
Theorem groups_ext : forall sm sm' vs,
  (forall a b, In a vs -> In b vs -> sm a b = sm' a b) -> groups sm vs = groups sm' vs.
Proof.
  intros. unfold groups. apply groups_from_ext; auto; [intros x [] | apply incl_refl].
Qed.
