(* Proofs about the CBO model and spec of Class/CBO.v (property C13). *)
From Coq Require Import ZArith NArith List String Bool Lia Permutation.
From PV Require Import Gen.DomainConst Gen.ClassConst Class.Syntax Class.SetK Class.CBO.
Import ListNotations.
Open Scope N_scope.
Open Scope list_scope.

(* ---------------------------------------------------------------------------------------- *)
(* facts about the code as it is now (they break when cbo.go changes shape)                  *)
(* ---------------------------------------------------------------------------------------- *)
Lemma code_flags : cbo_imports_unaliased = true /\ cbo_excludes_self = true /\ members_reached = true /\ cbo_walk_never_pruned = true.
Proof. repeat split; reflexivity. Qed.
(* extractClassName reads Attribute / Subscript nodes through Value / Name, as ast_builder.go fills them *)
Lemma code_reads_value_field : cbo_reads_value_field = true.
Proof. reflexivity. Qed.
(* no built-in name of cbo.go's tables contains a dot: a dotted name "mod.X" is never filtered as a built-in
   (Class/CBO.v:should_include_ref) *)
Definition has_dot (s : string) : bool := match index 0 "." s with Some _ => true | None => false end.
Lemma builtin_tables_undotted : forallb (fun s => negb (has_dot s)) (cbo_builtin_types ++ cbo_builtin_functions) = true.
Proof. vm_compute. reflexivity. Qed.

(* every position that can hold an instantiation is visited by walkNode *)
Lemma expr_positions_reached : forall p, is_store_target p = false -> reached cbo_walk_fields 0 p [] = true.
Proof. intros p; destruct p; intros H; try discriminate H; vm_compute; reflexivity. Qed.

(* ... and so is every mention nested, to any depth, in the argument list (positional, keyword,
   *, **, list literal) of a call written in such a position *)
Lemma cbo_slots_walked : forall s, path_walked cbo_walk_fields (slot_path s) = true.
Proof. intros s; destruct s; vm_compute; reflexivity. Qed.
Lemma expr_positions_reached_at : forall p slots, is_store_target p = false ->
  reached_at cbo_walk_fields 0 p slots [] = true.
Proof. intros. apply reached_at_slots; [exact cbo_slots_walked | apply expr_positions_reached; assumption]. Qed.

Lemma collect_imports_bound : forall f, collect_imports f = bound_names f.
Proof.
  intros f; unfold collect_imports, bound_names.
  induction (f_imports f) as [| i r IH]; [reflexivity|].
  cbn [flat_map map]. rewrite IH. destruct i; reflexivity.
Qed.

(* ---------------------------------------------------------------------------------------- *)
(* exactness: every reference form (X, mod.X), every annotation shape, every position          *)
(* ---------------------------------------------------------------------------------------- *)
(* identifiers are not empty *)
Definition ref_ok (r : cref) : Prop := snd r <> 0.

Definition class_mentions (c : class) : list mention := flat_map member_mentions (c_members c).
Definition class_refs (c : class) : list cref :=
  c_bases c ++ flat_map ty_refs (flat_map member_annotations (c_members c)) ++ flat_map instantiated (class_mentions c).
(* well-formedness of the syntax: no reference with an empty class name *)
Definition named_class (c : class) : Prop := Forall ref_ok (class_refs c).
(* calls are written in expression positions (X() = 1 is not Python) *)
Definition inst_positions_ok (c : class) : Prop :=
  Forall (fun m => match m_kind m with KAttr _ _ => True | _ => is_store_target (m_pos m) = false end) (class_mentions c).

Lemma plain_eq : forall r, is_plain r = true -> Plain (snd r) = r.
Proof. intros [a b]; unfold is_plain, Plain; simpl; intros H; apply N.eqb_eq in H; subst; reflexivity. Qed.

Lemma should_include_default : forall n, n <> 0 ->
  should_include default_options n = negb (builtin_type n || builtin_function n).
Proof.
  intros n H; unfold should_include, default_options; simpl.
  apply N.eqb_neq in H; rewrite H; simpl.
  destruct (builtin_function n), (builtin_type n); reflexivity.
Qed.

Lemma extract_class_name_ok : forall r, ref_ok r -> extract_class_name r = Some r.
Proof.
  intros r H; unfold extract_class_name. apply N.eqb_neq in H; rewrite H.
  change cbo_reads_value_field with true. destruct (is_plain r); reflexivity.
Qed.

Lemma should_include_ref_default : forall r, ref_ok r -> should_include_ref default_options r = negb (is_builtin r).
Proof.
  intros r H; unfold should_include_ref, is_builtin. destruct (is_plain r); [| reflexivity].
  rewrite should_include_default by assumption. reflexivity.
Qed.

Lemma dep_of_name_In : forall r z, ref_ok r ->
  (In z (dep_of_name default_options r) <-> z = r /\ is_builtin r = false).
Proof.
  intros r z H; unfold dep_of_name. rewrite extract_class_name_ok, should_include_ref_default by assumption.
  destruct (is_builtin r); simpl; intuition; try discriminate; subst; auto.
Qed.

Definition ty_ok (t : ty) : Prop := Forall ref_ok (ty_refs t).

Lemma annotation_deps_In : forall t z, ty_ok t ->
  (In z (type_annotation_deps default_options t) <-> In z (ty_refs t) /\ is_builtin z = false).
Proof.
  unfold ty_ok. induction t; simpl; intros z H.
  - inversion H; subst. rewrite dep_of_name_In by assumption. intuition; subst; auto.
  - apply IHt; assumption.
  - apply Forall_app in H as [H1 H2]. rewrite !in_app_iff, IHt1, IHt2 by assumption. tauto.
  - apply Forall_app in H as [H1 H2]. rewrite !in_app_iff, IHt1, IHt2 by assumption. tauto.
  - tauto.
  - tauto.
Qed.

Definition opt_ok (o : option ty) : Prop := match o with Some t => ty_ok t | None => True end.
Lemma opt_annotation_deps_In : forall o z, opt_ok o ->
  (In z (opt_annotation_deps default_options o) <-> In z (opt_refs o) /\ is_builtin z = false).
Proof. intros [t|] z H; simpl; [apply annotation_deps_In; assumption | tauto]. Qed.

Lemma member_annotations_refs : forall m,
  flat_map ty_refs (member_annotations m) =
  match m with
  | MAttr _ t => ty_refs t
  | MMethod md => flat_map opt_refs (md_params md) ++ opt_refs (md_ret md)
  | MStmt _ => []
  end.
Proof.
  intros [a t | md | x]; simpl; [apply app_nil_r | | reflexivity].
  rewrite !flat_map_app. f_equal.
  - induction (md_params md) as [| o r IH]; simpl; auto. destruct o; simpl; rewrite IH; reflexivity.
  - destruct (md_ret md); simpl; auto using app_nil_r.
Qed.

Definition member_ok (m : member) : Prop := Forall ty_ok (member_annotations m).

Lemma member_type_hints_In : forall m z, member_ok m ->
  (In z (member_type_hints default_options m) <-> In z (flat_map ty_refs (member_annotations m)) /\ is_builtin z = false).
Proof.
  intros m z; rewrite member_annotations_refs. unfold member_ok. destruct m as [a t | md | x]; simpl; intros H.
  - inversion H; subst. apply annotation_deps_In; assumption.
  - assert (Forall opt_ok (md_params md ++ [md_ret md])) as H'.
    { clear - H. induction (md_params md ++ [md_ret md]) as [| o r IH]; [constructor|].
      simpl in H. destruct o; simpl in H; constructor; simpl; auto.
      - inversion H; auto.
      - inversion H; auto. }
    clear H. apply Forall_app in H' as [H1 H2]. inversion H2 as [| ? ? Hr _]; subst.
    rewrite !in_app_iff, opt_annotation_deps_In by assumption.
    assert (In z (flat_map (opt_annotation_deps default_options) (md_params md)) <->
            In z (flat_map opt_refs (md_params md)) /\ is_builtin z = false) as ->; [| tauto].
    induction H1 as [| o r Ho Hr' IH]; simpl; [tauto|].
    rewrite !in_app_iff, opt_annotation_deps_In, IH by assumption. tauto.
  - tauto.
Qed.

Lemma flat_map_In_ext : forall (A B : Type) (f g : A -> list B) (P : B -> Prop) (Q : A -> Prop) l z,
  Forall Q l -> (forall a, Q a -> (In z (f a) <-> In z (g a) /\ P z)) ->
  (In z (flat_map f l) <-> In z (flat_map g l) /\ P z).
Proof.
  intros A B f g P Q l z HQ H. induction HQ as [| a r Ha Hr IH]; simpl; [tauto|].
  rewrite !in_app_iff, (H a Ha), IH. tauto.
Qed.

Lemma Forall_flat_map : forall (A B : Type) (f : A -> list B) (P : B -> Prop) l,
  Forall P (flat_map f l) <-> Forall (fun a => Forall P (f a)) l.
Proof.
  induction l; simpl; [split; constructor|].
  rewrite Forall_app, IHl. split; [intros [? ?]; constructor; auto | intros H; inversion H; auto].
Qed.

Lemma flat_map_flat_map : forall (A B C : Type) (f : A -> list B) (g : B -> list C) l,
  flat_map g (flat_map f l) = flat_map (fun a => flat_map g (f a)) l.
Proof. induction l; simpl; auto. rewrite flat_map_app, IHl. reflexivity. Qed.

(* a callee, plain or qualified *)
Lemma call_dep_In : forall f r z, ref_ok r ->
  (In z (call_dep default_options (collect_imports f) (f_classes f) r) <->
   In z (filter (coupled_callee f) [r]) /\ is_builtin z = false).
Proof.
  intros f r z Hn. unfold call_dep. rewrite extract_class_name_ok by assumption.
  rewrite collect_imports_bound. unfold coupled_callee. cbn [filter].
  destruct (is_plain r) eqn:Hp.
  - rewrite should_include_default by assumption. unfold default_options; simpl. rewrite orb_false_r.
    unfold is_builtin.
    destruct (mem (snd r) (bound_names f) || mem (snd r) (f_classes f)); simpl.
    + destruct (builtin_type (snd r) || builtin_function (snd r)) eqn:E; simpl.
      * split; [tauto|]. intros [[<- | []] H]. rewrite Hp, E in H; discriminate.
      * split; [intros [<- | []]; rewrite Hp, E; auto | tauto].
    + rewrite andb_false_r; simpl; tauto.
  - unfold should_include_ref. rewrite Hp. simpl.
    destruct (mem (fst r) (bound_names f)); simpl; [| tauto].
    split; [intros [<- | []]; split; auto; unfold is_builtin; rewrite Hp; reflexivity | tauto].
Qed.

Lemma mention_dep_In : forall f m z,
  match m_kind m with
  | KInst r => ref_ok r /\ is_store_target (m_pos m) = false
  | KCall obj x => ref_ok (Qual obj x) /\ is_store_target (m_pos m) = false
  | KAttr _ _ => True
  end ->
  (In z (mention_dep default_options (collect_imports f) (f_classes f) m) <->
   In z (filter (coupled_callee f) (instantiated m)) /\ is_builtin z = false).
Proof.
  intros f [k p sl] z; unfold mention_dep, instantiated; simpl. destruct k as [r | | obj x]; simpl; try tauto.
  - intros [Hn Hs]. rewrite expr_positions_reached_at by assumption. apply call_dep_In; assumption.
  - intros [Hn Hs]. rewrite expr_positions_reached_at by assumption. apply call_dep_In; assumption.
Qed.

Theorem cbo_exact : forall f c, named_class c -> inst_positions_ok c ->
  cbo_deps default_options f c = cbo_spec f c.
Proof.
  intros f c Hp Hi. unfold cbo_deps, cbo_spec. apply set_of_ext. intros z.
  rewrite !filter_In. change (negb cbo_excludes_self) with false; rewrite orb_false_l.
  unfold named_class, class_refs in Hp. apply Forall_app in Hp as [Hb Hp]. apply Forall_app in Hp as [Ha Hm].
  unfold raw_deps, named_classes. rewrite !in_app_iff.
  (* bases *)
  assert (In z (analyze_inheritance default_options c) <-> In z (c_bases c) /\ is_builtin z = false) as ->.
  { unfold analyze_inheritance. rewrite in_flat_map. split.
    - intros [r [Hr Hz]]. rewrite Forall_forall in Hb. apply dep_of_name_In in Hz; [| auto]. destruct Hz; subst; auto.
    - intros [Hr Hz]. exists z; split; auto. rewrite Forall_forall in Hb. apply dep_of_name_In; auto. }
  (* annotations *)
  assert (In z (analyze_type_hints default_options c) <->
          In z (flat_map ty_refs (flat_map member_annotations (c_members c))) /\ is_builtin z = false) as ->.
  { unfold analyze_type_hints. change members_reached with true; cbv iota.
    rewrite flat_map_flat_map.
    apply flat_map_In_ext with (P := fun z => is_builtin z = false) (Q := member_ok).
    - apply Forall_flat_map in Ha. apply Forall_flat_map. exact Ha.
    - intros m Hm'. apply member_type_hints_In; assumption. }
  (* instantiations *)
  assert (In z (analyze_instantiation default_options f c) <->
          In z (filter (coupled_callee f) (flat_map instantiated (flat_map member_mentions (c_members c)))) /\ is_builtin z = false) as ->.
  { unfold analyze_instantiation.
    assert (forall l, filter (coupled_callee f) (flat_map instantiated l) =
                      flat_map (fun m => filter (coupled_callee f) (instantiated m)) l) as ->.
    { induction l; simpl; auto. rewrite filter_app, IHl; reflexivity. }
    apply flat_map_In_ext with (P := fun z => is_builtin z = false)
      (Q := fun m => match m_kind m with
                     | KInst r => ref_ok r /\ is_store_target (m_pos m) = false
                     | KCall obj x => ref_ok (Qual obj x) /\ is_store_target (m_pos m) = false
                     | KAttr _ _ => True
                     end).
    - unfold inst_positions_ok, class_mentions in *. apply Forall_flat_map in Hm.
      rewrite Forall_forall in *. intros m Hin. specialize (Hm m Hin). specialize (Hi m Hin).
      unfold instantiated in Hm. destruct (m_kind m); auto; inversion Hm; auto.
    - intros m Hm'. apply mention_dep_In; assumption. }
  rewrite andb_true_iff, negb_true_iff. tauto.
Qed.

(* the defects that were there (findings F29, F31): now instances of cbo_exact *)
Definition w_file : file := File [ImpMod (nm "pkg")] [nm "K"].
Definition w_base : class := Class (nm "K") [Qual (nm "pkg") (nm "Base")] [].
Definition w_annot : class := Class (nm "K") [] [MAttr (nm "x") (TRef (Qual (nm "pkg") (nm "T")))].
Definition w_inst : class :=
  Class (nm "K") [] [MMethod (Method (nm "run") [] [] None [Mention (KInst (Qual (nm "pkg") (nm "C"))) PBody])].
(* a class referenced through its module is listed under its dotted name *)
Lemma cbo_qualified_counted :
  cbo_deps default_options w_file w_base = [Qual (nm "pkg") (nm "Base")] /\ cbo_spec w_file w_base = [Qual (nm "pkg") (nm "Base")] /\
  cbo_deps default_options w_file w_annot = [Qual (nm "pkg") (nm "T")] /\ cbo_spec w_file w_annot = [Qual (nm "pkg") (nm "T")] /\
  cbo_deps default_options w_file w_inst = [Qual (nm "pkg") (nm "C")] /\ cbo_spec w_file w_inst = [Qual (nm "pkg") (nm "C")] /\
  (* ... an instantiation only when the module is imported *)
  cbo_deps default_options (File [] [nm "K"]) w_inst = [] /\ cbo_spec (File [] [nm "K"]) w_inst = [].
Proof. vm_compute. repeat split; reflexivity. Qed.

(* a generic on either side of a union *)
Definition w_union : class :=
  Class (nm "K") [] [MAttr (nm "a") (TUnion (TGen1 (nm "List") (TRef (Plain (nm "X")))) TNone);
                     MAttr (nm "b") (TUnion (TRef (Plain (nm "Y"))) (TGen2 (nm "Dict") (TRef (Plain (nm "str"))) (TRef (Plain (nm "Z")))))].
Lemma cbo_generic_in_union_counted :
  cbo_deps default_options (File [ImpFrom (nm "X")] [nm "K"]) w_union = [Plain (nm "X"); Plain (nm "Y"); Plain (nm "Z")] /\
  cbo_spec (File [ImpFrom (nm "X")] [nm "K"]) w_union = [Plain (nm "X"); Plain (nm "Y"); Plain (nm "Z")].
Proof. vm_compute. split; reflexivity. Qed.

(* hypotheses of cbo_exact are satisfiable, with every form present *)
Definition ex_file : file := File [ImpFrom (nm "X"); ImpFromAs (nm "Orig") (nm "Y"); ImpMod (nm "pkg"); ImpModAs (nm "package") (nm "pk")] [nm "L"; nm "K"].
Definition ex_class : class :=
  Class (nm "K") [Plain (nm "L"); Plain (nm "Exception"); Qual (nm "pkg") (nm "Base")]
    [MAttr (nm "a") (TGen2 (nm "Dict") (TRef (Plain (nm "str"))) (TUnion (TRef (Plain (nm "X"))) TNone));
     MAttr (nm "b") (TUnion (TGen1 (nm "List") (TRef (Qual (nm "pk") (nm "T")))) TNone);
     MMethod (Method (nm "run") [] [Some (TRef (Plain (nm "Undefined")))] (Some (TGen1 (nm "List") (TRef (Plain (nm "K")))))
       [Mention (KInst (Plain (nm "Y"))) PFinally; Mention (KInst (Plain (nm "Y"))) PKeywordArg;
        Mention (KInst (Plain (nm "K"))) PBody; Mention (KInst (Plain (nm "len"))) PIfTest;
        Mention (KInst (Qual (nm "pk") (nm "C"))) PWhileElse; Mention (KInst (Qual (nm "nomod") (nm "D"))) PBody;
        Mention (KCall (nm "self") (nm "run")) PBody;
        Mention (KInst (Plain (nm "helper"))) PBody; Mention (KAttr (nm "self") (nm "x")) PAssignTarget])].
Example cbo_exact_example :
  named_class ex_class /\ inst_positions_ok ex_class /\
  cbo_deps default_options ex_file ex_class =
    [Plain (nm "L"); Plain (nm "X"); Plain (nm "Y"); Plain (nm "Undefined");
     Qual (nm "pk") (nm "C"); Qual (nm "pk") (nm "T"); Qual (nm "pkg") (nm "Base")].
Proof.
  split; [| split].
  - unfold named_class, ref_ok; vm_compute. repeat constructor; discriminate.
  - unfold inst_positions_ok; vm_compute. repeat constructor.
  - vm_compute. reflexivity.
Qed.

(* ---------------------------------------------------------------------------------------- *)
(* laws of the model: unconditional (all options, all positions, all forms)                   *)
(* ---------------------------------------------------------------------------------------- *)
Local Opaque members_reached.
Lemma model_of_deps : forall o f c f' c', cbo_deps o f c = cbo_deps o f' c' -> cbo_model o f c = cbo_model o f' c'.
Proof. intros; unfold cbo_model; rewrite H; reflexivity. Qed.

(* the dependency set depends only on WHICH dependencies are found, not how often or in which order *)
Lemma cbo_deps_ext : forall o f c f' c', c_name c = c_name c' ->
  (forall z, In z (raw_deps o f c) <-> In z (raw_deps o f' c')) -> cbo_deps o f c = cbo_deps o f' c'.
Proof.
  intros o f c f' c' Hn H. unfold cbo_deps. apply set_of_ext. intros z.
  rewrite !filter_In, H. unfold not_self. rewrite Hn. tauto.
Qed.

Lemma flat_map_perm_In : forall (A B : Type) (g : A -> list B) l l' z,
  Permutation l l' -> (In z (flat_map g l) <-> In z (flat_map g l')).
Proof.
  intros. rewrite !in_flat_map. split; intros [x [Hx Hz]]; exists x; split; auto;
    [eapply Permutation_in; eauto | eapply Permutation_in; [apply Permutation_sym|]; eauto].
Qed.

(* reordering the members and the base classes *)
Theorem cbo_perm_invariant : forall o f n bs bs' ms ms',
  Permutation bs bs' -> Permutation ms ms' ->
  cbo_model o f (Class n bs ms) = cbo_model o f (Class n bs' ms').
Proof.
  intros. apply model_of_deps, cbo_deps_ext; [reflexivity|]. intros z.
  unfold raw_deps, analyze_inheritance, analyze_type_hints, analyze_instantiation; simpl.
  rewrite !in_app_iff.
  rewrite (flat_map_perm_In _ _ (dep_of_name o) bs bs') by assumption.
  rewrite (flat_map_perm_In _ _ (mention_dep o (collect_imports f) (f_classes f)) (flat_map member_mentions ms) (flat_map member_mentions ms')).
  2:{ apply Permutation_flat_map; assumption. }
  destruct members_reached; [| tauto].
  rewrite (flat_map_perm_In _ _ (member_type_hints o) ms ms') by assumption. tauto.
Qed.

(* repeating a member that is already there (an annotated attribute, a whole method) *)
Theorem cbo_repeat_member : forall o f n bs ms m, In m ms ->
  cbo_model o f (Class n bs (m :: ms)) = cbo_model o f (Class n bs ms).
Proof.
  intros. apply model_of_deps, cbo_deps_ext; [reflexivity|]. intros z.
  unfold raw_deps, analyze_type_hints, analyze_instantiation; simpl.
  rewrite !in_app_iff. rewrite flat_map_app, in_app_iff.
  assert (In z (member_type_hints o m) -> In z (flat_map (member_type_hints o) ms)) by (intros; apply in_flat_map; eauto).
  assert (In z (flat_map (mention_dep o (collect_imports f) (f_classes f)) (member_mentions m)) ->
          In z (flat_map (mention_dep o (collect_imports f) (f_classes f)) (flat_map member_mentions ms))).
  { rewrite !in_flat_map. intros [x [Hx Hz]]. exists x; split; auto. apply in_flat_map; eauto. }
  destruct members_reached; simpl; rewrite ?in_app_iff; tauto.
Qed.

(* repeating or reordering the mentions inside one method: only the set of mentions matters *)
Theorem cbo_mentions_as_set : forall o f n bs l1 l2 md body',
  (forall x, In x (md_body md) <-> In x body') ->
  cbo_model o f (Class n bs (l1 ++ MMethod md :: l2)) =
  cbo_model o f (Class n bs (l1 ++ MMethod (Method (md_name md) (md_decos md) (md_params md) (md_ret md) body') :: l2)).
Proof.
  intros. apply model_of_deps, cbo_deps_ext; [reflexivity|]. intros z.
  unfold raw_deps, analyze_type_hints, analyze_instantiation; simpl.
  rewrite !in_app_iff, !flat_map_app; simpl. rewrite !flat_map_app, !in_app_iff; simpl.
  assert (In z (flat_map (mention_dep o (collect_imports f) (f_classes f)) (md_body md)) <->
          In z (flat_map (mention_dep o (collect_imports f) (f_classes f)) body')) as ->.
  { rewrite !in_flat_map. split; intros [x [Hx Hz]]; exists x; split; auto; apply H; auto. }
  destruct members_reached; rewrite ?flat_map_app, ?in_app_iff; simpl; rewrite ?in_app_iff; tauto.
Qed.
Corollary cbo_idempotent : forall o f n bs l1 l2 md x, In x (md_body md) ->
  cbo_model o f (Class n bs (l1 ++ MMethod md :: l2)) =
  cbo_model o f (Class n bs (l1 ++ MMethod (Method (md_name md) (md_decos md) (md_params md) (md_ret md) (x :: md_body md)) :: l2)).
Proof. intros. apply cbo_mentions_as_set. intros y; simpl; intuition; subst; auto. Qed.

(* adding classes to the file that the class does not instantiate (by their bare name) *)
Definition instantiated_names (c : class) : list name :=
  map snd (filter is_plain (flat_map instantiated (class_mentions c))).
Lemma extract_class_name_id : forall r r', extract_class_name r = Some r' -> r' = r.
Proof.
  intros r r'; unfold extract_class_name. destruct (snd r =? 0); [discriminate|].
  destruct (is_plain r); [intros E; inversion E; reflexivity|].
  destruct cbo_reads_value_field; intros E; inversion E; reflexivity.
Qed.
Lemma call_dep_add_class : forall o imports classes n r, (is_plain r = true -> snd r <> n) ->
  call_dep o imports (n :: classes) r = call_dep o imports classes r.
Proof.
  intros o imports classes n r H. unfold call_dep. destruct (extract_class_name r) as [r'|] eqn:E; [| reflexivity].
  apply extract_class_name_id in E; subst r'. destruct (is_plain r) eqn:Hp; [| reflexivity]. simpl.
  assert (snd r =? n = false) as ->; [apply N.eqb_neq; auto | reflexivity].
Qed.
Theorem cbo_add_unrelated : forall o imps classes c n,
  ~ In n (instantiated_names c) ->
  cbo_model o (File imps (n :: classes)) c = cbo_model o (File imps classes) c.
Proof.
  intros o imps classes c n Hn. apply model_of_deps, cbo_deps_ext; [reflexivity|]. intros z.
  unfold raw_deps, analyze_instantiation; simpl. rewrite !in_app_iff.
  assert (In z (flat_map (mention_dep o (collect_imports (File imps (n :: classes))) (n :: classes)) (flat_map member_mentions (c_members c))) <->
          In z (flat_map (mention_dep o (collect_imports (File imps classes)) classes) (flat_map member_mentions (c_members c)))) as ->; [| tauto].
  unfold instantiated_names, class_mentions in Hn.
  change (collect_imports (File imps (n :: classes))) with (collect_imports (File imps classes)).
  induction (flat_map member_mentions (c_members c)) as [| m r IH]; simpl; [tauto|].
  simpl in Hn. rewrite filter_app, map_app, in_app_iff in Hn.
  rewrite !in_app_iff, IH by tauto.
  assert (mention_dep o (collect_imports (File imps classes)) (n :: classes) m =
          mention_dep o (collect_imports (File imps classes)) classes m) as ->; [| tauto].
  destruct m as [k p sl]; unfold mention_dep, instantiated in *; simpl in *. destruct k as [r0 | | obj x]; auto;
    (match goal with |- context [if ?b then _ else _] => destruct b; auto end);
    apply call_dep_add_class; intros Hp; intros E; apply Hn; left; simpl; rewrite Hp; simpl; auto.
Qed.

(* one new distinct coupled class: the count grows by exactly one and the set by exactly that class *)
Theorem cbo_additive : forall o f c f' c' r, c_name c = c_name c' ->
  (forall z, In z (raw_deps o f' c') <-> z = r \/ In z (raw_deps o f c)) ->
  not_self c r = true -> ~ In r (cbo_deps o f c) ->
  r_count (cbo_model o f' c') = (r_count (cbo_model o f c) + 1)%Z /\
  r_deps (cbo_model o f' c') = insert r (r_deps (cbo_model o f c)).
Proof.
  intros o f c f' c' r Hn H Hs Hnew. unfold cbo_model; simpl.
  assert (cbo_deps o f' c' = insert r (cbo_deps o f c)) as E.
  { unfold cbo_deps. apply sorted_ext; [apply set_of_sorted | apply insert_sorted, set_of_sorted |].
    intros z. rewrite In_insert, !In_set_of, !filter_In, H. unfold not_self in *. rewrite <- Hn.
    split.
    - intros [[-> | Hz] Hk]; [left; reflexivity | right; split; assumption].
    - intros [-> | [Hz Hk]]; (split; [tauto|]).
      + rewrite Hs. apply orb_true_r.
      + assumption. }
  rewrite E. split; auto.
  rewrite insert_notin_length by assumption. rewrite Nat2Z.inj_succ. reflexivity.
Qed.
(* ... as a base class *)
Corollary cbo_additive_base : forall o f n bs ms r,
  dep_of_name o r = [r] -> not_self (Class n bs ms) r = true -> ~ In r (cbo_deps o f (Class n bs ms)) ->
  r_count (cbo_model o f (Class n (r :: bs) ms)) = (r_count (cbo_model o f (Class n bs ms)) + 1)%Z.
Proof.
  intros. eapply cbo_additive; eauto. intros z.
  unfold raw_deps, analyze_inheritance; simpl. rewrite H. simpl. intuition.
Qed.
(* ... as an instantiation in any visited position of a new method *)
Corollary cbo_additive_instantiation : forall o f n bs ms r p sl md,
  reached_at cbo_walk_fields 0 p sl [] = true -> call_dep o (collect_imports f) (f_classes f) r = [r] ->
  md_body md = [MentionAt (KInst r) p sl] -> md_params md = [] -> md_ret md = None ->
  not_self (Class n bs ms) r = true -> ~ In r (cbo_deps o f (Class n bs ms)) ->
  r_count (cbo_model o f (Class n bs (MMethod md :: ms))) = (r_count (cbo_model o f (Class n bs ms)) + 1)%Z.
Proof.
  intros o f n bs ms r p sl md Hr Hc Hb Hp Hret Hs Hnew. eapply cbo_additive; eauto. intros z.
  unfold raw_deps, analyze_type_hints, analyze_instantiation; simpl.
  rewrite Hb, Hp, Hret; simpl. unfold mention_dep; simpl. rewrite Hr, Hc.
  destruct members_reached; simpl; rewrite !in_app_iff; simpl; intuition (subst; auto).
Qed.

(* renaming the class itself (to a name that occurs nowhere in it or in the file) *)
Definition ren (k k' : name) (r : cref) : cref := if keqb r (Plain k) then Plain k' else r.
Fixpoint ren_ty (k k' : name) (t : ty) : ty :=
  match t with
  | TRef r => TRef (ren k k' r)
  | TGen1 g a => TGen1 g (ren_ty k k' a)
  | TGen2 g a b => TGen2 g (ren_ty k k' a) (ren_ty k k' b)
  | TUnion a b => TUnion (ren_ty k k' a) (ren_ty k k' b)
  | TNone => TNone | TStr => TStr
  end.
Definition ren_mention (k k' : name) (m : mention) : mention :=
  match m_kind m with KInst r => MentionAt (KInst (ren k k' r)) (m_pos m) (m_slots m) | _ => m end.
Definition ren_member (k k' : name) (m : member) : member :=
  match m with
  | MAttr a t => MAttr a (ren_ty k k' t)
  | MMethod md => MMethod (Method (md_name md) (md_decos md) (map (option_map (ren_ty k k')) (md_params md))
                                  (option_map (ren_ty k k') (md_ret md)) (map (ren_mention k k') (md_body md)))
  | MStmt x => MStmt (ren_mention k k' x)
  end.
Definition ren_class (k' : name) (c : class) : class :=
  Class k' (map (ren (c_name c) k') (c_bases c)) (map (ren_member (c_name c) k') (c_members c)).
Definition ren_file (k k' : name) (f : file) : file :=
  File (f_imports f) (map (fun n => if n =? k then k' else n) (f_classes f)).

(* FULL statement (not proved here; the check tests it on the implementation for classes that
   do mention themselves):
     forall o f c k', Plain k' fresh for c and f ->
       cbo_model o (ren_file (c_name c) k' f) (ren_class k' c) = cbo_model o f c.
   Proved: the case where the class does not mention its own (old or new) name. *)
Theorem cbo_rename_self_partial : forall o imps others n n' bs ms,
  ~ In n (instantiated_names (Class n bs ms)) -> ~ In n' (instantiated_names (Class n bs ms)) ->
  ~ In (Plain n) (raw_deps o (File imps others) (Class n bs ms)) ->
  ~ In (Plain n') (raw_deps o (File imps others) (Class n bs ms)) ->
  cbo_model o (File imps (n' :: others)) (Class n' bs ms) = cbo_model o (File imps (n :: others)) (Class n bs ms).
Proof.
  intros o imps others n n' bs ms H1 H2 H3 H4.
  transitivity (cbo_model o (File imps others) (Class n' bs ms)).
  { apply cbo_add_unrelated. exact H2. }
  transitivity (cbo_model o (File imps others) (Class n bs ms)).
  2:{ symmetry. apply cbo_add_unrelated. exact H1. }
  apply model_of_deps. unfold cbo_deps. apply set_of_ext. intros z.
  change (raw_deps o (File imps others) (Class n' bs ms)) with (raw_deps o (File imps others) (Class n bs ms)).
  rewrite !filter_In. unfold not_self; simpl.
  split; intros [Hz Hk]; split; auto; try (apply orb_true_iff; right); apply negb_true_iff, keqb_neq; intros ->; contradiction.
Qed.

(* risk table *)
Theorem cbo_risk_table : forall o n,
  assess_risk o n = spec_risk (o_low o) (o_medium o) n /\
  (spec_risk (o_low o) (o_medium o) n = Low <-> (n <= o_low o)%Z) /\
  (spec_risk (o_low o) (o_medium o) n = Medium <-> (o_low o < n <= o_medium o)%Z) /\
  (spec_risk (o_low o) (o_medium o) n = High <-> (o_low o < n /\ o_medium o < n)%Z).
Proof.
  intros o n. split; [reflexivity|]. unfold spec_risk.
  destruct (Z.leb_spec n (o_low o)), (Z.leb_spec n (o_medium o)); repeat split; intros; try discriminate; try lia; auto.
Qed.
Lemma default_thresholds : o_low default_options = 3%Z /\ o_medium default_options = 7%Z.
Proof. split; reflexivity. Qed.

(* the count is the number of listed dependencies, each listed once, never the class itself *)
Theorem cbo_count_distinct : forall o f c,
  r_count (cbo_model o f c) = Z.of_nat (List.length (r_deps (cbo_model o f c))) /\
  NoDup (r_deps (cbo_model o f c)) /\ ~ In (Plain (c_name c)) (r_deps (cbo_model o f c)).
Proof.
  intros; unfold cbo_model; simpl. split; [reflexivity|]. split; [apply set_of_nodup|].
  unfold cbo_deps. rewrite In_set_of, filter_In. change (negb cbo_excludes_self) with false.
  unfold not_self. rewrite keqb_refl. simpl. intros [_ H]; discriminate.
Qed.
