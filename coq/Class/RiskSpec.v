(* C13 / C14: the risk level is monotone in the metric (a smaller CBO / LCOM4 never has a higher
   risk level), for every pair of thresholds, ordered or not; and it is monotone in the thresholds
   (raising a threshold never raises a level). *)
From Coq Require Import ZArith Lia.
From PV Require Import Class.CBO.

Definition risk_rank (r : risk) : Z := match r with Low => 0 | Medium => 1 | High => 2 end%Z.

Lemma spec_risk_mono low medium n n' : (n <= n')%Z ->
  (risk_rank (spec_risk low medium n) <= risk_rank (spec_risk low medium n'))%Z.
Proof.
  intro H. unfold spec_risk.
  destruct (Z.leb_spec n low), (Z.leb_spec n' low), (Z.leb_spec n medium), (Z.leb_spec n' medium);
    cbn [risk_rank]; lia.
Qed.

Lemma spec_risk_threshold_mono low low' medium medium' n : (low <= low')%Z -> (medium <= medium')%Z ->
  (risk_rank (spec_risk low' medium' n) <= risk_rank (spec_risk low medium n))%Z.
Proof.
  intros H1 H2. unfold spec_risk.
  destruct (Z.leb_spec n low), (Z.leb_spec n low'), (Z.leb_spec n medium), (Z.leb_spec n medium');
    cbn [risk_rank]; lia.
Qed.

Example risk_mono_nonvacuous :
  (risk_rank (spec_risk 2 5 2) < risk_rank (spec_risk 2 5 3) < risk_rank (spec_risk 2 5 6))%Z.
Proof. vm_compute. split; reflexivity. Qed.
