(* C13: CBO risk level monotone in the metric and in the thresholds. *)
From Coq Require Import ZArith Lia.
From PV Require Import Class.CBO Class.CBOProofs Class.RiskSpec.

Theorem cbo_risk_mono o n n' : (n <= n')%Z -> (risk_rank (assess_risk o n) <= risk_rank (assess_risk o n'))%Z.
Proof.
  intro H. destruct (cbo_risk_table o n) as [E _]. destruct (cbo_risk_table o n') as [E' _].
  rewrite E, E'. apply spec_risk_mono, H.
Qed.

Theorem cbo_risk_threshold_mono o o' n : (o_low o <= o_low o')%Z -> (o_medium o <= o_medium o')%Z ->
  (risk_rank (assess_risk o' n) <= risk_rank (assess_risk o n))%Z.
Proof.
  intros H1 H2. destruct (cbo_risk_table o n) as [E _]. destruct (cbo_risk_table o' n) as [E' _].
  rewrite E, E'. apply spec_risk_threshold_mono; assumption.
Qed.

