(* Entry points used by the correspondence check harness/c14.py. *)
From Coq Require Import ZArith NArith List String Bool.
From PV Require Import Gen.DomainConst Gen.ClassConst Class.Syntax Class.SetK Class.UF Class.CBO Class.CBORun Class.LCOM.
Import ListNotations.
Open Scope N_scope.

(* model: (LCOM4, groups, total, excluded, risk); spec: (LCOM4, groups, vertices) *)
Definition run_lcom (o : lcom_options) (c : class) :=
  let r := lcom_model o c in
  ((l_lcom4 r, l_groups r, l_total r, l_excluded r, risk_code (l_risk r)),
   (lcom4_spec c, spec_groups c, spec_vertices c)).

Definition lcom_reached_table : list (bool * bool) :=
  map (fun p => (reached lcom_walk_fields 1 p [], reached lcom_walk_fields 1 p [FValue])) all_positions.
