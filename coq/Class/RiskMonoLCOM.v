(* C14: LCOM4 risk level monotone in the metric and in the thresholds. *)
From Coq Require Import ZArith Lia.
From PV Require Import Class.CBO Class.LCOM Class.LCOMProofs Class.RiskSpec.

Theorem lcom_risk_mono o n n' : (n <= n')%Z ->
  (risk_rank (lcom_assess_risk o n) <= risk_rank (lcom_assess_risk o n'))%Z.
Proof.
  intro H. destruct (lcom_risk_table o n) as [E _]. destruct (lcom_risk_table o n') as [E' _].
  rewrite E, E'. apply spec_risk_mono, H.
Qed.

Theorem lcom_risk_threshold_mono o o' n : (lo_low o <= lo_low o')%Z -> (lo_medium o <= lo_medium o')%Z ->
  (risk_rank (lcom_assess_risk o' n) <= risk_rank (lcom_assess_risk o n))%Z.
Proof.
  intros H1 H2. destruct (lcom_risk_table o n) as [E _]. destruct (lcom_risk_table o' n) as [E' _].
  rewrite E, E'. apply spec_risk_threshold_mono; assumption.
Qed.

