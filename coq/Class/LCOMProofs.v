(* Proofs about the LCOM4 model and spec of Class/LCOM.v (property C14). *)
From Coq Require Import ZArith NArith List String Bool Lia.
From PV Require Import Gen.DomainConst Gen.ClassConst Class.Syntax Class.SetK Class.UF Class.CBO Class.LCOM.
Import ListNotations.
Open Scope N_scope.
Open Scope list_scope.

(* ---------------------------------------------------------------------------------------- *)
(* facts about the code as it is now                                                          *)
(* ---------------------------------------------------------------------------------------- *)
(* every position inside a method is reached by walkNode from the method node, both the root
   node of the mention and (for self.m()) the Attribute node under the Call node *)
Lemma method_positions_reached : forall p, class_level p = false ->
  reached lcom_walk_fields 1 p [] = true /\ reached lcom_walk_fields 1 p [FValue] = true.
Proof. intros p; destruct p; intros H; try discriminate H; vm_compute; split; reflexivity. Qed.
Lemma lcom_slots_walked : forall s, path_walked lcom_walk_fields (slot_path s) = true.
Proof. intros s; destruct s; vm_compute; reflexivity. Qed.
(* ... also when nested in the argument list of another call, to any depth *)
Lemma method_positions_reached_at : forall p slots, class_level p = false ->
  reached_at lcom_walk_fields 1 p slots [] = true /\ reached_at lcom_walk_fields 1 p slots [FValue] = true.
Proof.
  intros p slots H. destruct (method_positions_reached p H).
  split; apply reached_at_slots; auto using lcom_slots_walked.
Qed.

Lemma self_name_is_self : model_self = spec_self.
Proof. reflexivity. Qed.

Lemma excluded_one : forall d,
  existsb (fun s => nm s =? d) lcom_excluded_decorators = (d =? nm "staticmethod") || (d =? nm "classmethod").
Proof.
  intros d. unfold lcom_excluded_decorators. cbn [existsb].
  rewrite orb_false_r, (N.eqb_sym d (nm "staticmethod")), (N.eqb_sym d (nm "classmethod")). apply orb_comm.
Qed.
Lemma excluded_same : forall md, is_class_or_static md = spec_excluded md.
Proof.
  intros md. unfold is_class_or_static, spec_excluded. induction (md_decos md) as [| d r IH]; [reflexivity|].
  cbn [existsb]. rewrite IH, excluded_one. reflexivity.
Qed.

(* ---------------------------------------------------------------------------------------- *)
(* the access collection is complete: per method, model = spec                                 *)
(* ---------------------------------------------------------------------------------------- *)
Lemma method_mentions_level : forall md m, In m (method_mentions md) -> class_level (m_pos m) = false.
Proof. intros md m H. unfold method_mentions in H. apply filter_In in H as [_ H]. apply negb_true_iff in H. exact H. Qed.

Theorem vars_exact : forall md, flat_map mention_vars (method_mentions md) = spec_attrs md.
Proof.
  intros md. unfold spec_attrs.
  assert (H := method_mentions_level md). induction (method_mentions md) as [| m r IH]; simpl; [reflexivity|].
  rewrite IH by (intros; apply H; right; assumption). f_equal.
  destruct (method_positions_reached_at (m_pos m) (m_slots m) (H m (or_introl eq_refl))) as [R1 R2].
  destruct m as [k p sl]; simpl in R1, R2. unfold mention_vars; simpl.
  destruct k; simpl; rewrite ?R1, ?R2, ?andb_true_r; reflexivity.
Qed.
Theorem calls_exact : forall md, flat_map mention_calls (method_mentions md) = spec_calls md.
Proof.
  intros md. unfold spec_calls.
  assert (H := method_mentions_level md). induction (method_mentions md) as [| m r IH]; simpl; [reflexivity|].
  rewrite IH by (intros; apply H; right; assumption). f_equal.
  destruct (method_positions_reached_at (m_pos m) (m_slots m) (H m (or_introl eq_refl))) as [R1 R2].
  destruct m as [k p sl]; simpl in R1, R2. unfold mention_calls; simpl.
  destruct k; simpl; rewrite ?R1, ?andb_true_r; reflexivity.
Qed.

(* ---------------------------------------------------------------------------------------- *)
(* the spec's closure decides connectivity in the method graph                                 *)
(* ---------------------------------------------------------------------------------------- *)
Lemma spec_edges_endpoints : forall c, endpoints_in (spec_vertices c) (spec_edges c).
Proof.
  intros c a b H. unfold spec_edges in H.
  apply in_flat_map in H as [x [Hx H]]. apply in_flat_map in H as [y [Hy H]].
  destruct (spec_edge (instance_methods c) x y); [| contradiction].
  destruct H as [H | []]. inversion H; subst. auto.
Qed.
Lemma spec_edges_iff : forall c a b,
  In (a, b) (spec_edges c) <->
  In a (spec_vertices c) /\ In b (spec_vertices c) /\ spec_edge (instance_methods c) a b = true.
Proof.
  intros c a b. unfold spec_edges. rewrite in_flat_map. split.
  - intros [x [Hx H]]. apply in_flat_map in H as [y [Hy H]].
    destruct (spec_edge (instance_methods c) x y) eqn:E; [| contradiction].
    destruct H as [H | []]. inversion H; subst. auto.
  - intros [Ha [Hb E]]. exists a; split; auto. apply in_flat_map. exists b; split; auto. rewrite E; left; reflexivity.
Qed.

Theorem spec_decides_connectivity : forall c a b, In a (spec_vertices c) -> In b (spec_vertices c) ->
  (spec_same c a b = true <-> conn (spec_edges c) a b).
Proof. intros. apply uf_run_conn; auto using spec_edges_endpoints. Qed.

(* ---------------------------------------------------------------------------------------- *)
(* model: the partition the unions produce = connectivity over the unions performed            *)
(* ---------------------------------------------------------------------------------------- *)
Lemma in_nset : forall x l, In x (nset l) <-> In x l.
Proof.
  intros x l. unfold nset. rewrite in_map_iff. split.
  - intros [[a b] [E H]]. simpl in E; subst. apply In_set_of, in_map_iff in H as [y [Ey Hy]].
    unfold Plain in Ey. inversion Ey; subst; auto.
  - intros H. exists (Plain x); split; [reflexivity|]. apply In_set_of, in_map_iff. exists x; auto.
Qed.

Lemma get_in_keys : forall (V : Type) k (l : list (name * V)) v, get k l = Some v -> In k (map fst l).
Proof.
  induction l as [| [k' v'] t IH]; simpl; intros v H; [discriminate|].
  destruct (k' =? k) eqn:E; [apply N.eqb_eq in E; auto | right; eapply IH; eauto].
Qed.

Definition model_edges (methods : list (name * minfo)) : list (name * name) :=
  var_edges (model_vertices methods) methods ++ call_edges methods.

Lemma model_edges_endpoints : forall methods, endpoints_in (model_vertices methods) (model_edges methods).
Proof.
  intros methods a b H. unfold model_edges in H. apply in_app_iff in H as [H | H].
  - unfold var_edges in H. apply in_flat_map in H as [v [_ H]].
    destruct (filter _ (model_vertices methods)) as [| h t] eqn:F; [contradiction|].
    apply in_map_iff in H as [x [E Hx]]. injection E as <- <-.
    assert (In h (h :: t)) as Ha by (left; reflexivity). assert (In x (h :: t)) as Hb by (right; exact Hx).
    rewrite <- F in Ha, Hb. apply filter_In in Ha as [Ha _]. apply filter_In in Hb as [Hb _]. auto.
  - unfold call_edges in H. apply in_flat_map in H as [[n i] [Hn H]]. apply in_flat_map in H as [callee [_ H]].
    simpl in H. destruct (get callee methods) eqn:G; [| contradiction]. destruct H as [H | []]. inversion H; subst.
    unfold model_vertices. rewrite !in_nset. split.
    + apply in_map_iff. exists (a, i); auto.
    + eapply get_in_keys; eauto.
Qed.

Theorem model_partition_is_connectivity : forall methods a b,
  In a (model_vertices methods) -> In b (model_vertices methods) ->
  (same (model_labels methods) a b = true <-> conn (model_edges methods) a b).
Proof. intros. apply uf_run_conn; auto using model_edges_endpoints. Qed.

(* the unions performed (first user of a variable with every other user) connect exactly what the
   method graph connects (every two users of a variable; caller and callee) *)
Definition graph_edge (methods : list (name * minfo)) (a b : name) : Prop :=
  (exists v, has v (vars_of methods a) = true /\ has v (vars_of methods b) = true) \/
  (exists i, In (a, i) methods /\ In b (snd i) /\ get b methods <> None).

Lemma has_in_allvars : forall methods n v, has v (vars_of methods n) = true ->
  In v (nset (flat_map (fun p => fst (snd p)) methods)).
Proof.
  intros methods n v H. apply in_nset. unfold vars_of in H.
  destruct (get n methods) as [i|] eqn:G; [| discriminate].
  unfold has, mem in H. apply existsb_exists in H as [x [Hx E]]. apply N.eqb_eq in E; subst x.
  apply in_flat_map. exists (n, i). split; [| exact Hx].
  clear - G. induction methods as [| [k' v'] t IH]; simpl in *; [discriminate|].
  destruct (k' =? n) eqn:E; [apply N.eqb_eq in E; inversion G; subst; auto | right; auto].
Qed.

Theorem unions_connect_the_method_graph : forall methods a b,
  In a (model_vertices methods) -> In b (model_vertices methods) ->
  graph_edge methods a b -> conn (model_edges methods) a b.
Proof.
  intros methods a b Ha Hb [[v [Va Vb]] | [i [Ia [Hc Gb]]]].
  - (* both use v: both are joined to the first user of v *)
    assert (Hv := has_in_allvars methods a v Va).
    remember (filter (fun n => has v (vars_of methods n)) (model_vertices methods)) as users eqn:U.
    assert (Ua : In a users) by (subst users; apply filter_In; auto).
    assert (Ub : In b users) by (subst users; apply filter_In; auto).
    assert (E : forall x, In x users -> conn (model_edges methods) (hd a users) x).
    { intros x Hx. destruct users as [| h t]; [contradiction|]. simpl.
      destruct Hx as [<- | Hx]; [apply conn_refl|].
      apply conn_edge. unfold model_edges. apply in_app_iff; left.
      unfold var_edges. apply in_flat_map. exists v; split; [exact Hv|].
      rewrite <- U. apply in_map_iff. exists x; auto. }
    eapply conn_trans; [apply conn_sym, E; exact Ua | apply E; exact Ub].
  - apply conn_edge. unfold model_edges. apply in_app_iff; right.
    unfold call_edges. apply in_flat_map. exists (a, i). split; [exact Ia|].
    apply in_flat_map. exists b; split; [exact Hc|]. simpl. destruct (get b methods); [left; reflexivity | congruence].
Qed.

Theorem unions_stay_inside_the_method_graph : forall methods a b,
  In (a, b) (model_edges methods) -> a = b \/ graph_edge methods a b.
Proof.
  intros methods a b H. unfold model_edges in H. apply in_app_iff in H as [H | H].
  - unfold var_edges in H. apply in_flat_map in H as [v [_ H]].
    destruct (filter _ (model_vertices methods)) as [| h t] eqn:F; [contradiction|].
    apply in_map_iff in H as [x [E Hx]]. injection E as <- <-.
    assert (In h (h :: t)) as Ha by (left; reflexivity). assert (In x (h :: t)) as Hb by (right; exact Hx).
    rewrite <- F in Ha, Hb. apply filter_In in Ha as [_ Ha]. apply filter_In in Hb as [_ Hb].
    right; left; exists v; auto.
  - unfold call_edges in H. apply in_flat_map in H as [[n i] [Hn H]]. apply in_flat_map in H as [callee [Hc H]].
    simpl in H, Hc. destruct (get callee methods) eqn:G; [| contradiction]. destruct H as [H | []]. inversion H; subst.
    right; right. exists i. repeat split; auto. congruence.
Qed.

(* connectivity in the model's own method graph: vertices = collected methods, edges = two methods
   using a common self attribute, or one calling the other through self *)
Inductive gconn (methods : list (name * minfo)) : name -> name -> Prop :=
  | gc_refl : forall a, gconn methods a a
  | gc_edge : forall a b, In a (model_vertices methods) -> In b (model_vertices methods) ->
                          graph_edge methods a b -> gconn methods a b
  | gc_sym : forall a b, gconn methods a b -> gconn methods b a
  | gc_trans : forall a b c, gconn methods a b -> gconn methods b c -> gconn methods a c.

(* C14_components: the partition computed by the unions = the connected components of the method graph *)
Theorem model_components : forall methods a b,
  In a (model_vertices methods) -> In b (model_vertices methods) ->
  (same (model_labels methods) a b = true <-> gconn methods a b).
Proof.
  intros methods a b Ha Hb. rewrite model_partition_is_connectivity by assumption. split.
  - intros C. clear Ha Hb. induction C.
    + apply gc_refl.
    + destruct (unions_stay_inside_the_method_graph methods a b H) as [-> | G]; [apply gc_refl|].
      destruct (model_edges_endpoints methods a b H). apply gc_edge; assumption.
    + apply gc_sym; assumption.
    + eapply gc_trans; eassumption.
  - intros G. clear Ha Hb. induction G.
    + apply conn_refl.
    + apply unions_connect_the_method_graph; assumption.
    + apply conn_sym; assumption.
    + eapply conn_trans; eassumption.
Qed.

(* ---------------------------------------------------------------------------------------- *)
(* at most one instance method: LCOM4 = 1; risk table                                          *)
(* ---------------------------------------------------------------------------------------- *)
Theorem model_single_method : forall o c,
  (List.length (fst (collect_methods (c_members c) [] 0%Z)) <= 1)%nat -> l_lcom4 (lcom_model o c) = 1%Z.
Proof.
  intros o c H. unfold lcom_model. destruct (collect_methods (c_members c) [] 0%Z) as [methods excluded]; simpl in *.
  apply Nat.leb_le in H. rewrite H. reflexivity.
Qed.
Theorem spec_single_method : forall c, (List.length (spec_vertices c) <= 1)%nat -> lcom4_spec c = 1%Z.
Proof. intros c H. unfold lcom4_spec. apply Nat.leb_le in H. rewrite H. reflexivity. Qed.

Theorem model_count_is_groups : forall o c,
  (1 < List.length (fst (collect_methods (c_members c) [] 0%Z)))%nat ->
  l_lcom4 (lcom_model o c) = Z.of_nat (List.length (l_groups (lcom_model o c))).
Proof.
  intros o c H. unfold lcom_model. destruct (collect_methods (c_members c) [] 0%Z) as [methods excluded]; simpl in *.
  destruct (List.length methods <=? 1)%nat eqn:E; [apply Nat.leb_le in E; lia | reflexivity].
Qed.

Theorem lcom_risk_table : forall o n,
  lcom_assess_risk o n = spec_risk (lo_low o) (lo_medium o) n /\
  (spec_risk (lo_low o) (lo_medium o) n = Low <-> (n <= lo_low o)%Z) /\
  (spec_risk (lo_low o) (lo_medium o) n = Medium <-> (lo_low o < n <= lo_medium o)%Z) /\
  (spec_risk (lo_low o) (lo_medium o) n = High <-> (lo_low o < n /\ lo_medium o < n)%Z).
Proof.
  intros o n. split; [reflexivity|]. unfold spec_risk.
  destruct (Z.leb_spec n (lo_low o)), (Z.leb_spec n (lo_medium o)); repeat split; intros; try discriminate; try lia; auto.
Qed.
Lemma lcom_default_thresholds : lo_low lcom_default_options = 2%Z /\ lo_medium lcom_default_options = 5%Z.
Proof. split; reflexivity. Qed.
