(* C13 — CBO (coupling between objects).
   MODEL of internal/analyzer/cbo.go on the class-level syntax of Class/Syntax.v, and the SPEC
   the property text describes.  Proofs are in Class/CBOProofs.v.

   What the model takes from the code (regenerated into Gen/ClassConst.v on every run):
   the list of parser.Node fields walkNode traverses (which positions are visited), the
   built-in tables, whether imports without "as" are collected, whether the class's own name
   is removed, whether Attribute / Subscript nodes are read through Value / Name, the risk
   comparisons; thresholds from Gen/DomainConst.v.

   Dependency names: a class written X is listed as "X", a class written mod.X as "mod.X"
   (extractClassName joins the dotted name).  Module qualifiers and imported module names are
   single identifiers here (import a.b / a.b.X is outside Class/Syntax.v). *)
From Coq Require Import ZArith NArith List String Bool.
From PV Require Import Gen.DomainConst Gen.ClassConst Class.Syntax Class.SetK.
Import ListNotations.
Open Scope N_scope.

Inductive risk := Low | Medium | High.

Record cbo_options := CboOptions { o_include_builtins : bool; o_low : Z; o_medium : Z }.
(* DefaultCBOOptions cbo.go:55-64 / service/cbo_service.go:312-321 (ExcludePatterns empty, IncludeImports true) *)
Definition default_options : cbo_options :=
  CboOptions false domain_DefaultCBOLowThreshold domain_DefaultCBOMediumThreshold.

(* initializeBuiltinTypes cbo.go:729-758 *)
Definition builtin_type (n : name) : bool := existsb (fun s => nm s =? n) cbo_builtin_types.
Definition builtin_function (n : name) : bool := existsb (fun s => nm s =? n) cbo_builtin_functions.

(* ------------------------------------------------------------------------------------------ *)
(* MODEL                                                                                       *)
(* ------------------------------------------------------------------------------------------ *)

(* collectImports cbo.go:403-450: the keys of importedNames.  An Alias child exists only for
   "as" imports; names without "as" come from the import node's Names (unaliasedNames). *)
Definition collect_imports (f : file) : list name :=
  flat_map (fun i => match i with
                     | ImpFrom x => if cbo_imports_unaliased then [x] else []
                     | ImpFromAs _ a => [a]
                     | ImpMod m => if cbo_imports_unaliased then [m] else []
                     | ImpModAs _ a => [a]
                     end) (f_imports f).

(* shouldIncludeDependency cbo.go:478-516 with no exclude patterns and IncludeImports = true *)
Definition should_include (o : cbo_options) (n : name) : bool :=
  negb (n =? 0) && negb (builtin_function n) && negb (negb (o_include_builtins o) && builtin_type n).

(* extractClassName cbo.go on a base class / annotation / callee node: a Name gives its name; an
   Attribute node (mod.X) keeps its object in Value and its attribute in Name, the function
   joins them: "mod.X" ("" when a part is empty).  (Before fix: aa7c715 it read Left and Right,
   which are nil for an Attribute node: finding F29; Gen/ClassConst.v:cbo_reads_value_field.) *)
Definition extract_class_name (r : cref) : option cref :=
  if snd r =? 0 then None
  else if is_plain r then Some r
  else if cbo_reads_value_field then Some r else None.

(* shouldIncludeDependency on the extracted name: a dotted name "mod.X" is in neither built-in
   table (CBOProofs.v:builtin_tables_undotted) *)
Definition should_include_ref (o : cbo_options) (r : cref) : bool :=
  if is_plain r then should_include o (snd r) else true.

Definition dep_of_name (o : cbo_options) (r : cref) : list cref :=
  match extract_class_name r with
  | Some n => if should_include_ref o n then [n] else []
  | None => []
  end.

(* analyzeInheritance cbo.go:171-189 *)
Definition analyze_inheritance (o : cbo_options) (c : class) : list cref :=
  flat_map (dep_of_name o) (c_bases c).

(* extractTypeAnnotationDependencies cbo.go.  An annotation reaches the analyser in one of
   several node shapes, depending on how tree-sitter reads it:
     X, mod.X                 Name / Attribute                               -> the class
     List[X]                  generic_type (identifier[...])                 -> its type_parameter children
     typing.List[X]           Subscript (Value = container, Children = args) -> its children
     X | Y, X | List[Y]       BinOp "|" whose operands are EXPRESSIONS (a generic there is a Subscript)
     List[X] | Y              union_type (a union whose first member is a generic_type) -> its members
   In every shape the classes named as type arguments and union members are extracted, recursively;
   the container of a generic is not.  So one function describes all of them.  (Before
   fix: aa7c715 / b2f1993 a Subscript contributed nothing, a union_type was not recognised, and the
   parser kept only the first subscript argument: findings F31, F41.) *)
Fixpoint type_annotation_deps (o : cbo_options) (t : ty) : list cref :=
  match t with
  | TRef r => dep_of_name o r                     (* NodeName / NodeAttribute *)
  | TGen1 _ a => type_annotation_deps o a         (* generic_type / Subscript: only the type arguments *)
  | TGen2 _ a b => type_annotation_deps o a ++ type_annotation_deps o b
  | TUnion a b => type_annotation_deps o a ++ type_annotation_deps o b   (* BinOp "|" / union_type *)
  | TNone | TStr => []                            (* Constant: not a type annotation node *)
  end.
Definition opt_annotation_deps (o : cbo_options) (t : option ty) : list cref :=
  match t with Some t => type_annotation_deps o t | None => [] end.

(* analyzeTypeHints cbo.go:191-210 + analyzeMethodTypeHints 293-316: AnnAssign and FunctionDef
   nodes found by walkNode from the class node; members sit in the class node's Body *)
Definition members_reached : bool := path_walked cbo_walk_fields [FBody].
Definition member_type_hints (o : cbo_options) (m : member) : list cref :=
  match m with
  | MAttr _ t => type_annotation_deps o t
  | MMethod md => flat_map (opt_annotation_deps o) (md_params md) ++ opt_annotation_deps o (md_ret md)
  | MStmt _ => []
  end.
Definition analyze_type_hints (o : cbo_options) (c : class) : list cref :=
  if members_reached then flat_map (member_type_hints o) (c_members c) else [].

(* analyzeInstantiationAndAccess cbo.go, NodeCall case, with extractClassNameFromCallNode: the
   callee is Call.Value; a Name callee yields its name, an Attribute callee its dotted name
   (extractClassNameFromAttribute = extractClassName).  X counts when X is an imported name, a
   class of the file, or (include_builtins) a built-in type; mod.X counts when mod is an imported
   name (isImportedDependency: the part before the first dot).  (The NodeAssign case repeats the
   NodeCall case for the same node; the NodeAttribute case of the walk reads Left, which
   buildAttribute never sets.) *)
Definition call_dep (o : cbo_options) (imports classes : list name) (r : cref) : list cref :=
  match extract_class_name r with
  | None => []
  | Some r =>
      if is_plain r then
        let n := snd r in
        if should_include o n &&
           (mem n imports || mem n classes || (o_include_builtins o && builtin_type n))
        then [r] else []
      else if should_include_ref o r && mem (fst r) imports then [r] else []
  end.
(* A node is visited iff every field on its path is traversed; this presupposes that no visitor
   cuts the walk on the way (all visitors return true): Gen/ClassConst.v:cbo_walk_never_pruned,
   which CBOProofs.v:code_flags / Props/C13.v:C13_walk_never_pruned require to be true. *)
Definition mention_dep (o : cbo_options) (imports classes : list name) (m : mention) : list cref :=
  match m_kind m with
  | KInst r => if reached_at cbo_walk_fields 0 (m_pos m) (m_slots m) [] then call_dep o imports classes r else []
  | KCall obj x =>      (* obj.x(): the same Call node with an Attribute callee as mod.X() *)
      if reached_at cbo_walk_fields 0 (m_pos m) (m_slots m) [] then call_dep o imports classes (Qual obj x) else []
  | KAttr _ _ => []
  end.
Definition member_mentions (m : member) : list mention :=
  match m with
  | MAttr _ _ => []
  | MMethod md => md_body md
  | MStmt x => [x]
  end.
Definition analyze_instantiation (o : cbo_options) (f : file) (c : class) : list cref :=
  flat_map (mention_dep o (collect_imports f) (f_classes f)) (flat_map member_mentions (c_members c)).

(* analyzeClass cbo.go:131-172: the dependency map, then delete(dependencies, classNode.Name) *)
Definition raw_deps (o : cbo_options) (f : file) (c : class) : list cref :=
  analyze_inheritance o c ++ analyze_type_hints o c ++ analyze_instantiation o f c.
Definition not_self (c : class) (r : cref) : bool := negb (keqb r (Plain (c_name c))).
Definition cbo_deps (o : cbo_options) (f : file) (c : class) : list cref :=
  set_of (filter (fun r => negb cbo_excludes_self || not_self c r) (raw_deps o f c)).

(* assessRiskLevel cbo.go:625-633 *)
Definition assess_risk (o : cbo_options) (n : Z) : risk :=
  if cbo_risk_low_cmp n (o_low o) then Low
  else if cbo_risk_medium_cmp n (o_medium o) then Medium else High.

Record cbo_result := CboResult { r_count : Z; r_deps : list cref; r_risk : risk }.
Definition cbo_model (o : cbo_options) (f : file) (c : class) : cbo_result :=
  let d := cbo_deps o f c in
  let n := Z.of_nat (List.length d) in
  CboResult n d (assess_risk o n).

(* ------------------------------------------------------------------------------------------ *)
(* SPEC: the property text                                                                     *)
(* ------------------------------------------------------------------------------------------ *)

(* a Python built-in: the two tables of cbo.go (regenerated), types and functions alike *)
Definition is_builtin (r : cref) : bool := is_plain r && (builtin_type (snd r) || builtin_function (snd r)).

(* an instantiation counts when its callee is an imported name or a same-file class:
   X() with X bound by an import or defined in the file, mod.X() with mod bound by an import *)
Definition bound_names (f : file) : list name := map bound_name (f_imports f).
Definition coupled_callee (f : file) (r : cref) : bool :=
  if is_plain r then mem (snd r) (bound_names f) || mem (snd r) (f_classes f)
  else mem (fst r) (bound_names f).

Definition member_annotations (m : member) : list ty :=
  match m with
  | MAttr _ t => [t]
  | MMethod md => flat_map (fun o => match o with Some t => [t] | None => [] end) (md_params md ++ [md_ret md])
  | MStmt _ => []
  end.
(* the callee of a call: X(...), mod.X(...); obj.x(...) is the same syntax as mod.X(...) *)
Definition instantiated (m : mention) : list cref :=
  match m_kind m with KInst r => [r] | KCall obj x => [Qual obj x] | KAttr _ _ => [] end.

(* every class the class names: as base class, in attribute / parameter / return annotations
   (inside generics and unions), as instantiation of an imported or same-file class in ANY
   position *)
Definition named_classes (f : file) (c : class) : list cref :=
  c_bases c
  ++ flat_map ty_refs (flat_map member_annotations (c_members c))
  ++ filter (coupled_callee f) (flat_map instantiated (flat_map member_mentions (c_members c))).

(* distinct, other than itself, built-ins excluded *)
Definition cbo_spec (f : file) (c : class) : list cref :=
  set_of (filter (fun r => not_self c r && negb (is_builtin r)) (named_classes f c)).

Definition spec_risk (low medium n : Z) : risk :=
  if (n <=? low)%Z then Low else if (n <=? medium)%Z then Medium else High.
