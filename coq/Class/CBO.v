(* C13 — CBO (coupling between objects).
   MODEL of internal/analyzer/cbo.go on the class-level syntax of Class/Syntax.v, and the SPEC
   the property text describes.  Proofs are in Class/CBOProofs.v.

   What the model takes from the code (regenerated into Gen/ClassConst.v on every run):
   the list of parser.Node fields walkNode traverses (which positions are visited), the
   built-in tables, whether imports without "as" are collected, whether the class's own name
   is removed, the risk comparisons; thresholds from Gen/DomainConst.v. *)
From Coq Require Import ZArith NArith List String Bool.
From PV Require Import Gen.DomainConst Gen.ClassConst Class.Syntax Class.SetK.
Import ListNotations.
Open Scope N_scope.

Inductive risk := Low | Medium | High.

Record cbo_options := CboOptions { o_include_builtins : bool; o_low : Z; o_medium : Z }.
(* DefaultCBOOptions cbo.go:55-64 / service/cbo_service.go:312-321 (ExcludePatterns empty, IncludeImports true) *)
Definition default_options : cbo_options :=
  CboOptions false domain_DefaultCBOLowThreshold domain_DefaultCBOMediumThreshold.

(* initializeBuiltinTypes cbo.go:729-758 *)
Definition builtin_type (n : name) : bool := existsb (fun s => nm s =? n) cbo_builtin_types.
Definition builtin_function (n : name) : bool := existsb (fun s => nm s =? n) cbo_builtin_functions.

(* ------------------------------------------------------------------------------------------ *)
(* MODEL                                                                                       *)
(* ------------------------------------------------------------------------------------------ *)

(* collectImports cbo.go:403-450: the keys of importedNames.  An Alias child exists only for
   "as" imports; names without "as" come from the import node's Names (unaliasedNames). *)
Definition collect_imports (f : file) : list name :=
  flat_map (fun i => match i with
                     | ImpFrom x => if cbo_imports_unaliased then [x] else []
                     | ImpFromAs _ a => [a]
                     | ImpMod m => if cbo_imports_unaliased then [m] else []
                     | ImpModAs _ a => [a]
                     end) (f_imports f).

(* shouldIncludeDependency cbo.go:478-516 with no exclude patterns and IncludeImports = true *)
Definition should_include (o : cbo_options) (n : name) : bool :=
  negb (n =? 0) && negb (builtin_function n) && negb (negb (o_include_builtins o) && builtin_type n).

(* extractClassName cbo.go:445-476 on a base class / annotation node: a Name gives its name; an
   Attribute node (mod.X) keeps its object in Value and its attribute in Name, the function
   reads Left and Right, which are nil: "" *)
Definition extract_class_name (r : cref) : option name :=
  if is_plain r then Some (snd r) else None.

Definition dep_of_name (o : cbo_options) (r : cref) : list cref :=
  match extract_class_name r with
  | Some n => if should_include o n then [Plain n] else []
  | None => []
  end.

(* analyzeInheritance cbo.go:171-189 *)
Definition analyze_inheritance (o : cbo_options) (c : class) : list cref :=
  flat_map (dep_of_name o) (c_bases c).

(* extractTypeAnnotationDependencies cbo.go:223-291.
   The operands of X | Y are parsed as *expressions* (tree-sitter binary_operator), so a generic
   there is a Subscript node, not a generic_type node: buildSubscript keeps only the first
   subscript argument in Children, and the NodeSubscript case looks at Children[1] only when there
   are at least two children: nothing is extracted from the generic in Y | List[X].  When the
   LEFT operand is a generic the whole annotation is a tree-sitter union_type node instead, which
   the analyser does not recognise at all (List[X] | Y contributes neither X nor Y).  Unions of
   three or more operands whose leftmost operand is a generic are outside the correspondence. *)
Fixpoint expr_annotation_deps (o : cbo_options) (t : ty) : list cref :=
  match t with
  | TRef r => dep_of_name o r
  | TUnion a b => expr_annotation_deps o a ++ expr_annotation_deps o b
  | TGen1 _ _ | TGen2 _ _ _ => []                 (* NodeSubscript with a single child *)
  | TNone | TStr => []
  end.
Fixpoint type_annotation_deps (o : cbo_options) (t : ty) : list cref :=
  match t with
  | TRef r => dep_of_name o r                     (* NodeName / NodeAttribute *)
  | TGen1 _ a => type_annotation_deps o a         (* generic_type: only the type_parameter children *)
  | TGen2 _ a b => type_annotation_deps o a ++ type_annotation_deps o b
  | TUnion a b =>
      match a with
      | TGen1 _ _ | TGen2 _ _ _ => []             (* List[X] | Y: a tree-sitter union_type node, which isTypeAnnotation does not list *)
      | _ => expr_annotation_deps o a ++ expr_annotation_deps o b   (* BinOp "|" *)
      end
  | TNone | TStr => []                            (* Constant: not a type annotation node *)
  end.
Definition opt_annotation_deps (o : cbo_options) (t : option ty) : list cref :=
  match t with Some t => type_annotation_deps o t | None => [] end.

(* analyzeTypeHints cbo.go:191-210 + analyzeMethodTypeHints 293-316: AnnAssign and FunctionDef
   nodes found by walkNode from the class node; members sit in the class node's Body *)
Definition members_reached : bool := path_walked cbo_walk_fields [FBody].
Definition member_type_hints (o : cbo_options) (m : member) : list cref :=
  match m with
  | MAttr _ t => type_annotation_deps o t
  | MMethod md => flat_map (opt_annotation_deps o) (md_params md) ++ opt_annotation_deps o (md_ret md)
  | MStmt _ => []
  end.
Definition analyze_type_hints (o : cbo_options) (c : class) : list cref :=
  if members_reached then flat_map (member_type_hints o) (c_members c) else [].

(* analyzeInstantiationAndAccess cbo.go:318-385, NodeCall case, with extractClassNameFromCallNode
   523-559: the callee is Call.Value; only a Name callee yields a class name.  (The NodeAssign
   case repeats the NodeCall case for the same node; the NodeAttribute case reads Left, which
   buildAttribute never sets.) *)
Definition call_dep (o : cbo_options) (imports classes : list name) (r : cref) : list cref :=
  if is_plain r then
    let n := snd r in
    if should_include o n &&
       (mem n imports || mem n classes || (o_include_builtins o && builtin_type n))
    then [Plain n] else []
  else [].
(* A node is visited iff every field on its path is traversed; this presupposes that no visitor
   cuts the walk on the way (all visitors return true): Gen/ClassConst.v:cbo_walk_never_pruned,
   which CBOProofs.v:code_flags / Props/C13.v:C13_walk_never_pruned require to be true. *)
Definition mention_dep (o : cbo_options) (imports classes : list name) (m : mention) : list cref :=
  match m_kind m with
  | KInst r => if reached_at cbo_walk_fields 0 (m_pos m) (m_slots m) [] then call_dep o imports classes r else []
  | KAttr _ _ | KCall _ _ => []
  end.
Definition member_mentions (m : member) : list mention :=
  match m with
  | MAttr _ _ => []
  | MMethod md => md_body md
  | MStmt x => [x]
  end.
Definition analyze_instantiation (o : cbo_options) (f : file) (c : class) : list cref :=
  flat_map (mention_dep o (collect_imports f) (f_classes f)) (flat_map member_mentions (c_members c)).

(* analyzeClass cbo.go:131-172: the dependency map, then delete(dependencies, classNode.Name) *)
Definition raw_deps (o : cbo_options) (f : file) (c : class) : list cref :=
  analyze_inheritance o c ++ analyze_type_hints o c ++ analyze_instantiation o f c.
Definition not_self (c : class) (r : cref) : bool := negb (keqb r (Plain (c_name c))).
Definition cbo_deps (o : cbo_options) (f : file) (c : class) : list cref :=
  set_of (filter (fun r => negb cbo_excludes_self || not_self c r) (raw_deps o f c)).

(* assessRiskLevel cbo.go:625-633 *)
Definition assess_risk (o : cbo_options) (n : Z) : risk :=
  if cbo_risk_low_cmp n (o_low o) then Low
  else if cbo_risk_medium_cmp n (o_medium o) then Medium else High.

Record cbo_result := CboResult { r_count : Z; r_deps : list cref; r_risk : risk }.
Definition cbo_model (o : cbo_options) (f : file) (c : class) : cbo_result :=
  let d := cbo_deps o f c in
  let n := Z.of_nat (List.length d) in
  CboResult n d (assess_risk o n).

(* ------------------------------------------------------------------------------------------ *)
(* SPEC: the property text                                                                     *)
(* ------------------------------------------------------------------------------------------ *)

(* a Python built-in: the two tables of cbo.go (regenerated), types and functions alike *)
Definition is_builtin (r : cref) : bool := is_plain r && (builtin_type (snd r) || builtin_function (snd r)).

(* an instantiation counts when its callee is an imported name or a same-file class:
   X() with X bound by an import or defined in the file, mod.X() with mod bound by an import *)
Definition bound_names (f : file) : list name := map bound_name (f_imports f).
Definition coupled_callee (f : file) (r : cref) : bool :=
  if is_plain r then mem (snd r) (bound_names f) || mem (snd r) (f_classes f)
  else mem (fst r) (bound_names f).

Definition member_annotations (m : member) : list ty :=
  match m with
  | MAttr _ t => [t]
  | MMethod md => flat_map (fun o => match o with Some t => [t] | None => [] end) (md_params md ++ [md_ret md])
  | MStmt _ => []
  end.
Definition instantiated (m : mention) : list cref :=
  match m_kind m with KInst r => [r] | _ => [] end.

(* every class the class names: as base class, in attribute / parameter / return annotations
   (inside generics and unions), as instantiation of an imported or same-file class in ANY
   position *)
Definition named_classes (f : file) (c : class) : list cref :=
  c_bases c
  ++ flat_map ty_refs (flat_map member_annotations (c_members c))
  ++ filter (coupled_callee f) (flat_map instantiated (flat_map member_mentions (c_members c))).

(* distinct, other than itself, built-ins excluded *)
Definition cbo_spec (f : file) (c : class) : list cref :=
  set_of (filter (fun r => not_self c r && negb (is_builtin r)) (named_classes f c)).

Definition spec_risk (low medium n : Z) : risk :=
  if (n <=? low)%Z then Low else if (n <=? medium)%Z then Medium else High.
