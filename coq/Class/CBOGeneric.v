(* C13 — two subscripted forms that the class-level syntax of Class/Syntax.v cannot express:

     class Repo(Repository[User]): ...          a parametrised base class
     field: typing.List[User]                   a generic whose container is written through its module

   Both reach cbo.go as a parser.Node of type Subscript (the second one because tree-sitter has a
   generic_type node only for  identifier[...]; anything else in a type position is an expression).
   MODEL of what cbo.go does with such a node, and the SPEC the property text gives.  The harness
   (harness/c13.py: generic_cases) runs both against the implementation.  Lemmas: Class/CBOGenericProofs.v. *)
From Coq Require Import ZArith NArith List String Bool.
From PV Require Import Class.Syntax Class.SetK Class.CBO.
Import ListNotations.
Open Scope N_scope.

(* ast_builder.go:buildSubscript (1092-1106): the subscripted object goes to Value, the subscript expression
   becomes ONE child (a Tuple node when several arguments are written); Left and Right stay nil.
   What the two readers of a Subscript node in cbo.go look at: node.Right, else Children[1] when there are
   at least two children. *)
Record subscript_node := SubscriptNode { sn_right : option cref; sn_children : list (option cref) }.
Definition build_subscript (container : cref) (args : list cref) : subscript_node :=
  SubscriptNode None [match args with [a] => Some a | _ => None (* Tuple node *) end].

(* extractClassName cbo.go:501-510, NodeSubscript case *)
Definition extract_class_name_subscript (s : subscript_node) : option cref :=
  match sn_right s with
  | Some r => Some r
  | None => match sn_children s with
            | _ :: Some c :: _ => Some c
            | _ => None
            end
  end.

(* ---- a base class  Base[A1, ..., An] ---- *)
Record gbase := GBase { gb_base : cref; gb_args : list cref }.

(* analyzeInheritance cbo.go:184-201 on such a base *)
Definition generic_base_deps (o : cbo_options) (g : gbase) : list cref :=
  match extract_class_name_subscript (build_subscript (gb_base g) (gb_args g)) with
  | Some r => dep_of_name o r
  | None => []
  end.
(* SPEC: the class names Base as its base class (must be counted); its type arguments may be counted too *)
Definition generic_base_required (g : gbase) : list cref := filter (fun r => negb (is_builtin r)) [gb_base g].
Definition generic_base_allowed (g : gbase) : list cref := filter (fun r => negb (is_builtin r)) (gb_base g :: gb_args g).

(* ---- an annotation  mod.Container[T1, ..., Tn] ---- *)
(* extractTypeAnnotationDependencies cbo.go:249-256, NodeSubscript case: recurse into Right, else into Children[1] *)
Definition qualified_generic_deps (o : cbo_options) (container : cref) (args : list cref) : list cref :=
  match extract_class_name_subscript (build_subscript container args) with
  | Some r => dep_of_name o r
  | None => []
  end.
(* SPEC: the classes named inside the generic (the container is a typing construct, as in Class/CBO.v) *)
Definition qualified_generic_spec (args : list cref) : list cref := set_of (filter (fun r => negb (is_builtin r)) args).

(* entry points for the harness: (model, required, allowed) and (model, spec) *)
Definition run_generic_base (o : cbo_options) (g : gbase) := (generic_base_deps o g, generic_base_required g, generic_base_allowed g).
Definition run_qualified_generic (o : cbo_options) (container : cref) (args : list cref) :=
  (qualified_generic_deps o container args, qualified_generic_spec args).
