(* C13 — two subscripted forms next to the class-level syntax of Class/Syntax.v:

     class Repo(Repository[User]): ...          a parametrised base class
     field: typing.List[User]                   a generic whose container is written through its module

   Both reach cbo.go as a parser.Node of type Subscript (the second one because tree-sitter has a
   generic_type node only for  identifier[...]; anything else in a type position is an expression).
   MODEL of what cbo.go does with such a node, and the SPEC the property text gives.  The harness
   (harness/c13.py: generic_cases) runs both against the implementation.  Lemmas: Class/CBOGenericProofs.v.
   (The annotation form is also an instance of Class/CBO.v: TGen1 / TGen2 with the dotted container name.) *)
From Coq Require Import ZArith NArith List String Bool.
From PV Require Import Class.Syntax Class.SetK Class.CBO.
Import ListNotations.
Open Scope N_scope.

(* ast_builder.go:buildSubscript: the subscripted object goes to Value, every subscript argument becomes
   one child (fix: b2f1993; before, only the first argument was kept); Left and Right stay nil. *)
Record subscript_node := SubscriptNode { sn_value : cref; sn_children : list cref }.
Definition build_subscript (container : cref) (args : list cref) : subscript_node := SubscriptNode container args.

(* extractClassName cbo.go, NodeSubscript case: the class is the subscripted object (Value).
   (Before fix: aa7c715 it read node.Right / Children[1], both absent: finding F41.) *)
Definition extract_class_name_subscript (s : subscript_node) : option cref := extract_class_name (sn_value s).

(* ---- a base class  Base[A1, ..., An] ---- *)
Record gbase := GBase { gb_base : cref; gb_args : list cref }.

(* analyzeInheritance cbo.go on such a base *)
Definition generic_base_deps (o : cbo_options) (g : gbase) : list cref :=
  match extract_class_name_subscript (build_subscript (gb_base g) (gb_args g)) with
  | Some r => if should_include_ref o r then [r] else []
  | None => []
  end.
(* SPEC: the class names Base as its base class (must be counted); its type arguments may be counted too *)
Definition generic_base_required (g : gbase) : list cref := filter (fun r => negb (is_builtin r)) [gb_base g].
Definition generic_base_allowed (g : gbase) : list cref := filter (fun r => negb (is_builtin r)) (gb_base g :: gb_args g).

(* ---- an annotation  mod.Container[T1, ..., Tn] ---- *)
(* extractTypeAnnotationDependencies cbo.go, NodeSubscript case: recurse into the children (the type
   arguments), not into Value (the container) *)
Definition qualified_generic_deps (o : cbo_options) (container : cref) (args : list cref) : list cref :=
  flat_map (dep_of_name o) (sn_children (build_subscript container args)).
(* SPEC: the classes named inside the generic (the container is a typing construct, as in Class/CBO.v) *)
Definition qualified_generic_spec (args : list cref) : list cref := set_of (filter (fun r => negb (is_builtin r)) args).

(* entry points for the harness: (model, required, allowed) and (model, spec) *)
Definition run_generic_base (o : cbo_options) (g : gbase) := (generic_base_deps o g, generic_base_required g, generic_base_allowed g).
Definition run_qualified_generic (o : cbo_options) (container : cref) (args : list cref) :=
  (qualified_generic_deps o container args, qualified_generic_spec args).
