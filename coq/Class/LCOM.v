(* C14 — LCOM4 = number of connected components of the method graph.
   MODEL of internal/analyzer/lcom.go on the class-level syntax of Class/Syntax.v, and the SPEC of
   the property text.  Proofs are in Class/LCOMProofs.v.

   Taken from the code (Gen/ClassConst.v): the parser.Node fields LCOMAnalyzer.walkNode traverses,
   the excluded decorator names, the receiver name, the risk comparisons; thresholds from
   Gen/DomainConst.v.  Union-find: see Class/UF.v (a labelling; rank and path compression are not
   modelled, only the partition is observable). *)
From Coq Require Import ZArith NArith List String Bool.
From PV Require Import Gen.DomainConst Gen.ClassConst Class.Syntax Class.SetK Class.UF Class.CBO.
Import ListNotations.
Open Scope N_scope.
Open Scope list_scope.

Record lcom_options := LcomOptions { lo_low : Z; lo_medium : Z }.
Definition lcom_default_options : lcom_options :=
  LcomOptions domain_DefaultLCOMLowThreshold domain_DefaultLCOMMediumThreshold.

(* sorted duplicate-free list of names (Go: keys of a map[string]bool, sorted) *)
Definition nset (l : list name) : list name := map snd (set_of (map Plain l)).

(* the mentions that are part of the method: everything except statements the pretty-printer
   writes directly into the class body *)
Definition method_mentions (md : method) : list mention :=
  filter (fun m => negb (class_level (m_pos m))) (md_body md).

(* ------------------------------------------------------------------------------------------ *)
(* MODEL                                                                                       *)
(* ------------------------------------------------------------------------------------------ *)
Definition model_self : name := nm lcom_self_name.                     (* isSelfAccess lcom.go:322-338 *)
(* isClassOrStaticMethod lcom.go:252-264 (getDecoratorName: the decorator's name, also for @d(args)) *)
Definition is_class_or_static (md : method) : bool :=
  existsb (fun d => existsb (fun s => nm s =? d) lcom_excluded_decorators) (md_decos md).

(* extractInstanceVars lcom.go:309-320: Attribute nodes self.x found by walkNode from the method
   node.  For self.m() the Attribute node is the Value of the Call node. *)
Definition mention_vars (m : mention) : list name :=
  match m_kind m with
  | KAttr obj x => if (obj =? model_self) && reached_at lcom_walk_fields 1 (m_pos m) (m_slots m) [] then [x] else []
  | KCall obj x => if (obj =? model_self) && reached_at lcom_walk_fields 1 (m_pos m) (m_slots m) [FValue] then [x] else []
  | KInst _ => []
  end.
(* extractMethodCalls lcom.go:295-307: Call nodes whose Value is a self.xxx Attribute *)
Definition mention_calls (m : mention) : list name :=
  match m_kind m with
  | KCall obj x => if (obj =? model_self) && reached_at lcom_walk_fields 1 (m_pos m) (m_slots m) [] then [x] else []
  | _ => []
  end.

(* Go map assignment m[k] = v on an association list *)
Fixpoint put {V : Type} (k : name) (v : V) (l : list (name * V)) : list (name * V) :=
  match l with
  | [] => [(k, v)]
  | (k', v') :: t => if k' =? k then (k, v) :: t else (k', v') :: put k v t
  end.
Fixpoint get {V : Type} (k : name) (l : list (name * V)) : option V :=
  match l with
  | [] => None
  | (k', v) :: t => if k' =? k then Some v else get k t
  end.

(* per instance method: (self attributes, self calls) *)
Definition minfo := (list name * list name)%type.

(* collectMethods lcom.go:213-250: FunctionDef nodes of classNode.Body in order; methods and calls are
   maps keyed by the method name (a later definition of the same name overwrites); an excluded
   definition only bumps the counter *)
Fixpoint collect_methods (ms : list member) (acc : list (name * minfo)) (excluded : Z) : list (name * minfo) * Z :=
  match ms with
  | [] => (acc, excluded)
  | MMethod md :: r =>
      if is_class_or_static md then collect_methods r acc (excluded + 1)%Z
      else collect_methods r (put (md_name md)
                                  (flat_map mention_vars (method_mentions md), flat_map mention_calls (method_mentions md)) acc) excluded
  | _ :: r => collect_methods r acc excluded
  end.

Definition has (x : name) (l : list name) : bool := mem x l.

(* lcom.go:168-190: the unions.  varToMethods[v] lists the methods using v in sorted-name order;
   the first is united with each of the others; then caller-callee pairs whose callee is a
   collected method *)
Definition vars_of (methods : list (name * minfo)) (n : name) : list name :=
  match get n methods with Some i => fst i | None => [] end.
Definition var_edges (vs : list name) (methods : list (name * minfo)) : list (name * name) :=
  flat_map (fun v => match filter (fun n => has v (vars_of methods n)) vs with
                     | [] => []
                     | h :: t => map (fun x => (h, x)) t
                     end)
           (nset (flat_map (fun p => fst (snd p)) methods)).
Definition call_edges (methods : list (name * minfo)) : list (name * name) :=
  flat_map (fun p => flat_map (fun callee => match get callee methods with Some _ => [(fst p, callee)] | None => [] end)
                              (snd (snd p))) methods.

Definition lcom_assess_risk (o : lcom_options) (n : Z) : risk :=
  if lcom_risk_low_cmp n (lo_low o) then Low
  else if lcom_risk_medium_cmp n (lo_medium o) then Medium else High.

Record lcom_result := LcomResult {
  l_lcom4 : Z; l_groups : list (list name); l_total : Z; l_excluded : Z; l_risk : risk }.

(* analyzeClass lcom.go:88-211 *)
Definition model_vertices (methods : list (name * minfo)) : list name := nset (map fst methods).
Definition model_labels (methods : list (name * minfo)) : labels :=
  let vs := model_vertices methods in
  uf_run vs (var_edges vs methods ++ call_edges methods).

Definition lcom_model (o : lcom_options) (c : class) : lcom_result :=
  let '(methods, excluded) := collect_methods (c_members c) [] 0%Z in
  let total := (Z.of_nat (List.length methods) + excluded)%Z in
  if (List.length methods <=? 1)%nat then
    LcomResult 1 (map (fun p => [fst p]) methods) total excluded (lcom_assess_risk o 1)
  else
    let vs := model_vertices methods in
    let gs := groups (same (model_labels methods)) vs in
    let n := Z.of_nat (List.length gs) in
    LcomResult n gs total excluded (lcom_assess_risk o n).

(* ------------------------------------------------------------------------------------------ *)
(* SPEC                                                                                        *)
(* ------------------------------------------------------------------------------------------ *)
Definition spec_self : name := nm "self".
Definition spec_excluded (md : method) : bool :=
  existsb (fun d => (d =? nm "staticmethod") || (d =? nm "classmethod")) (md_decos md).

(* the self attributes a method accesses, in whatever position: self.x, and self.m in self.m() *)
Definition spec_attrs (md : method) : list name :=
  flat_map (fun m => match m_kind m with
                     | KAttr obj x | KCall obj x => if obj =? spec_self then [x] else []
                     | KInst _ => []
                     end) (method_mentions md).
(* the methods it calls through self *)
Definition spec_calls (md : method) : list name :=
  flat_map (fun m => match m_kind m with
                     | KCall obj x => if obj =? spec_self then [x] else []
                     | _ => []
                     end) (method_mentions md).

(* the methods of the class: as in Python, a later definition of a name replaces the earlier one *)
Fixpoint effective_methods (ms : list member) (acc : list (name * method)) : list (name * method) :=
  match ms with
  | [] => acc
  | MMethod md :: r => effective_methods r (put (md_name md) md acc)
  | _ :: r => effective_methods r acc
  end.
(* vertices: the instance methods *)
Definition instance_methods (c : class) : list (name * method) :=
  filter (fun p => negb (spec_excluded (snd p))) (effective_methods (c_members c) []).
Definition spec_vertices (c : class) : list name := nset (map fst (instance_methods c)).

Definition inter (a b : list name) : bool := existsb (fun x => mem x b) a.
(* edge: common self attribute, or one calls the other through self *)
Definition spec_edge (ims : list (name * method)) (a b : name) : bool :=
  match get a ims, get b ims with
  | Some ma, Some mb =>
      inter (spec_attrs ma) (spec_attrs mb) || mem b (spec_calls ma) || mem a (spec_calls mb)
  | _, _ => false
  end.
Definition spec_edges (c : class) : list (name * name) :=
  let ims := instance_methods c in
  let vs := spec_vertices c in
  flat_map (fun a => flat_map (fun b => if spec_edge ims a b then [(a, b)] else []) vs) vs.

(* components by closure: run the labelling over ALL edges of the method graph; Class/UF.v proves
   that two vertices get the same label iff a path of edges joins them *)
Definition spec_same (c : class) : name -> name -> bool := same (uf_run (spec_vertices c) (spec_edges c)).
Definition spec_groups (c : class) : list (list name) := groups (spec_same c) (spec_vertices c).
Definition lcom4_spec (c : class) : Z :=
  if (List.length (spec_vertices c) <=? 1)%nat then 1%Z else Z.of_nat (List.length (spec_groups c)).
