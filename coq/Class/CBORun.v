(* Entry points used by the correspondence check harness/c13.py. *)
From Coq Require Import ZArith NArith List String Bool.
From PV Require Import Gen.DomainConst Gen.ClassConst Class.Syntax Class.SetK Class.CBO.
Import ListNotations.
Open Scope N_scope.

Definition risk_code (r : risk) : Z := match r with Low => 0 | Medium => 1 | High => 2 end%Z.

(* (count, dependencies, risk) of the model; the spec's dependency set *)
Definition run_cbo (o : cbo_options) (f : file) (c : class) : Z * list cref * Z * list cref :=
  let r := cbo_model o f c in
  (r_count r, r_deps r, risk_code (r_risk r), cbo_spec f c).

Definition position_table : list (list string) :=
  map (fun p => match pos_path p with Some l => map field_name l | None => ["LOST"%string] end) all_positions.
Definition cbo_reached_table : list bool := map (fun p => reached cbo_walk_fields 0 p []) all_positions.

Definition slot_table : list (list string) := map (fun s => map field_name (slot_path s)) all_slots.
