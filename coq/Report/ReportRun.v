(* Report/ReportRun.v — entry points used by the correspondence check (harness/c16.py).
   Every run_* returns (model, spec) so that both are evaluated on the same input. *)
From Coq Require Import ZArith QArith List Bool.
From PV Require Import Gen.ReportConst Gen.CheckConst Score.ScoreQ Report.Summary Report.Filters.
Import ListNotations.
Open Scope Z_scope.

(* rationals are printed as (numerator, denominator) *)
Definition qpair (q : Q) : Z * Z := (Qnum (Qred q), Zpos (Qden (Qred q))).
Definition vals (l : list vr) : list Z := map v_val l.
Definition risk_code (r : risk) : Z := match r with RLow => 0 | RMedium => 1 | RHigh => 2 | ROther => 3 end.
Definition show_items (l : list vr) : list (Z * Z) := map (fun f => (v_val f, risk_code (v_risk f))) l.
Definition show_vs (s : vsummary) : list Z * (Z * Z) * list Z * list Z :=
  ([s_total s; s_max s; s_min s; s_files s; s_low s; s_med s; s_high s], qpair (s_avg s), s_dist s, s_top s).

(* items: value + risk computed from thresholds, or an explicit risk level *)
Definition mk (r : Z -> risk) (v : Z) : vr := {| v_val := v; v_risk := r v |}.

Definition run_cx (items : list vr) (files min : Z) :=
  let kept := filter_functions items min in
  let keptS := filter (cx_keep_spec min) items in
  ((show_items kept, show_vs (cx_generate_summary kept files)),
   (show_items keptS, show_vs (vsummary_spec report_cx_bucket report_cx_nbuckets [] keptS files))).

Definition sorted_top (n : nat) (l : list vr) : list Z := top_values n l.
Definition run_cbo (items : list vr) (files min max : Z) (zeros : bool) :=
  let kept := cbo_filter_classes items min max zeros in
  let keptS := filter (cbo_keep_spec min max zeros) items in
  ((show_items kept, show_vs (cbo_generate_summary kept files)),
   (show_items keptS, show_vs (vsummary_spec report_cbo_bucket report_cbo_nbuckets (top_values report_cbo_topn keptS) keptS files))).
Definition run_lcom (items : list vr) (files min max : Z) :=
  let kept := lcom_filter_classes items min max in
  let keptS := filter (lcom_keep_spec min max) items in
  ((show_items kept, show_vs (lcom_generate_summary kept files)),
   (show_items keptS, show_vs (vsummary_spec report_lcom_bucket report_lcom_nbuckets (top_values report_lcom_topn keptS) keptS files))).

(* risk levels and bucket indexes of single values *)
Definition run_keys (vs : list Z) (low medium : Z) :=
  (map (fun v => [risk_code (cx_risk low medium v); Z.of_nat (report_cx_bucket v)]) vs,
   map (fun v => [risk_code (cbo_risk low medium v); Z.of_nat (report_cbo_bucket v)]) vs,
   map (fun v => [risk_code (lcom_risk low medium v); Z.of_nat (report_lcom_bucket v)]) vs).

(* dead code *)
Definition sev_code (s : sev) : Z := match s with SCrit => 3 | SWarn => 2 | SInfo => 1 | SOther => 0 end.
Definition show_ds (s : dsummary) : list Z * list Z * (Z * Z) :=
  ([ds_total_files s; ds_total_functions s; ds_total_findings s; ds_files_with s; ds_funcs_with s; ds_crit s; ds_warn s; ds_info s;
    ds_total_blocks s; ds_dead_blocks s], ds_by_reason s, qpair (ds_ratio s)).
Definition show_files (fs : list dfile) : list (list Z * list (list Z)) :=
  map (fun f => ([fl_total_findings f; fl_total_functions f; fl_affected f],
                 map (fun g => [zlen (fn_findings g); fn_crit g; fn_warn g; fn_info g]) (fl_functions f))) fs.
Definition mkfn (fds : list (sev * N)) (tb db : Z) (counts : option (Z * Z * Z)) : dfunc :=
  let f := {| fn_findings := map (fun p => {| fd_sev := fst p; fd_reason := snd p |}) fds; fn_total_blocks := tb; fn_dead_blocks := db;
              fn_crit := 0; fn_warn := 0; fn_info := 0 |} in
  match counts with
  | None => calculate_severity_counts f
  | Some (c, w, i) => {| fn_findings := fn_findings f; fn_total_blocks := tb; fn_dead_blocks := db; fn_crit := c; fn_warn := w; fn_info := i |}
  end.
Definition mkfile (fns : list dfunc) (tf : Z) (aff fnd : option Z) : dfile :=
  {| fl_functions := fns; fl_total_functions := tf;
     fl_affected := match aff with Some a => a | None => zlen fns end;
     fl_total_findings := match fnd with Some a => a | None => zlen (flat_map fn_findings fns) end |}.
Definition run_dc (reasons : list N) (files : list dfile) (processed : Z) (m : sev) :=
  let kept := filter_files files m in
  ((show_files kept, show_ds (dc_generate_summary reasons kept processed)),
   show_ds (dc_summary_spec reasons kept processed)).
Definition run_findings (fds : list (sev * N)) (m : sev) :=
  let l := map (fun p => {| fd_sev := fst p; fd_reason := snd p |}) fds in
  let kept := filter_findings_by_severity l m in
  let f := calculate_severity_counts {| fn_findings := kept; fn_total_blocks := 0; fn_dead_blocks := 0; fn_crit := 0; fn_warn := 0; fn_info := 0 |} in
  (map (fun x => sev_code (fd_sev x)) kept, has_findings_at_severity l m, [fn_crit f; fn_warn f; fn_info f],
   (* analyzeFile, per function, as repaired: Some [findings; crit; warn; info] *)
   match analyze_function true (mkfn fds 0 0 None) m with
   | Some g => Some [zlen (fn_findings g); fn_crit g; fn_warn g; fn_info g] | None => None end).

(* clones *)
Definition show_cs (s : cstats) : list Z * list Z * (Z * Z) := ([st_clones s; st_pairs s; st_groups s], st_by_type s, qpair (st_avg s)).
Definition mkp (s : Q) (t : Z) : cpair := {| p_sim := s; p_type := t |}.
Definition run_clones (n : Z) (pairs groups : list cpair) (lo hi : Q) (types : list Z) :=
  let kp := filter_clone_pairs pairs lo hi types in
  let kg := filter_clone_groups groups lo hi types in
  ((map p_type kp, map p_type kg, show_cs (create_statistics n kp kg)), show_cs (clone_stats_spec n kp kg)).

(* unified summary from section summary numbers *)
Definition vs_of (total high med files : Z) (avg : Q) : vsummary :=
  {| s_total := total; s_avg := avg; s_max := 0; s_min := 0; s_files := files; s_low := 0; s_med := med; s_high := high; s_dist := []; s_top := [] |}.
Definition ds_of (files total c w i : Z) : dsummary :=
  {| ds_total_files := files; ds_total_functions := 0; ds_total_findings := total; ds_files_with := 0; ds_funcs_with := 0;
     ds_crit := c; ds_warn := w; ds_info := i; ds_by_reason := []; ds_total_blocks := 0; ds_dead_blocks := 0; ds_ratio := 0%Q |}.
Definition cs_of (clones pairs groups : Z) : cstats :=
  {| st_clones := clones; st_pairs := pairs; st_groups := groups; st_by_type := []; st_avg := 0%Q |}.
Definition run_unified (sel : selection) (x : sections) :=
  let '(s, e) := unified sel x in
  ([total_files s; high_complexity_count s; dead_code_count s; critical_dead s; warning_dead s; info_dead s;
    cbo_classes s; high_coupling s; medium_coupling s; lcom_classes s; high_lcom s; medium_lcom s;
    u_total_functions e; u_total_clones e; u_clone_pairs e; u_clone_groups e],
   map qpair [average_complexity s; code_duplication s; u_avg_coupling e; u_avg_lcom e]).

(* derived ratios of the unified summary recomputed from the statistics of the same report: the duplication percentage as
   ScoreQ.code_duplication_of (what C16_unified_summary_is_projection states for code_duplication) on clone.statistics
   (lines_analyzed, total_clone_groups); 0 when the report has no clone section. *)
Definition run_dup (has_clone : bool) (lines groups : Z) := qpair (if has_clone then code_duplication_of lines groups else 0%Q).
