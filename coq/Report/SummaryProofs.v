(* Report/SummaryProofs.v — the summary models of Report/Summary.v equal their specs. *)
From Coq Require Import ZArith QArith List Bool Lia Permutation Sorted.
From PV Require Import Gen.ReportConst Gen.CheckConst Score.ScoreQ Report.Summary.
Import ListNotations.
Open Scope Z_scope.

(* ------------------------------------------------------------------ counting *)
Lemma zlen_cons {A} (x : A) l : zlen (x :: l) = 1 + zlen l.
Proof. unfold zlen. cbn [length]. lia. Qed.
Lemma zlen_app {A} (l1 l2 : list A) : zlen (l1 ++ l2) = zlen l1 + zlen l2.
Proof. unfold zlen. rewrite app_length. lia. Qed.
Lemma zlen_nonneg {A} (l : list A) : 0 <= zlen l.
Proof. unfold zlen. lia. Qed.
Lemma count_nil {A} (p : A -> bool) : count p [] = 0.
Proof. reflexivity. Qed.
Lemma count_cons {A} (p : A -> bool) x l : count p (x :: l) = (if p x then 1 else 0) + count p l.
Proof. unfold count. cbn [filter]. destruct (p x); [rewrite zlen_cons|]; lia. Qed.
Lemma count_app {A} (p : A -> bool) l1 l2 : count p (l1 ++ l2) = count p l1 + count p l2.
Proof. unfold count. rewrite filter_app, zlen_app. reflexivity. Qed.
Lemma count_nonneg {A} (p : A -> bool) l : 0 <= count p l.
Proof. apply zlen_nonneg. Qed.
Lemma count_le {A} (p : A -> bool) l : count p l <= zlen l.
Proof. induction l; [cbn; lia|]. rewrite count_cons, zlen_cons. destruct (p a); lia. Qed.
Lemma count_ext {A} (p q : A -> bool) l : (forall x, p x = q x) -> count p l = count q l.
Proof. intros H. induction l; [reflexivity|]. rewrite !count_cons, H, IHl. reflexivity. Qed.
Lemma sumZ_cons x l : sumZ (x :: l) = x + sumZ l.
Proof. reflexivity. Qed.
Lemma sumZ_app l1 l2 : sumZ (l1 ++ l2) = sumZ l1 + sumZ l2.
Proof. unfold sumZ. induction l1; cbn; lia. Qed.

(* ------------------------------------------------------------------ extrema *)
Lemma fold_max_ge m l : m <= fold_right Z.max m l.
Proof. induction l; cbn; lia. Qed.
Lemma fold_min_le m l : fold_right Z.min m l <= m.
Proof. induction l; cbn; lia. Qed.
Lemma fold_max_shift c m l : fold_right Z.max (Z.max c m) l = Z.max c (fold_right Z.max m l).
Proof. induction l; cbn; [reflexivity|]. rewrite IHl. lia. Qed.
Lemma fold_min_shift c m l : fold_right Z.min (Z.min c m) l = Z.min c (fold_right Z.min m l).
Proof. induction l; cbn; [reflexivity|]. rewrite IHl. lia. Qed.

Lemma max_of_spec l : l <> [] -> In (max_of l) l /\ Forall (fun x => x <= max_of l) l.
Proof.
  destruct l as [|x r]; [congruence|]. intros _. unfold max_of.
  revert x. induction r as [|y r IH]; intros x; cbn [fold_right].
  - split; [left; reflexivity|constructor; [lia|constructor]].
  - destruct (IH x) as [Hin Hall].
    assert (Hy : forall z, Forall (fun v => v <= z) (x :: r) -> Forall (fun v => v <= Z.max y z) (x :: y :: r)).
    { intros z Hz. inversion Hz; subst. constructor; [lia|]. constructor; [lia|].
      eapply Forall_impl; [|eassumption]. cbn. intros; lia. }
    split; [|apply Hy; assumption].
    destruct (Z.max_spec y (fold_right Z.max x r)) as [[_ E]|[_ E]]; rewrite E.
    + destruct Hin as [Hin|Hin]; [left; assumption|right; right; assumption].
    + right; left; reflexivity.
Qed.
Lemma min_of_spec l : l <> [] -> In (min_of l) l /\ Forall (fun x => min_of l <= x) l.
Proof.
  destruct l as [|x r]; [congruence|]. intros _. unfold min_of.
  revert x. induction r as [|y r IH]; intros x; cbn [fold_right].
  - split; [left; reflexivity|constructor; [lia|constructor]].
  - destruct (IH x) as [Hin Hall].
    split.
    + destruct (Z.min_spec y (fold_right Z.min x r)) as [[_ E]|[_ E]]; rewrite E.
      * right; left; reflexivity.
      * destruct Hin as [Hin|Hin]; [left; assumption|right; right; assumption].
    + inversion Hall; subst. constructor; [lia|]. constructor; [lia|].
      eapply Forall_impl; [|eassumption]. cbn. intros; lia.
Qed.

(* ------------------------------------------------------------------ the shared loop *)
Section Loop.
Variable bucket : Z -> nat.
Notation step := (vstep bucket).

Lemma fold_sum l a : a_sum (fold_left step l a) = a_sum a + sumZ (map v_val l).
Proof.
  revert a. induction l as [|f l IH]; intros a; cbn [fold_left map]; [cbn; lia|]. rewrite IH. cbn [a_sum vstep].
  change (sumZ (v_val f :: map v_val l)) with (v_val f + sumZ (map v_val l)). lia.
Qed.
Lemma fold_max l a : a_max (fold_left step l a) = fold_right Z.max (a_max a) (map v_val l).
Proof.
  revert a. induction l as [|f l IH]; intros a; cbn [fold_left map fold_right]; [reflexivity|]. rewrite IH. cbn [a_max vstep].
  replace (if a_max a <? v_val f then v_val f else a_max a) with (Z.max (v_val f) (a_max a))
    by (destruct (Z.ltb_spec (a_max a) (v_val f)); lia).
  apply fold_max_shift.
Qed.
Lemma fold_min l a : a_min (fold_left step l a) = fold_right Z.min (a_min a) (map v_val l).
Proof.
  revert a. induction l as [|f l IH]; intros a; cbn [fold_left map fold_right]; [reflexivity|]. rewrite IH. cbn [a_min vstep].
  replace (if v_val f <? a_min a then v_val f else a_min a) with (Z.min (v_val f) (a_min a))
    by (destruct (Z.ltb_spec (v_val f) (a_min a)); lia).
  apply fold_min_shift.
Qed.
Lemma fold_low l a : a_low (fold_left step l a) = a_low a + count (fun f => risk_eqb (v_risk f) RLow) l.
Proof. revert a. induction l as [|f l IH]; intros a; cbn [fold_left]; [rewrite count_nil; lia|]. rewrite IH, count_cons. cbn [a_low vstep]. destruct (v_risk f); cbn [risk_eqb]; lia. Qed.
Lemma fold_med l a : a_med (fold_left step l a) = a_med a + count (fun f => risk_eqb (v_risk f) RMedium) l.
Proof. revert a. induction l as [|f l IH]; intros a; cbn [fold_left]; [rewrite count_nil; lia|]. rewrite IH, count_cons. cbn [a_med vstep]. destruct (v_risk f); cbn [risk_eqb]; lia. Qed.
Lemma fold_high l a : a_high (fold_left step l a) = a_high a + count (fun f => risk_eqb (v_risk f) RHigh) l.
Proof. revert a. induction l as [|f l IH]; intros a; cbn [fold_left]; [rewrite count_nil; lia|]. rewrite IH, count_cons. cbn [a_high vstep]. destruct (v_risk f); cbn [risk_eqb]; lia. Qed.
Lemma fold_dist l a i : a_dist (fold_left step l a) i = a_dist a i + count (fun f => Nat.eqb (bucket (v_val f)) i) l.
Proof.
  revert a. induction l as [|f l IH]; intros a; cbn [fold_left]; [rewrite count_nil; lia|]. rewrite IH, count_cons. cbn [a_dist vstep]. unfold bump.
  rewrite (Nat.eqb_sym i). destruct (Nat.eqb (bucket (v_val f)) i); lia.
Qed.
End Loop.

Lemma repeat_zero_map {A} (g : nat -> A) s n : (forall i, g i = g 0%nat) -> map g (seq s n) = repeat (g 0%nat) n.
Proof. intros H. revert s. induction n; intros s; cbn; [reflexivity|]. rewrite IHn, (H s). reflexivity. Qed.

Lemma class_summary_exact_gen bucket nb topn cs files :
  class_generate_summary bucket nb topn cs files = vsummary_spec bucket nb (top_values topn cs) cs files.
Proof.
  destruct cs as [|c0 r].
  - unfold class_generate_summary, vsummary_spec, empty_vsummary. cbn [map max_of min_of zlen length count filter top_values].
    f_equal. + symmetry. apply (repeat_zero_map (fun _ => 0)). reflexivity. + destruct topn; reflexivity.
  - unfold class_generate_summary, vsummary_spec.
    set (l := c0 :: r).
    f_equal.
    + rewrite fold_sum. cbn [a_sum]. rewrite Z.add_0_l. reflexivity.
    + rewrite fold_max. cbn [a_max]. unfold l, max_of. cbn [map fold_right]. pose proof (fold_max_ge (v_val c0) (map v_val r)). lia.
    + rewrite fold_min. cbn [a_min]. unfold l, min_of. cbn [map fold_right]. pose proof (fold_min_le (v_val c0) (map v_val r)). lia.
    + rewrite fold_low. cbn [a_low]. lia.
    + rewrite fold_med. cbn [a_med]. lia.
    + rewrite fold_high. cbn [a_high]. lia.
    + apply map_ext. intros i. rewrite fold_dist. cbn [a_dist]. lia.
Qed.

Lemma max_from_zero c0 r : 0 <= c0 -> Forall (fun v => 0 <= v) r ->
  Z.max c0 (fold_right Z.max 0 r) = fold_right Z.max c0 r.
Proof.
  intros H0 Hr. induction r as [|y r IH]; cbn [fold_right]; [lia|]. inversion Hr; subst. specialize (IH H3). lia.
Qed.

Lemma cx_summary_exact_lemma fs files : Forall (fun f => 0 <= v_val f) fs ->
  cx_generate_summary fs files = vsummary_spec report_cx_bucket report_cx_nbuckets [] fs files.
Proof.
  intros Hpos. destruct fs as [|c0 r].
  - unfold cx_generate_summary, vsummary_spec, empty_vsummary. cbn [map max_of min_of zlen length count filter].
    f_equal; try (symmetry; apply (repeat_zero_map (fun _ : nat => 0)); reflexivity).
  - unfold cx_generate_summary, vsummary_spec.
    set (l := c0 :: r).
    f_equal.
    + rewrite fold_sum. cbn [a_sum]. rewrite Z.add_0_l. reflexivity.
    + rewrite fold_max. cbn [a_max]. unfold l, max_of. cbn [map fold_right].
      inversion Hpos; subst. apply max_from_zero; [assumption|]. rewrite Forall_map. assumption.
    + rewrite fold_min. cbn [a_min]. unfold l, min_of. cbn [map fold_right]. pose proof (fold_min_le (v_val c0) (map v_val r)). lia.
    + rewrite fold_low. cbn [a_low]. lia.
    + rewrite fold_med. cbn [a_med]. lia.
    + rewrite fold_high. cbn [a_high]. lia.
    + apply map_ext. intros i. rewrite fold_dist. cbn [a_dist]. lia.
Qed.

(* the literal reading matters: with a negative "complexity" the reported maximum would be 0 *)
Lemma cx_max_starts_at_zero : exists fs, s_max (cx_generate_summary fs 1) <> max_of (map v_val fs).
Proof. exists [{| v_val := -3; v_risk := RLow |}]. vm_compute. discriminate. Qed.

(* ------------------------------------------------------------------ top-N *)
Lemma insert_desc_perm x l : Permutation (insert_desc x l) (x :: l).
Proof.
  induction l as [|y r IH]; cbn; [reflexivity|]. destruct (y <? x); [reflexivity|].
  rewrite IH. apply perm_swap.
Qed.
Lemma sort_desc_perm l : Permutation (sort_desc l) l.
Proof. induction l; cbn; [constructor|]. rewrite insert_desc_perm. constructor. assumption. Qed.
Lemma insert_desc_sorted x l : StronglySorted Z.ge l -> StronglySorted Z.ge (insert_desc x l).
Proof.
  induction 1 as [|y r Hs IH Hall]; cbn; [repeat constructor|].
  destruct (Z.ltb_spec y x).
  - constructor; [constructor; assumption|]. constructor; [lia|]. eapply Forall_impl; [|eassumption]. cbn; intros; lia.
  - constructor; [assumption|]. eapply Permutation_Forall; [symmetry; apply insert_desc_perm|]. constructor; [lia|assumption].
Qed.
Lemma sort_desc_sorted l : StronglySorted Z.ge (sort_desc l).
Proof. induction l; cbn; [constructor|]. apply insert_desc_sorted. assumption. Qed.
Lemma sorted_split l1 l2 : StronglySorted Z.ge (l1 ++ l2) ->
  StronglySorted Z.ge l1 /\ (forall t r, In t l1 -> In r l2 -> r <= t).
Proof.
  induction l1 as [|x l1 IH]; cbn; intros H; [split; [constructor|intros ? ? []]|].
  inversion H; subst. destruct (IH H2) as [Hs Hc]. split.
  - constructor; [assumption|]. rewrite Forall_app in H3. tauto.
  - intros t r [->|Ht] Hr; [|auto]. rewrite Forall_forall in H3. specialize (H3 r). rewrite in_app_iff in H3. specialize (H3 (or_intror Hr)). lia.
Qed.
Lemma top_values_spec n fs : top_spec n (map v_val fs) (top_values n fs).
Proof.
  unfold top_spec, top_values. set (s := sort_desc (map v_val fs)).
  exists (skipn n s). rewrite firstn_skipn.
  pose proof (sort_desc_sorted (map v_val fs)) as Hs. fold s in Hs. rewrite <- (firstn_skipn n s) in Hs.
  destruct (sorted_split _ _ Hs) as [H1 H2].
  repeat split; try assumption.
  - apply sort_desc_perm.
  - rewrite firstn_length. f_equal. unfold s. apply Permutation_length, sort_desc_perm.
Qed.

(* ------------------------------------------------------------------ distributions *)
Lemma sumZ_map_add (g h : nat -> Z) l : sumZ (map (fun i => g i + h i) l) = sumZ (map g l) + sumZ (map h l).
Proof. unfold sumZ. induction l; cbn; lia. Qed.
Lemma indicator_sum k s n :
  sumZ (map (fun i => if Nat.eqb k i then 1 else 0) (seq s n)) = if ((s <=? k)%nat && (k <? s + n)%nat)%bool then 1 else 0.
Proof.
  revert s. induction n; intros s; cbn [seq map sumZ fold_right].
  - destruct (Nat.leb_spec s k), (Nat.ltb_spec k (s + 0)); cbn; lia.
  - fold (sumZ (map (fun i => if Nat.eqb k i then 1 else 0) (seq (S s) n))). rewrite IHn.
    destruct (Nat.eqb_spec k s), (Nat.leb_spec s k), (Nat.leb_spec (S s) k), (Nat.ltb_spec k (S s + n)), (Nat.ltb_spec k (s + S n)); cbn; lia.
Qed.
Lemma dist_sums_to_total {A} (b : A -> nat) nb (l : list A) : Forall (fun f => (b f < nb)%nat) l ->
  sumZ (map (fun i => count (fun f => Nat.eqb (b f) i) l) (seq 0 nb)) = zlen l.
Proof.
  induction 1 as [|f l Hf Hl IH].
  - unfold sumZ. induction (seq 0 nb); cbn in *; [reflexivity|assumption].
  - rewrite zlen_cons, <- IH.
    rewrite (map_ext _ (fun i => (if Nat.eqb (b f) i then 1 else 0) + count (fun f0 => Nat.eqb (b f0) i) l)) by (intros i; exact (count_cons (fun f0 => Nat.eqb (b f0) i) f l)).
    rewrite sumZ_map_add, indicator_sum.
    destruct (Nat.leb_spec 0 (b f)), (Nat.ltb_spec (b f) (0 + nb)); cbn; lia.
Qed.

(* ------------------------------------------------------------------ risk counts *)
Lemma risk_counts_sum_lemma fs : Forall (fun f => v_risk f <> ROther) fs ->
  count (fun f => risk_eqb (v_risk f) RLow) fs + count (fun f => risk_eqb (v_risk f) RMedium) fs +
  count (fun f => risk_eqb (v_risk f) RHigh) fs = zlen fs.
Proof.
  induction 1 as [|f l Hf Hl IH]; [reflexivity|]. rewrite !count_cons, zlen_cons.
  destruct (v_risk f) eqn:E; cbn [risk_eqb]; try lia. congruence.
Qed.

(* ------------------------------------------------------------------ dead code *)
Lemma sev_counts_fold l c w i :
  fold_left sev_step l (c, w, i) =
  (c + count (fun x => sev_eqb (fd_sev x) SCrit) l, w + count (fun x => sev_eqb (fd_sev x) SWarn) l,
   i + count (fun x => sev_eqb (fd_sev x) SInfo) l).
Proof.
  revert c w i. induction l as [|x l IH]; intros c w i; cbn [fold_left].
  - rewrite !count_nil, !Z.add_0_r. reflexivity.
  - rewrite !count_cons. unfold sev_step at 2. destruct (fd_sev x); rewrite IH; cbn [sev_eqb]; (apply f_equal2; [apply f_equal2|]); lia.
Qed.
Lemma calculate_severity_counts_wf f : dfunc_wf (calculate_severity_counts f).
Proof.
  unfold calculate_severity_counts. rewrite sev_counts_fold. cbn. unfold dfunc_wf. cbn. repeat split; lia.
Qed.
Lemma calculate_severity_counts_findings f : fn_findings (calculate_severity_counts f) = fn_findings f.
Proof. unfold calculate_severity_counts. destruct (fold_left sev_step (fn_findings f) (0, 0, 0)) as [[? ?] ?]. reflexivity. Qed.

Lemma analyze_function_wf raw m f : analyze_function true raw m = Some f -> dfunc_wf f.
Proof.
  unfold analyze_function. cbn zeta.
  set (g := calculate_severity_counts (set_findings _ _)).
  destruct (fn_findings g) eqn:E; [discriminate|]. intros H; inversion H; subst. apply calculate_severity_counts_wf.
Qed.
Lemma keep_some_forall {A} (P : A -> Prop) (l : list (option A)) :
  (forall x, In (Some x) l -> P x) -> Forall P (keep_some l).
Proof.
  induction l as [|[x|] l IH]; intros H; cbn; [constructor| |].
  - constructor; [apply H; left; reflexivity|apply IH; intros; apply H; right; assumption].
  - apply IH; intros; apply H; right; assumption.
Qed.
Lemma count_total_fold fs t : fold_left (fun t f => t + zlen (fn_findings f)) fs t = t + zlen (flat_map fn_findings fs).
Proof.
  revert t. induction fs as [|f fs IH]; intros t; cbn [fold_left flat_map]; [cbn; lia|]. rewrite IH, zlen_app. lia.
Qed.
Lemma analyze_file_wf raws n m : dfile_wf (analyze_file true raws n m).
Proof.
  unfold analyze_file, dfile_wf. cbn. repeat split.
  - apply keep_some_forall. intros x Hx. apply in_map_iff in Hx. destruct Hx as [r [Hr _]]. eapply analyze_function_wf; eassumption.
  - rewrite count_total_fold. lia.
Qed.
Lemma filter_functions_at_forall P fs m : Forall P fs -> Forall P (filter_functions_at fs m).
Proof. induction 1; cbn; [constructor|]. destruct (has_findings_at_severity _ _); [constructor|]; assumption. Qed.
Lemma filter_files_wf files m : Forall dfile_wf files -> Forall dfile_wf (filter_files files m).
Proof.
  induction 1 as [|f l Hf Hl IH]; cbn [filter_files]; [constructor|].
  destruct (filter_functions_at (fl_functions f) m) eqn:E; [assumption|].
  constructor; [|assumption]. rewrite <- E. unfold dfile_wf; cbn. repeat split.
  - apply filter_functions_at_forall. apply Hf.
  - unfold count_total_findings. rewrite count_total_fold. lia.
Qed.

(* fold over the functions of one file *)
Lemma dfunc_fold fs a :
  let b := fold_left dfunc_step fs a in
  d_tfun b = d_tfun a /\ d_fwith b = d_fwith a /\
  d_find b = d_find a + zlen (flat_map fn_findings fs) /\
  d_c b = d_c a + sumZ (map fn_crit fs) /\ d_w b = d_w a + sumZ (map fn_warn fs) /\ d_i b = d_i a + sumZ (map fn_info fs) /\
  d_tb b = d_tb a + sumZ (map fn_total_blocks fs) /\ d_db b = d_db a + sumZ (map fn_dead_blocks fs).
Proof.
  revert a. induction fs as [|f fs IH]; intros a; cbn [fold_left flat_map map].
  - cbn. repeat split; lia.
  - specialize (IH (dfunc_step a f)). cbn zeta in IH |- *. destruct IH as (H1 & H2 & H3 & H4 & H5 & H6 & H7 & H8).
    rewrite H1, H2, H3, H4, H5, H6, H7, H8, zlen_app, !sumZ_cons.
    cbn [d_tfun d_fwith d_find d_c d_w d_i d_tb d_db dfunc_step]. repeat split; lia.
Qed.
Lemma reason_fold l d r : fold_left (fun d x => bumpN d (fd_reason x)) l d r = d r + count (fun x => N.eqb (fd_reason x) r) l.
Proof.
  revert d. induction l as [|x l IH]; intros d; cbn [fold_left]; [cbn; lia|]. rewrite IH, count_cons. unfold bumpN.
  rewrite (N.eqb_sym r). destruct (N.eqb (fd_reason x) r); lia.
Qed.
Lemma dfunc_fold_reason fs a r :
  d_reason (fold_left dfunc_step fs a) r = d_reason a r + count (fun x => N.eqb (fd_reason x) r) (flat_map fn_findings fs).
Proof.
  revert a. induction fs as [|f fs IH]; intros a; cbn [fold_left flat_map]; [cbn; lia|].
  rewrite IH, count_app. cbn [d_reason dfunc_step]. rewrite reason_fold. lia.
Qed.

Lemma dfile_fold files a :
  let b := fold_left dfile_step files a in
  d_tfun b = d_tfun a + sumZ (map fl_total_functions files) /\ d_fwith b = d_fwith a + sumZ (map fl_affected files) /\
  d_find b = d_find a + zlen (all_findings files) /\
  d_c b = d_c a + sumZ (map fn_crit (all_functions files)) /\ d_w b = d_w a + sumZ (map fn_warn (all_functions files)) /\
  d_i b = d_i a + sumZ (map fn_info (all_functions files)) /\
  d_tb b = d_tb a + sumZ (map fn_total_blocks (all_functions files)) /\
  d_db b = d_db a + sumZ (map fn_dead_blocks (all_functions files)).
Proof.
  revert a. induction files as [|f files IH]; intros a; cbn [fold_left].
  - cbn. repeat split; lia.
  - specialize (IH (dfile_step a f)). cbn zeta in IH |- *. destruct IH as (H1 & H2 & H3 & H4 & H5 & H6 & H7 & H8).
    rewrite H1, H2, H3, H4, H5, H6, H7, H8. unfold dfile_step.
    match goal with |- context [fold_left dfunc_step ?fs ?a0] => destruct (dfunc_fold fs a0) as (G1 & G2 & G3 & G4 & G5 & G6 & G7 & G8) end.
    rewrite G1, G2, G3, G4, G5, G6, G7, G8. cbn [d_tfun d_fwith d_find d_c d_w d_i d_tb d_db].
    unfold all_findings, all_functions. cbn [flat_map map]. rewrite !flat_map_app, !map_app, !sumZ_app, zlen_app, !sumZ_cons.
    repeat split; lia.
Qed.
Lemma dfile_fold_reason files a r :
  d_reason (fold_left dfile_step files a) r = d_reason a r + count (fun x => N.eqb (fd_reason x) r) (all_findings files).
Proof.
  revert a. induction files as [|f files IH]; intros a; cbn [fold_left]; [cbn; lia|].
  rewrite IH. unfold dfile_step. rewrite dfunc_fold_reason. cbn [d_reason].
  unfold all_findings, all_functions. cbn [flat_map]. rewrite flat_map_app, count_app. lia.
Qed.

Lemma wf_sums (fns : list dfunc) : Forall dfunc_wf fns ->
  sumZ (map fn_crit fns) = count (fun x => sev_eqb (fd_sev x) SCrit) (flat_map fn_findings fns) /\
  sumZ (map fn_warn fns) = count (fun x => sev_eqb (fd_sev x) SWarn) (flat_map fn_findings fns) /\
  sumZ (map fn_info fns) = count (fun x => sev_eqb (fd_sev x) SInfo) (flat_map fn_findings fns).
Proof.
  induction 1 as [|f l Hf Hl IH]; [cbn; repeat split; reflexivity|].
  cbn [map sumZ fold_right flat_map]. rewrite !count_app. destruct Hf as (A & B & C), IH as (D & E & F).
  fold (sumZ (map fn_crit l)) (sumZ (map fn_warn l)) (sumZ (map fn_info l)). repeat split; lia.
Qed.
Lemma all_functions_wf files : Forall dfile_wf files -> Forall dfunc_wf (all_functions files).
Proof.
  induction 1 as [|f l Hf Hl IH]; [constructor|]. unfold all_functions. cbn [flat_map]. apply Forall_app. split; [apply Hf|assumption].
Qed.
Lemma affected_sum files : Forall dfile_wf files -> sumZ (map fl_affected files) = zlen (all_functions files).
Proof.
  induction 1 as [|f l Hf Hl IH]; [reflexivity|]. unfold all_functions in *. cbn [map sumZ fold_right flat_map]. rewrite zlen_app.
  destruct Hf as (_ & A & _). fold (sumZ (map fl_affected l)). lia.
Qed.

Lemma deadcode_summary_exact_lemma reasons files processed : Forall dfile_wf files ->
  dc_generate_summary reasons files processed = dc_summary_spec reasons files processed.
Proof.
  intros Hwf. unfold dc_generate_summary, dc_summary_spec. cbn zeta.
  match goal with |- context [fold_left dfile_step files ?a0] => set (a := a0) end.
  destruct (dfile_fold files a) as (H1 & H2 & H3 & H4 & H5 & H6 & H7 & H8).
  destruct (wf_sums _ (all_functions_wf _ Hwf)) as (W1 & W2 & W3).
  rewrite H1, H2, H3, H4, H5, H6, H7, H8. cbn [a d_tfun d_fwith d_find d_c d_w d_i d_tb d_db]. rewrite !Z.add_0_l.
  rewrite (affected_sum _ Hwf), W1, W2, W3.
  f_equal. apply map_ext. intros r. rewrite dfile_fold_reason. cbn. reflexivity.
Qed.

(* the code before the fix: severity counts taken before the severity filter *)
Definition prefix_witness_raw : dfunc :=
  {| fn_findings := [{| fd_sev := SCrit; fd_reason := 1%N |}; {| fd_sev := SWarn; fd_reason := 5%N |}];
     fn_total_blocks := 7; fn_dead_blocks := 2; fn_crit := 0; fn_warn := 0; fn_info := 0 |}.
Lemma deadcode_counts_prefix_refuted_lemma :
  let files := filter_files [analyze_file false [prefix_witness_raw] 2 SCrit] SCrit in
  ds_warn (dc_generate_summary [] files 1) = 1 /\ ds_warn (dc_summary_spec [] files 1) = 0 /\
  ds_total_findings (dc_generate_summary [] files 1) = 1.
Proof. vm_compute. repeat split. Qed.

(* ------------------------------------------------------------------ clones *)
Lemma type_fold l d k : fold_left (fun d p => bumpZ d (type_key (p_type p))) l d k =
  d k + count (fun p => Z.eqb (type_key (p_type p)) k) l.
Proof.
  revert d. induction l as [|x l IH]; intros d; cbn [fold_left]; [cbn; lia|]. rewrite IH, count_cons. unfold bumpZ.
  rewrite (Z.eqb_sym k). destruct (Z.eqb (type_key (p_type x)) k); lia.
Qed.
Lemma sim_fold l (t : Q) : fold_left (fun t p => (t + p_sim p)%Q) l t = fold_left Qplus (map p_sim l) t.
Proof. revert t. induction l; intros t; cbn; [reflexivity|apply IHl]. Qed.

Lemma clone_stats_exact_lemma n pairs groups : create_statistics n pairs groups = clone_stats_spec n pairs groups.
Proof.
  unfold create_statistics, clone_stats_spec. f_equal.
  - apply map_ext. intros k. rewrite type_fold. lia.
  - destruct pairs; [reflexivity|]. rewrite sim_fold. reflexivity.
Qed.

Definition mkfn_example : dfunc :=
  {| fn_findings := [{| fd_sev := SCrit; fd_reason := 1%N |}; {| fd_sev := SWarn; fd_reason := 5%N |}; {| fd_sev := SInfo; fd_reason := 5%N |}];
     fn_total_blocks := 7; fn_dead_blocks := 3; fn_crit := 0; fn_warn := 0; fn_info := 0 |}.
