(* Report/Summary.v — models of the `generateSummary` functions of pyscn's analysis services
   (one Gallina function per Go function, read literally from the Go code) and the SPEC: every
   summary number defined directly as a count / sum / extremum over the detailed items.

   service/complexity_service.go : generateSummary (227-279), getComplexityDistributionKey
   service/cbo_service.go        : generateSummary (227-291), getCBORange
   service/lcom_service.go       : generateSummary, getLCOMRange
   service/dead_code_service.go  : generateSummary (295-333), filterFiles, countTotalFindings,
                                   filterFindingsBySeverity, the per-function part of analyzeFile
   domain/dead_code.go           : Level, IsAtLeast, CalculateSeverityCounts, HasFindingsAtSeverity
   service/clone_service.go      : createStatistics (473-499)
   app/analyze_usecase.go        : calculateSummary — modelled by Score/ScoreQ.v:assemble (reused),
                                   the fields assemble does not carry are in [assemble_extra].

   Go maps (distributions, findings by reason, clones by type) are finite functions key -> count
   with absent = 0; they are reported as the list of counts over a fixed key list.
   Bucket functions, comparison operators and top-N lengths come from Gen/ReportConst.v,
   severity levels from Gen/CheckConst.v (both regenerated from the Go source on every run).
   No proofs in this file. *)
From Coq Require Import ZArith QArith List Bool Permutation Sorted.
From PV Require Import Gen.ReportConst Gen.CheckConst Score.ScoreQ.
Import ListNotations.
Open Scope Z_scope.

(* ------------------------------------------------------------------ generic *)
Definition zlen {A} (l : list A) : Z := Z.of_nat (length l).
Definition count {A} (p : A -> bool) (l : list A) : Z := zlen (filter p l).
Definition sumZ (l : list Z) : Z := fold_right Z.add 0 l.
Definition sumQ (l : list Q) : Q := fold_left Qplus l 0%Q.
(* float64(s) / float64(n) *)
Definition divQ (s n : Z) : Q := (inject_Z s / inject_Z n)%Q.
Definition max_of (l : list Z) : Z := match l with [] => 0 | x :: r => fold_right Z.max x r end.
Definition min_of (l : list Z) : Z := match l with [] => 0 | x :: r => fold_right Z.min x r end.

(* map[key]int as a function; m[k]++ *)
Definition bump (d : nat -> Z) (i : nat) : nat -> Z := fun j => if Nat.eqb j i then d j + 1 else d j.
Definition bumpN (d : N -> Z) (i : N) : N -> Z := fun j => if N.eqb j i then d j + 1 else d j.
Definition bumpZ (d : Z -> Z) (i : Z) : Z -> Z := fun j => if Z.eqb j i then d j + 1 else d j.

(* ------------------------------------------------------------------ items with a metric value and a risk level *)
Inductive risk := RLow | RMedium | RHigh | ROther.   (* ROther: any other string; counted nowhere *)
Definition risk_eqb (a b : risk) : bool :=
  match a, b with RLow, RLow | RMedium, RMedium | RHigh, RHigh | ROther, ROther => true | _, _ => false end.

Record vr := { v_val : Z; v_risk : risk }.

Record vsummary := {
  s_total : Z; s_avg : Q; s_max : Z; s_min : Z; s_files : Z;
  s_low : Z; s_med : Z; s_high : Z;
  s_dist : list Z;          (* count per bucket, in the order of the bucket function *)
  s_top : list Z            (* metric values of the top-N list (CBO / LCOM only) *)
}.

Record vacc := { a_sum : Z; a_max : Z; a_min : Z; a_low : Z; a_med : Z; a_high : Z; a_dist : nat -> Z }.

(* loop body shared by the three generateSummary functions *)
Definition vstep (bucket : Z -> nat) (a : vacc) (f : vr) : vacc :=
  let c := v_val f in
  {| a_sum := a_sum a + c;
     a_max := if a_max a <? c then c else a_max a;          (* if c > max { max = c } *)
     a_min := if c <? a_min a then c else a_min a;          (* if c < min { min = c } *)
     a_low := match v_risk f with RLow => a_low a + 1 | _ => a_low a end;
     a_med := match v_risk f with RMedium => a_med a + 1 | _ => a_med a end;
     a_high := match v_risk f with RHigh => a_high a + 1 | _ => a_high a end;
     a_dist := bump (a_dist a) (bucket c) |}.

Definition empty_vsummary (nb : nat) (files : Z) : vsummary :=
  {| s_total := 0; s_avg := 0%Q; s_max := 0; s_min := 0; s_files := files; s_low := 0; s_med := 0; s_high := 0;
     s_dist := repeat 0 nb; s_top := [] |}.

(* ComplexityServiceImpl.generateSummary: `var maxComplexity int` (= 0), minComplexity := functions[0] *)
Definition cx_generate_summary (fs : list vr) (files : Z) : vsummary :=
  match fs with
  | [] => empty_vsummary report_cx_nbuckets files
  | f0 :: _ =>
    let a := fold_left (vstep report_cx_bucket) fs
               {| a_sum := 0; a_max := 0; a_min := v_val f0; a_low := 0; a_med := 0; a_high := 0; a_dist := fun _ => 0 |} in
    {| s_total := zlen fs; s_avg := divQ (a_sum a) (zlen fs); s_max := a_max a; s_min := a_min a; s_files := files;
       s_low := a_low a; s_med := a_med a; s_high := a_high a;
       s_dist := map (a_dist a) (seq 0 report_cx_nbuckets); s_top := [] |}
  end.

(* sort.Slice(.., count desc) is not stable: only the metric values of the result are determined *)
Fixpoint insert_desc (x : Z) (l : list Z) : list Z :=
  match l with [] => [x] | y :: r => if y <? x then x :: l else y :: insert_desc x r end.
Definition sort_desc (l : list Z) : list Z := fold_right insert_desc [] l.
Definition top_values (n : nat) (fs : list vr) : list Z := firstn n (sort_desc (map v_val fs)).

(* CBOServiceImpl.generateSummary / LCOMServiceImpl.generateSummary: min and max start at classes[0] *)
Definition class_generate_summary (bucket : Z -> nat) (nb topn : nat) (cs : list vr) (files : Z) : vsummary :=
  match cs with
  | [] => empty_vsummary nb files
  | c0 :: _ =>
    let a := fold_left (vstep bucket) cs
               {| a_sum := 0; a_max := v_val c0; a_min := v_val c0; a_low := 0; a_med := 0; a_high := 0; a_dist := fun _ => 0 |} in
    {| s_total := zlen cs; s_avg := divQ (a_sum a) (zlen cs); s_max := a_max a; s_min := a_min a; s_files := files;
       s_low := a_low a; s_med := a_med a; s_high := a_high a;
       s_dist := map (a_dist a) (seq 0 nb); s_top := top_values topn cs |}
  end.
Definition cbo_generate_summary := class_generate_summary report_cbo_bucket report_cbo_nbuckets report_cbo_topn.
Definition lcom_generate_summary := class_generate_summary report_lcom_bucket report_lcom_nbuckets report_lcom_topn.

(* SPEC: every number recomputed from the items by its definition.
   Empty-list convention of the code: every number 0, distribution empty (all keys absent). *)
Definition vsummary_spec (bucket : Z -> nat) (nb : nat) (top : list Z) (fs : list vr) (files : Z) : vsummary :=
  let vals := map v_val fs in
  {| s_total := zlen fs;
     s_avg := match fs with [] => 0%Q | _ => divQ (sumZ vals) (zlen fs) end;
     s_max := max_of vals; s_min := min_of vals; s_files := files;
     s_low := count (fun f => risk_eqb (v_risk f) RLow) fs;
     s_med := count (fun f => risk_eqb (v_risk f) RMedium) fs;
     s_high := count (fun f => risk_eqb (v_risk f) RHigh) fs;
     s_dist := map (fun i => count (fun f => Nat.eqb (bucket (v_val f)) i) fs) (seq 0 nb);
     s_top := top |}.

(* a value lies in the interval a label denotes *)
Definition in_range (r : Z * option Z) (x : Z) : Prop :=
  fst r <= x /\ match snd r with Some hi => x <= hi | None => True end.

(* the top-N list: the N largest values, largest first *)
Definition top_spec (n : nat) (vals top : list Z) : Prop :=
  exists rest, Permutation (top ++ rest) vals /\ StronglySorted Z.ge top /\
               (forall t r, In t top -> In r rest -> r <= t) /\ length top = Nat.min n (length vals).

(* ------------------------------------------------------------------ dead code *)
Inductive sev := SCrit | SWarn | SInfo | SOther.
Definition sev_eqb (a b : sev) : bool :=
  match a, b with SCrit, SCrit | SWarn, SWarn | SInfo, SInfo | SOther, SOther => true | _, _ => false end.
(* DeadCodeSeverity.Level *)
Definition sev_level (s : sev) : Z :=
  match s with
  | SCrit => domain_level_DeadCodeSeverityCritical | SWarn => domain_level_DeadCodeSeverityWarning
  | SInfo => domain_level_DeadCodeSeverityInfo | SOther => domain_level_DeadCodeSeverity_other
  end.
(* DeadCodeSeverity.IsAtLeast *)
Definition is_at_least (s m : sev) : bool := domain_DeadCodeSeverity_is_at_least (sev_level s) (sev_level m).

Record finding := { fd_sev : sev; fd_reason : N }.
Record dfunc := { fn_findings : list finding; fn_total_blocks : Z; fn_dead_blocks : Z;
                  fn_crit : Z; fn_warn : Z; fn_info : Z }.
Record dfile := { fl_functions : list dfunc; fl_total_findings : Z; fl_total_functions : Z; fl_affected : Z }.

Record dsummary := {
  ds_total_files : Z; ds_total_functions : Z; ds_total_findings : Z; ds_files_with : Z; ds_funcs_with : Z;
  ds_crit : Z; ds_warn : Z; ds_info : Z; ds_by_reason : list Z; ds_total_blocks : Z; ds_dead_blocks : Z; ds_ratio : Q }.

(* FunctionDeadCode.CalculateSeverityCounts *)
Definition sev_step (a : Z * Z * Z) (x : finding) : Z * Z * Z :=
  let '(c, w, i) := a in
  match fd_sev x with SCrit => (c + 1, w, i) | SWarn => (c, w + 1, i) | SInfo => (c, w, i + 1) | SOther => (c, w, i) end.
Definition calculate_severity_counts (f : dfunc) : dfunc :=
  let '(c, w, i) := fold_left sev_step (fn_findings f) (0, 0, 0) in
  {| fn_findings := fn_findings f; fn_total_blocks := fn_total_blocks f; fn_dead_blocks := fn_dead_blocks f;
     fn_crit := c; fn_warn := w; fn_info := i |}.

(* DeadCodeServiceImpl.filterFindingsBySeverity *)
Fixpoint filter_findings_by_severity (l : list finding) (m : sev) : list finding :=
  match l with
  | [] => []
  | x :: r => if is_at_least (fd_sev x) m then x :: filter_findings_by_severity r m else filter_findings_by_severity r m
  end.
(* FunctionDeadCode.HasFindingsAtSeverity *)
Fixpoint has_findings_at_severity (l : list finding) (m : sev) : bool :=
  match l with [] => false | x :: r => if is_at_least (fd_sev x) m then true else has_findings_at_severity r m end.
(* countTotalFindings *)
Definition count_total_findings (fs : list dfunc) : Z :=
  fold_left (fun t f => t + zlen (fn_findings f)) fs 0.

Definition set_findings (f : dfunc) (l : list finding) : dfunc :=
  {| fn_findings := l; fn_total_blocks := fn_total_blocks f; fn_dead_blocks := fn_dead_blocks f;
     fn_crit := fn_crit f; fn_warn := fn_warn f; fn_info := fn_info f |}.

(* analyzeFile, per function: convertToFunctionDeadCode (counts the severities), filter the findings by
   severity, recount (the repaired code; [recount := false] is the code before the fix), keep the
   function only if findings remain. The raw function carries findings and block numbers. *)
Definition analyze_function (recount : bool) (raw : dfunc) (m : sev) : option dfunc :=
  let f := calculate_severity_counts raw in
  let f := set_findings f (filter_findings_by_severity (fn_findings f) m) in
  let f := if recount then calculate_severity_counts f else f in
  match fn_findings f with [] => None | _ => Some f end.
Fixpoint keep_some {A} (l : list (option A)) : list A :=
  match l with [] => [] | Some x :: r => x :: keep_some r | None :: r => keep_some r end.
(* analyzeFile: file record; ncfgs = len(cfgs) *)
Definition analyze_file (recount : bool) (raws : list dfunc) (ncfgs : Z) (m : sev) : dfile :=
  let fs := keep_some (map (fun r => analyze_function recount r m) raws) in
  {| fl_functions := fs; fl_total_findings := fold_left (fun t f => t + zlen (fn_findings f)) fs 0;
     fl_total_functions := ncfgs - 1; fl_affected := zlen fs |}.
(* Analyze keeps a file when len(Functions) > 0 || TotalFindings > 0 *)
Definition keep_file (f : dfile) : bool :=
  negb (match fl_functions f with [] => true | _ => false end) || (0 <? fl_total_findings f).

(* DeadCodeServiceImpl.filterFiles *)
Fixpoint filter_functions_at (fs : list dfunc) (m : sev) : list dfunc :=
  match fs with
  | [] => []
  | f :: r => if has_findings_at_severity (fn_findings f) m then f :: filter_functions_at r m else filter_functions_at r m
  end.
Fixpoint filter_files (files : list dfile) (m : sev) : list dfile :=
  match files with
  | [] => []
  | f :: r =>
    let ff := filter_functions_at (fl_functions f) m in
    match ff with
    | [] => filter_files r m
    | _ => {| fl_functions := ff; fl_total_findings := count_total_findings ff;
              fl_total_functions := fl_total_functions f; fl_affected := zlen ff |} :: filter_files r m
    end
  end.

Record dacc := { d_tfun : Z; d_fwith : Z; d_find : Z; d_c : Z; d_w : Z; d_i : Z; d_tb : Z; d_db : Z; d_reason : N -> Z }.
Definition dfunc_step (a : dacc) (f : dfunc) : dacc :=
  {| d_tfun := d_tfun a; d_fwith := d_fwith a;
     d_find := d_find a + zlen (fn_findings f);
     d_c := d_c a + fn_crit f; d_w := d_w a + fn_warn f; d_i := d_i a + fn_info f;
     d_tb := d_tb a + fn_total_blocks f; d_db := d_db a + fn_dead_blocks f;
     d_reason := fold_left (fun d x => bumpN d (fd_reason x)) (fn_findings f) (d_reason a) |}.
Definition dfile_step (a : dacc) (f : dfile) : dacc :=
  let a := {| d_tfun := d_tfun a + fl_total_functions f; d_fwith := d_fwith a + fl_affected f;
              d_find := d_find a; d_c := d_c a; d_w := d_w a; d_i := d_i a; d_tb := d_tb a; d_db := d_db a;
              d_reason := d_reason a |} in
  fold_left dfunc_step (fl_functions f) a.

(* DeadCodeServiceImpl.generateSummary; [reasons] = the keys the by-reason map is read at *)
Definition dc_generate_summary (reasons : list N) (files : list dfile) (processed : Z) : dsummary :=
  let a := fold_left dfile_step files
             {| d_tfun := 0; d_fwith := 0; d_find := 0; d_c := 0; d_w := 0; d_i := 0; d_tb := 0; d_db := 0; d_reason := fun _ => 0 |} in
  {| ds_total_files := processed; ds_total_functions := d_tfun a; ds_total_findings := d_find a;
     ds_files_with := zlen files; ds_funcs_with := d_fwith a;
     ds_crit := d_c a; ds_warn := d_w a; ds_info := d_i a;
     ds_by_reason := map (d_reason a) reasons;
     ds_total_blocks := d_tb a; ds_dead_blocks := d_db a;
     ds_ratio := if 0 <? d_tb a then divQ (d_db a) (d_tb a) else 0%Q |}.

(* SPEC: recomputed from the functions and findings listed in the report *)
Definition all_functions (files : list dfile) : list dfunc := flat_map fl_functions files.
Definition all_findings (files : list dfile) : list finding := flat_map fn_findings (all_functions files).
Definition dc_summary_spec (reasons : list N) (files : list dfile) (processed : Z) : dsummary :=
  let fns := all_functions files in
  let fds := all_findings files in
  let tb := sumZ (map fn_total_blocks fns) in
  let db := sumZ (map fn_dead_blocks fns) in
  {| ds_total_files := processed;
     ds_total_functions := sumZ (map fl_total_functions files);
     ds_total_findings := zlen fds;
     ds_files_with := zlen files;
     ds_funcs_with := zlen fns;
     ds_crit := count (fun x => sev_eqb (fd_sev x) SCrit) fds;
     ds_warn := count (fun x => sev_eqb (fd_sev x) SWarn) fds;
     ds_info := count (fun x => sev_eqb (fd_sev x) SInfo) fds;
     ds_by_reason := map (fun r => count (fun x => N.eqb (fd_reason x) r) fds) reasons;
     ds_total_blocks := tb; ds_dead_blocks := db;
     ds_ratio := if 0 <? tb then divQ db tb else 0%Q |}.

(* items are well formed: per-item counts match the item's own findings *)
Definition dfunc_wf (f : dfunc) : Prop :=
  fn_crit f = count (fun x => sev_eqb (fd_sev x) SCrit) (fn_findings f) /\
  fn_warn f = count (fun x => sev_eqb (fd_sev x) SWarn) (fn_findings f) /\
  fn_info f = count (fun x => sev_eqb (fd_sev x) SInfo) (fn_findings f).
Definition dfile_wf (f : dfile) : Prop :=
  Forall dfunc_wf (fl_functions f) /\ fl_affected f = zlen (fl_functions f) /\
  fl_total_findings f = zlen (flat_map fn_findings (fl_functions f)).

(* ------------------------------------------------------------------ clones *)
Record cpair := { p_sim : Q; p_type : Z }.
Record cstats := { st_clones : Z; st_pairs : Z; st_groups : Z; st_by_type : list Z; st_avg : Q }.
(* CloneType.String as a key: Type-1..Type-4, anything else "Unknown" (key 0) *)
Definition type_key (t : Z) : Z := if ((1 <=? t) && (t <=? 4))%bool then t else 0.
Definition type_keys : list Z := [1; 2; 3; 4; 0].

(* CloneService.createStatistics *)
Definition create_statistics (nclones : Z) (pairs groups : list cpair) : cstats :=
  let byt := fold_left (fun d p => bumpZ d (type_key (p_type p))) pairs (fun _ => 0) in
  let tot := fold_left (fun t p => (t + p_sim p)%Q) pairs 0%Q in
  {| st_clones := nclones; st_pairs := zlen pairs; st_groups := zlen groups;
     st_by_type := map byt type_keys;
     st_avg := match pairs with [] => 0%Q | _ => (tot / inject_Z (zlen pairs))%Q end |}.

Definition clone_stats_spec (nclones : Z) (pairs groups : list cpair) : cstats :=
  {| st_clones := nclones; st_pairs := zlen pairs; st_groups := zlen groups;
     st_by_type := map (fun k => count (fun p => Z.eqb (type_key (p_type p)) k) pairs) type_keys;
     st_avg := match pairs with [] => 0%Q | _ => (sumQ (map p_sim pairs) / inject_Z (zlen pairs))%Q end |}.

(* ------------------------------------------------------------------ unified summary *)
(* what calculateSummary reads from the sections *)
Record sections := {
  x_cx : vsummary; x_cx_nfuncs : Z;             (* complexity summary, len(Complexity.Functions) *)
  x_dc : dsummary;
  x_clone : cstats; x_clone_lines : Z;
  x_cbo : vsummary; x_lcom : vsummary;
  x_modules : Z; x_in_cycles : Z; x_depth : Z; x_msd : Q; x_arch : option Q }.

Definition analyses_of (x : sections) : analyses :=
  {| a_cx_files := s_files (x_cx x); a_avg_cx := s_avg (x_cx x); a_high_cx := s_high (x_cx x);
     a_dead_files := ds_total_files (x_dc x); a_dead_total := ds_total_findings (x_dc x);
     a_crit := ds_crit (x_dc x); a_warn := ds_warn (x_dc x); a_info := ds_info (x_dc x);
     a_clone_lines := x_clone_lines x; a_clone_groups := st_groups (x_clone x);
     a_cbo_classes := s_total (x_cbo x); a_cbo_high := s_high (x_cbo x); a_cbo_med := s_med (x_cbo x);
     a_lcom_classes := s_total (x_lcom x); a_lcom_high := s_high (x_lcom x); a_lcom_med := s_med (x_lcom x);
     a_modules := x_modules x; a_in_cycles := x_in_cycles x; a_depth := x_depth x; a_msd := x_msd x;
     a_arch := x_arch x |}.

(* the AnalyzeSummary fields that do not enter the score (not in ScoreQ.summary) *)
Record unified_extra := { u_total_functions : Z; u_total_clones : Z; u_clone_pairs : Z; u_clone_groups : Z;
                          u_avg_coupling : Q; u_avg_lcom : Q }.
Definition assemble_extra (sel : selection) (x : sections) : unified_extra :=
  {| u_total_functions := if sel_cx sel then x_cx_nfuncs x else 0;
     u_total_clones := if sel_clone sel then st_clones (x_clone x) else 0;
     u_clone_pairs := if sel_clone sel then st_pairs (x_clone x) else 0;
     u_clone_groups := if sel_clone sel then st_groups (x_clone x) else 0;
     u_avg_coupling := if sel_cbo sel then s_avg (x_cbo x) else 0%Q;
     u_avg_lcom := if sel_lcom sel then s_avg (x_lcom x) else 0%Q |}.
Definition unified (sel : selection) (x : sections) : summary * unified_extra :=
  (assemble sel (analyses_of x), assemble_extra sel x).
