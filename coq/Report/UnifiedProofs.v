(* Report/UnifiedProofs.v — the unified summary (calculateSummary = ScoreQ.assemble + assemble_extra)
   is a projection of the section summaries, hence (by the *_exact lemmas) of the detailed items. *)
From Coq Require Import ZArith QArith List Bool Lia.
From PV Require Import Gen.ReportConst Gen.CheckConst Score.ScoreQ Report.Summary Report.SummaryProofs.
Import ListNotations.
Open Scope Z_scope.

(* a report: the detailed items of every section *)
Record items := {
  i_cx : list vr; i_cx_files : Z;
  i_dc : list dfile; i_dc_processed : Z;
  i_nclones : Z; i_pairs : list cpair; i_groups : list cpair; i_lines : Z;
  i_cbo : list vr; i_cbo_files : Z; i_lcom : list vr; i_lcom_files : Z;
  i_modules : Z; i_in_cycles : Z; i_depth : Z; i_msd : Q; i_arch : option Q }.

Definition sections_of (reasons : list N) (r : items) : sections :=
  {| x_cx := cx_generate_summary (i_cx r) (i_cx_files r); x_cx_nfuncs := zlen (i_cx r);
     x_dc := dc_generate_summary reasons (i_dc r) (i_dc_processed r);
     x_clone := create_statistics (i_nclones r) (i_pairs r) (i_groups r); x_clone_lines := i_lines r;
     x_cbo := cbo_generate_summary (i_cbo r) (i_cbo_files r); x_lcom := lcom_generate_summary (i_lcom r) (i_lcom_files r);
     x_modules := i_modules r; x_in_cycles := i_in_cycles r; x_depth := i_depth r; x_msd := i_msd r; x_arch := i_arch r |}.

Definition high (l : list vr) : Z := count (fun f => risk_eqb (v_risk f) RHigh) l.
Definition medium (l : list vr) : Z := count (fun f => risk_eqb (v_risk f) RMedium) l.
Definition mean (l : list vr) : Q := match l with [] => 0%Q | _ => divQ (sumZ (map v_val l)) (zlen l) end.
Definition nsev (s : sev) (files : list dfile) : Z := count (fun x => sev_eqb (fd_sev x) s) (all_findings files).
Definition sel_if {A} (b : bool) (x z : A) : A := if b then x else z.

Lemma unified_projection reasons sel r :
  Forall (fun f => 0 <= v_val f) (i_cx r) -> Forall dfile_wf (i_dc r) ->
  let s := fst (unified sel (sections_of reasons r)) in
  let e := snd (unified sel (sections_of reasons r)) in
  total_files s = sel_if (sel_cx sel) (i_cx_files r) (sel_if (sel_dead sel) (i_dc_processed r) 0) /\
  average_complexity s = sel_if (sel_cx sel) (mean (i_cx r)) 0%Q /\
  high_complexity_count s = sel_if (sel_cx sel) (high (i_cx r)) 0 /\
  u_total_functions e = sel_if (sel_cx sel) (zlen (i_cx r)) 0 /\
  dead_code_count s = sel_if (sel_dead sel) (zlen (all_findings (i_dc r))) 0 /\
  critical_dead s = sel_if (sel_dead sel) (nsev SCrit (i_dc r)) 0 /\
  warning_dead s = sel_if (sel_dead sel) (nsev SWarn (i_dc r)) 0 /\
  info_dead s = sel_if (sel_dead sel) (nsev SInfo (i_dc r)) 0 /\
  u_total_clones e = sel_if (sel_clone sel) (i_nclones r) 0 /\
  u_clone_pairs e = sel_if (sel_clone sel) (zlen (i_pairs r)) 0 /\
  u_clone_groups e = sel_if (sel_clone sel) (zlen (i_groups r)) 0 /\
  code_duplication s = sel_if (sel_clone sel) (code_duplication_of (i_lines r) (zlen (i_groups r))) 0%Q /\
  cbo_classes s = sel_if (sel_cbo sel) (zlen (i_cbo r)) 0 /\
  high_coupling s = sel_if (sel_cbo sel) (high (i_cbo r)) 0 /\
  medium_coupling s = sel_if (sel_cbo sel) (medium (i_cbo r)) 0 /\
  u_avg_coupling e = sel_if (sel_cbo sel) (mean (i_cbo r)) 0%Q /\
  lcom_classes s = sel_if (sel_lcom sel) (zlen (i_lcom r)) 0 /\
  high_lcom s = sel_if (sel_lcom sel) (high (i_lcom r)) 0 /\
  medium_lcom s = sel_if (sel_lcom sel) (medium (i_lcom r)) 0 /\
  u_avg_lcom e = sel_if (sel_lcom sel) (mean (i_lcom r)) 0%Q.
Proof.
  intros Hcx Hdc. unfold unified, sections_of, analyses_of, assemble, assemble_extra, cbo_generate_summary, lcom_generate_summary.
  cbn [fst snd x_cx x_cx_nfuncs x_dc x_clone x_clone_lines x_cbo x_lcom x_modules x_in_cycles x_depth x_msd x_arch
       total_files average_complexity high_complexity_count dead_code_count critical_dead warning_dead info_dead
       code_duplication cbo_classes high_coupling medium_coupling lcom_classes high_lcom medium_lcom
       u_total_functions u_total_clones u_clone_pairs u_clone_groups u_avg_coupling u_avg_lcom
       a_cx_files a_avg_cx a_high_cx a_dead_files a_dead_total a_crit a_warn a_info a_clone_lines a_clone_groups
       a_cbo_classes a_cbo_high a_cbo_med a_lcom_classes a_lcom_high a_lcom_med].
  rewrite (cx_summary_exact_lemma _ _ Hcx), (deadcode_summary_exact_lemma _ _ _ Hdc), !class_summary_exact_gen, clone_stats_exact_lemma.
  unfold vsummary_spec, dc_summary_spec, clone_stats_spec, sel_if, high, medium, mean, nsev.
  cbn [s_files s_avg s_high s_med s_total ds_total_files ds_total_findings ds_crit ds_warn ds_info st_clones st_pairs st_groups].
  repeat split; reflexivity.
Qed.
