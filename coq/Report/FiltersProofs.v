(* Report/FiltersProofs.v — filters are sound and complete, risk levels match the thresholds,
   every value falls in exactly one distribution bucket and the bucket is the one its label denotes. *)
From Coq Require Import ZArith QArith List Bool Lia.
From PV Require Import Gen.ReportConst Gen.CheckConst Report.Summary Report.SummaryProofs Report.Filters.
Import ListNotations.
Open Scope Z_scope.

(* ---- filters = List.filter of the intended predicate (soundness, completeness and order at once) *)
Lemma filter_functions_is_filter fs min : filter_functions fs min = filter (cx_keep_spec min) fs.
Proof.
  induction fs as [|f r IH]; cbn [filter_functions filter]; [reflexivity|]. rewrite IH.
  unfold report_cx_drop_below, cx_keep_spec.
  destruct (Z.ltb_spec (v_val f) min), (Z.leb_spec min (v_val f)); try lia; reflexivity.
Qed.
Lemma cbo_drop_spec min max zeros c : cbo_drop min max zeros (v_val c) = negb (cbo_keep_spec min max zeros c).
Proof.
  unfold cbo_drop, cbo_keep_spec, report_cbo_drop_below, report_cbo_max_given, report_cbo_drop_above, report_cbo_is_zero.
  destruct zeros; cbn [negb orb andb];
  destruct (Z.ltb_spec (v_val c) min), (Z.leb_spec min (v_val c)), (Z.gtb_spec max 0), (Z.leb_spec max 0),
           (Z.gtb_spec (v_val c) max), (Z.leb_spec (v_val c) max), (Z.eqb_spec (v_val c) 0); cbn; try lia; reflexivity.
Qed.
Lemma cbo_filter_is_filter cs min max zeros : cbo_filter_classes cs min max zeros = filter (cbo_keep_spec min max zeros) cs.
Proof.
  induction cs as [|c r IH]; cbn [cbo_filter_classes filter]; [reflexivity|]. rewrite IH, cbo_drop_spec.
  destruct (cbo_keep_spec min max zeros c); reflexivity.
Qed.
Lemma lcom_drop_spec min max c : lcom_drop min max (v_val c) = negb (lcom_keep_spec min max c).
Proof.
  unfold lcom_drop, lcom_keep_spec, report_lcom_drop_below, report_lcom_max_given, report_lcom_drop_above.
  destruct (Z.ltb_spec (v_val c) min), (Z.leb_spec min (v_val c)), (Z.gtb_spec max 0), (Z.leb_spec max 0),
           (Z.gtb_spec (v_val c) max), (Z.leb_spec (v_val c) max); cbn; try lia; reflexivity.
Qed.
Lemma lcom_filter_is_filter cs min max : lcom_filter_classes cs min max = filter (lcom_keep_spec min max) cs.
Proof.
  induction cs as [|c r IH]; cbn [lcom_filter_classes filter]; [reflexivity|]. rewrite IH, lcom_drop_spec.
  destruct (lcom_keep_spec min max c); reflexivity.
Qed.

Lemma type_enabled_in types t : type_enabled types t = true <-> In t types.
Proof.
  induction types as [|e r IH]; cbn; [split; [discriminate|tauto]|].
  destruct (Z.eqb_spec t e); [split; auto|]. rewrite IH. split; [auto|intros [E|H]; [congruence|assumption]].
Qed.
Lemma Qle_bool_false a b : Qle_bool a b = false <-> ~ (a <= b)%Q.
Proof. rewrite <- Qle_bool_iff. destruct (Qle_bool a b); split; congruence. Qed.

Lemma clone_filter_pairs_in ps lo hi types p :
  In p (filter_clone_pairs ps lo hi types) <-> In p ps /\ clone_keep_spec lo hi types p.
Proof.
  unfold filter_clone_pairs. induction ps as [|q r IH]; cbn [clone_filter In]; [tauto|].
  assert (D : clone_drop report_pair_drop_below report_pair_drop_above lo hi types q = false <-> clone_keep_spec lo hi types q).
  { unfold clone_drop, clone_keep_spec, report_pair_drop_below, report_pair_drop_above.
    rewrite orb_false_iff, orb_false_iff, !negb_false_iff, type_enabled_in, !Qle_bool_iff. tauto. }
  destruct (clone_drop _ _ lo hi types q) eqn:E.
  - rewrite IH. split; [tauto|]. intros [[->|H] K]; [|tauto]. apply D in K. congruence.
  - cbn [In]. rewrite IH. split.
    + intros [->|[H K]]; [split; [auto|apply D; reflexivity]|tauto].
    + intros [[->|H] K]; tauto.
Qed.
Lemma clone_filter_groups_in gs lo hi types g :
  In g (filter_clone_groups gs lo hi types) <-> In g gs /\ clone_keep_spec lo hi types g.
Proof.
  unfold filter_clone_groups. induction gs as [|q r IH]; cbn [clone_filter In]; [tauto|].
  assert (D : clone_drop report_group_drop_below report_group_drop_above lo hi types q = false <-> clone_keep_spec lo hi types q).
  { unfold clone_drop, clone_keep_spec, report_group_drop_below, report_group_drop_above.
    rewrite orb_false_iff, orb_false_iff, !negb_false_iff, type_enabled_in, !Qle_bool_iff. tauto. }
  destruct (clone_drop _ _ lo hi types q) eqn:E.
  - rewrite IH. split; [tauto|]. intros [[->|H] K]; [|tauto]. apply D in K. congruence.
  - cbn [In]. rewrite IH. split.
    + intros [->|[H K]]; [split; [auto|apply D; reflexivity]|tauto].
    + intros [[->|H] K]; tauto.
Qed.

(* severity filter *)
Lemma filter_findings_is_filter l m : filter_findings_by_severity l m = filter (fun x => is_at_least (fd_sev x) m) l.
Proof. induction l as [|x r IH]; cbn; [reflexivity|]. rewrite IH. reflexivity. Qed.
Lemma has_findings_is_existsb l m : has_findings_at_severity l m = existsb (fun x => is_at_least (fd_sev x) m) l.
Proof. induction l as [|x r IH]; cbn; [reflexivity|]. rewrite IH. destruct (is_at_least (fd_sev x) m); reflexivity. Qed.
(* critical > warning > info (> any other string) *)
Lemma severity_order :
  sev_level SOther < sev_level SInfo < sev_level SWarn /\ sev_level SWarn < sev_level SCrit.
Proof. vm_compute. repeat split. Qed.
Lemma is_at_least_level s m : is_at_least s m = true <-> sev_level m <= sev_level s.
Proof. unfold is_at_least, domain_DeadCodeSeverity_is_at_least. rewrite Z.geb_le. reflexivity. Qed.

(* the functions analyzeFile keeps only carry findings at or above the minimum, and lose none of them *)
Lemma analyze_function_findings rc raw m f : analyze_function rc raw m = Some f ->
  fn_findings f = filter (fun x => is_at_least (fd_sev x) m) (fn_findings raw).
Proof.
  unfold analyze_function. cbn zeta.
  set (g := set_findings _ _).
  assert (G : fn_findings g = filter (fun x => is_at_least (fd_sev x) m) (fn_findings raw)).
  { unfold g. cbn [fn_findings set_findings]. rewrite calculate_severity_counts_findings. apply filter_findings_is_filter. }
  destruct rc.
  - rewrite calculate_severity_counts_findings. destruct (fn_findings g) eqn:E; [discriminate|].
    intros H; inversion H; subst. rewrite calculate_severity_counts_findings, E. assumption.
  - destruct (fn_findings g) eqn:E; [discriminate|]. intros H; inversion H; subst. rewrite E. assumption.
Qed.
Lemma analyze_function_none rc raw m : analyze_function rc raw m = None ->
  filter (fun x => is_at_least (fd_sev x) m) (fn_findings raw) = [].
Proof.
  unfold analyze_function. cbn zeta.
  set (g := set_findings _ _).
  assert (G : fn_findings g = filter (fun x => is_at_least (fd_sev x) m) (fn_findings raw)).
  { unfold g. cbn [fn_findings set_findings]. rewrite calculate_severity_counts_findings. apply filter_findings_is_filter. }
  destruct rc.
  - rewrite calculate_severity_counts_findings. destruct (fn_findings g) eqn:E; [intros _; rewrite <- G; reflexivity|discriminate].
  - destruct (fn_findings g) eqn:E; [intros _; rewrite <- G; reflexivity|discriminate].
Qed.

(* ---- risk levels *)
Lemma risk_of_le low medium x :
  let r := risk_of Z.leb Z.leb low medium x in
  (r = RLow <-> x <= low) /\ (r = RMedium <-> low < x <= medium) /\ (r = RHigh <-> low < x /\ medium < x) /\ r <> ROther.
Proof.
  unfold risk_of. destruct (Z.leb_spec x low), (Z.leb_spec x medium); cbn; repeat split; intros; try lia; try congruence.
Qed.

(* ---- buckets *)
Definition bucket_ok (bucket : Z -> nat) (ranges : list (Z * option Z)) (lo : Z) : Prop :=
  forall x, lo <= x -> forall i, (i < length ranges)%nat -> (in_range (nth i ranges (0, None)) x <-> i = bucket x).
Ltac cases_i i Hi :=
  lazymatch type of Hi with
  | (_ < O)%nat => exfalso; exact (Nat.nlt_0_r _ Hi)
  | _ => destruct i as [|i]; [ | apply (proj2 (Nat.succ_lt_mono _ _)) in Hi; cases_i i Hi ]
  end.
Ltac bucket_tac b :=
  intros x Hx i Hi; unfold in_range; cbn [length] in Hi; cases_i i Hi; cbn [nth fst snd];
  unfold b;
  repeat match goal with |- context [Z.eqb x ?c] => destruct (Z.eqb_spec x c) end;
  repeat match goal with |- context [Z.leb x ?c] => destruct (Z.leb_spec x c) end;
  repeat match goal with |- context [Z.ltb x ?c] => destruct (Z.ltb_spec x c) end;
  split; intros; try lia; try discriminate.
Lemma cx_bucket_ok : bucket_ok report_cx_bucket report_cx_ranges 1.
Proof. unfold bucket_ok, report_cx_ranges. bucket_tac report_cx_bucket. Qed.
Lemma cbo_bucket_ok : bucket_ok report_cbo_bucket report_cbo_ranges 0.
Proof. unfold bucket_ok, report_cbo_ranges. bucket_tac report_cbo_bucket. Qed.
Lemma lcom_bucket_ok : bucket_ok report_lcom_bucket report_lcom_ranges 1.
Proof. unfold bucket_ok, report_lcom_ranges. bucket_tac report_lcom_bucket. Qed.

Ltac bound_tac b n :=
  intros x; unfold b, n;
  repeat match goal with |- context [if ?c then _ else _] => destruct c end; cbn; lia.
Lemma cx_bucket_bound x : (report_cx_bucket x < report_cx_nbuckets)%nat.
Proof. revert x. bound_tac report_cx_bucket report_cx_nbuckets. Qed.
Lemma cbo_bucket_bound x : (report_cbo_bucket x < report_cbo_nbuckets)%nat.
Proof. revert x. bound_tac report_cbo_bucket report_cbo_nbuckets. Qed.
Lemma lcom_bucket_bound x : (report_lcom_bucket x < report_lcom_nbuckets)%nat.
Proof. revert x. bound_tac report_lcom_bucket report_lcom_nbuckets. Qed.
Lemma ranges_lengths : length report_cx_ranges = report_cx_nbuckets /\ length report_cbo_ranges = report_cbo_nbuckets /\
                       length report_lcom_ranges = report_lcom_nbuckets.
Proof. repeat split; reflexivity. Qed.
