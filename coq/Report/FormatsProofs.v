(* Report/FormatsProofs.v — conflicting format flags are an error before any analysis; otherwise one report in the format
   asked for.  Tie: determine_output_format agrees with determineOutputFormat run on all sixteen flag settings. *)
From Coq Require Import List Bool String Arith Lia.
From PV Require Import Gen.FormatConst Gen.FormatTables Report.Formats.
Import ListNotations.

Definition fmt_eqb (a b : fmt) : bool :=
  match a, b with FHtml, FHtml | FJson, FJson | FCsv, FCsv | FYaml, FYaml => true | _, _ => false end.

Definition format_row (r : (bool * bool * bool * bool) * option string) : bool :=
  let '((h, j, c, y), res) := r in
  match determine_output_format (Build_fflags h j c y), res with
  | None, None => true
  | Some a, Some s => match fmt_of_string s with Some b => fmt_eqb a b | None => false end
  | _, _ => false
  end.

Definition format_table_agrees : bool :=
  forallb format_row determineOutputFormat_table && Nat.eqb (List.length determineOutputFormat_table) 16.

Lemma format_table_agrees_ok : format_table_agrees = true.
Proof. vm_compute. reflexivity. Qed.

Lemma determine_none_iff : forall f, determine_output_format f = None <-> 2 <= format_count f.
Proof. intros [[] [] [] []]; vm_compute; split; intro H; try reflexivity; try discriminate; try lia. Qed.

(* one flag: its format; no flag: HTML *)
Lemma determine_some : forall f x, determine_output_format f = Some x ->
  (format_count f = 0 /\ x = FHtml) \/
  (format_count f = 1 /\ match x with FHtml => ff_html f | FJson => ff_json f | FCsv => ff_csv f | FYaml => ff_yaml f end = true).
Proof. intros [[] [] [] []] x; vm_compute; intro H; inversion H; subst; auto. Qed.

(* two or more format flags: the command fails, no analysis runs, nothing is written *)
Lemma conflicting_flags_rejected : forall f e, 2 <= format_count f ->
  run_analyze f e = Build_outcome true false None.
Proof.
  intros f e H. apply determine_none_iff in H. unfold run_analyze. rewrite H.
  change analyze_rejects_formats_before_analysis with true. reflexivity.
Qed.

(* at most one: the analyses run, the report is in the format asked for, and the exit status is that of the analyses *)
Lemma single_format_written : forall f e, format_count f <= 1 ->
  exists x, run_analyze f e = Build_outcome e true (Some x) /\ determine_output_format f = Some x.
Proof.
  intros f e H. destruct (determine_output_format f) as [x |] eqn:E.
  - exists x. unfold run_analyze. rewrite E. split; reflexivity.
  - apply determine_none_iff in E. lia.
Qed.

(* exit status 0 without a report does not happen *)
Lemma no_silent_success : forall f, oc_fails (run_analyze f false) = false -> oc_written (run_analyze f false) <> None.
Proof.
  intros f. destruct (Nat.le_gt_cases (format_count f) 1) as [H | H].
  - destruct (single_format_written f false H) as [x [R _]]. rewrite R. simpl. discriminate.
  - rewrite (conflicting_flags_rejected f false H). simpl. discriminate.
Qed.
