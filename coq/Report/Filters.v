(* Report/Filters.v — models of the result filters and of the per-item risk level.

   service/complexity_service.go : filterFunctions (160-176), calculateRiskLevel
   service/cbo_service.go        : filterClasses (161-184);  internal/analyzer/cbo.go : assessRiskLevel
   service/lcom_service.go       : filterClasses;            internal/analyzer/lcom.go: assessRiskLevel
   service/clone_service.go      : filterClonePairs / filterCloneGroups (410-464)
   (the severity filter of dead code is in Summary.v next to the dead-code items)

   Each Go loop `for x in xs { if drop(x) { continue }; out = append(out, x) }` is a structural
   recursion; the comparison operators come from Gen/ReportConst.v. No proofs in this file. *)
From Coq Require Import ZArith QArith List Bool.
From PV Require Import Gen.ReportConst Report.Summary.
Import ListNotations.
Open Scope Z_scope.

(* ---- risk level from metric and thresholds *)
Definition risk_of (is_low is_medium : Z -> Z -> bool) (low medium x : Z) : risk :=
  if is_low x low then RLow else if is_medium x medium then RMedium else RHigh.
Definition cx_risk := risk_of report_cx_is_low report_cx_is_medium.
Definition cbo_risk := risk_of report_cbo_is_low report_cbo_is_medium.
Definition lcom_risk := risk_of report_lcom_is_low report_lcom_is_medium.

(* ---- complexity: filterFunctions *)
Fixpoint filter_functions (fs : list vr) (min : Z) : list vr :=
  match fs with
  | [] => []
  | f :: r => if report_cx_drop_below (v_val f) min then filter_functions r min else f :: filter_functions r min
  end.
Definition cx_keep_spec (min : Z) (f : vr) : bool := min <=? v_val f.

(* ---- CBO: filterClasses (ShowZeros nil = false) *)
Definition cbo_drop (min max : Z) (zeros : bool) (c : Z) : bool :=
  report_cbo_drop_below c min ||
  (report_cbo_max_given max 0 && report_cbo_drop_above c max) ||
  (negb zeros && report_cbo_is_zero c 0).
Fixpoint cbo_filter_classes (cs : list vr) (min max : Z) (zeros : bool) : list vr :=
  match cs with
  | [] => []
  | c :: r => if cbo_drop min max zeros (v_val c) then cbo_filter_classes r min max zeros
              else c :: cbo_filter_classes r min max zeros
  end.
Definition cbo_keep_spec (min max : Z) (zeros : bool) (c : vr) : bool :=
  (min <=? v_val c) && ((max <=? 0) || (v_val c <=? max)) && (zeros || negb (v_val c =? 0)).

(* ---- LCOM: filterClasses *)
Definition lcom_drop (min max c : Z) : bool :=
  report_lcom_drop_below c min || (report_lcom_max_given max 0 && report_lcom_drop_above c max).
Fixpoint lcom_filter_classes (cs : list vr) (min max : Z) : list vr :=
  match cs with
  | [] => []
  | c :: r => if lcom_drop min max (v_val c) then lcom_filter_classes r min max else c :: lcom_filter_classes r min max
  end.
Definition lcom_keep_spec (min max : Z) (c : vr) : bool :=
  (min <=? v_val c) && ((max <=? 0) || (v_val c <=? max)).

(* ---- clones: filterClonePairs / filterCloneGroups (similarity range, enabled types) *)
Fixpoint type_enabled (types : list Z) (t : Z) : bool :=
  match types with [] => false | e :: r => if t =? e then true else type_enabled r t end.
Definition clone_drop (below above : Q -> Q -> bool) (lo hi : Q) (types : list Z) (p : cpair) : bool :=
  (below (p_sim p) lo || above (p_sim p) hi) || negb (type_enabled types (p_type p)).
Fixpoint clone_filter (below above : Q -> Q -> bool) (ps : list cpair) (lo hi : Q) (types : list Z) : list cpair :=
  match ps with
  | [] => []
  | p :: r => if clone_drop below above lo hi types p then clone_filter below above r lo hi types
              else p :: clone_filter below above r lo hi types
  end.
Definition filter_clone_pairs := clone_filter report_pair_drop_below report_pair_drop_above.
Definition filter_clone_groups := clone_filter report_group_drop_below report_group_drop_above.
Definition clone_keep_spec (lo hi : Q) (types : list Z) (p : cpair) : Prop :=
  (lo <= p_sim p)%Q /\ (p_sim p <= hi)%Q /\ In (p_type p) types.
