(* Report/Formats.v — the output format flags of `pyscn analyze` (property C16: a run writes one report, or fails).

   Go code mirrored: cmd/pyscn/analyze.go
     determineOutputFormat   counts --html --json --csv --yaml: none = HTML, one = that format, more = an error
     runAnalyze              returns that error before anything else happens (Gen/FormatConst.v
                             analyze_rejects_formats_before_analysis, read off the statement order); the analyses run
                             only afterwards, and generateOutput writes the report in the format determined
   (without a format flag generateOutput may take the format from the configuration file: Cli/ConfigKeysWiring.v).
   No proofs in this file. *)
From Coq Require Import List Bool String.
From PV Require Import Gen.FormatConst.
Import ListNotations.

Inductive fmt := FHtml | FJson | FCsv | FYaml.

Record fflags := Build_fflags { ff_html : bool; ff_json : bool; ff_csv : bool; ff_yaml : bool }.

Definition format_count (f : fflags) : nat :=
  (if ff_html f then 1 else 0) + (if ff_json f then 1 else 0) + (if ff_csv f then 1 else 0) + (if ff_yaml f then 1 else 0).

(* determineOutputFormat: the last flag set names the format; None = "only one output format flag can be specified" *)
Definition determine_output_format (f : fflags) : option fmt :=
  let fmt0 := FHtml in
  let fmt1 := if ff_html f then FHtml else fmt0 in
  let fmt2 := if ff_json f then FJson else fmt1 in
  let fmt3 := if ff_csv f then FCsv else fmt2 in
  let fmt4 := if ff_yaml f then FYaml else fmt3 in
  if Nat.ltb 1 (format_count f) then None
  else if Nat.eqb (format_count f) 0 then Some FHtml
  else Some fmt4.

(* what a run of `pyscn analyze` comes to as far as the format flags decide it *)
Record outcome := Build_outcome {
  oc_fails : bool;            (* the command returns an error: exit status 1 *)
  oc_analysed : bool;         (* useCase.Execute was called *)
  oc_written : option fmt     (* the report generateOutput writes (no configuration file, the analyses produced a response) *)
}.

Definition run_analyze (f : fflags) (analysis_error : bool) : outcome :=
  match determine_output_format f with
  | None =>
      if analyze_rejects_formats_before_analysis then Build_outcome true false None
      else Build_outcome analysis_error true None      (* generateOutput fails with a warning only *)
  | Some x => Build_outcome analysis_error true (Some x)
  end.

Definition fmt_of_string (s : string) : option fmt :=
  if String.eqb s "html" then Some FHtml else if String.eqb s "json" then Some FJson
  else if String.eqb s "csv" then Some FCsv else if String.eqb s "yaml" then Some FYaml else None.
