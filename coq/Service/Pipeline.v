(* C20: the analysis pipeline of app/analyze_usecase.go (231-251, 454-511) and the per-file services.
   Tasks = one goroutine per enabled analysis; each writes only its own slot (task.Result / task.Error); the response
   is assembled after wg.Wait by a type switch that copies each slot into its own section. *)
From Coq Require Import List Arith Bool Permutation Lia.
From PV Require Import Service.Isolation.
Import ListNotations.

Section Pipeline.
Variable result : Type.
(* sections: 0 complexity, 1 dead code, 2 clones, 3 cbo, 4 lcom, 5 system *)
Definition response := nat -> option result.
Definition empty : response := fun _ => None.
Definition set (r : response) (slot : nat) (v : result) : response :=
  fun s => if Nat.eqb s slot then Some v else r s.

(* completion order = order in which the goroutines store their result *)
Definition assemble (completed : list (nat * result)) : response :=
  fold_left (fun r t => set r (fst t) (snd t)) completed empty.

Lemma assemble_gen completed r s :
  ~ In s (map fst completed) -> fold_left (fun r t => set r (fst t) (snd t)) completed r s = r s.
Proof.
  revert r. induction completed as [|[k v] l IH]; intros r H; simpl; [reflexivity|].
  rewrite IH.
  - unfold set. simpl. destruct (Nat.eqb s k) eqn:E; [|reflexivity].
    apply Nat.eqb_eq in E. subst. exfalso. apply H. left. reflexivity.
  - intro C. apply H. right. exact C.
Qed.

Lemma assemble_lookup completed r slot v :
  NoDup (map fst completed) -> In (slot, v) completed ->
  fold_left (fun r t => set r (fst t) (snd t)) completed r slot = Some v.
Proof.
  revert r. induction completed as [|[k w] l IH]; intros r ND Hin; simpl; [contradiction|].
  inversion ND as [|? ? Hn ND']; subst. destruct Hin as [E|Hin].
  - inversion E; subst. rewrite assemble_gen by exact Hn. unfold set. simpl. rewrite Nat.eqb_refl. reflexivity.
  - apply IH; assumption.
Qed.

(* every interleaving (completion order) of the tasks gives the same response *)
Theorem interleave_indep completed completed' :
  NoDup (map fst completed) -> Permutation completed completed' ->
  forall s, assemble completed s = assemble completed' s.
Proof.
  intros ND P s. unfold assemble.
  assert (ND' : NoDup (map fst completed')) by (eapply Permutation_NoDup; [apply Permutation_map; exact P | exact ND]).
  destruct (in_dec Nat.eq_dec s (map fst completed)) as [Hin|Hnot].
  - apply in_map_iff in Hin. destruct Hin as ([k v] & Hk & Hin). simpl in Hk. subst k.
    rewrite (assemble_lookup _ _ s v ND Hin).
    rewrite (assemble_lookup _ _ s v ND' (Permutation_in _ P Hin)). reflexivity.
  - rewrite assemble_gen by exact Hnot. rewrite assemble_gen; [reflexivity|].
    intro C. apply Hnot. eapply Permutation_in; [apply Permutation_sym, Permutation_map; exact P | exact C].
Qed.

(* a section of the combined run is the section of the run of that analysis alone *)
Theorem combined_eq_separate tasks slot v :
  NoDup (map fst tasks) -> In (slot, v) tasks -> assemble tasks slot = assemble [(slot, v)] slot.
Proof.
  intros ND Hin. unfold assemble at 1. rewrite (assemble_lookup _ _ slot v ND Hin).
  unfold assemble, set. simpl. rewrite Nat.eqb_refl. reflexivity.
Qed.

(* a section that was not selected stays empty *)
Theorem unselected_empty tasks slot : ~ In slot (map fst tasks) -> assemble tasks slot = None.
Proof. intro H. unfold assemble. rewrite assemble_gen by exact H. reflexivity. Qed.
End Pipeline.

(* ---- per-file independence of the per-file analyses (complexity, dead code, CBO, LCOM) ---- *)
Section PerFile.
Variables file item err : Type.
Variable analyze : file -> list item + err.
Variable file_eqb : file -> file -> bool.
Hypothesis file_eqb_spec : forall a b, file_eqb a b = true <-> a = b.
Variable file_of : item -> file.
Hypothesis items_belong : forall f x, In x (ok_items _ _ _ analyze f) -> file_of x = f.

Lemma filter_all_in (f : file) l : (forall x, In x l -> file_of x = f) -> filter (fun x => file_eqb (file_of x) f) l = l.
Proof.
  induction l as [|a l IH]; simpl; intro H; [reflexivity|].
  assert (E : file_eqb (file_of a) f = true) by (apply file_eqb_spec; apply H; left; reflexivity).
  rewrite E. f_equal. apply IH. intros x Hx. apply H. right. exact Hx.
Qed.
Lemma filter_none_in (f : file) l : (forall x, In x l -> file_of x <> f) -> filter (fun x => file_eqb (file_of x) f) l = [].
Proof.
  induction l as [|a l IH]; simpl; intro H; [reflexivity|].
  destruct (file_eqb (file_of a) f) eqn:E.
  - apply file_eqb_spec in E. exfalso. apply (H a (or_introl eq_refl) E).
  - apply IH. intros x Hx. apply H. right. exact Hx.
Qed.

(* the rows reported for file f in a run over any file list containing f once are exactly f's own rows *)
Theorem per_file_independent fs1 fs2 f :
  ~ In f fs1 -> ~ In f fs2 ->
  filter (fun x => file_eqb (file_of x) f) (items _ _ (run _ _ _ analyze (fs1 ++ f :: fs2))) = ok_items _ _ _ analyze f.
Proof.
  intros H1 H2. rewrite items_in_file_order. rewrite flat_map_app. simpl. rewrite !filter_app.
  assert (N : forall fs, ~ In f fs -> filter (fun x => file_eqb (file_of x) f) (flat_map (ok_items _ _ _ analyze) fs) = []).
  { intros fs Hn. apply filter_none_in. intros x Hx. apply in_flat_map in Hx. destruct Hx as (g & Hg & Hx).
    rewrite (items_belong g x Hx). intro E. subst. contradiction. }
  rewrite (N fs1 H1), (N fs2 H2). simpl. rewrite app_nil_r. apply filter_all_in. apply items_belong.
Qed.

(* and a different order of the files only permutes the rows *)
Theorem order_only_permutes fs fs' :
  Permutation fs fs' -> Permutation (items _ _ (run _ _ _ analyze fs)) (items _ _ (run _ _ _ analyze fs')).
Proof.
  intro P. rewrite !items_in_file_order. induction P; simpl.
  - apply Permutation_refl.
  - apply Permutation_app_head. exact IHP.
  - rewrite !app_assoc. apply Permutation_app_tail. apply Permutation_app_comm.
  - eapply Permutation_trans; eassumption.
Qed.
End PerFile.
