(* C06: the per-file loops of the analysis services (complexity_service.go:36-58, dead_code_service.go:36-60,
   cbo_service.go, lcom_service.go, clone_service.go:98-109): a file that fails to parse contributes an error string
   and is skipped; every other file contributes exactly what it contributes on its own. *)
From Coq Require Import List Arith Lia.
Import ListNotations.

Section Loop.
Variables file item err : Type.
Variable analyze : file -> list item + err.   (* analyzeFile: items of one file, or its error *)

Record acc := { items : list item; errors : list err; processed : nat }.

(* one iteration: `if len(fileErrors) > 0 { errors = append(errors, ...); continue }; all = append(all, ...); filesProcessed++` *)
Definition step (a : acc) (f : file) : acc :=
  match analyze f with
  | inr e => {| items := items a; errors := errors a ++ [e]; processed := processed a |}
  | inl xs => {| items := items a ++ xs; errors := errors a; processed := S (processed a) |}
  end.

Definition run (fs : list file) : acc := fold_left step fs {| items := []; errors := []; processed := 0 |}.

(* spec: results are the concatenation of the per-file results of the files that analyse, errors those of the others *)
Definition ok_items (f : file) : list item := match analyze f with inl xs => xs | inr _ => [] end.
Definition err_of (f : file) : list err := match analyze f with inl _ => [] | inr e => [e] end.
Definition is_ok (f : file) : nat := match analyze f with inl _ => 1 | inr _ => 0 end.

Lemma run_gen fs a :
  fold_left step fs a =
  {| items := items a ++ flat_map ok_items fs; errors := errors a ++ flat_map err_of fs;
     processed := processed a + list_sum (map is_ok fs) |}.
Proof.
  revert a. induction fs as [|f fs IH]; intro a; simpl.
  - destruct a. simpl. rewrite !app_nil_r, Nat.add_0_r. reflexivity.
  - rewrite IH. unfold step, ok_items, err_of, is_ok. destruct (analyze f); simpl;
    rewrite <- ?app_assoc; simpl; f_equal; lia.
Qed.

Theorem run_spec fs :
  run fs = {| items := flat_map ok_items fs; errors := flat_map err_of fs; processed := list_sum (map is_ok fs) |}.
Proof. unfold run. rewrite run_gen. reflexivity. Qed.

(* isolation: a failing file anywhere in the list changes nothing but the error list, which gains exactly its error *)
Theorem isolation good bad good' e :
  analyze bad = inr e ->
  items (run (good ++ bad :: good')) = items (run (good ++ good')) /\
  processed (run (good ++ bad :: good')) = processed (run (good ++ good')) /\
  errors (run (good ++ bad :: good')) = errors (run good) ++ e :: flat_map err_of good'.
Proof.
  intro H. rewrite !run_spec. simpl. rewrite !flat_map_app, !map_app, !list_sum_app. simpl.
  unfold ok_items at 2, err_of at 2, is_ok at 2. rewrite H. simpl. repeat split; reflexivity.
Qed.

(* and the order of the good files' results is the order of the files *)
Theorem items_in_file_order fs : items (run fs) = flat_map ok_items fs.
Proof. rewrite run_spec. reflexivity. Qed.
End Loop.

(* exit status of `pyscn analyze` (cmd/pyscn/main.go:36-40, analyze.go): 1 iff the command returns an error *)
Definition exit_code (command_error : bool) : nat := if command_error then 1 else 0.
Theorem exit_code_01 b : exit_code b = 0 \/ exit_code b = 1.
Proof. destruct b; auto. Qed.
