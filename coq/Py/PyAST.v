(* The fragment of Python the control-flow properties (C01-C04) quantify over.
   Statement ids [k] are the line numbers of the statement headers after layout
   (harness/pygen.py prints one header per line). *)
From Coq Require Import NArith List.
Import ListNotations.

Inductive stmt :=
| Simple (k : N)                 (* expression / assignment / import / assert / del ...: may raise *)
| Pass (k : N)
| Return (k : N)
| Raise (k : N)
| Break (k : N)
| Continue (k : N)
| If (k : N) (body : block) (elifs : arms) (els : oblock)     (* arms: elif test id + body *)
| While (k : N) (body : block) (els : oblock)
| For (k : N) (body : block) (els : oblock)
| Try (k : N) (body : block) (handlers : arms) (els : oblock) (fin : oblock)
| With (k : N) (body : block)
| Match (k : N) (cases : arms)
| Comp (k : N) (clauses : list nat)      (* statement-level comprehension: number of [if]s per [for] clause *)
| Def (k : N) (name : N) (body : block)
| Class (k : N) (name : N) (body : block)
with block := BNil | BCons (s : stmt) (b : block)
with arms := ANil | ACons (k : N) (b : block) (a : arms)
with oblock := ONone | OSome (b : block).

Scheme stmt_mut := Induction for stmt Sort Prop
with block_mut := Induction for block Sort Prop
with arms_mut := Induction for arms Sort Prop
with oblock_mut := Induction for oblock Sort Prop.
Combined Scheme ast_mutind from stmt_mut, block_mut, arms_mut, oblock_mut.

Fixpoint arms_length (a : arms) : nat :=
  match a with ANil => 0 | ACons _ _ a' => S (arms_length a') end.

Fixpoint block_app (a b : block) : block :=
  match a with BNil => b | BCons s a' => BCons s (block_app a' b) end.

Fixpoint block_of_list (l : list stmt) : block :=
  match l with [] => BNil | s :: l' => BCons s (block_of_list l') end.
Fixpoint arms_of_list (l : list (N * block)) : arms :=
  match l with [] => ANil | (k, b) :: l' => ACons k b (arms_of_list l') end.

(* id of the statement header *)
Definition sid (s : stmt) : N :=
  match s with
  | Simple k | Pass k | Return k | Raise k | Break k | Continue k | If k _ _ _ | While k _ _ | For k _ _
  | Try k _ _ _ _ | With k _ | Match k _ | Comp k _ | Def k _ _ | Class k _ _ => k
  end.
