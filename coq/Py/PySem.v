(* Executable CPython control-flow semantics of the fragment in PyAST.v.
   [exec_* fuel oracle ...] returns the outcome, the remaining oracle and the list of
   statement ids whose marker executed, in order.  The oracle is the list of choices the
   markers of harness/pyrt/rt.py consume, in the same order (an exhausted oracle answers 0).
   The correspondence check runs this function and CPython on the same programs and oracles
   and compares the traces (Pass/Break/Continue carry no marker in Python and are filtered). *)
From Coq Require Import NArith List Bool.
From PV Require Import Py.PyAST.
Import ListNotations.

Inductive outcome := ONormal | ORet | OBrk | OCont | OExc | OFuel.

Definition oracle := list N.
Definition next (o : oracle) : N * oracle :=
  match o with [] => (0%N, []) | c :: o' => (c, o') end.

Definition r3 := (outcome * oracle * list N)%type.

(* meaning of a choice c (same table as harness/pyrt/rt.py):
   markers that may raise: raise iff c = 3; tests and guards: true iff c = 1 or 2, a test raises iff c = 3;
   iterator: item iff c = 1 or 2, raises iff c = 3, else stops; handler matches iff c <> 0; __exit__ swallows iff c = 1 or 2 *)
Definition is_raise (c : N) : bool := N.eqb c 3.
Definition is_true (c : N) : bool := N.eqb c 1 || N.eqb c 2.
Definition is_match (c : N) : bool := negb (N.eqb c 0).

(* a marker that may raise: records k, then choice 1 raises *)
Definition mark_may_raise (k : N) (o : oracle) : r3 :=
  let (c, o') := next o in ((if is_raise c then OExc else ONormal), o', [k]).

Fixpoint exec_stmt (fuel : nat) (o : oracle) (s : stmt) {struct fuel} : r3 :=
  match fuel with
  | O => (OFuel, o, [])
  | S f =>
    match s with
    | Simple k | Comp k _ | Def k _ _ => mark_may_raise k o
    | Pass k => (ONormal, o, [k])
    | Return k => let (c, o') := next o in ((if is_raise c then OExc else ORet), o', [k])
    | Raise k => (OExc, o, [k])
    | Break k => (OBrk, o, [k])
    | Continue k => (OCont, o, [k])
    | If k body elifs els =>
        let (c, o1) := next o in
        if is_raise c then (OExc, o1, [k])
        else if is_true c then let '(out, o2, t) := exec_block f o1 body in (out, o2, k :: t)
        else let '(out, o2, t) := exec_elifs f o1 elifs els in (out, o2, k :: t)
    | While k body els => exec_while f o k body els
    | For k body els =>
        let (c, o1) := next o in
        if is_raise c then (OExc, o1, [k])
        else let '(out, o2, t) := exec_for f o1 body els in (out, o2, k :: t)
    | Try _ body handlers els fin =>
        let '(out1, o1, t1) := exec_block f o body in
        let '(pend, o2, t2) :=
          match out1 with
          | OExc => exec_handlers f o1 handlers
          | ONormal => match els with ONone => (ONormal, o1, []) | OSome e => exec_block f o1 e end
          | _ => (out1, o1, [])
          end in
        match fin with
        | ONone => (pend, o2, t1 ++ t2)
        | OSome fb =>
            match pend with
            | OFuel => (OFuel, o2, t1 ++ t2)
            | _ =>
              let '(outf, o3, t3) := exec_block f o2 fb in
              ((match outf with ONormal => pend | _ => outf end), o3, t1 ++ t2 ++ t3)
            end
        end
    | With k body =>
        let (c, o1) := next o in
        if is_raise c then (OExc, o1, [k])
        else
          let '(out, o2, t) := exec_block f o1 body in
          match out with
          | OExc => let (c2, o3) := next o2 in ((if is_true c2 then ONormal else OExc), o3, k :: t)
          | _ => (out, o2, k :: t)
          end
    | Match k cases =>
        let (c, o1) := next o in
        if is_raise c then (OExc, o1, [k])
        else let '(out, o2, t) := exec_cases f o1 cases in (out, o2, k :: t)
    | Class k _ body =>
        let (c, o1) := next o in
        if is_raise c then (OExc, o1, [k])
        else let '(out, o2, t) := exec_block f o1 body in (out, o2, k :: t)
    end
  end
with exec_block (fuel : nat) (o : oracle) (b : block) {struct fuel} : r3 :=
  match fuel with
  | O => (OFuel, o, [])
  | S f =>
    match b with
    | BNil => (ONormal, o, [])
    | BCons s b' =>
        let '(out, o1, t1) := exec_stmt f o s in
        match out with
        | ONormal => let '(out2, o2, t2) := exec_block f o1 b' in (out2, o2, t1 ++ t2)
        | _ => (out, o1, t1)
        end
    end
  end
with exec_elifs (fuel : nat) (o : oracle) (a : arms) (els : oblock) {struct fuel} : r3 :=
  match fuel with
  | O => (OFuel, o, [])
  | S f =>
    match a with
    | ANil => match els with ONone => (ONormal, o, []) | OSome e => exec_block f o e end
    | ACons k b a' =>
        let (c, o1) := next o in
        if is_raise c then (OExc, o1, [k])
        else if is_true c then let '(out, o2, t) := exec_block f o1 b in (out, o2, k :: t)
        else let '(out, o2, t) := exec_elifs f o1 a' els in (out, o2, k :: t)
    end
  end
with exec_while (fuel : nat) (o : oracle) (k : N) (body : block) (els : oblock) {struct fuel} : r3 :=
  match fuel with
  | O => (OFuel, o, [])
  | S f =>
    let (c, o1) := next o in
    if is_raise c then (OExc, o1, [k])
    else if is_true c then
      let '(out, o2, t) := exec_block f o1 body in
      match out with
      | ONormal | OCont => let '(out3, o3, t3) := exec_while f o2 k body els in (out3, o3, k :: t ++ t3)
      | OBrk => (ONormal, o2, k :: t)
      | _ => (out, o2, k :: t)
      end
    else match els with
         | ONone => (ONormal, o1, [k])
         | OSome e => let '(out, o2, t) := exec_block f o1 e in (out, o2, k :: t)
         end
  end
with exec_for (fuel : nat) (o : oracle) (body : block) (els : oblock) {struct fuel} : r3 :=
  match fuel with
  | O => (OFuel, o, [])
  | S f =>
    let (c, o1) := next o in
    if is_raise c then (OExc, o1, [])
    else if is_true c then
      let '(out, o2, t) := exec_block f o1 body in
      match out with
      | ONormal | OCont => let '(out3, o3, t3) := exec_for f o2 body els in (out3, o3, t ++ t3)
      | OBrk => (ONormal, o2, t)
      | _ => (out, o2, t)
      end
    else match els with
         | ONone => (ONormal, o1, [])
         | OSome e => exec_block f o1 e
         end
  end
with exec_handlers (fuel : nat) (o : oracle) (a : arms) {struct fuel} : r3 :=
  (* an exception is looking for a handler: each [except H(k)] is evaluated in order *)
  match fuel with
  | O => (OFuel, o, [])
  | S f =>
    match a with
    | ANil => (OExc, o, [])
    | ACons k b a' =>
        let (c, o1) := next o in
        if is_match c then let '(out, o2, t) := exec_block f o1 b in (out, o2, k :: t)
        else let '(out, o2, t) := exec_handlers f o1 a' in (out, o2, k :: t)
    end
  end
with exec_cases (fuel : nat) (o : oracle) (a : arms) {struct fuel} : r3 :=
  match fuel with
  | O => (OFuel, o, [])
  | S f =>
    match a with
    | ANil => (ONormal, o, [])
    | ACons k b a' =>
        let (c, o1) := next o in
        if is_true c then let '(out, o2, t) := exec_block f o1 b in (out, o2, k :: t)
        else let '(out, o2, t) := exec_cases f o1 a' in (out, o2, k :: t)
    end
  end.

(* one run of a function body *)
Definition run (fuel : nat) (o : oracle) (body : block) : outcome * list N :=
  let '(out, _, t) := exec_block fuel o body in (out, t).
