(* Unfolding equations of the fuelled executors (generated from PySem.v by copy). *)
From Coq Require Import NArith List Bool.
From PV Require Import Py.PyAST Py.PySem.
Import ListNotations.

Lemma exec_stmt_S (f : nat) (o : oracle) (s : stmt) :
  exec_stmt (S f) o s =

    match s with
    | Simple k | Comp k _ | Def k _ _ => mark_may_raise k o
    | Pass k => (ONormal, o, [k])
    | Return k => let (c, o') := next o in ((if is_raise c then OExc else ORet), o', [k])
    | Raise k => (OExc, o, [k])
    | Break k => (OBrk, o, [k])
    | Continue k => (OCont, o, [k])
    | If k body elifs els =>
        let (c, o1) := next o in
        if is_raise c then (OExc, o1, [k])
        else if is_true c then let '(out, o2, t) := exec_block f o1 body in (out, o2, k :: t)
        else let '(out, o2, t) := exec_elifs f o1 elifs els in (out, o2, k :: t)
    | While k body els => exec_while f o k body els
    | For k body els =>
        let (c, o1) := next o in
        if is_raise c then (OExc, o1, [k])
        else let '(out, o2, t) := exec_for f o1 body els in (out, o2, k :: t)
    | Try _ body handlers els fin =>
        let '(out1, o1, t1) := exec_block f o body in
        let '(pend, o2, t2) :=
          match out1 with
          | OExc => exec_handlers f o1 handlers
          | ONormal => match els with ONone => (ONormal, o1, []) | OSome e => exec_block f o1 e end
          | _ => (out1, o1, [])
          end in
        match fin with
        | ONone => (pend, o2, t1 ++ t2)
        | OSome fb =>
            match pend with
            | OFuel => (OFuel, o2, t1 ++ t2)
            | _ =>
              let '(outf, o3, t3) := exec_block f o2 fb in
              ((match outf with ONormal => pend | _ => outf end), o3, t1 ++ t2 ++ t3)
            end
        end
    | With k body =>
        let (c, o1) := next o in
        if is_raise c then (OExc, o1, [k])
        else
          let '(out, o2, t) := exec_block f o1 body in
          match out with
          | OExc => let (c2, o3) := next o2 in ((if is_true c2 then ONormal else OExc), o3, k :: t)
          | _ => (out, o2, k :: t)
          end
    | Match k cases =>
        let (c, o1) := next o in
        if is_raise c then (OExc, o1, [k])
        else let '(out, o2, t) := exec_cases f o1 cases in (out, o2, k :: t)
    | Class k _ body =>
        let (c, o1) := next o in
        if is_raise c then (OExc, o1, [k])
        else let '(out, o2, t) := exec_block f o1 body in (out, o2, k :: t)
    end.
Proof. reflexivity. Qed.

Lemma exec_block_S (f : nat) (o : oracle) (b : block) :
  exec_block (S f) o b =

    match b with
    | BNil => (ONormal, o, [])
    | BCons s b' =>
        let '(out, o1, t1) := exec_stmt f o s in
        match out with
        | ONormal => let '(out2, o2, t2) := exec_block f o1 b' in (out2, o2, t1 ++ t2)
        | _ => (out, o1, t1)
        end
    end.
Proof. reflexivity. Qed.

Lemma exec_elifs_S (f : nat) (o : oracle) (a : arms) (els : oblock) :
  exec_elifs (S f) o a els =

    match a with
    | ANil => match els with ONone => (ONormal, o, []) | OSome e => exec_block f o e end
    | ACons k b a' =>
        let (c, o1) := next o in
        if is_raise c then (OExc, o1, [k])
        else if is_true c then let '(out, o2, t) := exec_block f o1 b in (out, o2, k :: t)
        else let '(out, o2, t) := exec_elifs f o1 a' els in (out, o2, k :: t)
    end.
Proof. reflexivity. Qed.

Lemma exec_while_S (f : nat) (o : oracle) (k : N) (body : block) (els : oblock) :
  exec_while (S f) o k body els =

    let (c, o1) := next o in
    if is_raise c then (OExc, o1, [k])
    else if is_true c then
      let '(out, o2, t) := exec_block f o1 body in
      match out with
      | ONormal | OCont => let '(out3, o3, t3) := exec_while f o2 k body els in (out3, o3, k :: t ++ t3)
      | OBrk => (ONormal, o2, k :: t)
      | _ => (out, o2, k :: t)
      end
    else match els with
         | ONone => (ONormal, o1, [k])
         | OSome e => let '(out, o2, t) := exec_block f o1 e in (out, o2, k :: t)
         end.
Proof. reflexivity. Qed.

Lemma exec_for_S (f : nat) (o : oracle) (body : block) (els : oblock) :
  exec_for (S f) o body els =

    let (c, o1) := next o in
    if is_raise c then (OExc, o1, [])
    else if is_true c then
      let '(out, o2, t) := exec_block f o1 body in
      match out with
      | ONormal | OCont => let '(out3, o3, t3) := exec_for f o2 body els in (out3, o3, t ++ t3)
      | OBrk => (ONormal, o2, t)
      | _ => (out, o2, t)
      end
    else match els with
         | ONone => (ONormal, o1, [])
         | OSome e => exec_block f o1 e
         end.
Proof. reflexivity. Qed.

Lemma exec_handlers_S (f : nat) (o : oracle) (a : arms) :
  exec_handlers (S f) o a =

    match a with
    | ANil => (OExc, o, [])
    | ACons k b a' =>
        let (c, o1) := next o in
        if is_match c then let '(out, o2, t) := exec_block f o1 b in (out, o2, k :: t)
        else let '(out, o2, t) := exec_handlers f o1 a' in (out, o2, k :: t)
    end.
Proof. reflexivity. Qed.

Lemma exec_cases_S (f : nat) (o : oracle) (a : arms) :
  exec_cases (S f) o a =

    match a with
    | ANil => (ONormal, o, [])
    | ACons k b a' =>
        let (c, o1) := next o in
        if is_true c then let '(out, o2, t) := exec_block f o1 b in (out, o2, k :: t)
        else let '(out, o2, t) := exec_cases f o1 a' in (out, o2, k :: t)
    end.
Proof. reflexivity. Qed.
