(* Tie/DepsTie.v — tie of assessCycleSeverity (Deps/Tarjan.v) to internal/analyzer/circular_detector.go by a decision table.

   The translator (translator/gen_deps.go via translator/goeval.go) evaluates CircularDependencyDetector.assessCycleSeverity
   on cycles of every size next to a threshold, whose modules have in-degrees next to the fan-in threshold or are unknown
   to the graph, and writes the results (as severityOrder codes) into Gen/DepsTables.v. The thresholds of Gen/DepsConst.v
   (circ_is_core, circ_assess) are themselves read off by evaluation; the lemma below recomputes every row with the model
   (existsb over the modules, unknown modules ignored). An equivalent rewrite of the Go text leaves table and constants unchanged. *)
From Coq Require Import ZArith NArith List Bool.
From PV Require Import Gen.DepsConst Gen.DepsTables Deps.Tarjan.
Import ListNotations.
Open Scope Z_scope.

(* modules are numbered 1..n; module k is in the graph iff the k-th entry is [Some indegree] *)
Fixpoint tie_graph (k : N) (degs : list (option Z)) : mgraph :=
  match degs with
  | [] => []
  | Some d :: r => Build_mnode k [] d :: tie_graph (N.succ k) r
  | None :: r => tie_graph (N.succ k) r
  end.
Fixpoint tie_modules (k : N) (degs : list (option Z)) : list N :=
  match degs with [] => [] | _ :: r => k :: tie_modules (N.succ k) r end.

Definition assess_row (r : (Z * list (option Z)) * Z) : bool :=
  let '((size, degs), out) := r in
  assessCycleSeverity (tie_graph 1 degs) (tie_modules 1 degs) size =? out.

Definition deps_tables_agree : bool := forallb assess_row assessCycleSeverity_table.
Definition deps_tables_nonempty : bool := Nat.leb 40 (length assessCycleSeverity_table).

Lemma deps_tables_agree_ok : deps_tables_agree = true /\ deps_tables_nonempty = true.
Proof. split; vm_compute; reflexivity. Qed.
