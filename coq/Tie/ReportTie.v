(* Tie/ReportTie.v — tie of the result filters and risk levels of the report models (Report/Filters.v) to the Go source
   by decision tables.

   The translator (translator/gen_report.go via the interpreter translator/goeval.go) runs
     ComplexityServiceImpl.filterFunctions / calculateRiskLevel, CBOServiceImpl.filterClasses, LCOMServiceImpl.filterClasses,
     CloneService.filterClonePairs / filterCloneGroups (package service), CBOAnalyzer.assessRiskLevel, LCOMAnalyzer.assessRiskLevel
   on lists of items whose metric lies at / next to every bound of the request and writes the kept items (resp. the risk
   level) into Gen/ReportTables.v. The comparison operators of Gen/ReportConst.v are themselves read off by evaluation
   (item one below / at / one above the bound). The lemma below recomputes every row with the hand-written models:
   a positive instead of a negative test, a named temporary, a switch instead of an if-chain leave the tables unchanged;
   a changed bound, a dropped filter, a filter that reorders or duplicates items does not. *)
From Coq Require Import ZArith QArith List Bool.
From PV Require Import Gen.ReportConst Gen.ReportTables Report.Summary Report.Filters.
Import ListNotations.
Open Scope Z_scope.

Fixpoint zlist_eqb (a b : list Z) : bool :=
  match a, b with
  | [], [] => true
  | x :: a', y :: b' => (x =? y) && zlist_eqb a' b'
  | _, _ => false
  end.

Definition vrs (l : list Z) : list vr := map (fun v => Build_vr v ROther) l.
Definition vals (l : list vr) : list Z := map v_val l.

Definition risk_num (r : risk) : Z := match r with RLow => 0 | RMedium => 1 | RHigh => 2 | ROther => 3 end.
Definition risk_row (f : Z -> Z -> Z -> risk) (r : ((Z * Z) * Z) * Z) : bool :=
  let '(((low, medium), x), out) := r in risk_num (f low medium x) =? out.

Definition cx_filter_row (r : (Z * list Z) * list Z) : bool :=
  let '((min, l), kept) := r in zlist_eqb (vals (filter_functions (vrs l) min)) kept.
Definition cbo_filter_row (r : (((Z * Z) * bool) * list Z) * list Z) : bool :=
  let '((((min, max), zeros), l), kept) := r in zlist_eqb (vals (cbo_filter_classes (vrs l) min max zeros)) kept.
Definition lcom_filter_row (r : ((Z * Z) * list Z) * list Z) : bool :=
  let '(((min, max), l), kept) := r in zlist_eqb (vals (lcom_filter_classes (vrs l) min max)) kept.

Fixpoint plist_eqb (a : list cpair) (b : list (Q * Z)) : bool :=
  match a, b with
  | [], [] => true
  | x :: a', (s, t) :: b' => Qeq_bool (p_sim x) s && (p_type x =? t) && plist_eqb a' b'
  | _, _ => false
  end.
Definition clone_filter_row (f : list cpair -> Q -> Q -> list Z -> list cpair) (r : (((Q * Q) * list Z) * list (Q * Z)) * list (Q * Z)) : bool :=
  let '((((lo, hi), types), l), kept) := r in
  plist_eqb (f (map (fun st => Build_cpair (fst st) (snd st)) l) lo hi types) kept.

Definition report_tables_agree : bool :=
  forallb (risk_row cx_risk) risk_cx_table && forallb (risk_row cbo_risk) risk_cbo_table && forallb (risk_row lcom_risk) risk_lcom_table &&
  forallb cx_filter_row filterFunctions_table &&
  forallb cbo_filter_row filterClasses_cbo_table && forallb lcom_filter_row filterClasses_lcom_table &&
  forallb (clone_filter_row filter_clone_pairs) filterClonePairs_table &&
  forallb (clone_filter_row filter_clone_groups) filterCloneGroups_table.

Definition report_tables_nonempty : bool :=
  forallb (fun n => Nat.leb 5 n)
    [length risk_cx_table; length risk_cbo_table; length risk_lcom_table; length filterFunctions_table;
     length filterClasses_cbo_table; length filterClasses_lcom_table; length filterClonePairs_table; length filterCloneGroups_table].

Lemma report_tables_agree_ok : report_tables_agree = true /\ report_tables_nonempty = true.
Proof. split; vm_compute; reflexivity. Qed.
