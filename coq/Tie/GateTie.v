(* Tie/GateTie.v — tie of the `pyscn check` gate model (Cli/Gate.v) to cmd/pyscn/check.go by decision tables.

   The translator (translator/gen_check.go via the interpreter translator/goeval.go) *runs* CheckCommand.checkComplexity
   and CheckCommand.runCheck of the current Go source with the analyses stubbed out (the stub returns the functions /
   the issue count and error of each analysis) on a grid of flag settings, --select lists and analysis outcomes, and
   writes what the code returns into Gen/CheckTables.v. The lemma below recomputes every row with the hand-written
   model: the threshold choice (flag given > merged config > flag default), the complexity comparison, which analyses
   run for which --select list, which issue counts are added under --allow-dead-code / --allow-circular-deps /
   --max-cycles, that a clone failure is not an error, and the final decision; and dependencyProjectRoots /
   checkCircularDependencies (which targets are project roots; the sum over the roots, the first failure). The comparison operators of
   Gen/CheckConst.v are themselves read off by evaluation. A logically equivalent rewrite of check.go (De Morgan,
   if-chain -> switch, guard + continue, named temporaries) leaves the tables unchanged. *)
From Coq Require Import ZArith NArith List String Bool.
From PV Require Import Gen.DomainConst Gen.CheckConst Gen.CheckTables Cli.Gate Cli.GateRoots.
Import ListNotations.
Open Scope Z_scope.

Definition tie_ids (n : Z) : list N := map N.of_nat (seq 0 (Z.to_nat n)).

(* ---- checkComplexity ---------------------------------------------------------------------------------------- *)
Definition tie_cfg_of_max (req : Z) : option file_cfg :=
  if req >? 0 then Some (Build_file_cfg (Some req) None None) else None.

Definition cx_row (r : (((bool * Z) * Z) * list Z) * (Z * bool)) : bool :=
  let '((((given, flag), req), cxs), (count, failed)) := r in
  let f := Build_flags false (if given then Some flag else None) false false false None [] in
  let fns := combine (tie_ids (Z.of_nat (List.length cxs))) cxs in
  let res := Build_results fns failed [] false [] false [] false [] false in
  (* representable rows only: an absent flag holds its default, the merged request value is not negative *)
  (given || (flag =? check_flag_default_max_complexity)) && (0 <=? req) &&
  match check_complexity f (tie_cfg_of_max req) res with
  | Some (n, _) => negb failed && (n =? count)
  | None => failed
  end.

(* ---- runCheck ------------------------------------------------------------------------------------------------- *)
Definition sel_of_string (s : string) : sel_name :=
  if String.eqb s "complexity" then SComplexity else if String.eqb s "deadcode" then SDeadcode
  else if String.eqb s "clones" then SClones else if String.eqb s "deps" then SDeps
  else if String.eqb s "circular" then SCircular else if String.eqb s "mockdata" then SMockdata else SInvalid.

Definition run_row (r : ((list string * ((bool * bool * bool * bool) * Z)) * list (Z * bool)) * bool) : bool :=
  let '(((sel, ((quiet, allow_dead, skip_clones, allow_circ), max_cycles)), phases), failed) := r in
  match phases with
  | [(n1, e1); (n2, e2); (n3, e3); (n4, e4); (n5, e5)] =>
      let f := Build_flags quiet None allow_dead skip_clones allow_circ (Some max_cycles) (map sel_of_string sel) in
      let res := Build_results
                   (map (fun id => (id, check_flag_default_max_complexity + 1)) (tie_ids n1)) e1
                   (map (fun id => (id, SevCritical)) (tie_ids n2)) e2
                   (tie_ids n3) e3
                   (map (fun id => (id, true)) (tie_ids n4)) e4
                   (map (fun id => (id, domain_level_MockDataSeverityError)) (tie_ids n5)) e5 in
      let o := run_check (Build_input f None None None res) in
      Bool.eqb (negb (o_exit o =? 0)) failed
  | _ => false
  end.

(* ---- checkCircularDependencies over several targets (Cli/GateRoots.v) ------------------------------------------- *)
(* dependencyProjectRoots run on lists of absolute targets (spelled with trailing slashes and dir/../ too; a name that
   is a string prefix of another, the root directory): the targets that are project roots, by their cleaned components *)
Fixpoint apaths_eqb (a b : list apath) : bool :=
  match a, b with
  | [], [] => true
  | x :: a', y :: b' => apath_eqb x y && apaths_eqb a' b'
  | _, _ => false
  end.

Definition roots_row (r : list (list N) * list (list N)) : bool :=
  let '(args, roots) := r in apaths_eqb (dependency_project_roots [] args) roots.

(* checkCircularDependencies run with the analysis of one root stubbed out: (cycles, error) of each root -> (total, error) *)
Definition circ_row (r : list (Z * bool) * (Z * bool)) : bool :=
  let '(roots, (total, failed)) := r in
  let f := Build_flags true None false false false None [] in
  let rs := map (fun ne => Build_results [] false [] false [] false (map (fun id => (id, true)) (tie_ids (fst ne))) (snd ne) [] false) roots in
  match fst (check_circular_roots f rs) with
  | Some n => negb failed && (n =? total)
  | None => failed
  end.

Definition gate_tables_agree : bool :=
  forallb cx_row checkComplexity_table && forallb run_row runCheck_table &&
  forallb roots_row dependencyProjectRoots_table && forallb circ_row checkCircularDependencies_table.
Definition gate_tables_nonempty : bool :=
  Nat.leb 40 (List.length checkComplexity_table) && Nat.leb 500 (List.length runCheck_table) &&
  Nat.leb 300 (List.length dependencyProjectRoots_table) && Nat.leb 12 (List.length checkCircularDependencies_table).

Lemma gate_tables_agree_ok : gate_tables_agree = true /\ gate_tables_nonempty = true.
Proof. split; vm_compute; reflexivity. Qed.
