(* Tie/CloneTie.v — tie of the decision functions of Clone/Pairs.v to the Go source by *decision tables*.

   The translator (translator/gen_clone.go, via the interpreter translator/goeval.go) evaluates
     CloneDetector.classifyCloneType, CloneDetector.isOverlappingLocation, CloneDetector.shouldIncludeFragment,
     CloneDetector.isSignificantClone of internal/analyzer/clone_detector.go and CloneService.filterClonePairs of service/clone_service.go on a finite grid of inputs (every threshold, one step below and above it,
   every order type of four line numbers, ...) and writes the results into Gen/CloneConst.v. The lemmas below
   recompute every row with the hand-written model: a behavioural change of one of these functions breaks a lemma
   (and with it Props/C08.v, Props/C09.v), a logically equivalent rewrite of the Go text does not. *)
From Coq Require Import ZArith QArith List Bool.
From PV Require Import Gen.CloneConst Clone.Pairs.
Import ListNotations.
Open Scope Z_scope.

(* a configuration with the given band thresholds / size limits; the other fields are irrelevant here *)
Definition tie_cfg (t1 t2 t3 t4 : Q) (min_nodes min_lines : Z) : cfg :=
  Build_cfg min_lines min_nodes t1 t2 t3 t4 0 0 0 0 0 0 0 false false 0 0 0 0 0 1 [].

Definition tie_frag (file : N) (s e size lines : Z) : frag := Build_frag 0 file s e size lines 0 [] [].

Definition classify_code (o : option ctype) : Z := match o with Some t => ctype_code t | None => 0 end.

Definition classify_row (r : (Q * (Q * Q * Q * Q)) * Z) : bool :=
  let '((s, (t1, t2, t3, t4)), out) := r in
  classify_code (classify (tie_cfg t1 t2 t3 t4 1 1) s) =? out.

Definition overlap_row (r : ((bool * (Z * Z)) * (Z * Z)) * bool) : bool :=
  let '(((same, (s1, e1)), (s2, e2)), out) := r in
  Bool.eqb (overlapping (tie_frag 1 s1 e1 0 0) (tie_frag (if same then 1 else 2)%N s2 e2 0 0)) out.

Definition include_row (r : ((Z * Z) * (Z * Z)) * bool) : bool :=
  let '(((size, lines), (min_nodes, min_lines)), out) := r in
  Bool.eqb (should_include (tie_cfg 0 0 0 0 min_nodes min_lines) (tie_frag 1 1 1 size lines)) out.

(* isSignificantClone: similarity threshold (or Type4 when unset), distance limit, minimum size *)
Definition sig_row (r : ((((Q * Q) * Q) * Z) * ((Q * Q) * (Z * Z))) * bool) : bool :=
  let '(((((sim_thr, t4), max_dist), min_nodes), ((s, d), (size1, size2))), out) := r in
  let c := Build_cfg 1 min_nodes 1 1 1 t4 sim_thr max_dist 0 0 0 0 0 false false 0 0 0 0 0 1 [] in
  Bool.eqb (significant c (Build_cpair (tie_frag 1 1 1 size1 1) (tie_frag 2 1 1 size2 1) s d Type1)) out.

(* service.filterClonePairs: similarity range and enabled types; the kept pairs in order *)
Definition ctype_of_code (z : Z) : option ctype :=
  if z =? analyzer_Type1Clone then Some Type1 else if z =? analyzer_Type2Clone then Some Type2
  else if z =? analyzer_Type3Clone then Some Type3 else if z =? analyzer_Type4Clone then Some Type4 else None.
Fixpoint ctypes_of (l : list Z) : option (list ctype) :=
  match l with
  | [] => Some []
  | z :: r => match ctype_of_code z, ctypes_of r with Some t, Some ts => Some (t :: ts) | _, _ => None end
  end.
Fixpoint pairs_of_rows (l : list (Q * Z)) : option (list cpair) :=
  match l with
  | [] => Some []
  | (s, z) :: r => match ctype_of_code z, pairs_of_rows r with
                   | Some t, Some ps => Some (Build_cpair (tie_frag 1 1 1 1 1) (tie_frag 2 1 1 1 1) s 0 t :: ps)
                   | _, _ => None
                   end
  end.
Fixpoint same_pairs (a : list cpair) (b : list (Q * Z)) : bool :=
  match a, b with
  | [], [] => true
  | p :: a', (s, z) :: b' => Qeq_bool (p_sim p) s && (ctype_code (p_type p) =? z) && same_pairs a' b'
  | _, _ => false
  end.
Definition service_row (r : (((Q * Q) * list Z) * list (Q * Z)) * list (Q * Z)) : bool :=
  let '((((lo, hi), types), l), kept) := r in
  match ctypes_of types, pairs_of_rows l with
  | Some ts, Some ps =>
      let c := Build_cfg 1 1 1 1 1 1 0 0 0 0 0 0 0 false false 0 0 0 0 lo hi ts in
      same_pairs (service_filter c ps) kept
  | _, _ => false
  end.

Definition clone_tables_agree : bool :=
  forallb classify_row classifyCloneType_table &&
  forallb overlap_row isOverlappingLocation_table &&
  forallb include_row shouldIncludeFragment_table &&
  forallb sig_row isSignificantClone_table &&
  forallb service_row serviceFilterClonePairs_table.

(* the tables are not empty (an empty table would make the agreement vacuous) *)
Definition clone_tables_nonempty : bool :=
  (60 <=? Z.of_nat (length classifyCloneType_table)) &&
  (200 <=? Z.of_nat (length isOverlappingLocation_table)) &&
  (30 <=? Z.of_nat (length shouldIncludeFragment_table)) &&
  (100 <=? Z.of_nat (length isSignificantClone_table)) &&
  (5 <=? Z.of_nat (length serviceFilterClonePairs_table)).

Lemma clone_tables_agree_ok : clone_tables_agree = true /\ clone_tables_nonempty = true.
Proof. split; vm_compute; reflexivity. Qed.
