(* Tie/TedTie.v — tie of the label predicates of the Python cost model (Ted/Cost.v) to the Go source by decision tables.

   The translator (translator/gen_ted.go via the interpreter translator/goeval.go) evaluates the functions
     isStructuralNode, isControlFlowNode, isExpressionNode, isLiteralNode, isIdentifierNode, isTopLevelDefinition, IsBoilerplateLabel,
     areRelatedNodeTypes, areSameCategory, getNodeTypeMultiplier, calculateLabelSimilarity
   of internal/analyzer/apted_cost.go on a label universe (every string literal of that file, each with one letter
   more / one letter less / in lower case, plus a few strangers) and writes the results into Gen/TedTables.v.
   The lemma below recomputes every row with the hand-written model: the lists and numbers of Gen/TedConst.v are
   themselves read off by evaluation, and the tables check that the model reads them the way the code does
   (prefix test vs. equality, either orientation of a related pair, order of the multiplier cases, ...).
   A logically equivalent rewrite of the Go text leaves the tables unchanged. *)
From Coq Require Import ZArith QArith List String Bool.
From PV Require Import Gen.TedConst Gen.TedTables Ted.Cost.
Import ListNotations.

Definition row1 (f : string -> bool) (r : string * bool) : bool := Bool.eqb (f (fst r)) (snd r).
Definition row2 (f : string -> string -> bool) (r : (string * string) * bool) : bool :=
  Bool.eqb (f (fst (fst r)) (snd (fst r))) (snd r).

(* the configuration the multiplier table was evaluated with: BoilerplateMultiplier = 1/8 *)
Definition tie_pycfg (ignL ignI reduce : bool) : pycfg := Build_pycfg 1 1 1 ignL ignI reduce (1 # 8).

Definition mult_row (r : ((bool * bool * bool) * string) * Q) : bool :=
  let '(((ignL, ignI, reduce), label), out) := r in
  Qeq_bool (getNodeTypeMultiplier (tie_pycfg ignL ignI reduce) label) out.

Definition sim_row (r : (string * string) * Q) : bool :=
  Qeq_bool (calculateLabelSimilarity (fst (fst r)) (snd (fst r))) (snd r).

Definition ted_tables_agree : bool :=
  forallb (row1 isStructuralNode) isStructuralNode_table &&
  forallb (row1 isControlFlowNode) isControlFlowNode_table &&
  forallb (row1 isExpressionNode) isExpressionNode_table &&
  forallb (row1 isLiteralNode) isLiteralNode_table &&
  forallb (row1 isIdentifierNode) isIdentifierNode_table &&
  forallb (row1 isTopLevelDefinition) isTopLevelDefinition_table &&
  forallb (row1 IsBoilerplateLabel) IsBoilerplateLabel_table &&
  forallb (row2 areRelatedNodeTypes) areRelatedNodeTypes_table &&
  forallb (row2 areSameCategory) areSameCategory_table &&
  forallb mult_row getNodeTypeMultiplier_table &&
  forallb sim_row calculateLabelSimilarity_table.

Definition ted_tables_nonempty : bool :=
  forallb (fun n => Nat.leb 20 n)
    [List.length isStructuralNode_table; List.length isControlFlowNode_table; List.length isExpressionNode_table; List.length isLiteralNode_table;
     List.length isIdentifierNode_table; List.length isTopLevelDefinition_table; List.length IsBoilerplateLabel_table; List.length areRelatedNodeTypes_table;
     List.length areSameCategory_table; List.length getNodeTypeMultiplier_table; List.length calculateLabelSimilarity_table].

Lemma ted_tables_agree_ok : ted_tables_agree = true /\ ted_tables_nonempty = true.
Proof. split; vm_compute; reflexivity. Qed.
