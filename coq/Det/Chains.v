(* C05 — model of findLongestChains / findPathsFromModule (service/system_analysis_service.go).

   The dependency graph is a Go map name -> set of names (itself a map).  The code starts a
   depth-first enumeration of simple paths from every module, stops each enumeration once
   `limit` paths were collected (the budget handed to a recursive call is what is left; a call
   with an exhausted budget returns at once), sorts all
   collected paths and keeps the first `limit`. *)
From Coq Require Import List Permutation Bool Arith ZArith Lia.
From PV Require Import Det.SortDet Det.Keys Gen.DetConst.
Import ListNotations.

Definition graph := list (Z * list Z).

Fixpoint succs (g : graph) (n : Z) : list Z :=
  match g with
  | [] => []
  | (m, ds) :: r => if Z.eqb m n then ds else succs r n
  end.

Definition memZ (x : Z) (l : list Z) : bool := existsb (Z.eqb x) l.

(* findPathsFromModule(graph, cur, visited, path, maxPaths); deps are visited in the order of the list *)
Fixpoint paths_from (fuel : nat) (g : graph) (cur : Z) (visited : list Z) (path : list Z) (maxp : Z)
  : list (list Z) :=
  match fuel with
  | O => []
  | S n =>
      if (maxp <=? 0)%Z then [] else        (* `if len(paths) >= maxPaths { return paths }` with paths still empty *)
      let visited' := cur :: visited in
      (fix loop (deps : list Z) (acc : list (list Z)) : list (list Z) :=
         match deps with
         | [] => acc
         | d :: ds =>
             if memZ d visited' then loop ds acc
             else
               let np := path ++ [d] in
               let acc1 := acc ++ [np] in
               let sub := paths_from n g d visited' np (maxp - Z.of_nat (length acc1)) in
               let acc2 := acc1 ++ sub in
               if (Z.of_nat (length acc2) >=? maxp)%Z then acc2 else loop ds acc2
         end) (succs g cur) []
  end.

Definition chain_item (p : list Z) : item := [[Z.of_nat (length p)]; p].

(* the search in the order the graph is given (= map iteration order) *)
Definition chains_raw (key : keylist) (limit : nat) (g : graph) : list (list Z) :=
  let fuel := S (length g + length (concat (map snd g))) in
  let all := concat (map (fun nd => paths_from fuel g (fst nd) [] [fst nd] (Z.of_nat limit)) g) in
  map (fld 1) (firstn limit (sort_by key (map chain_item all))).

(* sorted start modules (GetModuleNames) and sorted dependencies (sort.Strings(deps)) *)
Definition norm_node (sorted_succs : bool) (nd : Z * list Z) : Z * list Z :=
  (fst nd, if sorted_succs then sortZ (snd nd) else snd nd).
Definition leb_node (a b : Z * list Z) : bool := Z.leb (fst a) (fst b).
Definition norm_graph (sorted_roots sorted_succs : bool) (g : graph) : graph :=
  let g1 := map (norm_node sorted_succs) g in
  if sorted_roots then isort leb_node g1 else g1.

Definition longest_chains (g : graph) : list (list Z) :=
  chains_raw key_chains chain_limit (norm_graph (sorted_chain_roots && sorted_module_names) sorted_chain_succs g).
