(* C05 — comparison functions built from a KEY LIST extracted from the Go source.

   An item (a Go struct that is sorted) is a list of fields, every field a list
   of integers: a number is [n], a string is [code] (the harness assigns codes
   that preserve Go's string order), a path of module names is the list of codes.
   A key list  [(f1,d1); (f2,d2); ...]  means "compare field f1 (descending if
   d1), then f2, ..." — exactly the if-chain of a Go `less` function; the
   translator (gen_det.go) reads it off the Go AST into Gen/DetConst.v. *)
From Coq Require Import List Permutation Sorted Bool Arith ZArith Lia.
From PV Require Import Det.SortDet.
Import ListNotations.

Definition item := list (list Z).
Definition fld (f : nat) (a : item) : list Z := nth f a [].
Definition keylist := list (nat * bool).

Fixpoint lexZ (a b : list Z) : comparison :=
  match a, b with
  | [], [] => Eq
  | [], _ :: _ => Lt
  | _ :: _, [] => Gt
  | x :: a', y :: b' => match Z.compare x y with Eq => lexZ a' b' | c => c end
  end.

(* a comparison function that behaves like the comparison of a total preorder *)
Record good {A} (c : A -> A -> comparison) : Prop := {
  g_anti : forall a b, c b a = CompOpp (c a b);
  g_eq : forall a b, c a b = Eq -> forall x, c a x = c b x;
  g_lt : forall a b d, c a b = Lt -> c b d = Lt -> c a d = Lt }.

Lemma lexZ_eq a : forall b, lexZ a b = Eq -> a = b.
Proof.
  induction a as [|x a IH]; destruct b as [|y b]; simpl; try discriminate; auto.
  destruct (Z.compare x y) eqn:E; try discriminate.
  intros H. apply Z.compare_eq in E. subst. f_equal. auto.
Qed.

Lemma lexZ_refl a : lexZ a a = Eq.
Proof. induction a; simpl; auto. rewrite Z.compare_refl. auto. Qed.

Lemma lexZ_anti a : forall b, lexZ b a = CompOpp (lexZ a b).
Proof.
  induction a as [|x a IH]; destruct b as [|y b]; simpl; auto.
  rewrite (Z.compare_antisym x y). destruct (Z.compare x y); simpl; auto.
Qed.

Lemma lexZ_lt a : forall b d, lexZ a b = Lt -> lexZ b d = Lt -> lexZ a d = Lt.
Proof.
  induction a as [|x a IH]; destruct b as [|y b]; destruct d as [|z d]; simpl; try discriminate; auto.
  destruct (Z.compare x y) eqn:E1; destruct (Z.compare y z) eqn:E2; try discriminate; intros H1 H2.
  - apply Z.compare_eq in E1, E2. subst. rewrite Z.compare_refl. eauto.
  - apply Z.compare_eq in E1. subst. rewrite E2. auto.
  - apply Z.compare_eq in E2. subst. rewrite E1. auto.
  - rewrite Z.compare_lt_iff in *. assert (x < z)%Z by lia. rewrite <- Z.compare_lt_iff in H. rewrite H. auto.
Qed.

Lemma good_lexZ : good lexZ.
Proof.
  constructor.
  - intros; apply lexZ_anti.
  - intros a b H x. apply lexZ_eq in H. subst. auto.
  - apply lexZ_lt.
Qed.

Section Good.
  Context {A : Type}.

  Lemma good_eq_sym (c : A -> A -> comparison) : good c -> forall a b, c a b = Eq -> c b a = Eq.
  Proof. intros G a b H. rewrite (g_anti c G a b), H. auto. Qed.

  Lemma good_eq_right (c : A -> A -> comparison) : good c -> forall b d, c b d = Eq -> forall a, c a b = c a d.
  Proof.
    intros G b d H a.
    rewrite (g_anti c G b a), (g_anti c G d a). f_equal. apply (g_eq c G). exact H.
  Qed.

  Lemma good_const : good (fun _ _ : A => Eq).
  Proof. constructor; auto; discriminate. Qed.

  Lemma good_proj {B} (p : A -> B) (c : B -> B -> comparison) : good c -> good (fun a b => c (p a) (p b)).
  Proof.
    intros G. constructor.
    - intros; apply (g_anti c G).
    - intros a b H x. apply (g_eq c G). exact H.
    - intros a b d. apply (g_lt c G).
  Qed.

  Lemma good_opp (c : A -> A -> comparison) : good c -> good (fun a b => CompOpp (c a b)).
  Proof.
    intros G. constructor.
    - intros a b. rewrite (g_anti c G a b). auto.
    - intros a b H x. f_equal. apply (g_eq c G). destruct (c a b); simpl in H; congruence.
    - intros a b d H1 H2.
      assert (c b a = Lt) by (rewrite (g_anti c G a b); destruct (c a b); simpl in *; congruence).
      assert (c d b = Lt) by (rewrite (g_anti c G b d); destruct (c b d); simpl in *; congruence).
      assert (c d a = Lt) by (eapply (g_lt c G); eauto).
      rewrite (g_anti c G d a), H3. auto.
  Qed.

  Definition lexc (c1 c2 : A -> A -> comparison) a b := match c1 a b with Eq => c2 a b | r => r end.

  Lemma good_lexc c1 c2 : good c1 -> good c2 -> good (lexc c1 c2).
  Proof.
    intros G1 G2. constructor; unfold lexc.
    - intros a b. rewrite (g_anti c1 G1 a b). destruct (c1 a b); simpl; auto. apply (g_anti c2 G2).
    - intros a b H x. destruct (c1 a b) eqn:E; try discriminate.
      rewrite (g_eq c1 G1 a b E x). rewrite (g_eq c2 G2 a b H x). auto.
    - intros a b d H1 H2.
      destruct (c1 a b) eqn:E1; try discriminate.
      + rewrite (g_eq c1 G1 a b E1 d). destruct (c1 b d) eqn:E2; try discriminate; auto.
        eapply (g_lt c2 G2); eauto.
      + destruct (c1 b d) eqn:E2; try discriminate.
        * rewrite <- (good_eq_right c1 G1 b d E2 a). rewrite E1. auto.
        * rewrite (g_lt c1 G1 a b d E1 E2). auto.
  Qed.

  Definition leb_of (c : A -> A -> comparison) a b := match c a b with Gt => false | _ => true end.

  Lemma leb_of_total c : good c -> forall a b, leb_of c a b = true \/ leb_of c b a = true.
  Proof.
    intros G a b. unfold leb_of. rewrite (g_anti c G a b). destruct (c a b); simpl; auto.
  Qed.

  Lemma leb_of_trans c : good c -> forall a b d, leb_of c a b = true -> leb_of c b d = true -> leb_of c a d = true.
  Proof.
    intros G a b d. unfold leb_of.
    destruct (c a b) eqn:E1; try discriminate; destruct (c b d) eqn:E2; try discriminate; intros _ _.
    - rewrite (g_eq c G a b E1 d), E2. auto.
    - rewrite (g_eq c G a b E1 d), E2. auto.
    - rewrite <- (good_eq_right c G b d E2 a), E1. auto.
    - rewrite (g_lt c G a b d E1 E2). auto.
  Qed.

  Lemma leb_of_both c : good c -> forall a b, leb_of c a b = true -> leb_of c b a = true -> c a b = Eq.
  Proof.
    intros G a b. unfold leb_of. rewrite (g_anti c G a b). destruct (c a b); simpl; auto; discriminate.
  Qed.
End Good.

(* comparison from a key list *)
Definition cmp_field (f : nat) (desc : bool) (a b : item) : comparison :=
  if desc then CompOpp (lexZ (fld f a) (fld f b)) else lexZ (fld f a) (fld f b).

Fixpoint cmp_keys (ks : keylist) (a b : item) : comparison :=
  match ks with
  | [] => Eq
  | (f, desc) :: r => lexc (cmp_field f desc) (cmp_keys r) a b
  end.

Definition leb_keys (ks : keylist) : item -> item -> bool := leb_of (cmp_keys ks).

Lemma good_cmp_field f desc : good (cmp_field f desc).
Proof.
  unfold cmp_field. destruct desc.
  - apply good_opp. apply (good_proj (fld f) lexZ good_lexZ).
  - apply (good_proj (fld f) lexZ good_lexZ).
Qed.

Lemma good_cmp_keys ks : good (cmp_keys ks).
Proof.
  induction ks as [|[f desc] r IH]; simpl.
  - apply good_const.
  - change (good (lexc (cmp_field f desc) (cmp_keys r))). apply good_lexc; auto using good_cmp_field.
Qed.

Lemma cmp_keys_eq_fields ks a b : cmp_keys ks a b = Eq -> forall f, In f (map fst ks) -> fld f a = fld f b.
Proof.
  induction ks as [|[g desc] r IH]; simpl; intros H f Hf; [contradiction|].
  unfold lexc in H. destruct (cmp_field g desc a b) eqn:E; try discriminate.
  destruct Hf as [<-|Hf]; auto.
  unfold cmp_field in E. apply lexZ_eq. destruct desc; auto. destruct (lexZ (fld g a) (fld g b)); simpl in E; congruence.
Qed.

(* the identity of an item = the fields that are unique by construction of the Go map/slice *)
Definition idproj (ident : list nat) (a : item) : list (list Z) := map (fun f => fld f a) ident.
Definition covers (ks : keylist) (ident : list nat) : bool :=
  forallb (fun f => existsb (Nat.eqb f) (map fst ks)) ident.

Lemma covers_in ks ident : covers ks ident = true -> forall f, In f ident -> In f (map fst ks).
Proof.
  unfold covers. rewrite forallb_forall. intros H f Hf. specialize (H f Hf).
  rewrite existsb_exists in H. destruct H as [g [Hg E]]. apply Nat.eqb_eq in E. subst. auto.
Qed.

Definition sort_by (ks : keylist) (l : list item) : list item := isort (leb_keys ks) l.
Definition best_by (ks : keylist) (l : list item) : option item := best (leb_keys ks) l.

Lemma keys_antisym ks ident l :
  covers ks ident = true -> NoDup (map (idproj ident) l) -> antisym_on (leb_keys ks) l.
Proof.
  intros C ND a b Ha Hb L1 L2.
  eapply (NoDup_map_inj (idproj ident)); eauto.
  pose proof (leb_of_both _ (good_cmp_keys ks) a b L1 L2) as E.
  unfold idproj. apply map_ext_in. intros f Hf.
  eapply cmp_keys_eq_fields; eauto. eapply covers_in; eauto.
Qed.

(* THE reusable lemma: a sort whose key list covers the identity fields is independent of arrival order *)
Theorem sort_by_det ks ident l l' :
  covers ks ident = true -> NoDup (map (idproj ident) l) -> Permutation l l' ->
  sort_by ks l = sort_by ks l'.
Proof.
  intros C ND P. unfold sort_by. apply isort_det; auto.
  - apply leb_of_total, good_cmp_keys.
  - apply leb_of_trans, good_cmp_keys.
  - eapply keys_antisym; eauto.
Qed.

Theorem best_by_det ks ident l l' :
  covers ks ident = true -> NoDup (map (idproj ident) l) -> Permutation l l' ->
  best_by ks l = best_by ks l'.
Proof.
  intros C ND P. unfold best_by. apply best_det; auto.
  - apply leb_of_total, good_cmp_keys.
  - apply leb_of_trans, good_cmp_keys.
  - eapply keys_antisym; eauto.
Qed.

(* whatever algorithm sort.Slice uses, a sorted permutation is [sort_by ks l] *)
Theorem any_sort_by ks ident l r :
  covers ks ident = true -> NoDup (map (idproj ident) l) -> Permutation r l ->
  StronglySorted (fun a b => leb_keys ks a b = true) r -> r = sort_by ks l.
Proof.
  intros C ND P S. apply any_sort_is_isort; auto.
  - apply leb_of_total, good_cmp_keys.
  - apply leb_of_trans, good_cmp_keys.
  - eapply keys_antisym; eauto.
Qed.

(* plain integer lists (sort.Strings on name codes) *)
Definition sortZ (l : list Z) : list Z := isort Z.leb l.

Theorem sortZ_det l l' : Permutation l l' -> sortZ l = sortZ l'.
Proof.
  intros P. apply isort_det; auto.
  - intros a b. rewrite !Z.leb_le. lia.
  - intros a b c. rewrite !Z.leb_le. lia.
  - intros a b _ _. unfold le. rewrite !Z.leb_le. lia.
Qed.
