(* C05 — determinism of every emission-site model: the output does not depend on the order in
   which the Go map yields its entries.  Each proof needs [covers key ident = true] (the extracted
   comparison key mentions every field that identifies an item) or [sorted_<site> = true]; both are
   discharged by [reflexivity] on the constants generated from the Go source, so they fail to check
   as soon as a tie-breaker or a key sort is removed from the code. *)
From Coq Require Import List Permutation Sorted Bool Arith ZArith Lia.
From PV Require Import Det.SortDet Det.Keys Det.Sites Det.Chains Gen.DetConst.
Import ListNotations.

Lemma filter_perm {A} (p : A -> bool) l l' : Permutation l l' -> Permutation (filter p l) (filter p l').
Proof.
  induction 1; simpl; auto.
  - destruct (p x); auto.
  - destruct (p x), (p y); auto. apply perm_swap.
  - eapply Permutation_trans; eauto.
Qed.

Lemma NoDup_map_filter {A B} (f : A -> B) (p : A -> bool) l : NoDup (map f l) -> NoDup (map f (filter p l)).
Proof.
  induction l as [|x t IH]; simpl; intros ND; auto.
  inversion ND as [|? ? Hx NDt]; subst. destruct (p x); simpl; auto.
  constructor; auto. intros Hin. apply Hx. apply in_map_iff in Hin. destruct Hin as [y [E Hy]].
  apply filter_In in Hy. destruct Hy as [Hy _]. rewrite <- E. apply in_map. exact Hy.
Qed.

Lemma NoDup_map_perm {A B} (f : A -> B) l l' : Permutation l l' -> NoDup (map f l) -> NoDup (map f l').
Proof. intros P ND. eapply Permutation_NoDup; [apply Permutation_map; exact P|exact ND]. Qed.

Lemma covers_single f : covers [(f, false)] [f] = true.
Proof. unfold covers. simpl. rewrite Nat.eqb_refl. reflexivity. Qed.

Lemma sort_by_perm ks l : Permutation (sort_by ks l) l.
Proof. apply isort_perm. Qed.

Lemma range_map_perm s f l : Permutation (range_map s f l) l.
Proof. unfold range_map. destruct s; auto. apply sort_by_perm. Qed.

Theorem range_map_det s f l l' :
  s = true -> NoDup (map (idproj [f]) l) -> Permutation l l' -> range_map s f l = range_map s f l'.
Proof. intros -> ND P. unfold range_map. eapply sort_by_det; eauto. apply covers_single. Qed.

Theorem range_keys_det s l l' : s = true -> Permutation l l' -> range_keys s l = range_keys s l'.
Proof. intros -> P. apply sortZ_det; auto. Qed.

(* a final total sort makes the order of collection irrelevant *)
Lemma sort_after_range_det key ident s f l l' :
  covers key ident = true -> NoDup (map (idproj ident) l) -> Permutation l l' ->
  sort_by key (range_map s f l) = sort_by key (range_map s f l').
Proof.
  intros C ND P. eapply sort_by_det; eauto.
  - eapply NoDup_map_perm; [apply Permutation_sym, range_map_perm|exact ND].
  - rewrite !range_map_perm. exact P.
Qed.

(* ---- complexity -------------------------------------------------------------------------------- *)
Theorem complexity_functions_det key l l' :
  covers key fn_ident = true -> NoDup (map (idproj fn_ident) l) -> Permutation l l' ->
  complexity_functions key l = complexity_functions key l'.
Proof. intros. unfold complexity_functions. eapply sort_after_range_det; eauto. Qed.

(* ---- dead code --------------------------------------------------------------------------------- *)
Theorem dead_functions_det l l' :
  NoDup (map (idproj [0%nat]) l) -> Permutation l l' -> dead_functions l = dead_functions l'.
Proof. apply range_map_det. reflexivity. Qed.

Theorem dead_findings_det l l' :
  NoDup (map (idproj finding_ident) l) -> Permutation l l' -> dead_findings l = dead_findings l'.
Proof. intros. unfold dead_findings. eapply sort_by_det; eauto. reflexivity. Qed.

Theorem dead_reason_det start l l' :
  NoDup (map (idproj block_ident) l) -> Permutation l l' -> dead_reason start l = dead_reason start l'.
Proof.
  intros ND P. unfold dead_reason. f_equal.
  eapply best_by_det with (ident := block_ident).
  - reflexivity.
  - apply NoDup_map_filter. exact ND.
  - apply filter_perm. exact P.
Qed.

(* ---- CBO --------------------------------------------------------------------------------------- *)
Theorem cbo_classes_det key l l' :
  covers key class_ident = true -> NoDup (map (idproj class_ident) l) -> Permutation l l' ->
  cbo_classes key l = cbo_classes key l'.
Proof. intros. unfold cbo_classes. eapply sort_after_range_det; eauto. Qed.

Theorem cbo_most_coupled_det l l' :
  NoDup (map (idproj class_ident) l) -> Permutation l l' -> cbo_most_coupled l = cbo_most_coupled l'.
Proof. intros. unfold cbo_most_coupled. f_equal. eapply sort_by_det; eauto. reflexivity. Qed.

Theorem cbo_dependents_det l l' : Permutation l l' -> cbo_dependents l = cbo_dependents l'.
Proof. apply range_keys_det. reflexivity. Qed.

(* ---- circular dependencies ----------------------------------------------------------------------- *)
Theorem cycles_det l l' :
  NoDup (map (idproj cycle_ident) l) -> Permutation l l' -> cycles l = cycles l'.
Proof. intros. unfold cycles. eapply sort_by_det; eauto. reflexivity. Qed.

Theorem cycle_chain_targets_det l l' : Permutation l l' -> cycle_chain_targets l = cycle_chain_targets l'.
Proof. apply range_keys_det. reflexivity. Qed.

(* ---- coupling ------------------------------------------------------------------------------------ *)
Theorem refactoring_priority_det l l' :
  NoDup (map (idproj cand_ident) l) -> Permutation l l' -> refactoring_priority l = refactoring_priority l'.
Proof. intros. unfold refactoring_priority. do 2 f_equal. eapply sort_by_det; eauto. reflexivity. Qed.

Theorem zone_of_pain_det l l' :
  NoDup (map (idproj cand_ident) l) -> Permutation l l' -> zone_of_pain l = zone_of_pain l'.
Proof. intros. unfold zone_of_pain. f_equal. apply refactoring_priority_det; auto. Qed.

Section Sums.
  Variable F : Type.
  Variable fadd : F -> F -> F.
  Variable f0 : F.
  Variable val : item -> F.

  Theorem system_sum_det l l' :
    NoDup (map (idproj [0%nat]) l) -> Permutation l l' -> system_sum F fadd f0 val l = system_sum F fadd f0 val l'.
  Proof. intros. unfold system_sum. f_equal. apply range_map_det; auto. Qed.

  Theorem system_variance_sum_det l l' :
    NoDup (map (idproj [0%nat]) l) -> Permutation l l' ->
    system_variance_sum F fadd f0 val l = system_variance_sum F fadd f0 val l'.
  Proof. intros. unfold system_variance_sum. f_equal. apply range_map_det; auto. Qed.

  Theorem service_sum_det l l' :
    NoDup (map (idproj [0%nat]) l) -> Permutation l l' -> service_sum F fadd f0 val l = service_sum F fadd f0 val l'.
  Proof. intros. unfold service_sum. f_equal. apply range_map_det; auto. Qed.
End Sums.

(* ---- clones -------------------------------------------------------------------------------------- *)
Theorem clone_pairs_det n l l' :
  NoDup (map (idproj pair_ident) l) -> Permutation l l' -> clone_pairs n l = clone_pairs n l'.
Proof. intros. unfold clone_pairs. f_equal. eapply sort_by_det; eauto. reflexivity. Qed.

Theorem clone_groups_det after key l l' :
  after = true -> covers key group_ident = true ->
  NoDup (map (idproj group_ident) l) -> Permutation l l' -> clone_groups after key l = clone_groups after key l'.
Proof. intros -> C ND P. unfold clone_groups. f_equal. eapply sort_by_det; eauto. Qed.

Theorem majority_type_det l l' :
  NoDup (map (idproj count_ident) l) -> Permutation l l' -> majority_type l = majority_type l'.
Proof. intros. unfold majority_type. f_equal. eapply best_by_det; eauto. reflexivity. Qed.

(* ---- longest chains ------------------------------------------------------------------------------ *)
(* two presentations of the same graph: same nodes in any order, each successor set in any order *)
Definition graph_perm (g g' : graph) : Prop :=
  exists g1, Forall2 (fun a b => fst a = fst b /\ Permutation (snd a) (snd b)) g g1 /\ Permutation g1 g'.

Lemma norm_nodes_eq g g1 :
  Forall2 (fun a b : Z * list Z => fst a = fst b /\ Permutation (snd a) (snd b)) g g1 ->
  map (norm_node true) g = map (norm_node true) g1.
Proof.
  induction 1 as [|[n ds] [m es] g g1 [E P] _ IH]; simpl; auto.
  simpl in E, P. subst m. f_equal; auto. unfold norm_node. simpl. f_equal. apply sortZ_det. exact P.
Qed.

Theorem norm_graph_det g g' :
  graph_perm g g' -> NoDup (map fst g) -> norm_graph true true g = norm_graph true true g'.
Proof.
  intros [g1 [F P]] ND. unfold norm_graph.
  rewrite (norm_nodes_eq g g1 F).
  assert (ND1 : NoDup (map fst (map (norm_node true) g1))).
  { rewrite <- (norm_nodes_eq g g1 F). rewrite map_map. simpl. exact ND. }
  apply (isort_det_keys leb_node) with (key := fst); auto.
  - intros a b. unfold leb_node. rewrite !Z.leb_le. lia.
  - intros a b c. unfold leb_node. rewrite !Z.leb_le. lia.
  - intros a b. unfold le, leb_node. rewrite !Z.leb_le. lia.
  - apply Permutation_map. exact P.
Qed.

Theorem longest_chains_det g g' :
  graph_perm g g' -> NoDup (map fst g) -> longest_chains g = longest_chains g'.
Proof.
  intros GP ND. unfold longest_chains.
  change (sorted_chain_roots && sorted_module_names) with true.
  change sorted_chain_succs with true.
  rewrite (norm_graph_det g g' GP ND). reflexivity.
Qed.

(* fragmentLess compares every location field ascending and mentions all five of them *)
Lemma fragment_less_total : fragment_less_ascending = true /\ covers key_fragment_less [0; 1; 2; 3; 4]%nat = true.
Proof. split; reflexivity. Qed.
