(* C05 — the task pool of app/analyze_usecase.go (Execute, lines 231-251).

   Every enabled analysis runs in its own goroutine:  result, err := t.Execute(ctx); t.Result = result; t.Error = err.
   A goroutine writes only the Result/Error of ITS OWN task; the response is built after wg.Wait().
   Model: the state maps a task id to its slot; a task is a sequence of atomic steps, each step reads the
   (immutable) input and the task's own slot and writes the task's own slot.  A schedule is the interleaving
   chosen by the Go scheduler: the list of task ids in the order their steps execute.

   ASSUMED, not proved (Go memory model and scheduler are not modelled): the analyses share no mutable state,
   i.e. [step i] really depends on slot i only.  The check runs the real use case under the race detector
   and under GOMAXPROCS 1/2/16 to test that premise. *)
From Coq Require Import List Permutation Arith Lia.
Import ListNotations.

Section Pipeline.
  Variable slot : Type.
  Variable step : nat -> slot -> slot.      (* one atomic step of task i on its own slot *)

  Definition state := nat -> slot.
  Definition upd (s : state) (i : nat) (v : slot) : state := fun k => if Nat.eqb k i then v else s k.
  Definition do_step (s : state) (i : nat) : state := upd s i (step i (s i)).
  Definition exec (sched : list nat) (s : state) : state := fold_left do_step sched s.

  Definition eqst (s s' : state) : Prop := forall k, s k = s' k.

  Lemma do_step_eqst s s' i : eqst s s' -> eqst (do_step s i) (do_step s' i).
  Proof. intros E k. unfold do_step, upd. rewrite (E i). destruct (Nat.eqb k i); auto. Qed.

  Lemma exec_eqst sched : forall s s', eqst s s' -> eqst (exec sched s) (exec sched s').
  Proof. induction sched; simpl; intros; auto. apply IHsched. apply do_step_eqst. auto. Qed.

  (* steps of different tasks commute; steps of the same task are in program order anyway *)
  Lemma do_step_comm s i j : i <> j -> eqst (do_step (do_step s i) j) (do_step (do_step s j) i).
  Proof.
    intros N k. unfold do_step, upd.
    destruct (Nat.eqb k j) eqn:Ej, (Nat.eqb k i) eqn:Ei;
      try apply Nat.eqb_eq in Ej; try apply Nat.eqb_eq in Ei; subst;
      rewrite ?Nat.eqb_refl; try congruence.
    - assert (Nat.eqb j i = false) as -> by (apply Nat.eqb_neq; congruence). reflexivity.
    - assert (Nat.eqb i j = false) as -> by (apply Nat.eqb_neq; congruence). reflexivity.
  Qed.

  (* schedules that differ by swapping adjacent steps of DIFFERENT tasks *)
  Inductive interleave_eq : list nat -> list nat -> Prop :=
  | ie_refl l : interleave_eq l l
  | ie_skip x l l' : interleave_eq l l' -> interleave_eq (x :: l) (x :: l')
  | ie_swap x y l : x <> y -> interleave_eq (x :: y :: l) (y :: x :: l)
  | ie_trans l1 l2 l3 : interleave_eq l1 l2 -> interleave_eq l2 l3 -> interleave_eq l1 l3.

  Theorem interleave_indep sched sched' :
    interleave_eq sched sched' -> forall s, eqst (exec sched s) (exec sched' s).
  Proof.
    induction 1; intros s.
    - intros k; reflexivity.
    - simpl. apply IHinterleave_eq.
    - simpl. apply exec_eqst. apply do_step_comm. auto.
    - intros k. rewrite (IHinterleave_eq1 s k). apply IHinterleave_eq2.
  Qed.

  (* single-step tasks (the use case: one Execute per task): any completion order *)
  Theorem completion_order_indep order order' :
    NoDup order -> Permutation order order' -> forall s, eqst (exec order s) (exec order' s).
  Proof.
    intros ND P. apply interleave_indep. revert ND.
    induction P; intros ND.
    - apply ie_refl.
    - apply ie_skip. apply IHP. inversion ND; auto.
    - apply ie_swap. inversion ND as [|? ? H _]; subst. intros ->. apply H. left; auto.
    - eapply ie_trans; [apply IHP1; auto|apply IHP2]. eapply Permutation_NoDup; eauto.
  Qed.

  (* buildResponse reads the slots in the fixed order of createAnalysisTasks after wg.Wait() *)
  Definition build (tasks : list nat) (s : state) : list slot := map s tasks.

  Theorem pipeline_det tasks sched sched' s0 :
    interleave_eq sched sched' -> build tasks (exec sched s0) = build tasks (exec sched' s0).
  Proof. intros I. unfold build. apply map_ext. apply interleave_indep. exact I. Qed.

  Theorem pipeline_completion_det tasks order order' s0 :
    NoDup order -> Permutation order order' -> build tasks (exec order s0) = build tasks (exec order' s0).
  Proof. intros ND P. unfold build. apply map_ext. apply completion_order_indep; auto. Qed.
End Pipeline.
