(* C05 — one model per emission site of pyscn's report.

   Every model takes the contents of the Go map (or the slice filled while ranging
   over a Go map) as a list IN ARBITRARY ORDER and returns what the code emits.
   Keys, "keys are sorted before the range" flags and cut-off constants come from
   Gen/DetConst.v (read off the Go AST on every run).  Proofs are in SitesProofs.v.

   Item layouts (field index -> Go field), strings as order-preserving codes:
     function   [Complexity; FilePath; StartLine; Name; riskOrder]         (service/complexity_service.go)
     class      [CouplingCount; FilePath; StartLine; Name; riskOrder]      (service/cbo_service.go)
     finding    [StartLine; EndLine; BlockID]                              (internal/analyzer/dead_code.go:143)
     block      [EndLine; ID; terminator reason (0 = none)]                (dead_code.go findTerminatorInPredecessors)
     cycle      [severityOrder; Size; Modules[0]; Modules...]              (circular_detector.go:205)
     candidate  [priority; module]                                         (coupling_metrics.go:365)
     chain      [Length; Path]                                             (system_analysis_service.go findLongestChains)
     pair       [Similarity; loc(Fragment1); loc(Fragment2)]               (clone_detector.go limitAndSortClonePairs)
     group      [Similarity; Size; loc(Fragments[0])]                      (connected_grouping.go:125 etc.)
     count      [count; CloneType]                                         (connected_grouping.go majorityCloneType)
     named      [name; payload...]                                         (any map keyed by a string) *)
From Coq Require Import List Permutation Bool Arith ZArith Lia.
From PV Require Import Det.SortDet Det.Keys Gen.DetConst.
Import ListNotations.

(* ranging over a Go map keyed by field [namef]: in key order if the code sorts the keys first,
   otherwise in whatever order the runtime yields (= the order of the argument) *)
Definition range_map (sorted : bool) (namef : nat) (l : list item) : list item :=
  if sorted then sort_by [(namef, false)] l else l.

Definition range_keys (sorted : bool) (l : list Z) : list Z := if sorted then sortZ l else l.

(* --- complexity report: functions collected per file (map of CFGs), then sorted ------------------- *)
Definition fn_ident : list nat := [1; 3]%nat.     (* FilePath, Name: a CFG map has one entry per name *)
Definition complexity_functions (key : keylist) (l : list item) : list item :=
  sort_by key (range_map sorted_complexity_functions 3 l).

(* --- dead code ------------------------------------------------------------------------------------- *)
Definition dead_functions (l : list item) : list item := range_map sorted_dead_functions_service 0 l.

Definition finding_ident : list nat := [2]%nat.   (* BlockID *)
Definition dead_findings (l : list item) : list item := sort_by key_dead_findings l.

Definition block_ident : list nat := [1]%nat.     (* block ID = key of cfg.Blocks *)
Definition num (f : nat) (a : item) : Z := hd 0%Z (fld f a).
Definition qualifies (start : Z) (b : item) : bool :=
  (num 0 b <? start)%Z && (start - num 0 b <=? dead_window)%Z && negb (num 2 b =? 0)%Z.
(* findTerminatorInPredecessors, first loop: the reason of the closest qualifying block *)
Definition dead_reason (start : Z) (blocks : list item) : option Z :=
  option_map (num 2) (best_by key_dead_closer (filter (qualifies start) blocks)).

(* --- CBO ------------------------------------------------------------------------------------------- *)
Definition class_ident : list nat := [1; 3]%nat.  (* FilePath, Name: collectClasses keeps one class per name *)
Definition cbo_classes (key : keylist) (l : list item) : list item :=
  sort_by key (range_map sorted_cbo_classes 3 l).
Definition cbo_most_coupled (l : list item) : list item := firstn cbo_top_n (sort_by key_cbo_top l).
Definition cbo_dependents (deps : list Z) : list Z := range_keys sorted_cbo_dependents deps.

(* --- circular dependencies ------------------------------------------------------------------------- *)
Definition cycle_ident : list nat := [2]%nat.     (* first module of a (sorted, disjoint) component *)
Definition cycles (l : list item) : list item := sort_by key_cycles l.
Definition cycle_chain_targets (deps : list Z) : list Z := range_keys sorted_cycle_chains deps.

(* --- coupling: refactoring priority (HighlyCoupledModules, ZoneOfPain) ------------------------------ *)
Definition cand_ident : list nat := [1]%nat.      (* module name *)
Definition refactoring_priority (l : list item) : list Z :=
  map (num 1) (firstn refactor_top_n (sort_by key_refactor_priority l)).
Definition zone_of_pain (l : list item) : list Z := firstn 3 (refactoring_priority l).

(* --- float sums over ModuleMetrics ------------------------------------------------------------------ *)
Section Sums.
  Variable F : Type.
  Variable fadd : F -> F -> F.          (* float64 addition: NOT assumed associative or commutative *)
  Variable f0 : F.
  Variable val : item -> F.             (* the summand read from one module's metrics *)
  Definition sum_in_order (l : list item) : F := fold_left (fun acc it => fadd acc (val it)) l f0.
  Definition system_sum (l : list item) : F := sum_in_order (range_map sorted_system_sums 0 l).
  Definition system_variance_sum (l : list item) : F := sum_in_order (range_map sorted_system_variance 0 l).
  Definition service_sum (l : list item) : F := sum_in_order (range_map sorted_service_sums 0 l).
End Sums.

(* --- clones ---------------------------------------------------------------------------------------- *)
Definition pair_ident : list nat := [1; 2]%nat.   (* the two fragments *)
Definition clone_pairs (maxPairs : nat) (l : list item) : list item := firstn maxPairs (sort_by key_clone_pairs l).

Definition group_ident : list nat := [2]%nat.     (* first fragment: groups are disjoint *)
Definition with_ids (l : list item) : list item :=
  map (fun p => [Z.of_nat (fst p)] :: snd p) (combine (seq 0 (length l)) l).
Definition shift_key (ks : keylist) : keylist := map (fun p => (S (fst p), snd p)) ks.
(* ids handed out after the final sort (renumberGroups) or while ranging over the component map *)
Definition clone_groups (ids_after_sort : bool) (key : keylist) (l : list item) : list item :=
  if ids_after_sort then with_ids (sort_by key l) else sort_by (shift_key key) (with_ids l).

Definition count_ident : list nat := [1]%nat.     (* CloneType = key of the counts map *)
Definition majority_type (counts : list item) : option Z := option_map (num 1) (best_by key_majority_type counts).


(* a fragment location [FilePath; StartLine; StartCol; EndLine; EndCol] as one comparable field, in the
   field order of fragmentLess (star_medoid_grouping.go), read from the Go source *)
Definition loc_key (fields : list Z) : list Z := map (fun p => nth (fst p) fields 0%Z) key_fragment_less.
Definition fragment_less_ascending : bool := forallb (fun p => negb (snd p)) key_fragment_less.
