(* C05 — what was wrong: models of the ORIGINAL emission sites (pyscn at the pinned commit, before the
   `fix:` commits listed in known_findings.d/C05.json) and, for each, two iteration orders of the same
   Go map that give different output.  The comparison keys below are the ones the original `less`
   functions had; they are written out here because the code no longer contains them. *)
From Coq Require Import List Permutation Bool Arith ZArith Lia Floats.
From PV Require Import Det.SortDet Det.Keys Det.Sites Det.Chains.
Import ListNotations.
Open Scope Z_scope.
Set Warnings "-inexact-float".

Definition fnI (cx file line name : Z) : item := [[cx]; [file]; [line]; [name]; [1]].

(* complexity_service.go sortByComplexity: `return f[i].Metrics.Complexity > f[j].Metrics.Complexity` on functions
   appended while ranging over the cfgs map *)
Definition complexity_functions_orig (l : list item) : list item := sort_by [(0%nat, true)] l.

Theorem complexity_order_refuted :
  exists l l', Permutation l l' /\ NoDup (map (idproj fn_ident) l) /\
               complexity_functions_orig l <> complexity_functions_orig l'.
Proof.
  exists [fnI 2 1 1 10; fnI 2 1 5 11], [fnI 2 1 5 11; fnI 2 1 1 10].
  split; [apply perm_swap|]. split.
  - repeat constructor; simpl; intuition discriminate.
  - intro H. vm_compute in H. discriminate H.
Qed.

(* dead_code.go findTerminatorInPredecessors: the FIRST qualifying block met while ranging over cfg.Blocks *)
Definition dead_reason_orig (start : Z) (blocks : list item) : option Z :=
  option_map (num 2) (find (qualifies start) blocks).

(* a dead statement on line 6; a `raise` block ending on line 3 (reason 4) and a `return` block ending on line 5 (reason 1) *)
Theorem dead_reason_refuted :
  exists start l l', Permutation l l' /\ NoDup (map (idproj block_ident) l) /\
                     dead_reason_orig start l <> dead_reason_orig start l'.
Proof.
  exists 6, [[[3]; [2]; [4]]; [[5]; [3]; [1]]], [[[5]; [3]; [1]]; [[3]; [2]; [4]]].
  split; [apply perm_swap|]. split.
  - repeat constructor; simpl; intuition discriminate.
  - intro H. vm_compute in H. discriminate H.
Qed.

(* service/dead_code_service.go analyzeFile, analyzer.DetectInFile, cbo.go mapToSlice, circular_detector.go
   findDependencyChains, lsh_index.go FindCandidates: emitted in map order *)
Theorem unsorted_range_refuted :
  exists l l', Permutation l l' /\ NoDup l /\ range_keys false l <> range_keys false l'.
Proof.
  exists [1; 2], [2; 1]. split; [apply perm_swap|]. split.
  - repeat constructor; simpl; intuition discriminate.
  - intro H. vm_compute in H. discriminate H.
Qed.

(* cbo_service.go sortClasses / generateSummary: coupling count only; top-10 cut among ties *)
Definition cbo_most_coupled_orig (n : nat) (l : list item) : list item := firstn n (sort_by [(0%nat, true)] l).

Theorem cbo_top_refuted :
  exists l l', Permutation l l' /\ NoDup (map (idproj class_ident) l) /\
               cbo_most_coupled_orig 1 l <> cbo_most_coupled_orig 1 l'.
Proof.
  exists [fnI 3 1 1 10; fnI 3 1 9 11], [fnI 3 1 9 11; fnI 3 1 1 10].
  split; [apply perm_swap|]. split.
  - repeat constructor; simpl; intuition discriminate.
  - intro H. vm_compute in H. discriminate H.
Qed.

(* circular_detector.go processComponents: severity and size only *)
Definition cycles_orig (l : list item) : list item := sort_by [(0%nat, true); (1%nat, true)] l.

Theorem cycles_order_refuted :
  exists l l', Permutation l l' /\ NoDup (map (idproj cycle_ident) l) /\ cycles_orig l <> cycles_orig l'.
Proof.
  exists [[[1]; [2]; [10]; [10; 11]]; [[1]; [2]; [20]; [20; 21]]], [[[1]; [2]; [20]; [20; 21]]; [[1]; [2]; [10]; [10; 11]]].
  split; [apply perm_swap|]. split.
  - repeat constructor; simpl; intuition discriminate.
  - intro H. vm_compute in H. discriminate H.
Qed.

(* coupling_metrics.go identifyRefactoringPriorities: priority only, then the first ten *)
Definition refactoring_priority_orig (n : nat) (l : list item) : list Z :=
  map (num 1) (firstn n (sort_by [(0%nat, true)] l)).

Theorem refactoring_priority_refuted :
  exists l l', Permutation l l' /\ NoDup (map (idproj cand_ident) l) /\
               refactoring_priority_orig 1 l <> refactoring_priority_orig 1 l'.
Proof.
  exists [[[30]; [1]]; [[30]; [2]]], [[[30]; [2]]; [[30]; [1]]].
  split; [apply perm_swap|]. split.
  - repeat constructor; simpl; intuition discriminate.
  - intro H. vm_compute in H. discriminate H.
Qed.

(* calculateSystemMetrics: float64 sums in map order; IEEE-754 binary64 addition (Coq primitive floats) *)
Definition ftable : list float := [0.1%float; 0.2%float; 0.3%float].
Definition fval (it : item) : float := nth (Z.to_nat (num 1 it)) ftable 0%float.
Definition float_sum_orig (l : list item) : float := sum_in_order float PrimFloat.add 0%float fval l.

Theorem float_sum_refuted :
  exists l l', Permutation l l' /\ NoDup (map (idproj [0%nat]) l) /\ float_sum_orig l <> float_sum_orig l'.
Proof.
  exists [[[1]; [0]]; [[2]; [1]]; [[3]; [2]]], [[[3]; [2]]; [[2]; [1]]; [[1]; [0]]].
  split.
  - apply perm_trans with [[[2]; [1]]; [[3]; [2]]; [[1]; [0]]].
    + apply perm_trans with [[[2]; [1]]; [[1]; [0]]; [[3]; [2]]]; [apply perm_swap|apply perm_skip, perm_swap].
    + apply perm_swap.
  - split.
    + repeat constructor; simpl; intuition discriminate.
    + intro H. apply (f_equal Prim2SF) in H. vm_compute in H. discriminate H.
Qed.

(* connected_grouping.go: `g := NewCloneGroup(groupID); groupID++` while ranging over the component map *)
Theorem group_ids_refuted :
  exists key l l', Permutation l l' /\ NoDup (map (idproj group_ident) l) /\ covers key group_ident = true /\
                   clone_groups false key l <> clone_groups false key l'.
Proof.
  exists [(0%nat, true); (1%nat, true); (2%nat, false)],
         [[[90]; [2]; [1]]; [[95]; [2]; [7]]], [[[95]; [2]; [7]]; [[90]; [2]; [1]]].
  split; [apply perm_swap|]. split; [|split; [reflexivity|]].
  - repeat constructor; simpl; intuition discriminate.
  - intro H. vm_compute in H. discriminate H.
Qed.

(* majorityCloneType: `if c > maxC` while ranging over the counts map *)
Definition majority_type_orig (counts : list item) : option Z := option_map (num 1) (best_by [(0%nat, true)] counts).

Theorem majority_type_refuted :
  exists l l', Permutation l l' /\ NoDup (map (idproj count_ident) l) /\ majority_type_orig l <> majority_type_orig l'.
Proof.
  exists [[[1]; [1]]; [[1]; [2]]], [[[1]; [2]]; [[1]; [1]]].
  split; [apply perm_swap|]. split.
  - repeat constructor; simpl; intuition discriminate.
  - intro H. vm_compute in H. discriminate H.
Qed.

(* findLongestChains: roots and successors in map order, ties by Path[0] only, budget of `limit` paths per root *)
Definition chain_item_orig (p : list Z) : item := [[Z.of_nat (length p)]; p; [hd 0 p]].
Definition longest_chains_orig (limit : nat) (g : graph) : list (list Z) :=
  let fuel := S (length g + length (concat (map snd g))) in
  let all := concat (map (fun nd => paths_from fuel g (fst nd) [] [fst nd] (Z.of_nat limit)) g) in
  map (fld 1) (firstn limit (sort_by [(0%nat, true); (2%nat, false)] (map chain_item_orig all))).

(* hub 1 imports 2 and 5; 2 -> 3 -> 4; 5 -> 6.  With a budget of 3 paths per root the search from the hub
   finds 1-2-3-4 when 2 comes first and only 1-5, 1-5-6, 1-2 when 5 comes first: even the maximum length differs *)
Definition g_a : graph := [(1, [2; 5]); (2, [3]); (3, [4]); (4, []); (5, [6]); (6, [])].
Definition g_b : graph := [(1, [5; 2]); (2, [3]); (3, [4]); (4, []); (5, [6]); (6, [])].

Theorem longest_chains_refuted :
  exists limit g g', Forall2 (fun a b => fst a = fst b /\ Permutation (snd a) (snd b)) g g' /\ NoDup (map fst g) /\
     longest_chains_orig limit g <> longest_chains_orig limit g' /\
     map (@length Z) (longest_chains_orig limit g) <> map (@length Z) (longest_chains_orig limit g').
Proof.
  exists 3%nat, g_a, g_b. split; [|split; [|split]].
  - repeat constructor; simpl; auto.
  - repeat constructor; simpl; intuition discriminate.
  - intro H. vm_compute in H. discriminate H.
  - intro H. vm_compute in H. discriminate H.
Qed.
