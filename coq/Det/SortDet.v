(* C05 — reproducibility.  Generic facts used by every emission-site model:
   sorting with a total order that is antisymmetric on the elements present
   (unique keys) does not depend on the order in which the elements arrive.

   Go's sort.Slice is not insertion sort; [sorted_perm_unique] shows that ANY
   procedure returning a sorted permutation of its input returns [isort l]
   when the order is total on the keys, so the model does not depend on the
   sorting algorithm. *)
From Coq Require Import List Permutation Sorted Bool Arith Lia.
Import ListNotations.

Section Sort.
  Context {A : Type}.
  Variable leb : A -> A -> bool.

  Fixpoint insert (x : A) (l : list A) : list A :=
    match l with
    | [] => [x]
    | y :: t => if leb x y then x :: y :: t else y :: insert x t
    end.

  Fixpoint isort (l : list A) : list A :=
    match l with
    | [] => []
    | x :: t => insert x (isort t)
    end.

  Definition le (a b : A) : Prop := leb a b = true.

  Lemma insert_perm x l : Permutation (insert x l) (x :: l).
  Proof.
    induction l as [|y t IH]; simpl; auto.
    destruct (leb x y); auto.
    rewrite IH. apply perm_swap.
  Qed.

  Lemma isort_perm l : Permutation (isort l) l.
  Proof. induction l; simpl; auto. rewrite insert_perm. auto. Qed.

  Hypothesis total : forall a b, leb a b = true \/ leb b a = true.
  Hypothesis trans : forall a b c, leb a b = true -> leb b c = true -> leb a c = true.

  Lemma insert_sorted x l : StronglySorted le l -> StronglySorted le (insert x l).
  Proof.
    induction 1 as [|y t Ht IH Hy]; simpl.
    - constructor; constructor.
    - destruct (leb x y) eqn:E.
      + constructor.
        * constructor; auto.
        * constructor; [exact E|].
          rewrite Forall_forall in *. intros z Hz. eapply trans; [exact E|apply Hy; auto].
      + constructor; auto.
        rewrite Forall_forall. intros z Hz.
        eapply Permutation_in in Hz; [|apply insert_perm].
        destruct Hz as [<-|Hz].
        * destruct (total x y) as [C|C]; [congruence|exact C].
        * rewrite Forall_forall in Hy; auto.
  Qed.

  Lemma isort_sorted l : StronglySorted le (isort l).
  Proof. induction l; simpl; [constructor|apply insert_sorted; auto]. Qed.

  (* two sorted lists with the same elements are equal when the order is
     antisymmetric on those elements *)
  Lemma sorted_perm_unique l1 : forall l2,
      StronglySorted le l1 -> StronglySorted le l2 -> Permutation l1 l2 ->
      (forall a b, In a l1 -> In b l1 -> le a b -> le b a -> a = b) -> l1 = l2.
  Proof.
    induction l1 as [|a t IH]; intros l2 S1 S2 P AS.
    - apply Permutation_nil in P. auto.
    - destruct l2 as [|b u].
      { apply Permutation_sym, Permutation_nil in P. discriminate. }
      inversion S1 as [|? ? S1t Ha]; subst. inversion S2 as [|? ? S2u Hb]; subst.
      assert (a = b) as ->.
      { assert (Hb' : In b (a :: t)) by (eapply Permutation_in; [apply Permutation_sym; exact P|left; auto]).
        assert (Ha' : In a (b :: u)) by (eapply Permutation_in; [exact P|left; auto]).
        destruct Hb' as [->|Hbt]; auto. destruct Ha' as [->|Hau]; auto.
        apply AS; [left; auto|right; auto| |].
        - rewrite Forall_forall in Ha. apply Ha; auto.
        - rewrite Forall_forall in Hb. apply Hb; auto. }
      f_equal. apply IH; auto.
      + eapply Permutation_cons_inv; eauto.
      + intros; apply AS; auto; right; auto.
  Qed.

  Definition antisym_on (l : list A) : Prop :=
    forall a b, In a l -> In b l -> le a b -> le b a -> a = b.

  Theorem isort_det l l' : Permutation l l' -> antisym_on l -> isort l = isort l'.
  Proof.
    intros P AS. apply sorted_perm_unique; try apply isort_sorted.
    - rewrite !isort_perm. exact P.
    - intros a b Ha Hb. apply AS; eapply Permutation_in; try eassumption; apply isort_perm.
  Qed.

  (* any sorting procedure agrees with isort *)
  Theorem any_sort_is_isort l r : Permutation r l -> StronglySorted le r -> antisym_on l -> r = isort l.
  Proof.
    intros P S AS. apply sorted_perm_unique; auto; try apply isort_sorted.
    - rewrite isort_perm. exact P.
    - intros a b Ha Hb. apply AS; eapply Permutation_in; eassumption.
  Qed.

  (* unique keys: elements that compare equal have the same key, keys are pairwise different *)
  Lemma NoDup_map_inj {K} (key : A -> K) l a b :
    NoDup (map key l) -> In a l -> In b l -> key a = key b -> a = b.
  Proof.
    induction l as [|x t IH]; simpl; intros ND Ha Hb E; [contradiction|].
    inversion ND as [|? ? Hx NDt]; subst.
    destruct Ha as [Ha|Ha], Hb as [Hb|Hb]; subst; auto.
    - exfalso. apply Hx. rewrite E. apply in_map. exact Hb.
    - exfalso. apply Hx. rewrite <- E. apply in_map. exact Ha.
  Qed.

  Theorem isort_det_keys {K} (key : A -> K) l l' :
    (forall a b, le a b -> le b a -> key a = key b) ->
    NoDup (map key l) -> Permutation l l' -> isort l = isort l'.
  Proof.
    intros HK ND P. apply isort_det; auto.
    intros a b Ha Hb L1 L2. eapply NoDup_map_inj; eauto.
  Qed.

  (* choice of the best element (Go: a scan that keeps the candidate when the
     next element is not strictly better).  The scan is written as structural
     recursion; the theorem quantifies over every arrival order anyway. *)
  Fixpoint best (l : list A) : option A :=
    match l with
    | [] => None
    | x :: t => match best t with
                | None => Some x
                | Some b => if leb b x then Some b else Some x
                end
    end.

  Lemma best_spec l : match best l with
                      | None => l = []
                      | Some m => In m l /\ forall x, In x l -> le m x
                      end.
  Proof.
    induction l as [|x t IH]; simpl; auto.
    destruct (best t) as [b|].
    - destruct IH as [Hb Hmin]. destruct (leb b x) eqn:E.
      + split; [right; exact Hb|]. intros y [<-|Hy]; [exact E|apply Hmin; exact Hy].
      + assert (Lx : le x b) by (destruct (total x b); [assumption|congruence]).
        split; auto. intros y [<-|Hy].
        * destruct (total x x); auto.
        * eapply trans; [exact Lx|apply Hmin; auto].
    - subst t. split; auto. intros y [<-|[]]. destruct (total x x); auto.
  Qed.

  Theorem best_det l l' : Permutation l l' -> antisym_on l -> best l = best l'.
  Proof.
    intros P AS. pose proof (best_spec l) as S1. pose proof (best_spec l') as S2.
    destruct (best l) as [m|], (best l') as [m'|]; auto.
    - destruct S1 as [I1 M1], S2 as [I2 M2]. f_equal. apply AS; auto.
      + eapply Permutation_in; [apply Permutation_sym; exact P|exact I2].
      + apply M1. eapply Permutation_in; [apply Permutation_sym; exact P|exact I2].
      + apply M2. eapply Permutation_in; [exact P|exact I1].
    - subst l'. apply Permutation_sym, Permutation_nil in P. subst l. destruct S1 as [[] _].
    - subst l. apply Permutation_nil in P. subst l'. destruct S2 as [[] _].
  Qed.
End Sort.
