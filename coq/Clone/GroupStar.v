(* C10 — model of StarMedoidGrouping.GroupClones (internal/analyzer/star_medoid_grouping.go:29-196)
   and findMedoid (198-233).
   almostEqual (1e-9) is modelled as exact equality: for the dyadic similarities the harness
   uses, two averages over the same cluster are either equal or differ by far more than 1e-9.
   The clusters are ranged in Go-map order; the choice of the best medoid breaks ties by
   location, so the partition does not depend on that order; the model uses the order of
   first appearance. Not modelled: group Similarity, ids, final ordering of groups. *)
From Coq Require Import NArith ZArith QArith List Bool.
From PV Require Import Gen.GroupConst Clone.GroupSpec Clone.GroupCommon.
Import ListNotations.

(* average similarity of cand to the other members (lines 209-217) *)
Definition avg_sim (G : pgraph) (members : list N) (cand : N) : Q :=
  (fold_left (fun (s : Q) other => if N.eqb cand other then s else Qred (s + similarity G cand other)) members 0
   / inject_Z (Z.of_nat (length members) - 1))%Q.

(* findMedoid, lines 200-233 *)
Definition find_medoid (G : pgraph) (members : list N) : option N :=
  match members with
  | [] => None
  | [x] => Some x
  | _ =>
    fst (fold_left (fun (st : option N * Q) cand =>
           let '(best, bestAvg) := st in
           let avg := avg_sim G members cand in
           if Qltb bestAvg avg ||
              (Qeq_bool avg bestAvg && match best with Some b => N.ltb cand b | None => false end)
           then (Some cand, avg)
           else match best with None => (Some cand, avg) | Some _ => st end)
         members (None, (-1)%Q))
  end.

Definition opt_list {A} (l : list (option A)) : list A :=
  flat_map (fun o => match o with Some x => [x] | None => [] end) l.

(* lines 110-121: the most similar medoid other than f itself; ties -> smaller location *)
Definition best_medoid (G : pgraph) (f : N) (medoids : list N) : option N * Q :=
  fold_left (fun (st : option N * Q) m =>
     let '(best, bestSim) := st in
     if N.eqb m f then st
     else let sim := similarity G f m in
          if Qltb bestSim sim ||
             (Qeq_bool sim bestSim && match best with Some b => N.ltb m b | None => false end)
          then (Some m, sim) else st)
    medoids (None, (-1)%Q).

(* one iteration of the loop at lines 90-138; returns the new union-find and [changed] *)
Definition star_iter (G : pgraph) (frs : list N) (iter : N) (u : uf) : uf * bool :=
  let clusters := build_clusters (uf_find u) frs in
  let medoids := opt_list (map (find_medoid G) clusters) in
  fold_left (fun (st : uf * bool) f =>
     let '(u, changed) := st in
     if (0 <? iter)%N && memb f medoids then st
     else match best_medoid G f medoids with
          | (Some m, bestSim) =>
              if Qltb 0 bestSim then
                if N.eqb (uf_find u f) (uf_find u m) then st else (uf_union u f m, true)
              else st
          | (None, _) => st
          end)
    frs (u, false).

Fixpoint star_loop (G : pgraph) (frs : list N) (n : nat) (iter : N) (streak : Z) (u : uf) : uf :=
  match n with
  | O => u
  | S n' =>
      let '(u', changed) := star_iter G frs iter u in
      let streak' := if changed then 0%Z else (streak + 1)%Z in
      if (clone_star_noChangeLimit <=? streak')%Z then u'
      else star_loop G frs n' (iter + 1)%N streak' u'
  end.

(* lines 143-163: keep the medoid and the members >= threshold with it *)
Definition star_filter (t : Q) (G : pgraph) (members : list N) : list group :=
  if (length members <? 2)%nat then []
  else match find_medoid G members with
       | None => []
       | Some medoid =>
           let filtered := filter (fun f => N.eqb f medoid || Qle_bool t (similarity G f medoid)) members in
           if (length filtered <? 2)%nat then [] else [sort_frags filtered]
       end.

Definition star_final (t : Q) (G : pgraph) (frs : list N) (u : uf) : list group :=
  flat_map (star_filter t G) (build_clusters (uf_find u) frs).

Definition group_star (t : Q) (G : pgraph) : list group :=
  let frs := collect_fragments G in
  let u := star_loop G frs (Z.to_nat clone_star_maxIterations) 0%N 0%Z (uf_init frs) in
  star_final t G frs u.
