(* C10 — UNBOUNDED exactness theorems (they replace the vm_compute theorems of GroupBounded.v):
   - [group_kcore_exact]: for every pair list without self pairs, every threshold, every k and
     every map iteration order, the k-core model terminates and its groups are, up to the order
     of the groups, exactly the (sorted) components with >= 2 members of THE maximal k-core of
     G_t ([spec_kcore_groups]; [spec_kcore_groups_sound] says what that list is);
   - [group_connected_exact]: the connected model equals the executable component function
     [spec_connected_groups], for every pair list and threshold. *)
From Coq Require Import NArith ZArith QArith List Bool Lia Arith Permutation Sorted.
From Coq Require Import Zify ZifyBool ZifyNat ZifyN.
From PV Require Import Gen.GroupConst Clone.GroupSpec Clone.GroupSpecProofs Clone.GroupSpecKCore Clone.GroupCommon
  Clone.GroupConnected Clone.GroupKCore Clone.GroupLattice Clone.GroupRun Clone.GroupCommonProofs Clone.GroupConnectedProofs
  Clone.GroupKCoreProofs Clone.GroupSpecKCoreProofs Clone.GroupKCoreExact Clone.GroupBounded.
Import ListNotations.
Local Close Scope Q_scope.

(* ---------------------------------------------------------------- input condition *)
(* no pair joins a fragment with itself (the detector only compares fragment i with j > i) *)
Definition no_self_pairs (G : pgraph) : bool :=
  forallb (fun p : pair => let '(a, b, _) := p in negb (N.eqb a b)) G.

Lemma no_self_pairs_spec G :
  no_self_pairs G = true <-> forall a b s, In (a, b, s) G -> a <> b.
Proof.
  unfold no_self_pairs. rewrite forallb_forall. split.
  - intros H a b s Hin. apply H in Hin. apply negb_true_iff, N.eqb_neq in Hin. exact Hin.
  - intros H [[a b] s] Hin. apply negb_true_iff, N.eqb_neq. eauto.
Qed.

Example no_self_pairs_sat : no_self_pairs [(0, 1, (3 # 4)%Q); (2, 1, (1 # 2)%Q); (0, 2, 1%Q)]%N = true.
Proof. reflexivity. Qed.

(* ---------------------------------------------------------------- groups vs components *)
Lemma two_other (c : list N) v : NoDup c -> (2 <= length c)%nat -> exists y, In y c /\ y <> v.
Proof.
  destruct c as [|a [|b c]]; simpl; intros Hnd Hl; try lia.
  inversion Hnd as [|? ? Hab _]; subst.
  destruct (N.eq_dec a v) as [-> | Hne].
  - exists b. split; auto. intros ->. apply Hab. left; auto.
  - exists a. split; auto.
Qed.

Section Match.
Variable R : N -> N -> bool.
Variable A : list N.
Hypothesis Rsym : forall a b, R a b = R b a.
Hypothesis And : NoDup A.
Variable gs : list group.
Hypothesis Hg_nd : NoDup (concat gs).
Hypothesis Hg_sub : forall g, In g gs -> forall x, In x g -> In x A.
Hypothesis Hg_two : forall g, In g gs -> (2 <= length g)%nat.
Hypothesis Hg_closed : forall g, In g gs -> forall x u, In x g -> In u A -> R x u = true -> In u g.
Hypothesis Hg_conn : forall g, In g gs -> forall a b, In a g -> In b g -> conn (Rin R A) a b.
Hypothesis Hg_cov : forall x u, In x A -> In u A -> R x u = true -> exists g, In g gs /\ In x g.

Lemma closed_conn g : In g gs -> forall a b, conn (Rin R A) a b -> In a g -> In b g.
Proof.
  intros Hg a b H. induction H as [a | a b c (Ha & Hb & Hr) _ IH]; auto.
  intros Hag. apply IH. eapply Hg_closed; eauto.
Qed.

Lemma match_key g x v : In g gs -> In x g -> In v A -> conn (Rin R A) v x ->
  seteq g (reach_set R A v).
Proof.
  intros Hg Hx Hv Hvx y. rewrite reach_set_In. split.
  - intros Hy. split; auto. eapply conn_trans; [exact Hvx|]. eapply Hg_conn; eauto.
  - intros [_ Hvy]. apply (closed_conn g Hg x y); auto.
    eapply conn_trans; [|exact Hvy]. apply connV_sym; auto.
Qed.

Lemma groups_are_components :
  Permutation (map sort_frags gs)
              (map sort_frags (filter (fun g => (2 <=? length g)%nat) (comps R A))).
Proof.
  destruct (comps_spec R A Rsym And) as (Cr & Cnd & Ccov).
  assert (Hgn : forall g, In g gs -> NoDup g).
  { apply nodup_concat in Hg_nd. apply Hg_nd. }
  apply groups_equiv_perm; auto.
  - apply nodup_concat_filter. exact Cnd.
  - intros g Hg Hnil. apply Hg_two in Hg. rewrite Hnil in Hg. simpl in Hg. lia.
  - intros g Hg Hnil. apply filter_In in Hg. destruct Hg as [_ Hg]. apply Nat.leb_le in Hg.
    rewrite Hnil in Hg. simpl in Hg. lia.
  - intros g Hg.
    assert (Hl := Hg_two g Hg). destruct g as [|x g'] eqn:Eg; [simpl in Hl; lia|]. rewrite <- Eg in *.
    assert (Hx : In x g) by (rewrite Eg; left; auto).
    destruct (Ccov x (Hg_sub g Hg x Hx)) as (c & Hc & Hxc).
    destruct (Cr c Hc) as (v & Hv & ->).
    apply reach_set_In in Hxc. destruct Hxc as [_ Hvx].
    assert (Hs := match_key g x v Hg Hx Hv Hvx).
    exists (reach_set R A v). split; auto.
    apply filter_In. split; auto. apply Nat.leb_le.
    rewrite <- (Permutation_length (seteq_perm _ _ (Hgn g Hg) (reach_set_NoDup R A And v) Hs)). exact Hl.
  - intros c Hc. apply filter_In in Hc. destruct Hc as [Hc Hl]. apply Nat.leb_le in Hl.
    destruct (Cr c Hc) as (v & Hv & ->).
    destruct (two_other (reach_set R A v) v (reach_set_NoDup R A And v) Hl) as (y & Hy & Hne).
    apply reach_set_In in Hy. destruct Hy as [_ Hvy].
    inversion Hvy as [| ? b ? (_ & Hb & Hr) _]; subst; [congruence|].
    destruct (Hg_cov v b Hv Hb Hr) as (g & Hg & Hvg).
    exists g. split; auto. apply (match_key g v v); auto. constructor.
Qed.
End Match.

(* ---------------------------------------------------------------- what the specification lists *)
(* [spec_kcore_groups k t G] : P below is THE maximal k-core of G_t; every listed group is a
   whole connected component (>= 2 members) of G_t restricted to P; every vertex of P with a
   neighbour in P is in a listed group; no fragment is listed twice *)
Theorem spec_kcore_groups_sound k t G :
  let P := prune k t G (length (vertices G)) (vertices G) in
  max_kcore k t G P /\
  (forall c, In c (spec_kcore_groups k t G) ->
     NoDup c /\ (2 <= length c)%nat /\
     exists v, In v P /\ forall b, In b c <-> conn (adj_in t G P) v b) /\
  (forall v b, b <> v -> conn (adj_in t G P) v b -> exists c, In c (spec_kcore_groups k t G) /\ In v c) /\
  NoDup (concat (spec_kcore_groups k t G)).
Proof.
  intros P. assert (HM := prune_max_kcore k t G). fold P in HM.
  assert (HP : NoDup P) by apply HM.
  destruct (comps_spec (adjb t G) P (adjb_sym t G) HP) as (Cr & Cnd & Ccov).
  unfold spec_kcore_groups. fold P. rewrite components_in_comps.
  split; auto. split; [|split].
  - intros c Hc. apply filter_In in Hc. destruct Hc as [Hc Hl]. apply Nat.leb_le in Hl.
    destruct (Cr c Hc) as (v & Hv & ->).
    split. apply reach_set_NoDup; auto. split; auto.
    exists v. split; auto. intros b. rewrite reach_set_In, conn_Rin_adj_in. tauto.
  - intros v b Hne Hvb.
    assert (Hv : In v P).
    { inversion Hvb as [| ? ? ? (Hv & _) _]; subst; [congruence | exact Hv]. }
    destruct (Ccov v Hv) as (c & Hc & Hvc). exists c. split; auto.
    apply filter_In. split; auto. apply Nat.leb_le.
    destruct (Cr c Hc) as (w & Hw & ->).
    apply reach_set_In in Hvc. destruct Hvc as [_ Hwv].
    assert (Hbc : In b (reach_set (adjb t G) P w)).
    { apply reach_set_In. split; auto. eapply conn_trans; [exact Hwv|].
      apply conn_Rin_adj_in. exact Hvb. }
    assert (Hvc : In v (reach_set (adjb t G) P w)) by (apply reach_set_In; auto).
    apply (two_members_length _ b v); auto. apply reach_set_NoDup; auto.
  - apply nodup_concat_filter. exact Cnd.
Qed.

(* ---------------------------------------------------------------- k-core: exactness *)
Lemma listed_adjb t G : (forall a, listed t G a a = false) ->
  forall a b, adjb t G a b = listed t G a b.
Proof.
  intros Hirr a b. rewrite adjb_listed. destruct (N.eqb a b) eqn:Eab; simpl; auto.
  apply N.eqb_eq in Eab. subst. symmetry. apply Hirr.
Qed.

Lemma coreE_is_kcore t G k S : (0 <= k)%Z -> (forall a, listed t G a a = false) ->
  coreE (listed t G) (collect_fragments G) k S <-> is_kcore (Z.to_N k) t G S.
Proof.
  intros Hk Hirr. unfold coreE, is_kcore, core_closed, deg_in.
  change (vertices G) with (collect_fragments G).
  assert (Hf : forall v, filter (adjb t G v) S = filter (listed t G v) S).
  { intros v. apply filter_ext. intros u. apply listed_adjb; auto. }
  split.
  - intros [Hnd H]. split; auto. split.
    + intros v Hv. apply H; auto.
    + intros v Hv. rewrite Hf. destruct (H v Hv) as [_ Hd]. lia.
  - intros (Hnd & Hsub & H). split; auto. intros v Hv. split; auto.
    specialize (H v Hv). rewrite Hf in H. lia.
Qed.

Theorem group_kcore_exact : forall t kk G ord,
  Permutation ord (collect_fragments G) ->
  no_self_pairs G = true ->
  exists gs, group_kcore_ord t kk G ord = Some gs /\
    Permutation gs (map sort_frags (spec_kcore_groups (contract_k kk) t G)).
Proof.
  intros t kk G ord Hperm Hns0. pose proof (proj1 (no_self_pairs_spec G) Hns0) as Hns.
  unfold group_kcore_ord, contract_k.
  set (k := effective_k kk). set (nodes := collect_fragments G). set (E := listed t G).
  assert (Hk2 : (2 <= k)%Z) by apply effective_k_ge.
  assert (Esym : forall a b, E a b = E b a) by (intros; apply listed_sym).
  assert (Eirr : forall a, E a a = false) by (apply listed_irrefl; auto).
  assert (Hnodes : NoDup nodes) by apply collect_NoDup.
  assert (Hord_nd : NoDup ord).
  { eapply Permutation_NoDup; [apply Permutation_sym; exact Hperm | exact Hnodes]. }
  assert (Hord_in : forall x, In x ord <-> In x nodes).
  { intros x. split; apply Permutation_in; auto. apply Permutation_sym; auto. }
  destruct (peel_exact E nodes k Esym Eirr ord Hord_nd Hord_in Hnodes)
    as (st & Hp & HW & Hq0 & Hcore & Hmax).
  change (kcore_init t G k ord nodes) with (init_state E nodes k ord). rewrite Hp.
  destruct HW as [Ha _].
  assert (Hnb : forall v, al nodes st v ->
            forall u, In u (nbrs (k_adj st) v) <-> al nodes st u /\ E v u = true).
  { intros v Hv u. destruct (Ha v Hv) as (l & Hg & _ & Hin & _).
    unfold nbrs. rewrite Hg. apply Hin. }
  assert (Hag : forall v, al nodes st v -> aget (k_adj st) v <> None).
  { intros v Hv. destruct (Ha v Hv) as (l & Hg & _). congruence. }
  destruct (components_exact E nodes st Esym Eirr Hnb Hag) as (gs & Hc & Hgood & Hnd & Hcov).
  exists gs. split; auto.
  (* the vertices left = the specification's k-core, as lists *)
  set (A := alive_list nodes st) in *.
  set (kN := Z.to_N k).
  assert (HAmax : max_kcore kN t G A).
  { split.
    - apply coreE_is_kcore; auto. lia.
    - intros S HS. apply Hmax. apply coreE_is_kcore; auto. lia. }
  assert (HPA : prune kN t G (length (vertices G)) (vertices G) = A).
  { apply (isfilt_seteq (vertices G)).
    - apply prune_isfilt. apply isfilt_self.
    - unfold A, alive_list. rewrite vertices_collect. apply isfilt_filter.
    - apply (max_kcore_unique kN t G); auto. apply prune_max_kcore. }
  unfold spec_kcore_groups. rewrite HPA, components_in_comps.
  assert (HAin : forall x, In x A <-> al nodes st x) by (intros x; apply alive_list_In).
  assert (Hsorted : map sort_frags gs = gs).
  { rewrite <- (map_id gs) at 2. apply map_ext_in. intros g Hg.
    apply sorted_sort_id. apply Hgood; auto. }
  rewrite <- Hsorted.
  assert (HRE : forall a b, adjb t G a b = E a b) by (apply listed_adjb; auto).
  apply groups_are_components; auto.
  - intros a b. apply adjb_sym.
  - apply NoDup_filter. exact Hnodes.
  - intros g Hg x Hx. apply HAin. destruct (Hgood g Hg) as [(_ & _ & Hal & _) _]. auto.
  - intros g Hg. destruct (Hgood g Hg) as [(_ & H2 & _) _]. auto.
  - intros g Hg x u Hx Hu Hr. destruct (Hgood g Hg) as [(_ & _ & _ & Hcl & _) _].
    apply (Hcl x u); auto. apply HAin; auto. rewrite <- HRE. exact Hr.
  - intros g Hg a b Hag' Hbg. destruct (Hgood g Hg) as [(_ & _ & Hal & _ & Hcn) _].
    eapply conn_mono; [|apply Hcn; eauto].
    intros x y (Hx & Hy & Hxy). split; [|split].
    + apply HAin; auto.
    + apply HAin; auto.
    + rewrite HRE. exact Hxy.
  - intros x u Hx Hu Hr. apply HAin in Hx. apply HAin in Hu.
    destruct (Hcov x Hx) as [Hin | Hiso].
    + apply in_concat in Hin. destruct Hin as (g & Hg & Hxg). eauto.
    + rewrite HRE in Hr. rewrite (Hiso u Hu) in Hr. discriminate.
Qed.

Corollary group_kcore_total : forall t kk G ord,
  Permutation ord (collect_fragments G) -> no_self_pairs G = true ->
  group_kcore_ord t kk G ord <> None.
Proof.
  intros t kk G ord Hp Hn. destruct (group_kcore_exact t kk G ord Hp Hn) as (gs & H & _). congruence.
Qed.

Corollary group_kcore_same_groups : forall t kk G ord gs,
  Permutation ord (collect_fragments G) -> no_self_pairs G = true ->
  group_kcore_ord t kk G ord = Some gs ->
  same_groups gs (map sort_frags (spec_kcore_groups (contract_k kk) t G)) = true.
Proof.
  intros t kk G ord gs Hp Hn H. destruct (group_kcore_exact t kk G ord Hp Hn) as (gs' & H' & HP).
  rewrite H in H'. inversion H'; subst. apply same_groups_perm. exact HP.
Qed.

(* the check of the bounded theorem (GroupBounded.kcore_ok), now for every graph and every k *)
Lemma perms_perm : forall l p, In p (perms l) -> Permutation p l.
Proof.
  induction l as [|x r IH]; intros p Hp; cbn [perms] in Hp.
  - destruct Hp as [<- | []]. constructor.
  - apply in_flat_map in Hp. destruct Hp as (q & Hq & Hp).
    apply in_map_iff in Hp. destruct Hp as (i & <- & _).
    eapply perm_trans; [apply Permutation_sym, Permutation_middle|].
    rewrite firstn_skipn. constructor. apply IH. exact Hq.
Qed.

Theorem kcore_ok_all : forall k G, no_self_pairs G = true -> kcore_ok k G = true.
Proof.
  intros k G Hn. unfold kcore_ok. apply forallb_forall. intros ord Hord.
  apply perms_perm in Hord.
  destruct (group_kcore_exact T k G ord Hord Hn) as (gs & H & HP). rewrite H.
  apply andb_true_iff. split.
  - eapply group_kcore_check; eauto. exact (proj1 (no_self_pairs_spec G) Hn).
  - apply same_groups_perm. exact HP.
Qed.

(* the input condition is needed: a self pair >= t is counted as a neighbour by the code *)
Example group_kcore_selfpair_refuted :
  let G := [(0, 0, 1%Q); (0, 1, 1%Q); (1, 1, 1%Q)]%N in
  no_self_pairs G = false /\
  group_kcore_ord T 2 G (collect_fragments G) = Some [[0; 1]]%N /\
  spec_kcore_groups (contract_k 2) T G = [].
Proof. vm_compute. repeat split; reflexivity. Qed.

(* ---------------------------------------------------------------- connected: exactness *)
Lemma adj_vertices t G a b : adj t G a b -> In a (vertices G) /\ In b (vertices G).
Proof.
  intros [_ (s & [H | H] & _)]; apply collect_In in H; tauto.
Qed.

Lemma conn_adj_RinV t G a b :
  conn (adj t G) a b -> conn (Rin (adjb t G) (vertices G)) a b.
Proof.
  apply conn_mono. intros x y H. destruct (adj_vertices t G x y H) as [Hx Hy].
  split; [|split]; auto. apply adjb_spec. exact H.
Qed.

Theorem group_connected_exact : forall t G,
  Permutation (group_connected t G) (map sort_frags (spec_connected_groups t G)).
Proof.
  intros t G.
  destruct (group_connected_contract t G) as ((Hc1 & Hdisj & _) & Hcomp & Hcov).
  set (gs := group_connected t G) in *.
  assert (Hsorted : map sort_frags gs = gs).
  { rewrite <- (map_id gs) at 2. apply map_ext_in. intros g Hg.
    apply sorted_sort_id. unfold gs, group_connected in Hg.
    apply in_map_iff in Hg. destruct Hg as (m & <- & _). apply sort_frags_sorted. }
  rewrite <- Hsorted. unfold spec_connected_groups. rewrite components_in_comps.
  assert (Hmem : forall g, In g gs -> forall x, In x g -> exists y, In y g /\ y <> x).
  { intros g Hg x Hx. destruct (Hc1 g Hg) as [Hnd Hl]. apply two_other; auto. }
  apply groups_are_components.
  - intros a b. apply adjb_sym.
  - rewrite vertices_collect. apply collect_NoDup.
  - apply nodup_concat. split; auto. intros g Hg. apply Hc1; auto.
  - intros g Hg x Hx. destruct (Hmem g Hg x Hx) as (y & Hy & Hne).
    assert (Hxy : conn (adj t G) x y) by (apply (Hcomp g Hg x Hx y); auto).
    inversion Hxy as [| ? b ? Hab _]; subst; [congruence|].
    apply (adj_vertices t G x b Hab).
  - intros g Hg. apply Hc1; auto.
  - intros g Hg x u Hx Hu Hr. apply (Hcomp g Hg x Hx u).
    apply conn_one. apply adjb_spec. exact Hr.
  - intros g Hg a b Ha Hb. apply conn_adj_RinV. apply (Hcomp g Hg a Ha b). exact Hb.
  - intros x u Hx Hu Hr. apply adjb_spec in Hr.
    apply (Hcov x u). apply Hr. apply conn_one. exact Hr.
Qed.

Corollary group_connected_same_groups : forall t G,
  same_groups (group_connected t G) (map sort_frags (spec_connected_groups t G)) = true.
Proof. intros. apply same_groups_perm. apply group_connected_exact. Qed.

(* the check of the bounded theorem (GroupBounded.connected_ok), now for every graph *)
Theorem connected_ok_all : forall G, connected_ok G = true.
Proof. intros G. apply group_connected_same_groups. Qed.
