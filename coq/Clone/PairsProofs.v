(* Pipeline-level lemmas: every path only reports justified pairs; the batch loop visits every
   index pair; LSH pairs are exhaustive pairs. *)
From Coq Require Import ZArith QArith List Bool Arith Lia Permutation Lqa.
From PV Require Import Gen.DomainConst Gen.CloneConst Clone.Pairs Clone.PairsFacts.
Import ListNotations.
Open Scope Z_scope.

(* ---------------- batch loop: pure index combinatorics ---------------- *)
Lemma batch_loop_sound : forall fuel bs n s i j, In (i, j) (batch_loop fuel bs n s) ->
  (s <= i < n /\ j < n /\ i <> j)%nat.
Proof.
  induction fuel as [|f IH]; simpl; intros bs n s i j H; [contradiction|].
  destruct (n <=? s)%nat eqn:E; [contradiction|]. apply Nat.leb_gt in E.
  apply in_app_or in H as [H|H].
  - apply in_flat_map in H as (i' & Hi & H). apply in_seq in Hi.
    apply in_app_or in H as [H|H]; apply in_map_iff in H as (j' & Ej & Hj); inversion Ej; subst; apply in_seq in Hj; lia.
  - apply IH in H. lia.
Qed.

Lemma batch_loop_cover : forall fuel bs n s a b, (0 < bs)%nat -> (a < b)%nat -> (b < n)%nat -> (s <= b)%nat -> (n - s <= fuel)%nat ->
  ((a < s)%nat -> In (b, a) (batch_loop fuel bs n s)) /\
  ((s <= a)%nat -> In (a, b) (batch_loop fuel bs n s) \/ In (b, a) (batch_loop fuel bs n s)).
Proof.
  induction fuel as [|f IH]; intros bs n s a b Hbs Hab Hbn Hsb Hf; [lia|].
  simpl. destruct (n <=? s)%nat eqn:E; [apply Nat.leb_le in E; lia|]. apply Nat.leb_gt in E.
  destruct (Nat.lt_ge_cases b (Nat.min (s + bs) n)) as [Hin|Hout].
  - (* b in the current batch *)
    split; intro Ha.
    + apply in_or_app. left. apply in_flat_map. exists b. split; [apply in_seq; lia|].
      apply in_or_app. right. apply in_map. apply in_seq. lia.
    + left. apply in_or_app. left. apply in_flat_map. exists a. split; [apply in_seq; lia|].
      apply in_or_app. left. apply in_map. apply in_seq. lia.
  - assert (Hs' : (s + bs <= b)%nat) by lia.
    destruct (IH bs n (s + bs)%nat a b Hbs Hab Hbn Hs' ltac:(lia)) as [I1 I2].
    split; intro Ha.
    + apply in_or_app. right. apply I1. lia.
    + destruct (Nat.lt_ge_cases a (s + bs)) as [L|G].
      * right. apply in_or_app. right. apply I1. auto.
      * destruct (I2 G); [left|right]; apply in_or_app; right; auto.
Qed.

(* no unordered index pair is visited in both orientations *)
Lemma batch_loop_once : forall fuel bs n s i j, In (i, j) (batch_loop fuel bs n s) -> ~ In (j, i) (batch_loop fuel bs n s).
Proof.
  induction fuel as [|f IH]; simpl; intros bs n s i j H; [contradiction|].
  destruct (n <=? s)%nat eqn:E; [contradiction|]. apply Nat.leb_gt in E.
  intro H'.
  apply in_app_or in H as [H|H]; apply in_app_or in H' as [H'|H'].
  - apply in_flat_map in H as (i1 & Hi1 & H). apply in_flat_map in H' as (i2 & Hi2 & H').
    apply in_seq in Hi1, Hi2.
    apply in_app_or in H as [H|H]; apply in_map_iff in H as (j1 & E1 & Hj1); inversion E1; subst; apply in_seq in Hj1;
    apply in_app_or in H' as [H'|H']; apply in_map_iff in H' as (j2 & E2 & Hj2); inversion E2; subst; apply in_seq in Hj2; lia.
  - apply in_flat_map in H as (i1 & Hi1 & H). apply in_seq in Hi1. apply batch_loop_sound in H'.
    apply in_app_or in H as [H|H]; apply in_map_iff in H as (j1 & E1 & Hj1); inversion E1; subst; apply in_seq in Hj1; lia.
  - apply in_flat_map in H' as (i1 & Hi1 & H'). apply in_seq in Hi1. apply batch_loop_sound in H.
    apply in_app_or in H' as [H'|H']; apply in_map_iff in H' as (j1 & E1 & Hj1); inversion E1; subst; apply in_seq in Hj1; lia.
  - eapply IH; eauto.
Qed.

Lemma batch_visits_spec : forall bs n, (0 < bs)%nat ->
  (forall i j, In (i, j) (batch_visits bs n) -> (i < n /\ j < n /\ i <> j)%nat) /\
  (forall a b, (a < b < n)%nat -> In (a, b) (batch_visits bs n) \/ In (b, a) (batch_visits bs n)) /\
  (forall i j, In (i, j) (batch_visits bs n) -> ~ In (j, i) (batch_visits bs n)).
Proof.
  intros bs n Hbs. unfold batch_visits. split; [|split].
  - intros i j H. apply batch_loop_sound in H. lia.
  - intros a b [Hab Hbn]. destruct (batch_loop_cover n bs n 0%nat a b Hbs Hab Hbn ltac:(lia) ltac:(lia)) as [_ I]. apply I. lia.
  - intros. eapply batch_loop_once; eauto.
Qed.

Section Proofs.
Variable sim : frag -> frag -> Q.
Variable dist : frag -> frag -> Q.
Variable gate : frag -> frag -> bool.
Variable sig : Z -> list N -> list N.
Variable bandhash : list N -> N.

Notation compare := (compare sim dist gate).
Notation try_pair := (try_pair sim dist gate).
Notation try_create := (try_create sim dist gate).
Notation exhaustive := (exhaustive sim dist gate).
Notation batch_step := (batch_step sim dist gate).
Notation batched := (batched sim dist gate).
Notation detect_pairs := (detect_pairs sim dist gate).
Notation lsh_try := (lsh_try sim dist gate sig).
Notation lsh_pairs := (lsh_pairs sim dist gate sig bandhash).
Notation detect_lsh := (detect_lsh sim dist gate sig bandhash).
Notation report := (report sim dist gate sig bandhash).
Notation justified := (justified sim dist gate).

(* a pair is produced from two fragments of the list by the pair test *)
Definition produced (c : cfg) (fs : list frag) (p : cpair) : Prop :=
  exists a b, In a fs /\ In b fs /\ In p (try_pair c a b).

Lemma exhaustive_in : forall c fs p,
  In p (exhaustive c fs) <-> exists a b, In (a, b) (pairs_of fs) /\ In p (try_pair c a b).
Proof.
  intros. unfold Pairs.exhaustive. rewrite in_flat_map. split.
  - intros ([a b] & H1 & H2). exists a, b. auto.
  - intros (a & b & H1 & H2). exists (a, b). auto.
Qed.

Lemma exhaustive_produced : forall c fs p, In p (exhaustive c fs) -> produced c fs p.
Proof.
  intros c fs p H. apply exhaustive_in in H as (a & b & H1 & H2). apply pairs_of_in in H1. exists a, b. tauto.
Qed.

Lemma limit_and_sort_in : forall c l p, In p (limit_and_sort c l) -> In p l.
Proof.
  intros c l p H. unfold limit_and_sort in H. apply firstn_in in H.
  eapply Permutation_in; [apply sort_desc_perm|]. auto.
Qed.

Lemma limit_and_sort_all : forall c l, Z.of_nat (length l) <= c_max_pairs c -> Permutation (limit_and_sort c l) l.
Proof.
  intros c l H. unfold limit_and_sort. rewrite firstn_all_le; [apply sort_desc_perm|].
  rewrite (Permutation_length (sort_desc_perm l)). lia.
Qed.

Lemma add_with_limit_in : forall top p maxp x, In x (add_with_limit top p maxp) -> x = p \/ In x top.
Proof.
  intros top p maxp x H. unfold add_with_limit in H.
  destruct (clone_add_cmp_room (Z.of_nat (length top)) maxp).
  - apply (Permutation_in _ (insert_desc_perm p top)) in H. destruct H; auto.
  - destruct (rev top); auto. destruct (clone_add_cmp_better (p_sim p) (p_sim c)); auto.
    apply (Permutation_in _ (insert_desc_perm p (removelast top))) in H. destruct H; auto.
    right. apply removelast_in. auto.
Qed.

Lemma try_create_in : forall c a b m p, In p (try_create c a b m) -> In p (try_pair c a b).
Proof. intros c a b m p H. unfold Pairs.try_create in H. apply filter_In in H. tauto. Qed.

Lemma batch_fold_produced : forall c fs maxp visits st,
  Forall (produced c fs) (fst st) -> Forall (produced c fs) (fst (fold_left (batch_step c fs maxp) visits st)).
Proof.
  intros c fs maxp. induction visits as [|v r IH]; simpl; intros st H; auto.
  apply IH. unfold Pairs.batch_step. destruct st as [top m]. simpl in H.
  destruct (nth_error fs (fst v)) as [a|] eqn:Ea; auto.
  destruct (nth_error fs (snd v)) as [b|] eqn:Eb; auto.
  destruct (try_create c a b m) as [|p l] eqn:Et; auto.
  simpl. apply Forall_forall. intros x Hx. apply add_with_limit_in in Hx as [Hx|Hx].
  - subst. exists a, b. split; [eapply nth_error_In; eauto|]. split; [eapply nth_error_In; eauto|].
    eapply try_create_in. rewrite Et. left. auto.
  - rewrite Forall_forall in H. auto.
Qed.

Lemma batched_produced : forall c fs mp bs p, In p (batched c fs mp bs) -> produced c fs p.
Proof.
  intros c fs mp bs p H. unfold Pairs.batched in H.
  eapply Forall_forall in H; [exact H|]. apply batch_fold_produced. simpl. constructor.
Qed.

Lemma detect_pairs_produced : forall c fs p, In p (detect_pairs c fs) -> produced c fs p.
Proof.
  intros c fs p H. unfold Pairs.detect_pairs in H.
  destruct (Z.of_nat (length fs) <=? 1); [contradiction|].
  apply limit_and_sort_in in H.
  destruct ((c_batch_threshold c <? Z.of_nat (length fs)) || (c_max_pairs c <? Z.of_nat (length fs) * (Z.of_nat (length fs) - 1) / 2)).
  - eapply batched_produced; eauto.
  - apply exhaustive_produced; auto.
Qed.

Lemma lsh_try_cases : forall c a b, lsh_try c a b = [] \/ lsh_try c a b = try_pair c a b.
Proof.
  intros. unfold Pairs.lsh_try, Pairs.try_pair. destruct (overlapping a b); auto.
  destruct (clone_lsh_cmp_est _ _); auto.
Qed.

Lemma lsh_try_in : forall c a b p, In p (lsh_try c a b) -> In p (try_pair c a b).
Proof. intros c a b p H. destruct (lsh_try_cases c a b) as [E|E]; rewrite E in H; auto. contradiction. Qed.

(* C09: every LSH pair is an exhaustive pair — same fragments in the same order, same similarity,
   distance and type (the record is the same) *)
Lemma pairs_of_map : forall (A B : Type) (g : A -> B) (l : list A),
  pairs_of (map g l) = map (fun ab => (g (fst ab), g (snd ab))) (pairs_of l).
Proof.
  induction l as [|x r IH]; simpl; auto.
  rewrite map_app, IH, !map_map. reflexivity.
Qed.

Lemma lsh_pairs_in : forall c fs p, In p (lsh_pairs c fs) <->
  exists a b, In (a, b) (pairs_of fs) /\ share_band sig bandhash c a b = true /\ In p (lsh_try c a b).
Proof.
  intros c fs p. unfold Pairs.lsh_pairs. cbv zeta. rewrite in_flat_map. rewrite pairs_of_map. split.
  - intros ([[a ka] [b kb]] & H1 & H2). apply filter_In in H1 as [H1 S].
    apply in_map_iff in H1 as ([a' b'] & E & H1). simpl in E. inversion E; subst. exists a, b. simpl in *. auto.
  - intros (a & b & H1 & S & H2).
    exists ((a, band_keys bandhash c (signature sig c a)), (b, band_keys bandhash c (signature sig c b))). split; auto.
    apply filter_In. split; auto. apply in_map_iff. exists (a, b). auto.
Qed.

Lemma lsh_pairs_subset : forall c fs p, In p (lsh_pairs c fs) -> In p (exhaustive c fs).
Proof.
  intros c fs p H. apply lsh_pairs_in in H as (a & b & H1 & _ & H2).
  apply exhaustive_in. exists a, b. split; auto. apply lsh_try_in. auto.
Qed.

Lemma detect_lsh_produced : forall c fs p, In p (detect_lsh c fs) -> produced c fs p.
Proof.
  intros c fs p H. unfold Pairs.detect_lsh in H.
  destruct (negb (c_use_lsh c)); [apply detect_pairs_produced; auto|].
  destruct (length fs <=? 1)%nat; [apply detect_pairs_produced; auto|].
  apply limit_and_sort_in in H. apply exhaustive_produced. apply lsh_pairs_subset. auto.
Qed.

Lemma should_include_spec : forall c f, should_include c f = true -> c_min_nodes c <= f_size f /\ c_min_lines c <= f_lines f.
Proof.
  intros c f H. unfold should_include, clone_include_cmp_nodes, clone_include_cmp_lines in H.
  destruct (f_size f <? c_min_nodes c) eqn:E1; [discriminate|].
  destruct (f_lines f <? c_min_lines c) eqn:E2; [discriminate|].
  apply Z.ltb_ge in E1, E2. auto.
Qed.

Lemma service_keep_spec : forall c p, service_keep c p = true ->
  (c_min_sim c <= p_sim p <= c_max_sim c)%Q /\ In (p_type p) (c_enabled c).
Proof.
  intros c p H. unfold service_keep in H. apply andb_true_iff in H as [H1 H2].
  apply negb_true_iff in H1. apply orb_false_iff in H1 as [A B].
  unfold clone_filter_cmp_min in A. unfold clone_filter_cmp_max in B.
  apply Qlt_spec_false in A, B. split; auto.
  apply existsb_exists in H2 as (t & Ht & E). destruct (p_type p), t; simpl in E; try discriminate; auto.
Qed.

(* C08, first half: every reported pair is justified *)
Theorem report_justified : forall c mode auto cands p, validate c = true ->
  In p (report c mode auto cands) ->
  let a := p_a p in let b := p_b p in
  In a cands /\ In b cands /\
  p_sim p = sim a b /\ p_dist p = dist a b /\
  (effective_threshold c <= p_sim p)%Q /\ (c_t4 c <= p_sim p)%Q /\
  (c_min_sim c <= p_sim p <= c_max_sim c)%Q /\
  (0 < c_max_dist c -> p_dist p <= c_max_dist c)%Q /\
  in_band c (p_sim p) (p_type p) /\ In (p_type p) (c_enabled c) /\
  (c_min_nodes c <= f_size a /\ c_min_lines c <= f_lines a) /\
  (c_min_nodes c <= f_size b /\ c_min_lines c <= f_lines b) /\
  ~ overlap_spec a b.
Proof.
  intros c mode auto cands p V H. apply validate_spec in V.
  unfold Pairs.report, service_filter in H. apply filter_In in H as [H K].
  apply service_keep_spec in K as [K1 K2].
  apply detect_lsh_produced in H as (a & b & Ha & Hb & H).
  unfold extract in Ha, Hb. apply filter_In in Ha as [Ha Ia]. apply filter_In in Hb as [Hb Ib].
  apply should_include_spec in Ia, Ib.
  rewrite try_pair_set_lsh in H. apply try_pair_in in H. destruct H.
  destruct (classify_band c (sim a b) (p_type p) V j_class) as [B1 B2].
  cbv zeta. rewrite j_a, j_b, j_sim in *. rewrite j_dist.
  repeat split; auto; try tauto.
  - rewrite <- j_dist. auto.
  - apply overlapping_false_spec; auto.
Qed.

End Proofs.
