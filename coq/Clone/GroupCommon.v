(* C10 — code shared by the four grouping strategies of internal/analyzer:
   fragment collection, the similarity cache, similarity(), the location order,
   a functional union-find and the "group fragments by root" step.

   Fragments are N; the number of a fragment is its rank in the fragmentLess order
   (star_medoid_grouping.go:301-334), so fragmentLess a b = (a <? b) and pairKey
   (star_medoid_grouping.go:282-290) is the unordered pair {a, b}. Distinct fragments
   have distinct locations (an input condition of the harness; the detector produces
   one fragment per location).

   UNION-FIND: the Go code (connected_grouping.go:53-84, star_medoid_grouping.go:40-70)
   keeps parent pointers with union by rank and path compression. The model keeps, for
   every fragment, its current representative ("quick-find"): [uf_union] relabels the
   class of b with the representative of a. Rank and path compression only change WHICH
   member is the root, never the partition, and the roots are used only as map keys whose
   iteration order is arbitrary anyway; the observable (the partition) is the same. *)
From Coq Require Import NArith QArith List Bool.
From PV Require Import Clone.GroupSpec.
Import ListNotations.

Definition Qltb (a b : Q) : bool := negb (Qle_bool b a).      (* a < b *)

(* fragments in order of first appearance (connected_grouping.go:31-42 and the same loop
   in the other strategies; collectFragments star_medoid_grouping.go:236-254) *)
Definition add_frag (acc : list N) (f : N) : list N := if memb f acc then acc else acc ++ [f].

Definition collect_fragments (G : pgraph) : list N :=
  fold_left (fun acc (p : pair) => let '(a, b, _) := p in add_frag (add_frag acc a) b) G [].

(* simMap[pairKey(a,b)]: highest similarity among duplicates
   (buildSimilarityMap star_medoid_grouping.go:257-269; connected_grouping.go:45-49) *)
Definition sim_lookup (G : pgraph) (a b : N) : option Q :=
  fold_left (fun acc (p : pair) =>
     if joins a b p then
       match acc with
       | None => Some (snd p)
       | Some old => if Qltb old (snd p) then Some (snd p) else acc
       end
     else acc) G None.

(* similarity (star_medoid_grouping.go:272-284): 1 for the same fragment, 0 if not cached *)
Definition similarity (G : pgraph) (a b : N) : Q :=
  if N.eqb a b then 1 else match sim_lookup G a b with Some v => v | None => 0 end.

(* sort.Slice(members, fragmentLess) — insertion sort on ranks *)
Fixpoint insert (x : N) (l : list N) : list N :=
  match l with
  | [] => [x]
  | y :: r => if N.leb x y then x :: l else y :: insert x r
  end.
Definition sort_frags (l : list N) : list N := fold_right insert [] l.

(* ---------------------------------------------------------------- union-find (quick-find) *)
Definition uf : Type := list (N * N).        (* fragment |-> representative *)

Definition uf_init (frs : list N) : uf := map (fun f => (f, f)) frs.

Fixpoint uf_find (u : uf) (x : N) : N :=
  match u with
  | [] => x
  | (y, r) :: u' => if N.eqb y x then r else uf_find u' x
  end.

Definition uf_union (u : uf) (a b : N) : uf :=
  let ra := uf_find u a in
  let rb := uf_find u b in
  if N.eqb ra rb then u
  else map (fun yr : N * N => let '(y, r) := yr in (y, if N.eqb r rb then ra else r)) u.

(* comp[find(f)] = append(comp[find(f)], f) for f in fragments (connected_grouping.go:98-102,
   buildClusters star_medoid_grouping.go:73-84): one cluster per root, members in fragment
   order. The Go map is ranged in arbitrary order; the model lists the clusters in order of
   first appearance of their root — only the set of clusters is observed (group ids and
   group order belong to C05). *)
Definition build_clusters (find : N -> N) (frs : list N) : list (list N) :=
  map (fun r => filter (fun f => N.eqb (find f) r) frs) (fold_left add_frag (map find frs) []).
