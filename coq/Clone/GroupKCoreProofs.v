(* C10 — the k-core grouping model (GroupKCore.v) meets the k-core contract (GroupSpec.v):
   whenever [group_kcore_ord] returns groups (for any map-iteration order [ord]), they are
   NoDup, have >= 2 members, are pairwise disjoint, each is linked inside itself through
   G_t edges, and every member has at least k G_t-neighbours inside its own group. *)
From Coq Require Import NArith ZArith QArith List Bool Lia Arith Permutation.
From Coq Require Import Zify ZifyBool ZifyNat.
From PV Require Import Gen.GroupConst Clone.GroupSpec Clone.GroupSpecProofs Clone.GroupCommon Clone.GroupKCore.
Import ListNotations.
Local Close Scope Q_scope.

(* ---------------------------------------------------------------- association lists *)
Lemma aget_aremove_same m u v l : aget m u = Some l ->
  aget (aremove m u v) u = Some (filter (fun w => negb (N.eqb w v)) l).
Proof.
  induction m as [|[x lx] m IH]; simpl; intros H; [discriminate|].
  destruct (N.eqb x u) eqn:E; simpl; rewrite E.
  - congruence.
  - auto.
Qed.

Lemma aget_aremove_other m u v w : w <> u -> aget (aremove m u v) w = aget m w.
Proof.
  induction m as [|[x lx] m IH]; simpl; intros H; auto.
  destruct (N.eqb x u) eqn:E; simpl.
  - apply N.eqb_eq in E. subst. destruct (N.eqb u w) eqn:E2; auto.
    apply N.eqb_eq in E2. congruence.
  - destruct (N.eqb x w); auto.
Qed.

Lemma aget_adel_other m v w : w <> v -> aget (adel m v) w = aget m w.
Proof.
  induction m as [|[x lx] m IH]; simpl; intros H; auto.
  destruct (N.eqb x v) eqn:E; simpl.
  - apply N.eqb_eq in E. subst. destruct (N.eqb v w) eqn:E2; auto.
    apply N.eqb_eq in E2. congruence.
  - destruct (N.eqb x w); auto.
Qed.

Lemma zget_zset_other m u d w : w <> u -> zget (zset m u d) w = zget m w.
Proof.
  induction m as [|[x dx] m IH]; simpl; intros H; auto.
  destruct (N.eqb x u) eqn:E; simpl.
  - apply N.eqb_eq in E. subst. destruct (N.eqb u w) eqn:E2; auto.
    apply N.eqb_eq in E2. congruence.
  - destruct (N.eqb x w); auto.
Qed.

Lemma zget_zset_same m u d : In u (map fst m) -> zget (zset m u d) u = d.
Proof.
  induction m as [|[x dx] m IH]; simpl; intros H; [tauto|].
  destruct (N.eqb x u) eqn:E; simpl; rewrite E; auto.
  destruct H as [H | H]; auto. subst. rewrite N.eqb_refl in E. discriminate.
Qed.

Lemma map_fst_zset m u d : map fst (zset m u d) = map fst m.
Proof.
  induction m as [|[x dx] m IH]; simpl; auto.
  rewrite IH. destruct (N.eqb x u); reflexivity.
Qed.

Lemma aget_map_in (f : N -> list N) nodes v :
  In v nodes -> aget (map (fun v => (v, f v)) nodes) v = Some (f v).
Proof.
  induction nodes as [|a nodes IH]; simpl; intros H; [tauto|].
  destruct (N.eqb a v) eqn:E.
  - apply N.eqb_eq in E. subst. reflexivity.
  - destruct H as [H | H]; auto. subst. rewrite N.eqb_refl in E. discriminate.
Qed.

Lemma zget_map_in (f : N -> Z) nodes v :
  In v nodes -> zget (map (fun v => (v, f v)) nodes) v = f v.
Proof.
  induction nodes as [|a nodes IH]; simpl; intros H; [tauto|].
  destruct (N.eqb a v) eqn:E.
  - apply N.eqb_eq in E. subst. reflexivity.
  - destruct H as [H | H]; auto. subst. rewrite N.eqb_refl in E. discriminate.
Qed.

Lemma filter_neq_id l v : ~ In v l -> filter (fun w => negb (N.eqb w v)) l = l.
Proof.
  induction l as [|x l IH]; simpl; intros H; auto.
  destruct (N.eqb x v) eqn:E; simpl.
  - apply N.eqb_eq in E. subst. tauto.
  - rewrite IH; auto.
Qed.

Lemma filter_remove_len l v : NoDup l -> In v l ->
  S (length (filter (fun w => negb (N.eqb w v)) l)) = length l.
Proof.
  induction l as [|x l IH]; simpl; intros Hnd H; [tauto|].
  inversion Hnd as [|? ? Hx Hl]; subst.
  destruct (N.eqb x v) eqn:E; simpl.
  - apply N.eqb_eq in E. subst. rewrite filter_neq_id; auto.
  - destruct H as [H | H]. subst. rewrite N.eqb_refl in E. discriminate.
    rewrite IH; auto.
Qed.

(* ---------------------------------------------------------------- sorting *)
Lemma insert_perm x l : Permutation (insert x l) (x :: l).
Proof.
  induction l as [|a l IH]; simpl; auto.
  destruct (N.leb x a); auto.
  eapply perm_trans. apply perm_skip. apply IH. apply perm_swap.
Qed.

Lemma sort_perm l : Permutation (sort_frags l) l.
Proof.
  induction l as [|a l IH]; simpl; auto.
  eapply perm_trans. apply insert_perm. auto.
Qed.

(* ---------------------------------------------------------------- fragments / listed *)
Lemma add_frag_In acc f x : In x (add_frag acc f) <-> In x acc \/ x = f.
Proof.
  unfold add_frag. destruct (memb f acc) eqn:E.
  - apply memb_In in E. split; auto. intros [H | ->]; auto.
  - rewrite in_app_iff. simpl. split; intros [H | H]; auto.
    + destruct H as [H | []]; auto.
Qed.

Lemma add_frag_NoDup acc f : NoDup acc -> NoDup (add_frag acc f).
Proof.
  unfold add_frag. destruct (memb f acc) eqn:E; auto.
  apply memb_false in E. intros H. apply nodup_app_iff. repeat split; auto.
  - constructor; auto. constructor.
  - intros x Hx [<- | []]. auto.
Qed.

Lemma collect_gen G : forall acc, NoDup acc ->
  let r := fold_left (fun acc (p : pair) => let '(a, b, _) := p in add_frag (add_frag acc a) b) G acc in
  NoDup r /\ (forall x, In x acc -> In x r) /\
  (forall a b s, In (a, b, s) G -> In a r /\ In b r).
Proof.
  induction G as [|[[a b] s] G IH]; simpl; intros acc Hnd.
  - split; [auto|split; [auto|intros ? ? ? []]].
  - destruct (IH (add_frag (add_frag acc a) b)) as (H1 & H2 & H3).
    { apply add_frag_NoDup, add_frag_NoDup, Hnd. }
    split; auto. split.
    + intros x Hx. apply H2. apply add_frag_In. left. apply add_frag_In. auto.
    + intros a' b' s' [Heq | Hin]; [|eauto].
      inversion Heq; subst. split; apply H2.
      * apply add_frag_In. left. apply add_frag_In. auto.
      * apply add_frag_In. auto.
Qed.

Lemma collect_NoDup G : NoDup (collect_fragments G).
Proof. apply (collect_gen G []). constructor. Qed.

Lemma collect_In G a b s : In (a, b, s) G -> In a (collect_fragments G) /\ In b (collect_fragments G).
Proof. apply (collect_gen G []). constructor. Qed.

Lemma joins_sym a b p : joins a b p = joins b a p.
Proof. destruct p as [[x y] s]. unfold joins. apply orb_comm. Qed.

Lemma listed_sym t G a b : listed t G a b = listed t G b a.
Proof.
  unfold listed. induction G as [|p G IH]; simpl; auto.
  rewrite IH, joins_sym. reflexivity.
Qed.

Lemma listed_pair t G a b : listed t G a b = true ->
  exists s, In (a, b, s) G \/ In (b, a, s) G.
Proof.
  unfold listed. rewrite existsb_exists. intros [[[x y] s] [Hin H]].
  apply andb_true_iff in H. destruct H as [Hj _]. apply joins_spec in Hj.
  exists s. destruct Hj as [[-> ->] | [-> ->]]; auto.
Qed.

Lemma adjb_listed t G a b : adjb t G a b = negb (N.eqb a b) && listed t G a b.
Proof. reflexivity. Qed.

(* ---------------------------------------------------------------- peeling invariant *)
Section Peel.
Context (E : N -> N -> bool) (nodes : list N) (k : Z).
Context (Esym : forall a b, E a b = E b a) (Eirr : forall a, E a a = false)
        (Enodes : forall a b, E a b = true -> In a nodes).

Definition alive (Rm : list N) (v : N) : Prop := In v nodes /\ ~ In v Rm.

(* adj[w] = the alive neighbours of w, plus v0 (the vertex being removed) while w is still
   waiting in [todo]; deg[w] = |adj[w]| *)
Definition adj_ok (Rm todo : list N) (v0 : N) (am : amap) (dm : list (N * Z)) : Prop :=
  forall w, alive Rm w -> exists l, aget am w = Some l /\ NoDup l /\
     (forall u, In u l <-> (alive Rm u /\ E w u = true) \/ (u = v0 /\ In w todo)) /\
     zget dm w = Z.of_nat (length l).

Definition WFadj (Rm : list N) (am : amap) (dm : list (N * Z)) : Prop :=
  forall w, alive Rm w -> exists l, aget am w = Some l /\ NoDup l /\
     (forall u, In u l <-> alive Rm u /\ E w u = true) /\
     zget dm w = Z.of_nat (length l).

Definition WFq (Rm : list N) (dm : list (N * Z)) (q inq : list N) : Prop :=
  (forall w, alive Rm w -> (zget dm w < k)%Z -> In w q) /\
  (forall u, In u inq -> In u q \/ In u Rm) /\
  map fst dm = nodes /\
  (forall u, In u q -> In u nodes).

Definition WF (st : kstate) : Prop :=
  WFadj (k_removed st) (k_adj st) (k_deg st) /\
  WFq (k_removed st) (k_deg st) (k_queue st) (k_inq st).

Definition Inner (Rm : list N) (v0 : N) (todo : list N) (st : kstate) : Prop :=
  k_removed st = Rm /\ adj_ok Rm todo v0 (k_adj st) (k_deg st) /\
  WFq Rm (k_deg st) (k_queue st) (k_inq st).

Lemma peel_nbr_inner Rm v0 u todo st :
  In v0 Rm -> alive Rm u -> ~ In u todo ->
  Inner Rm v0 (u :: todo) st -> Inner Rm v0 todo (peel_nbr k v0 st u).
Proof.
  intros Hv0 Hu Hnt (HR & Hadj & Hq1 & Hq2 & Hq3 & Hq4).
  unfold peel_nbr. rewrite HR.
  destruct (memb u Rm) eqn:Em. { apply memb_In in Em. destruct Hu; contradiction. }
  destruct (Hadj u Hu) as (lu & Hgu & Hndu & Hinu & Hzu).
  set (d := (zget (k_deg st) u - 1)%Z).
  assert (Hud : In u (map fst (k_deg st))) by (rewrite Hq3; apply Hu).
  assert (Hadj' : adj_ok Rm todo v0 (aremove (k_adj st) u v0) (zset (k_deg st) u d)).
  { intros w Hw. destruct (N.eq_dec w u) as [-> | Hne].
    - exists (filter (fun x => negb (N.eqb x v0)) lu).
      split; [apply aget_aremove_same; auto|].
      split; [apply NoDup_filter; auto|]. split.
      + intros x. rewrite filter_In, Hinu, negb_true_iff, N.eqb_neq. split.
        * intros [[H | [H1 H2]] Hx]; [left; auto | contradiction].
        * intros [[Ha He] | [Hx Ht]]; [|contradiction].
          split; [left; auto|]. intros ->. destruct Ha; contradiction.
      + rewrite zget_zset_same by auto. unfold d. rewrite Hzu.
        assert (Hv : In v0 lu) by (apply Hinu; right; split; simpl; auto).
        pose proof (filter_remove_len lu v0 Hndu Hv). lia.
    - destruct (Hadj w Hw) as (l & Hg & Hnd & Hin & Hz). exists l.
      rewrite aget_aremove_other, zget_zset_other by auto.
      split; auto. split; auto. split; auto.
      intros x. rewrite Hin. simpl. split; intros [H | [H1 H2]]; auto.
      right. destruct H2; [congruence | auto]. }
  destruct ((d <? k)%Z && negb (memb u (k_inq st))) eqn:Eb.
  - split; [reflexivity|]. split; [exact Hadj'|]. simpl. split; [|split; [|split]].
    + intros w Hw Hlt. apply in_or_app.
      destruct (N.eq_dec w u) as [-> | Hne]; [right; left; auto | left].
      apply Hq1; auto. rewrite zget_zset_other in Hlt; auto.
    + intros x [<- | Hx]. left; apply in_or_app; right; left; auto.
      destruct (Hq2 x Hx); auto. left; apply in_or_app; auto.
    + rewrite map_fst_zset; auto.
    + intros x Hx. apply in_app_or in Hx. destruct Hx as [Hx | [<- | []]]; auto. apply Hu.
  - split; [reflexivity|]. split; [exact Hadj'|]. simpl. split; [|split; [|split]]; auto.
    + intros w Hw Hlt.
      destruct (N.eq_dec w u) as [-> | Hne].
      * rewrite zget_zset_same in Hlt by auto.
        apply andb_false_iff in Eb. destruct Eb as [Eb | Eb].
        -- apply Z.ltb_ge in Eb. lia.
        -- apply negb_false_iff, memb_In in Eb. destruct (Hq2 u Eb); auto.
           destruct Hu; contradiction.
      * apply Hq1; auto. rewrite zget_zset_other in Hlt; auto.
    + rewrite map_fst_zset; auto.
Qed.

Lemma fold_inner Rm v0 : In v0 Rm -> forall todo st,
  NoDup todo -> (forall u, In u todo -> alive Rm u) ->
  Inner Rm v0 todo st -> Inner Rm v0 [] (fold_left (peel_nbr k v0) todo st).
Proof.
  intros Hv0. induction todo as [|u todo IH]; simpl; intros st Hnd Hal HI; auto.
  inversion Hnd; subst. apply IH; auto.
  apply peel_nbr_inner; auto.
Qed.

Lemma peel_WF : forall fuel st st', WF st -> peel k fuel st = Some st' ->
  WF st' /\ k_queue st' = [].
Proof.
  induction fuel as [|f IH]; simpl; intros st st' HWF H; [discriminate|].
  destruct (k_queue st) as [|v q] eqn:Eq.
  { inversion H; subst; auto. }
  destruct HWF as (Ha & Hq1 & Hq2 & Hq3 & Hq4). rewrite Eq in *.
  destruct (memb v (k_removed st)) eqn:Em.
  - apply IH in H; auto. split; simpl; auto. split; [|split; [|split]]; auto.
    + intros w Hw Hlt. destruct (Hq1 w Hw Hlt); auto. subst.
      apply memb_In in Em. destruct Hw; contradiction.
    + intros x Hx. destruct (Hq2 x Hx) as [H1 | H1]; auto. destruct H1; auto.
      subst. right. apply memb_In; auto.
    + intros x Hx. apply Hq4. right; auto.
  - apply memb_false in Em.
    assert (Hv : alive (k_removed st) v) by (split; auto; apply Hq4; left; auto).
    destruct (Ha v Hv) as (lv & Hgv & Hndv & Hinv & Hzv).
    set (Rm' := v :: k_removed st) in *.
    assert (Hsub : forall w, alive Rm' w -> alive (k_removed st) w /\ w <> v).
    { intros w [H1 H2]. split. split; auto. intro; apply H2; right; auto.
      intros ->. apply H2. left; auto. }
    apply IH in H; auto.
    unfold nbrs. rewrite Hgv.
    match goal with |- WF (mkK (adel (k_adj ?s) _) _ _ _ _) => set (st2 := s) end.
    assert (HI : Inner Rm' v [] st2).
    { apply fold_inner; auto. left; auto.
      - intros u Hu. apply Hinv in Hu. destruct Hu as [[H1 H2] H3]. split; auto.
        intros [<- | H4]; auto. rewrite Eirr in H3. discriminate.
      - split; [reflexivity|]. simpl. split.
        + intros w Hw. apply Hsub in Hw. destruct Hw as [Hw Hne].
          destruct (Ha w Hw) as (l & Hg & Hnd & Hin & Hz). exists l.
          split; auto. split; auto. split; auto.
          intros x. rewrite Hin. split.
          * intros [[H1 H2] H3]. destruct (N.eq_dec x v) as [-> | Hx].
            -- right. split; auto. apply Hinv. split; auto. rewrite Esym; auto.
            -- left. split; auto. split; auto. intros [H4 | H4]; auto.
          * intros [[H1 H2] | [-> H2]].
            -- apply Hsub in H1. destruct H1; auto.
            -- apply Hinv in H2. destruct H2 as [_ H2]. split; auto. rewrite Esym; auto.
        + split; [|split; [|split]]; auto.
          * intros w Hw Hlt. apply Hsub in Hw. destruct Hw as [Hw Hne].
            destruct (Hq1 w Hw Hlt); auto. congruence.
          * intros x Hx. destruct (Hq2 x Hx) as [[<- | H1] | H1]; auto.
            right; left; auto. right; right; auto.
          * intros x Hx. apply Hq4. right; auto. }
    destruct HI as (HR & Hadj & HQ). unfold WF. simpl. rewrite HR. split; auto.
    intros w Hw. destruct (Hadj w Hw) as (l & Hg & Hnd & Hin & Hz). exists l.
    rewrite aget_adel_other.
    + split; auto. split; auto. split; auto. intros x. rewrite Hin. split; auto.
      intros [H1 | [_ []]]; auto.
    + intros ->. destruct Hw as [_ Hw]. apply Hw. left; auto.
Qed.

(* the state built by kcore_init *)
Context (ord : list N) (Hord_nd : NoDup ord) (Hord_in : forall x, In x ord <-> In x nodes).

Definition init_state : kstate :=
  let adj0 := map (fun v => (v, filter (E v) ord)) nodes in
  let deg0 := map (fun v => (v, Z.of_nat (length (nbrs adj0 v)))) nodes in
  let low := filter (fun v => (zget deg0 v <? k)%Z) ord in
  mkK adj0 deg0 low low [].

Lemma init_WF : WF init_state.
Proof.
  unfold WF, init_state. simpl. split.
  - intros w [Hw _]. exists (filter (E w) ord).
    split; [apply aget_map_in; auto|]. split; [apply NoDup_filter; auto|]. split.
    + intros u. rewrite filter_In, Hord_in. unfold alive. simpl. tauto.
    + rewrite zget_map_in by auto. unfold nbrs. rewrite aget_map_in by auto. reflexivity.
  - split; [|split; [|split]].
    + intros w [Hw _] Hlt. apply filter_In. split. apply Hord_in; auto.
      apply Z.ltb_lt. auto.
    + auto.
    + rewrite map_map. simpl. apply map_id.
    + intros u Hu. apply filter_In in Hu. apply Hord_in. tauto.
Qed.
End Peel.

(* ---------------------------------------------------------------- component search *)
Section Dfs.
Context (E : N -> N -> bool) (nodes : list N) (st : kstate).
Context (Esym : forall a b, E a b = E b a).

Let adj := k_adj st.
Let removed := k_removed st.
Definition al (v : N) : Prop := In v nodes /\ ~ In v (k_removed st).

Context (Hnb : forall v, al v -> forall u, In u (nbrs (k_adj st) v) <-> al u /\ E v u = true).

Lemma push_spec : forall L s vis s' vis',
  (forall u, In u L -> ~ In u removed) ->
  fold_left (fun (sv : list N * list N) u =>
       let '(s, vis) := sv in
       if negb (memb u removed) && negb (memb u vis) then (u :: s, u :: vis) else sv)
    L (s, vis) = (s', vis') ->
  exists new, s' = new ++ s /\ vis' = new ++ vis /\ NoDup new /\
    forall x, In x new <-> In x L /\ ~ In x vis.
Proof.
  induction L as [|a L IH]; simpl; intros s vis s' vis' Hr H.
  - inversion H; subst. exists []. simpl. split; auto. split; auto. split. constructor.
    intros x; split; [intros [] | intros [[] _]].
  - assert (Ea : memb a removed = false) by (apply memb_false, Hr; left; auto).
    rewrite Ea in H. simpl in H.
    destruct (memb a vis) eqn:Ev; simpl in H.
    + apply IH in H; [|intros; apply Hr; right; auto].
      destruct H as (new & -> & -> & Hnd & Hin).
      exists new. split; auto. split; auto. split; auto.
      intros x. rewrite Hin. apply memb_In in Ev. split.
      * intros [H1 H2]; split; auto.
      * intros [[<- | H1] H2]; [contradiction | auto].
    + apply IH in H; [|intros; apply Hr; right; auto].
      destruct H as (new & -> & -> & Hnd & Hin).
      exists (new ++ [a]). rewrite <- !app_assoc. simpl. split; auto. split; auto.
      apply memb_false in Ev. split.
      * apply nodup_app_iff. split; auto. split. constructor; auto; constructor.
        intros x Hx [<- | []]. apply Hin in Hx. destruct Hx as [_ Hx]. apply Hx; left; auto.
      * intros x. rewrite in_app_iff, Hin. simpl. split.
        -- intros [[H1 H2] | [<- | []]]. split; auto. split; auto.
        -- intros [[<- | H1] H2]. right; auto.
           destruct (N.eq_dec a x) as [-> | Hne]. right; auto.
           left; split; auto. intros [H3 | H3]; auto.
Qed.

Lemma Rin_mono (S S' : list N) : (forall x, In x S -> In x S') ->
  forall a b, Rin E S a b -> Rin E S' a b.
Proof. intros H a b (H1 & H2 & H3). split; [|split]; auto. Qed.

Lemma Rin_sym (S : list N) a b : Rin E S a b -> Rin E S b a.
Proof. intros (H1 & H2 & H3). split; [|split]; auto. rewrite Esym; auto. Qed.

Definition closedV (V : list N) : Prop :=
  forall x u, In x V -> al x -> al u -> E x u = true -> In u V.

Definition dinv (s0 : N) (V0 stack visited comp : list N) : Prop :=
  NoDup (comp ++ stack) /\
  (forall x, In x visited <-> In x (comp ++ stack) \/ In x V0) /\
  (forall x, In x (comp ++ stack) ->
     al x /\ ~ In x V0 /\ conn (Rin E (comp ++ stack)) s0 x) /\
  (forall x u, In x comp -> al u -> E x u = true -> In u visited).

Lemma dfs_inv s0 V0 : forall fuel stack visited comp c' v',
  dinv s0 V0 stack visited comp ->
  dfs (k_adj st) (k_removed st) fuel stack visited comp = Some (c', v') ->
  dinv s0 V0 [] v' c'.
Proof.
  induction fuel as [|f IH]; simpl; intros stack visited comp c' v' HI H; [discriminate|].
  destruct stack as [|v stk].
  { inversion H; subst; auto. }
  match type of H with context [fold_left ?F ?L ?A] => destruct (fold_left F L A) as [st' vis'] eqn:Ef end.
  destruct HI as (Hnd & Hvis & Hmem & Hcl).
  assert (Hv : al v) by (apply Hmem; apply in_or_app; right; left; auto).
  apply push_spec in Ef.
  2:{ intros u Hu. apply (Hnb v Hv) in Hu. destruct Hu as [[_ Hu] _]. exact Hu. }
  destruct Ef as (new & -> & -> & Hndn & Hin).
  eapply IH; [|exact H]. clear H IH.
  assert (HS' : forall x, In x ((comp ++ [v]) ++ new ++ stk) <-> In x (comp ++ v :: stk) \/ In x new).
  { intros x. rewrite !in_app_iff. simpl. tauto. }
  split; [|split; [|split]].
  - apply (Permutation_NoDup (l := new ++ comp ++ v :: stk)).
    + rewrite <- app_assoc. simpl.
      eapply perm_trans. apply Permutation_app_swap_app.
      apply Permutation_app_head. apply Permutation_sym. apply Permutation_middle.
    + apply nodup_app_iff. split; auto. split; auto.
      intros x Hx Hx'. apply Hin in Hx. destruct Hx as [_ Hx]. apply Hx.
      apply Hvis. left; auto.
  - intros x. rewrite HS', in_app_iff, Hvis. tauto.
  - intros x Hx. apply HS' in Hx. destruct Hx as [Hx | Hx].
    + destruct (Hmem x Hx) as (H1 & H2 & H3). split; auto. split; auto.
      eapply conn_mono; [|exact H3]. apply Rin_mono. intros y Hy. apply HS'. auto.
    + assert (Hx' := Hx). apply Hin in Hx'. destruct Hx' as [Hxl Hxv].
      apply (Hnb v Hv) in Hxl. destruct Hxl as [Hax Hex].
      split; auto. split.
      * intros Hc. apply Hxv. apply Hvis. auto.
      * eapply conn_snoc.
        -- destruct (Hmem v) as (_ & _ & H3). apply in_or_app; right; left; auto.
           eapply conn_mono; [|exact H3]. apply Rin_mono. intros y Hy. apply HS'. auto.
        -- split; [|split]; auto; apply HS'; auto.
           left. apply in_or_app; right; left; auto.
  - intros x u Hx Hu He. apply in_app_or in Hx. apply in_or_app.
    destruct Hx as [Hx | [<- | []]].
    + right. eapply Hcl; eauto.
    + destruct (in_dec N.eq_dec u visited) as [Hi | Hi]; auto.
      left. apply Hin. split; auto. apply (Hnb v Hv). auto.
Qed.

Lemma dfs_post fuel s0 V0 c v' :
  al s0 -> ~ In s0 V0 -> closedV V0 ->
  dfs (k_adj st) (k_removed st) fuel [s0] (s0 :: V0) [] = Some (c, v') ->
  NoDup c /\ (forall x, In x c -> al x /\ ~ In x V0) /\
  (forall x u, In x c -> al u -> E x u = true -> In u c) /\
  (forall a b, In a c -> In b c -> conn (Rin E c) a b) /\
  (forall x, In x v' <-> In x c \/ In x V0) /\ closedV v'.
Proof.
  intros Hs0 Hn0 Hc0 H.
  apply (dfs_inv s0 V0) in H.
  - destruct H as (Hnd & Hvis & Hmem & Hcl). rewrite app_nil_r in *.
    assert (Hclc : forall x u, In x c -> al u -> E x u = true -> In u c).
    { intros x u Hx Hu He. assert (Hv := Hcl x u Hx Hu He). apply Hvis in Hv.
      destruct Hv as [Hv | Hv]; auto. exfalso.
      destruct (Hmem x Hx) as (H1 & H2 & _). apply H2.
      apply (Hc0 u x); auto. rewrite Esym; auto. }
    split; auto. split. { intros x Hx. destruct (Hmem x Hx) as (H1 & H2 & _). auto. }
    split; auto. split.
    { intros a b Ha Hb. destruct (Hmem a Ha) as (_ & _ & Ca). destruct (Hmem b Hb) as (_ & _ & Cb).
      eapply conn_trans; [|exact Cb]. apply conn_sym; auto. intros; apply Rin_sym; auto. }
    split; auto.
    intros x u Hx Hax Hau He. apply Hvis. apply Hvis in Hx. destruct Hx as [Hx | Hx].
    + left. eapply Hclc; eauto.
    + right. eapply Hc0; eauto.
  - split; [|split; [|split]]; simpl.
    + constructor; auto. constructor.
    + intros x. tauto.
    + intros x [<- | []]. split; auto. split; auto. constructor.
    + intros x u [].
Qed.

(* a good group: what every reported k-core component satisfies *)
Definition goodg (g : list N) : Prop :=
  NoDup g /\ (2 <= length g)%nat /\ (forall x, In x g -> al x) /\
  (forall x u, In x g -> al u -> E x u = true -> In u g) /\
  (forall a b, In a g -> In b g -> conn (Rin E g) a b).

Definition outer_inv (vis : list N) (gs : list group) : Prop :=
  closedV vis /\ (forall g, In g gs -> goodg g) /\ NoDup (concat gs) /\
  (forall x, In x (concat gs) -> In x vis).

Definition outer_step (fu : nat) (acc : option (list N * list group)) (start : N) :=
  match acc with
  | None => None
  | Some (visited, groups) =>
      if memb start (k_removed st) || memb start visited ||
         match aget (k_adj st) start with None => true | Some _ => false end
      then acc
      else match dfs (k_adj st) (k_removed st) fu [start] (start :: visited) [] with
           | None => None
           | Some (comp, visited') =>
               if (length comp <? 2)%nat then Some (visited', groups)
               else Some (visited', groups ++ [sort_frags comp])
           end
  end.

Lemma outer_none fu L : fold_left (outer_step fu) L None = None.
Proof. induction L; simpl; auto. Qed.

Lemma outer_fold fu : forall L vis gs vis' gs',
  (forall x, In x L -> In x nodes) -> outer_inv vis gs ->
  fold_left (outer_step fu) L (Some (vis, gs)) = Some (vis', gs') -> outer_inv vis' gs'.
Proof.
  induction L as [|a L IH]; intros vis gs vis' gs' HL HI H.
  { simpl in H. inversion H; subst; auto. }
  simpl fold_left in H.
  assert (HL' : forall x, In x L -> In x nodes) by (intros; apply HL; right; auto).
  destruct (memb a (k_removed st) || memb a vis ||
            match aget (k_adj st) a with None => true | Some _ => false end) eqn:Ec.
  { eapply IH; eauto. }
  apply orb_false_iff in Ec. destruct Ec as [Ec _]. apply orb_false_iff in Ec.
  destruct Ec as [Er Ev]. apply memb_false in Er. apply memb_false in Ev.
  destruct (dfs (k_adj st) (k_removed st) fu [a] (a :: vis) []) as [[comp visited']|] eqn:Ed.
  2:{ rewrite outer_none in H. discriminate. }
  destruct HI as (Hc & Hg & Hnd & Hsub).
  apply dfs_post in Ed; auto.
  2:{ split; auto. apply HL. left; auto. }
  destruct Ed as (D1 & D2 & D3 & D4 & D5 & D6).
  destruct (length comp <? 2)%nat eqn:El.
  - eapply IH; [exact HL' | | exact H]. split; auto. split; auto. split; auto.
    intros x Hx. apply D5. right. auto.
  - apply Nat.ltb_ge in El.
    eapply IH; [exact HL' | | exact H]. clear H IH.
    assert (HP := sort_perm comp).
    assert (Hiff : forall x, In x (sort_frags comp) <-> In x comp).
    { intros x. split; apply Permutation_in; auto. apply Permutation_sym; auto. }
    split; auto. split; [|split].
    + intros g Hg'. apply in_app_or in Hg'. destruct Hg' as [Hg' | [<- | []]]; auto.
      split. { eapply Permutation_NoDup; [apply Permutation_sym; exact HP | auto]. }
      split. { rewrite (Permutation_length HP). auto. }
      split. { intros x Hx. apply Hiff in Hx. apply D2; auto. }
      split. { intros x u Hx Hu He. apply Hiff. apply Hiff in Hx. eapply D3; eauto. }
      intros x y Hx Hy. apply Hiff in Hx. apply Hiff in Hy.
      eapply conn_mono; [|apply D4; eauto]. apply Rin_mono. intros z Hz. apply Hiff; auto.
    + rewrite concat_app. simpl. rewrite app_nil_r. apply nodup_app_iff. split; auto.
      split. { eapply Permutation_NoDup; [apply Permutation_sym; exact HP | auto]. }
      intros x Hx Hx'. apply Hiff in Hx'. apply D2 in Hx'. destruct Hx' as [_ Hx'].
      apply Hx'. auto.
    + intros x Hx. rewrite concat_app in Hx. simpl in Hx. rewrite app_nil_r in Hx.
      apply D5. apply in_app_or in Hx. destruct Hx as [Hx | Hx]; auto.
      left. apply Hiff; auto.
Qed.

Lemma components_good gs :
  kcore_components st nodes = Some gs ->
  (forall g, In g gs -> goodg g) /\ NoDup (concat gs).
Proof.
  unfold kcore_components. fold (outer_step (S (length nodes))).
  destruct (fold_left _ _ _) as [[vis' gs']|] eqn:Ef; [|discriminate].
  intros H. inversion H; subst.
  apply outer_fold in Ef.
  - destruct Ef as (_ & H1 & H2 & _). auto.
  - intros x Hx. eapply Permutation_in; [apply sort_perm | auto].
  - split; [|split; [|split]]; simpl; auto.
    + intros x u [].
    + intros g [].
    + constructor.
Qed.
End Dfs.

(* ---------------------------------------------------------------- main theorem *)
Lemma listed_irrefl t G :
  (forall a b s, In (a, b, s) G -> a <> b) -> forall a, listed t G a a = false.
Proof.
  intros Hns a. destruct (listed t G a a) eqn:E; auto.
  apply listed_pair in E. destruct E as [s [H | H]]; apply Hns in H; congruence.
Qed.

Lemma effective_k_ge kk : (2 <= effective_k kk)%Z.
Proof.
  unfold effective_k, clone_kcore_minK. destruct (kk <? 2)%Z eqn:E; [lia|].
  apply Z.ltb_ge in E. exact E.
Qed.

Theorem group_kcore_contract : forall t kk G ord gs,
  Permutation ord (collect_fragments G) ->
  (forall a b s, In (a, b, s) G -> a <> b) ->
  group_kcore_ord t kk G ord = Some gs ->
  contract_kcore (Z.to_N (effective_k kk)) t G gs.
Proof.
  intros t kk G ord gs Hperm Hns H.
  unfold group_kcore_ord in H.
  set (k := effective_k kk) in *. set (nodes := collect_fragments G) in *.
  set (E := listed t G).
  assert (Esym : forall a b, E a b = E b a) by (intros; apply listed_sym).
  assert (Eirr : forall a, E a a = false) by (apply listed_irrefl; auto).
  assert (Hord_nd : NoDup ord).
  { eapply Permutation_NoDup; [apply Permutation_sym; exact Hperm | apply collect_NoDup]. }
  assert (Hord_in : forall x, In x ord <-> In x nodes).
  { intros x. split; apply Permutation_in; auto. apply Permutation_sym; auto. }
  destruct (peel k (S (length nodes)) (kcore_init t G k ord nodes)) as [st|] eqn:Ep; [|discriminate].
  change (kcore_init t G k ord nodes) with (init_state E nodes k ord) in Ep.
  apply (peel_WF E nodes k Esym Eirr) in Ep; [|apply init_WF; auto].
  destruct Ep as [[Ha (Hq1 & _)] Hq0].
  assert (Hnb : forall v, al nodes st v ->
            forall u, In u (nbrs (k_adj st) v) <-> al nodes st u /\ E v u = true).
  { intros v Hv u. destruct (Ha v Hv) as (l & Hg & _ & Hin & _).
    unfold nbrs. rewrite Hg. apply Hin. }
  apply (components_good E nodes st Esym Hnb) in H. destruct H as [Hgood Hnd].
  apply nodup_concat in Hnd. destruct Hnd as [_ Hdisj].
  assert (Hadj : forall a b, E a b = true -> adj t G a b).
  { intros a b He. apply adjb_spec. rewrite adjb_listed. fold (E a b). rewrite He.
    destruct (N.eqb a b) eqn:Eab; auto. apply N.eqb_eq in Eab. subst.
    rewrite Eirr in He. discriminate. }
  split; [split; [|split]|].
  - intros g Hg. destruct (Hgood g Hg) as (H1 & H2 & _). auto.
  - exact Hdisj.
  - intros g Hg a b Ha' Hb'. destruct (Hgood g Hg) as (_ & _ & _ & _ & Hc).
    eapply conn_mono; [|apply Hc; eauto].
    intros x y (Hx & Hy & He). split; [|split]; auto.
  - intros g Hg a Hag. destruct (Hgood g Hg) as (_ & _ & Hal & Hcl & _).
    assert (Hav := Hal a Hag).
    destruct (Ha a Hav) as (l & _ & Hndl & Hin & Hz).
    assert (Hk : (k <= Z.of_nat (length l))%Z).
    { destruct (Z_lt_le_dec (zget (k_deg st) a) k) as [Hlt | Hge]; [|lia].
      apply (Hq1 a Hav) in Hlt. rewrite Hq0 in Hlt. destruct Hlt. }
    assert (Hlen : (length l <= length (filter (adjb t G a) g))%nat).
    { apply NoDup_incl_length; auto. intros u Hu. apply Hin in Hu. destruct Hu as [Hu He].
      apply filter_In. split. eapply Hcl; eauto. apply adjb_spec. auto. }
    unfold deg_in. lia.
Qed.

(* citeable corollaries *)
Corollary group_kcore_min_degree : forall t kk G ord gs,
  Permutation ord (collect_fragments G) ->
  (forall a b s, In (a, b, s) G -> a <> b) ->
  group_kcore_ord t kk G ord = Some gs ->
  forall g, In g gs -> forall a, In a g -> (Z.to_N (effective_k kk) <= deg_in t G g a)%N.
Proof. intros. eapply group_kcore_contract; eauto. Qed.

Corollary group_kcore_default_contract : forall t kk G gs,
  (forall a b s, In (a, b, s) G -> a <> b) ->
  group_kcore t kk G = Some gs ->
  contract_kcore (Z.to_N (effective_k kk)) t G gs.
Proof. intros. eapply group_kcore_contract; eauto. Qed.

Corollary group_kcore_check : forall t kk G ord gs,
  Permutation ord (collect_fragments G) ->
  (forall a b s, In (a, b, s) G -> a <> b) ->
  group_kcore_ord t kk G ord = Some gs ->
  check_kcore (Z.to_N (effective_k kk)) t G gs = true.
Proof. intros. apply check_kcore_spec. eapply group_kcore_contract; eauto. Qed.

