(* Concrete witnesses: the line-count pre-filter defeats the full statement of "verbatim copies are
   found" (finding F19); hypotheses of the theorems are satisfiable. *)
From Coq Require Import ZArith QArith List Bool Lia.
From PV Require Import Gen.DomainConst Gen.CloneConst Clone.Pairs Clone.PairsFacts Clone.PairsProofs Clone.PairsBatch Clone.PairsOrder.
Import ListNotations.
Open Scope Z_scope.

(* a similarity function satisfying every hypothesis of Props/C08.v *)
Definition w_sim (a b : frag) : Q := 1.
Definition w_dist (a b : frag) : Q := 0.
Definition w_gate (a b : frag) : bool := true.
Definition w_sig (h : Z) (feats : list N) : list N := repeat 0%N (Z.to_nat h).
Definition w_bandhash (l : list N) : N := 0%N.

Definition w_cfg : cfg :=
  Build_cfg 5 8 domain_DefaultType1CloneThreshold domain_DefaultType2CloneThreshold domain_DefaultType3CloneThreshold
            domain_DefaultType4CloneThreshold domain_DefaultCloneSimilarityThreshold 0
            clone_service_MaxClonePairs clone_service_BatchSizeThreshold 0 0 0 false false
            domain_DefaultLSHSimilarityThreshold domain_DefaultLSHBands domain_DefaultLSHRows domain_DefaultLSHHashes
            0 1 [Type1; Type2; Type3; Type4].
(* a 10-line function and its copy with 17 comment/blank lines interleaved (27 lines), other file *)
Definition w_a : frag := Build_frag 0 1 1 10 10 10 7 [1; 2; 3]%N [1; 2]%N.
Definition w_b : frag := Build_frag 1 2 1 27 10 27 7 [1; 2; 3]%N [1; 2]%N.
(* the same copy with only 4 extra lines *)
Definition w_b' : frag := Build_frag 1 2 1 14 10 14 7 [1; 2; 3]%N [1; 2]%N.

Lemma w_hyps :
  (forall a b, w_sim a b = w_sim b a) /\ (forall a b, w_dist a b = w_dist b a) /\ (forall a b, w_gate a b = w_gate b a) /\
  (forall a b, f_tree a = f_tree b -> w_sim a b = 1%Q) /\ (forall a b, f_tree a = f_tree b -> w_dist a b = 0%Q) /\
  (forall a b, f_tree a = f_tree b -> w_gate a b = true) /\ (forall h feats, length (w_sig h feats) = Z.to_nat h).
Proof. repeat split; auto. intros. unfold w_sig. apply repeat_length. Qed.

Lemma verbatim_refuted :
  exists c cands a b, validate c = true /\ NoDup cands /\ In a cands /\ In b cands /\ a <> b /\
    verbatim a b /\ overlapping a b = false /\ should_include c a = true /\ should_include c b = true /\
    no_truncation w_sim w_dist w_gate c (extract c cands) /\
    (c_min_sim c <= 1 <= c_max_sim c)%Q /\ In Type1 (c_enabled c) /\
    report w_sim w_dist w_gate w_sig w_bandhash c 2 0 cands = [].
Proof.
  exists w_cfg, [w_a; w_b], w_a, w_b.
  split; [reflexivity|]. split; [repeat constructor; simpl; intuition discriminate|].
  split; [left; reflexivity|]. split; [right; left; reflexivity|]. split; [discriminate|].
  split; [constructor; reflexivity|]. split; [reflexivity|]. split; [reflexivity|]. split; [reflexivity|].
  split; [split; vm_compute; [reflexivity|discriminate]|].
  split; [split; vm_compute; discriminate|]. split; [left; reflexivity|]. vm_compute. reflexivity.
Qed.

(* with the line-count hypothesis the copy is found: the hypotheses of report_verbatim are satisfiable *)
Lemma verbatim_example :
  report w_sim w_dist w_gate w_sig w_bandhash w_cfg 2 0 [w_a; w_b'] = [Build_cpair w_a w_b' 1 0 Type1] /\
  line_filter_passes w_a w_b' /\ ~ line_filter_passes w_a w_b.
Proof. split; [vm_compute; reflexivity|]. unfold line_filter_passes. simpl. split; lia. Qed.

(* F23 (repaired): without the clamp of the band width, rows 200 > hashes 128 gave zero bands *)
Lemma zero_bands_before_fix : Z.min domain_DefaultLSHBands (domain_DefaultLSHHashes / 200) = 0.
Proof. reflexivity. Qed.
Lemma one_band_after_fix :
  bands_eff (Build_cfg 5 8 1 1 1 1 1 0 10 50 0 0 0 false true (1#2) 32 200 128 0 1 []) 128 = 1.
Proof. reflexivity. Qed.
