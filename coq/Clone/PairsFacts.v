(* Basic facts about the pipeline model: comparison operators, classification bands, what every
   produced pair satisfies, symmetry of the pair test. *)
From Coq Require Import ZArith QArith List Bool Arith Lia Permutation Lqa.
From PV Require Import Gen.DomainConst Gen.CloneConst Clone.Pairs.
Import ListNotations.
Open Scope Z_scope.

(* ---------------- generated comparison operators ---------------- *)
Lemma Qle_bool_false : forall a b, Qle_bool a b = false <-> (b < a)%Q.
Proof.
  intros a b. split; intro H.
  - apply Qnot_le_lt. intro L. apply Qle_bool_iff in L. congruence.
  - destruct (Qle_bool a b) eqn:E; auto. apply Qle_bool_iff in E. exfalso. apply (Qlt_not_le _ _ H E).
Qed.

Lemma Qlt_spec : forall a b, clone_Qlt a b = true <-> (a < b)%Q.
Proof. intros. unfold clone_Qlt. rewrite negb_true_iff. apply Qle_bool_false. Qed.

Lemma Qlt_spec_false : forall a b, clone_Qlt a b = false <-> (b <= a)%Q.
Proof. intros. unfold clone_Qlt. rewrite negb_false_iff. apply Qle_bool_iff. Qed.

Lemma in01_spec : forall q, in01 q = true -> (0 <= q <= 1)%Q.
Proof. intros q H. unfold in01 in H. apply andb_true_iff in H as [A B]. apply Qle_bool_iff in A, B. auto. Qed.

Record valid_cfg (c : cfg) : Prop := {
  v_lines : 1 <= c_min_lines c; v_nodes : 1 <= c_min_nodes c;
  v_thr : (0 <= c_sim_thr c <= 1)%Q; v_dist : (0 <= c_max_dist c)%Q;
  v_t1 : (0 <= c_t1 c <= 1)%Q; v_t4 : (0 <= c_t4 c <= 1)%Q;
  v_12 : (c_t2 c < c_t1 c)%Q; v_23 : (c_t3 c < c_t2 c)%Q; v_34 : (c_t4 c < c_t3 c)%Q }.

Lemma validate_spec : forall c, validate c = true -> valid_cfg c.
Proof.
  intros c H. unfold validate in H.
  repeat (apply andb_true_iff in H as [H ?]).
  repeat match goal with
  | X : negb _ = true |- _ => apply negb_true_iff in X; apply Qle_bool_false in X
  | X : in01 _ = true |- _ => apply in01_spec in X
  | X : Qle_bool _ _ = true |- _ => apply Qle_bool_iff in X
  | X : (_ <=? _) = true |- _ => apply Z.leb_le in X
  end.
  constructor; auto.
Qed.

(* ---------------- classification ---------------- *)
Lemma classify_band : forall c s t, valid_cfg c -> classify c s = Some t -> in_band c s t /\ (c_t4 c <= s)%Q.
Proof.
  intros c s t V H. destruct V. unfold classify, clone_classify_cmp1, clone_classify_cmp2, clone_classify_cmp3, clone_classify_cmp4 in H.
  destruct (Qle_bool (c_t1 c) s) eqn:E1.
  { inversion H; subst. apply Qle_bool_iff in E1. simpl. split; auto. lra. }
  apply Qle_bool_false in E1.
  destruct (Qle_bool (c_t2 c) s) eqn:E2.
  { inversion H; subst. apply Qle_bool_iff in E2. simpl. split; [split; auto|]. lra. }
  apply Qle_bool_false in E2.
  destruct (Qle_bool (c_t3 c) s) eqn:E3.
  { inversion H; subst. apply Qle_bool_iff in E3. simpl. split; [split; auto|]. lra. }
  apply Qle_bool_false in E3.
  destruct (Qle_bool (c_t4 c) s) eqn:E4.
  { inversion H; subst. apply Qle_bool_iff in E4. simpl. split; [split; auto|]. lra. }
  discriminate.
Qed.

Lemma classify_one : forall c s, (c_t1 c <= s)%Q -> classify c s = Some Type1.
Proof.
  intros c s H. unfold classify, clone_classify_cmp1. apply Qle_bool_iff in H. rewrite H. reflexivity.
Qed.

(* the band of a similarity is unique *)
Lemma in_band_unique : forall c s t t', valid_cfg c -> in_band c s t -> in_band c s t' -> t = t'.
Proof.
  intros c s t t' V. destruct V. destruct t, t'; simpl; intros; auto; exfalso; lra.
Qed.

(* ---------------- lists ---------------- *)
Lemma pairs_of_in : forall (A : Type) (l : list A) a b, In (a, b) (pairs_of l) -> In a l /\ In b l.
Proof.
  induction l as [|x r IH]; simpl; intros a b H; [contradiction|].
  apply in_app_or in H as [H|H].
  - apply in_map_iff in H as (y & E & Hy). inversion E; subst. auto.
  - apply IH in H. tauto.
Qed.

Lemma pairs_of_cover : forall (A : Type) (l : list A) a b, NoDup l -> In a l -> In b l -> a <> b ->
  In (a, b) (pairs_of l) \/ In (b, a) (pairs_of l).
Proof.
  induction l as [|x r IH]; simpl; intros a b ND Ha Hb Hab; [contradiction|].
  inversion ND; subst.
  destruct Ha as [Ha|Ha], Hb as [Hb|Hb]; subst.
  - congruence.
  - left. apply in_or_app. left. apply in_map. auto.
  - right. apply in_or_app. left. apply in_map. auto.
  - destruct (IH a b H2 Ha Hb Hab); [left|right]; apply in_or_app; right; auto.
Qed.

Lemma pairs_of_distinct : forall (A : Type) (l : list A) a b, NoDup l -> In (a, b) (pairs_of l) -> a <> b.
Proof.
  induction l as [|x r IH]; simpl; intros a b ND H; [contradiction|].
  inversion ND; subst. apply in_app_or in H as [H|H].
  - apply in_map_iff in H as (y & E & Hy). inversion E; subst. intro; subst. contradiction.
  - eapply IH; eauto.
Qed.

Lemma pairs_of_not_both : forall (A : Type) (l : list A) a b, NoDup l -> In (a, b) (pairs_of l) -> ~ In (b, a) (pairs_of l).
Proof.
  induction l as [|x r IH]; simpl; intros a b ND H; [contradiction|].
  inversion ND; subst. intro H'.
  apply in_app_or in H as [H|H]; apply in_app_or in H' as [H'|H'].
  - apply in_map_iff in H as (y & E & Hy). apply in_map_iff in H' as (y' & E' & Hy'). inversion E; inversion E'; subst. contradiction.
  - apply in_map_iff in H as (y & E & Hy). inversion E; subst. apply pairs_of_in in H'. tauto.
  - apply in_map_iff in H' as (y & E & Hy). inversion E; subst. apply pairs_of_in in H. tauto.
  - eapply IH; eauto.
Qed.

Lemma firstn_in : forall (A : Type) n (l : list A) x, In x (firstn n l) -> In x l.
Proof. induction n; destruct l; simpl; intros; auto; try contradiction. destruct H; auto. Qed.

Lemma insert_desc_perm : forall p l, Permutation (insert_desc p l) (p :: l).
Proof.
  induction l as [|x r IH]; simpl; auto.
  destruct (clone_Qlt (p_sim x) (p_sim p)); auto.
  eapply perm_trans; [apply perm_skip, IH| apply perm_swap].
Qed.

Lemma sort_desc_perm : forall l, Permutation (sort_desc l) l.
Proof.
  induction l as [|x r IH]; simpl; auto.
  eapply perm_trans; [apply insert_desc_perm|]. apply perm_skip, IH.
Qed.

Lemma removelast_in : forall (A : Type) (l : list A) x, In x (removelast l) -> In x l.
Proof.
  induction l as [|y r IH]; simpl; intros x H; auto. destruct r; [contradiction|].
  destruct H; auto.
Qed.

Lemma firstn_all_le : forall (A : Type) (l : list A) n, (length l <= n)%nat -> firstn n l = l.
Proof. intros. apply firstn_all2. auto. Qed.

(* ---------------- the pair test ---------------- *)
Section Facts.
Variable sim : frag -> frag -> Q.
Variable dist : frag -> frag -> Q.
Variable gate : frag -> frag -> bool.

Notation compare := (compare sim dist gate).
Notation try_pair := (try_pair sim dist gate).
Notation exhaustive := (exhaustive sim dist gate).
Notation batched := (batched sim dist gate).
Notation detect_pairs := (detect_pairs sim dist gate).

(* what membership in [try_pair] means *)
Record justified (c : cfg) (a b : frag) (p : cpair) : Prop := {
  j_a : p_a p = a; j_b : p_b p = b; j_sim : p_sim p = sim a b; j_dist : p_dist p = dist a b;
  j_overlap : overlapping a b = false;
  j_compare : should_compare a b = true;
  j_jaccard : jaccard_reject a b = false;
  j_gate : c_use_gate c = true -> gate a b = true;
  j_class : classify c (sim a b) = Some (p_type p);
  j_thr : (effective_threshold c <= p_sim p)%Q;
  j_maxdist : (0 < c_max_dist c -> p_dist p <= c_max_dist c)%Q;
  j_size : c_min_nodes c <= Z.min (f_size a) (f_size b) }.

Lemma try_pair_in : forall c a b p, In p (try_pair c a b) <-> justified c a b p.
Proof.
  intros c a b p. unfold Pairs.try_pair, Pairs.compare, significant.
  split.
  - intro H.
    destruct (overlapping a b) eqn:EO; [contradiction|].
    destruct (should_compare a b) eqn:ES; simpl in H; [|contradiction].
    destruct (jaccard_reject a b) eqn:EJ; [contradiction|].
    destruct (c_use_gate c && negb (gate a b)) eqn:EG; [contradiction|].
    destruct (classify c (sim a b)) as [t|] eqn:EC; [|contradiction].
    cbn [p_sim p_dist p_a p_b] in H.
    destruct (clone_sig_cmp_below (sim a b) (effective_threshold c)) eqn:E1; [contradiction|].
    destruct (clone_sig_cmp_distset (c_max_dist c) 0 && clone_sig_cmp_dist (dist a b) (c_max_dist c)) eqn:E2; [contradiction|].
    destruct (clone_sig_cmp_size (Z.min (f_size a) (f_size b)) (c_min_nodes c)) eqn:E3; [|contradiction].
    destruct H as [H|[]]. subst p. constructor; simpl; auto.
    + intro G. rewrite G in EG. simpl in EG. apply negb_false_iff in EG. auto.
    + unfold clone_sig_cmp_below in E1. apply Qlt_spec_false in E1. auto.
    + intro P. unfold clone_sig_cmp_distset, clone_sig_cmp_dist in E2.
      apply andb_false_iff in E2 as [E2|E2].
      * apply Qlt_spec_false in E2. exfalso. apply (Qlt_not_le _ _ P E2).
      * apply Qlt_spec_false in E2. auto.
    + unfold clone_sig_cmp_size in E3. apply Z.leb_le in E3. auto.
  - intros [Ja Jb Js Jd JO JS JJ JG JC JT JM JZ].
    rewrite JO, JS, JJ. simpl.
    assert (EG : c_use_gate c && negb (gate a b) = false).
    { destruct (c_use_gate c); simpl; auto. rewrite JG; auto. }
    rewrite EG, JC. cbn [p_sim p_dist p_a p_b].
    assert (E1 : clone_sig_cmp_below (sim a b) (effective_threshold c) = false).
    { unfold clone_sig_cmp_below. apply Qlt_spec_false. rewrite <- Js. auto. }
    rewrite E1.
    assert (E2 : clone_sig_cmp_distset (c_max_dist c) 0 && clone_sig_cmp_dist (dist a b) (c_max_dist c) = false).
    { unfold clone_sig_cmp_distset, clone_sig_cmp_dist.
      destruct (clone_Qlt 0 (c_max_dist c)) eqn:E; simpl; auto.
      apply Qlt_spec in E. apply Qlt_spec_false. rewrite <- Jd. auto. }
    rewrite E2.
    assert (E3 : clone_sig_cmp_size (Z.min (f_size a) (f_size b)) (c_min_nodes c) = true).
    { unfold clone_sig_cmp_size. apply Z.leb_le. auto. }
    rewrite E3. left. destruct p; simpl in *; subst. reflexivity.
Qed.

Lemma try_pair_length : forall c a b, (length (try_pair c a b) <= 1)%nat.
Proof.
  intros. unfold Pairs.try_pair. destruct (overlapping a b); simpl; auto.
  destruct (compare c a b); simpl; auto. destruct (significant c c0); simpl; auto.
Qed.

Lemma try_pair_set_lsh : forall c u a b, try_pair (set_use_lsh c u) a b = try_pair c a b.
Proof. reflexivity. Qed.

(* overlapping (code) vs overlap_spec (sharing a line of one file) *)
Lemma overlapping_false_spec : forall a b, overlapping a b = false -> ~ overlap_spec a b.
Proof.
  intros a b H [F (l & [A1 A2] & [B1 B2])]. unfold overlapping in H.
  rewrite F, N.eqb_refl in H. simpl in H. apply negb_false_iff in H.
  unfold clone_overlap_cmp1, clone_overlap_cmp2 in H. apply orb_true_iff in H as [H|H]; apply Z.ltb_lt in H; lia.
Qed.

Lemma overlapping_true_spec : forall a b, f_start a <= f_end a -> f_start b <= f_end b ->
  overlapping a b = true -> overlap_spec a b.
Proof.
  intros a b Wa Wb H. unfold overlapping in H.
  destruct (f_file a =? f_file b)%N eqn:F; simpl in H; [|discriminate].
  apply N.eqb_eq in F. apply negb_true_iff in H. apply orb_false_iff in H as [H1 H2].
  unfold clone_overlap_cmp1, clone_overlap_cmp2 in *. apply Z.ltb_ge in H1, H2.
  split; auto. exists (Z.max (f_start a) (f_start b)). lia.
Qed.

(* ---------------- symmetry ---------------- *)
Lemma overlapping_sym : forall a b, overlapping a b = overlapping b a.
Proof.
  intros. unfold overlapping. rewrite (N.eqb_sym (f_file a)). destruct (f_file b =? f_file a)%N; simpl; auto.
  unfold clone_overlap_cmp1, clone_overlap_cmp2. rewrite orb_comm. reflexivity.
Qed.

Lemma should_compare_sym : forall a b, should_compare a b = should_compare b a.
Proof.
  intros. unfold should_compare.
  replace (f_size b - f_size a) with (- (f_size a - f_size b)) by lia. rewrite Z.abs_opp.
  replace (f_lines b - f_lines a) with (- (f_lines a - f_lines b)) by lia. rewrite Z.abs_opp.
  rewrite (Z.add_comm (f_size b)).
  unfold clone_sc_cmp_line1, clone_sc_cmp_line2, clone_sc_line_ratio1, clone_sc_line_ratio2.
  rewrite (andb_comm (clone_Qlt (inject_Z (f_lines b) * _) _)). reflexivity.
Qed.

Lemma memN_in : forall x l, memN x l = true <-> In x l.
Proof.
  intros. unfold memN. rewrite existsb_exists. split.
  - intros (y & Hy & E). apply N.eqb_eq in E. subst. auto.
  - intro. exists x. split; auto. apply N.eqb_refl.
Qed.

Lemma inter_count_sym : forall A B, inter_count A B = inter_count B A.
Proof.
  intros. unfold inter_count. apply Permutation_length. apply NoDup_Permutation.
  - apply NoDup_filter, NoDup_nodup.
  - apply NoDup_filter, NoDup_nodup.
  - intro x. rewrite !filter_In, !memN_in. unfold set_of. rewrite !nodup_In. tauto.
Qed.

Lemma jaccard_sym : forall A B, jaccard A B = jaccard B A.
Proof.
  intros. unfold jaccard, union_count. rewrite (inter_count_sym B A), (Nat.add_comm (length (set_of B))).
  destruct A, B; reflexivity.
Qed.

Lemma jaccard_reject_sym : forall a b, jaccard_reject a b = jaccard_reject b a.
Proof.
  intros. unfold jaccard_reject. rewrite (jaccard_sym (f_feats b)). destruct (f_feats a), (f_feats b); reflexivity.
Qed.

Hypothesis sim_sym : forall a b, sim a b = sim b a.
Hypothesis dist_sym : forall a b, dist a b = dist b a.
Hypothesis gate_sym : forall a b, gate a b = gate b a.

Lemma justified_sym : forall c a b p, justified c a b p -> justified c b a (swap_pair p).
Proof.
  intros c a b p [Ja Jb Js Jd JO JS JJ JG JC JT JM JZ].
  constructor; simpl; auto.
  - rewrite Js. apply sim_sym.
  - rewrite Jd. apply dist_sym.
  - rewrite overlapping_sym. auto.
  - rewrite should_compare_sym. auto.
  - rewrite jaccard_reject_sym. auto.
  - intro G. rewrite gate_sym. auto.
  - rewrite <- sim_sym. auto.
  - rewrite Z.min_comm. auto.
Qed.

Lemma swap_pair_invol : forall p, swap_pair (swap_pair p) = p.
Proof. destruct p; reflexivity. Qed.

Lemma try_pair_sym : forall c a b p, In p (try_pair c a b) <-> In (swap_pair p) (try_pair c b a).
Proof.
  intros. rewrite !try_pair_in. split; intro H.
  - apply justified_sym; auto.
  - apply justified_sym in H. rewrite swap_pair_invol in H. auto.
Qed.

Lemma try_pair_sym_length : forall c a b, length (try_pair c a b) = length (try_pair c b a).
Proof.
  intros c a b.
  pose proof (try_pair_length c a b). pose proof (try_pair_length c b a).
  destruct (try_pair c a b) as [|p l] eqn:E1; destruct (try_pair c b a) as [|q l'] eqn:E2; simpl in *; try lia.
  - exfalso. assert (I : In q (try_pair c b a)) by (rewrite E2; left; auto).
    apply try_pair_sym in I. rewrite E1 in I. contradiction.
  - exfalso. assert (I : In p (try_pair c a b)) by (rewrite E1; left; auto).
    apply try_pair_sym in I. rewrite E2 in I. contradiction.
Qed.

End Facts.
