(* C10 — an executable specification of "the components of the k-core of G_t", used for the
   bounded exactness theorem of k-core mode (the property text itself only demands the
   minimum-degree clause, contract_kcore in GroupSpec.v). *)
From Coq Require Import NArith QArith List Bool.
From PV Require Import Clone.GroupSpec.
Import ListNotations.

(* repeatedly drop the vertices with fewer than k neighbours among the remaining ones *)
Fixpoint prune (k : N) (t : Q) (G : pgraph) (fuel : nat) (S : list N) : list N :=
  match fuel with
  | O => S
  | Datatypes.S f =>
      let S' := filter (fun v => (k <=? deg_in t G S v)%N) S in
      if (length S' =? length S)%nat then S else prune k t G f S'
  end.

(* vertices of G: every fragment that occurs in a pair, without repetition *)
Definition vertices (G : pgraph) : list N :=
  fold_left (fun acc (p : pair) => let '(a, b, _) := p in
     let acc := if memb a acc then acc else acc ++ [a] in
     if memb b acc then acc else acc ++ [b]) G [].

(* connected components of G_t restricted to S *)
Definition components_in (t : Q) (G : pgraph) (S : list N) : list group :=
  fold_left (fun acc v => if existsb (memb v) acc then acc else acc ++ [reach_set (adjb t G) S v]) S [].

Definition spec_kcore_groups (k : N) (t : Q) (G : pgraph) : list group :=
  let V := vertices G in
  filter (fun g => (2 <=? length g)%nat) (components_in t G (prune k t G (length V) V)).

Definition spec_connected_groups (t : Q) (G : pgraph) : list group :=
  filter (fun g => (2 <=? length g)%nat) (components_in t G (vertices G)).
