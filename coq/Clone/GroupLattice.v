(* C10 — the small-scope domain: all weighted pair graphs on n fragments whose weights lie on
   the lattice {absent, t-eps, t, t+eps, 1}. A graph is a number: digit e (base [base]) of
   [code] is the weight of the e-th pair in the order (0,1),(0,2),..,(0,n-1),(1,2),...
   Used by the bounded theorems (GroupBounded.v) and by the harness, which enumerates the same
   codes on the implementation (harness/c10.py mirrors [lattice_graph]). *)
From Coq Require Import NArith QArith List Bool.
From PV Require Import Clone.GroupSpec.
Import ListNotations.

Definition nrange (lo len : nat) : list N := map N.of_nat (seq lo len).

Definition edge_slots (n : nat) : list (N * N) :=
  flat_map (fun i => map (fun j => (N.of_nat i, j)) (nrange (S i) (n - S i))) (seq 0 n).

Definition weight (t eps : Q) (d : N) : option Q :=
  match d with
  | 0%N => None
  | 1%N => Some (Qred (t - eps))
  | 2%N => Some t
  | 3%N => Some (Qred (t + eps))
  | _ => Some 1
  end.

Fixpoint decode (base : N) (t eps : Q) (slots : list (N * N)) (code : N) : pgraph :=
  match slots with
  | [] => []
  | (i, j) :: r =>
      let rest := decode base t eps r (code / base)%N in
      match weight t eps (code mod base)%N with
      | None => rest
      | Some w => (i, j, w) :: rest
      end
  end.

(* variant 1: the pairs in reverse order, each with its fragments swapped *)
Definition lattice_graph (base : N) (t eps : Q) (n : nat) (code : N) (variant : bool) : pgraph :=
  let g := decode base t eps (edge_slots n) code in
  if variant then rev (map (fun p : pair => let '(a, b, s) := p in (b, a, s)) g) else g.

Definition all_codes (base : N) (n : nat) : list N :=
  nrange 0 (N.to_nat (base ^ N.of_nat (length (edge_slots n)))).
