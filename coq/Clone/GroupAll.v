(* C10 — the four mode theorems combined: whatever CreateGroupingStrategy selects, the model's
   groups satisfy the contract of that mode. *)
From Coq Require Import NArith ZArith QArith List Bool Permutation.
From PV Require Import Gen.GroupConst Clone.GroupSpec Clone.GroupSpecProofs Clone.GroupCommon
  Clone.GroupConnected Clone.GroupComplete Clone.GroupKCore Clone.GroupStar Clone.GroupLattice Clone.GroupRun
  Clone.GroupConnectedProofs Clone.GroupCompleteProofs Clone.GroupKCoreProofs Clone.GroupStarProofs.
Import ListNotations.

Theorem run_model_contract : forall m k t G ord gs,
  (0 < t)%Q ->
  (forall a b s, In (a, b, s) G -> a <> b) ->
  Permutation ord (collect_fragments G) ->
  run_model m k t G ord = Some gs ->
  contract m (contract_k k) t G gs.
Proof.
  intros m k t G ord gs Ht Hself Hord Hrun. destruct m; simpl in *.
  - inversion Hrun; subst. apply group_connected_contract.
  - apply group_complete_contract; auto.
  - unfold contract_k. eapply group_kcore_contract; eauto.
  - inversion Hrun; subst. apply group_star_contract; auto.
Qed.

(* the hypotheses are satisfiable and the conclusion is not vacuous: a triangle at the threshold
   with a pendant fragment below it *)
Definition example_graph : pgraph := [(0, 1, 3 # 4); (1, 2, 3 # 4); (0, 2, 7 # 8); (2, 3, 1 # 2)]%N.

Example example_runs :
  map (fun m => run_model m 2 (3 # 4) example_graph [0; 1; 2; 3]%N) [MConnected; MComplete; MKCore; MStar]
  = [Some [[0; 1; 2]]; Some [[0; 1; 2]]; Some [[0; 1; 2]]; Some [[0; 1; 2]]]%N.
Proof. vm_compute. reflexivity. Qed.
