(* C10 — model of ConnectedGrouping.GroupClones (internal/analyzer/connected_grouping.go:19-141).
   Union-find over the pairs with similarity >= threshold, one group per class with >= 2
   members, members sorted by location. See GroupCommon.v for the union-find modelling note.
   Not modelled: group Similarity/CloneType, group ids and the final ordering of groups
   (connected_grouping.go:117-138) — C10 observes the groups as a set of sets. *)
From Coq Require Import NArith QArith List Bool.
From PV Require Import Clone.GroupSpec Clone.GroupCommon.
Import ListNotations.

(* connected_grouping.go:91-97: union only for pairs meeting the threshold *)
Definition connected_uf (t : Q) (G : pgraph) (frs : list N) : uf :=
  fold_left (fun u (p : pair) => let '(a, b, s) := p in
               if Qle_bool t s then uf_union u a b else u) G (uf_init frs).

(* connected_grouping.go:99-116 *)
Definition group_connected (t : Q) (G : pgraph) : list group :=
  let frs := collect_fragments G in
  let u := connected_uf t G frs in
  map sort_frags (filter (fun m => (2 <=? length m)%nat) (build_clusters (uf_find u) frs)).
