(* Verbatim copies are found; the report does not depend on the order of fragments; LSH keeps
   fragments with identical feature sets. *)
From Coq Require Import ZArith QArith List Bool Arith Lia Permutation Lqa.
From PV Require Import Gen.DomainConst Gen.CloneConst Clone.Pairs Clone.PairsFacts Clone.PairsProofs Clone.PairsBatch.
Import ListNotations.
Open Scope Z_scope.

(* ---------------- LSH keys ---------------- *)
Lemma key_eqb_eq : forall k1 k2, key_eqb k1 k2 = true <-> k1 = k2.
Proof.
  intros [a b] [a' b']. unfold key_eqb. simpl. rewrite andb_true_iff, Nat.eqb_eq, N.eqb_eq. split.
  - intros [-> ->]. auto.
  - intro E. inversion E. auto.
Qed.

Lemma share_keys_spec : forall ka kb, share_keys ka kb = true <-> exists k, In k ka /\ In k kb.
Proof.
  intros. unfold share_keys. rewrite existsb_exists. split.
  - intros (k & Hk & H). apply existsb_exists in H as (k' & Hk' & E). apply key_eqb_eq in E. subst. eauto.
  - intros (k & H1 & H2). exists k. split; auto. apply existsb_exists. exists k. split; auto. apply key_eqb_eq. auto.
Qed.

Lemma share_keys_sym : forall ka kb, share_keys ka kb = share_keys kb ka.
Proof.
  intros. apply eq_true_iff_eq. rewrite !share_keys_spec. split; intros (k & H1 & H2); eauto.
Qed.

Lemma matches_sym : forall s1 s2, matches s1 s2 = matches s2 s1.
Proof. induction s1; destruct s2; simpl; auto. rewrite N.eqb_sym, IHs1. auto. Qed.

Lemma matches_refl : forall s, matches s s = length s.
Proof. induction s; simpl; auto. rewrite N.eqb_refl, IHs. auto. Qed.

Section Order.
Variable sim : frag -> frag -> Q.
Variable dist : frag -> frag -> Q.
Variable gate : frag -> frag -> bool.
Variable sig : Z -> list N -> list N.
Variable bandhash : list N -> N.

Notation try_pair := (try_pair sim dist gate).
Notation exhaustive := (exhaustive sim dist gate).
Notation batched := (batched sim dist gate).
Notation detect_pairs := (detect_pairs sim dist gate).
Notation lsh_try := (lsh_try sim dist gate sig).
Notation lsh_pairs := (lsh_pairs sim dist gate sig bandhash).
Notation detect_lsh := (detect_lsh sim dist gate sig bandhash).
Notation report := (report sim dist gate sig bandhash).
Notation signature := (signature sig).
Notation share_band := (share_band sig bandhash).
Notation no_truncation := (no_truncation sim dist gate).

Lemma estimate_sym : forall s1 s2, estimate s1 s2 = estimate s2 s1.
Proof. intros. unfold estimate. rewrite Nat.min_comm, matches_sym. reflexivity. Qed.

Lemma share_band_sym : forall c a b, share_band c a b = share_band c b a.
Proof. intros. unfold Pairs.share_band. apply share_keys_sym. Qed.

Lemma lsh_try_spec : forall c a b p, In p (lsh_try c a b) <->
  clone_lsh_cmp_est (estimate (signature c a) (signature c b)) (lsh_threshold c) = false /\ In p (try_pair c a b).
Proof.
  intros. unfold Pairs.lsh_try, Pairs.try_pair. destruct (overlapping a b); [simpl; tauto|].
  destruct (clone_lsh_cmp_est _ _); [simpl; split; [contradiction|intros [? _]; discriminate]|]. tauto.
Qed.

(* ---------------- LSH keeps fragments with identical feature sets ---------------- *)
(* Go: make([]uint64, numHashes) — a signature has exactly numHashes entries *)
Hypothesis sig_len : forall h feats, length (sig h feats) = Z.to_nat h.

Lemma hashes_eff_pos : forall c, 0 < hashes_eff c.
Proof. intro c. unfold hashes_eff. destruct (c_lsh_hashes c <=? 0) eqn:E; [reflexivity|apply Z.leb_gt in E; auto]. Qed.
Lemma rows_eff_pos : forall c, 0 < rows_eff c.
Proof. intro c. unfold rows_eff. destruct (c_lsh_rows c <=? 0) eqn:E; [reflexivity|apply Z.leb_gt in E; auto]. Qed.
Lemma bands_cfg_pos : forall c, 0 < bands_cfg c.
Proof. intro c. unfold bands_cfg. destruct (c_lsh_bands c <=? 0) eqn:E; [reflexivity|apply Z.leb_gt in E; auto]. Qed.

(* at least one band whatever bands/rows/hashes are (this is where the clamp of the band width to
   the signature length in computeBandKeys is used) *)
Lemma bands_eff_pos : forall c total, 0 < total -> 1 <= bands_eff c total.
Proof.
  intros c total Ht. unfold bands_eff, rows_used, clone_lsh_rows_used.
  pose proof (rows_eff_pos c) as Hr. pose proof (bands_cfg_pos c) as Hb.
  assert (D : 1 <= total / (if Z.ltb 0 total && Z.ltb total (rows_eff c) then total else rows_eff c)).
  { destruct (Z.ltb 0 total && Z.ltb total (rows_eff c)) eqn:E.
    - rewrite Z.div_same by lia. lia.
    - apply andb_false_iff in E as [E|E]; apply Z.ltb_ge in E; [lia|].
      apply Z.div_le_lower_bound; lia. }
  lia.
Qed.

Lemma band_keys_nonempty : forall c f, band_keys bandhash c (signature c f) <> [].
Proof.
  intros c f. unfold band_keys, Pairs.signature. rewrite sig_len.
  pose proof (hashes_eff_pos c) as Hh. rewrite Z2Nat.id by lia.
  pose proof (bands_eff_pos c (hashes_eff c) Hh) as Hb.
  destruct (Z.to_nat (bands_eff c (hashes_eff c))) eqn:E; [lia|]. simpl. discriminate.
Qed.

Lemma lsh_threshold_le1 : forall c, (lsh_threshold c <= 1)%Q.
Proof.
  intro c. unfold lsh_threshold. destruct (clone_Qlt (c_lsh_thr c) 0) eqn:E1; [lra|].
  destruct (clone_Qlt 1 (c_lsh_thr c)) eqn:E2; [lra|]. apply Qlt_spec_false in E2. auto.
Qed.

Lemma estimate_same : forall c f, (estimate (signature c f) (signature c f) == 1)%Q.
Proof.
  intros c f. unfold estimate. rewrite Nat.min_id, matches_refl. unfold Pairs.signature. rewrite sig_len.
  pose proof (hashes_eff_pos c) as Hh.
  destruct (Z.to_nat (hashes_eff c)) eqn:E; [lia|].
  apply Qmult_inv_r. unfold Qeq, inject_Z. simpl. lia.
Qed.

Lemma lsh_keeps : forall c fs a b p, f_lshfeats a = f_lshfeats b ->
  In (a, b) (pairs_of fs) -> In p (try_pair c a b) -> In p (lsh_pairs c fs).
Proof.
  intros c fs a b p F Hab Hp. apply (lsh_pairs_in sim dist gate sig bandhash). exists a, b. split; auto.
  assert (S : signature c a = signature c b) by (unfold Pairs.signature; rewrite F; auto).
  split.
  - unfold Pairs.share_band. rewrite <- S. apply share_keys_spec.
    pose proof (band_keys_nonempty c a) as NE. destruct (band_keys bandhash c (signature c a)) as [|k l]; [congruence|].
    exists k. simpl. auto.
  - apply lsh_try_spec. split; auto. rewrite <- S. unfold clone_lsh_cmp_est. apply Qlt_spec_false.
    rewrite estimate_same. apply lsh_threshold_le1.
Qed.

(* C09: a pair the exhaustive loop reports whose two fragments have identical LSH feature sets is
   reported by the LSH path too (same record) *)
Lemma lsh_keeps_identical : forall c fs p, In p (exhaustive c fs) -> f_lshfeats (p_a p) = f_lshfeats (p_b p) ->
  In p (lsh_pairs c fs).
Proof.
  intros c fs p H F. apply (exhaustive_in sim dist gate) in H as (a & b & Hab & Hp).
  pose proof Hp as J. apply try_pair_in in J. destruct J. rewrite j_a, j_b in F.
  eapply lsh_keeps; eauto.
Qed.

(* ... and through the complete LSH entry point when the pair limit does not cut *)
Lemma detect_lsh_keeps_identical : forall c fs p, c_use_lsh c = true ->
  Z.of_nat (length (exhaustive c fs)) <= c_max_pairs c ->
  In p (exhaustive c fs) -> f_lshfeats (p_a p) = f_lshfeats (p_b p) -> In p (detect_lsh c fs).
Proof.
  intros c fs p U Len H F. unfold Pairs.detect_lsh. rewrite U. simpl.
  destruct (length fs <=? 1)%nat eqn:E.
  - apply Nat.leb_le in E. rewrite (exhaustive_short sim dist gate) in H by auto. contradiction.
  - assert (LL : Z.of_nat (length (lsh_pairs c fs)) <= c_max_pairs c).
    { assert ((length (lsh_pairs c fs) <= length (exhaustive c fs))%nat); [|lia].
      unfold Pairs.lsh_pairs, Pairs.exhaustive. cbv zeta. rewrite pairs_of_map.
      induction (pairs_of fs) as [|[x y] r IH]; simpl; auto.
      destruct (share_keys _ _); simpl; rewrite !app_length.
      - destruct (lsh_try_cases sim dist gate sig c x y) as [E'|E']; rewrite E'; simpl; lia.
      - lia. }
    apply (Permutation_in _ (Permutation_sym (limit_and_sort_all c _ LL))). apply lsh_keeps_identical; auto.
Qed.

(* the LSH entry point never reports a pair the exhaustive comparison would not report *)
Lemma detect_lsh_subset : forall c fs p, c_use_lsh c = true -> (1 < length fs)%nat ->
  In p (detect_lsh c fs) -> In p (exhaustive c fs).
Proof.
  intros c fs p U L H. unfold Pairs.detect_lsh in H. rewrite U in H. simpl in H.
  assert (E : (length fs <=? 1)%nat = false) by (apply Nat.leb_gt; auto). rewrite E in H.
  apply limit_and_sort_in in H. apply (lsh_pairs_subset sim dist gate sig bandhash). auto.
Qed.

(* ---------------- symmetric similarity: order independence ---------------- *)
Hypothesis sim_sym : forall a b, sim a b = sim b a.
Hypothesis dist_sym : forall a b, dist a b = dist b a.
Hypothesis gate_sym : forall a b, gate a b = gate b a.

Lemma lsh_pairs_sym_in : forall c fs p, NoDup fs ->
  (In_sym p (lsh_pairs c fs) <->
   exists a b, In a fs /\ In b fs /\ a <> b /\ share_band c a b = true /\ In p (lsh_try c a b)).
Proof.
  intros c fs p ND.
  assert (SW : forall a b q, In q (lsh_try c a b) -> In (swap_pair q) (lsh_try c b a)).
  { intros a b q H. apply lsh_try_spec in H as [E H]. apply lsh_try_spec. rewrite estimate_sym. split; auto.
    apply (try_pair_swap sim dist gate sim_sym dist_sym gate_sym). auto. }
  unfold In_sym. rewrite !(lsh_pairs_in sim dist gate sig bandhash). split.
  - intros [(a & b & H1 & S & H2)|(a & b & H1 & S & H2)].
    + pose proof (pairs_of_distinct _ _ _ _ ND H1). apply pairs_of_in in H1. exists a, b. tauto.
    + pose proof (pairs_of_distinct _ _ _ _ ND H1). apply pairs_of_in in H1. apply SW in H2. rewrite swap_pair_invol in H2.
      exists b, a. rewrite share_band_sym. repeat split; auto; tauto.
  - intros (a & b & Ha & Hb & Ne & S & H).
    destruct (pairs_of_cover _ fs a b ND Ha Hb Ne) as [P|P].
    + left. exists a, b. auto.
    + right. exists b, a. rewrite share_band_sym. auto.
Qed.

Lemma lsh_pairs_length : forall c fs, (length (lsh_pairs c fs) <= length (exhaustive c fs))%nat.
Proof.
  intros c fs. unfold Pairs.lsh_pairs, Pairs.exhaustive. cbv zeta. rewrite pairs_of_map.
  induction (pairs_of fs) as [|[a b] r IH]; simpl; auto.
  destruct (share_keys _ _); simpl; rewrite !app_length.
  - destruct (lsh_try_cases sim dist gate sig c a b) as [E|E]; rewrite E; simpl; lia.
  - lia.
Qed.

(* the complete detection, whatever path it takes, as a set of unordered pairs *)
Definition lsh_active (c : cfg) (fs : list frag) : bool := c_use_lsh c && negb (length fs <=? 1)%nat.

Lemma detect_lsh_sym_in : forall c fs p, valid_cfg c -> NoDup fs -> no_truncation c fs ->
  (In_sym p (detect_lsh c fs) <->
   exists a b, In a fs /\ In b fs /\ a <> b /\ In p (try_pair c a b) /\
               (lsh_active c fs = true -> share_band c a b = true /\ In p (lsh_try c a b))).
Proof.
  intros c fs p V ND NT. unfold Pairs.detect_lsh, lsh_active.
  destruct (c_use_lsh c); simpl.
  2:{ rewrite (detect_pairs_same_set sim dist gate sim_sym dist_sym gate_sym c fs V ND NT p).
      rewrite (exhaustive_sym_in sim dist gate sim_sym dist_sym gate_sym) by auto.
      split; intros (a & b & H); exists a, b; intuition discriminate. }
  destruct (length fs <=? 1)%nat; simpl.
  { rewrite (detect_pairs_same_set sim dist gate sim_sym dist_sym gate_sym c fs V ND NT p).
    rewrite (exhaustive_sym_in sim dist gate sim_sym dist_sym gate_sym) by auto.
    split; intros (a & b & H); exists a, b; intuition discriminate. }
  destruct NT as [Hm Len].
  assert (LL : Z.of_nat (length (lsh_pairs c fs)) <= c_max_pairs c) by (pose proof (lsh_pairs_length c fs); lia).
  rewrite (In_sym_perm p _ _ (limit_and_sort_all c _ LL)).
  rewrite lsh_pairs_sym_in by auto.
  split; intros (a & b & Ha & Hb & Ne & H); exists a, b; repeat split; auto; try tauto.
  destruct H as [_ H]. apply (lsh_try_in sim dist gate sig c a b p H).
Qed.

Lemma service_keep_swap : forall c p, service_keep c (swap_pair p) = service_keep c p.
Proof. reflexivity. Qed.

Lemma service_filter_sym_in : forall c r p, In_sym p (service_filter c r) <-> service_keep c p = true /\ In_sym p r.
Proof.
  intros. unfold In_sym, service_filter. rewrite !filter_In, service_keep_swap. tauto.
Qed.

Lemma filter_perm : forall (A : Type) (f : A -> bool) (l l' : list A), Permutation l l' -> Permutation (filter f l) (filter f l').
Proof.
  induction 1; simpl; auto.
  - destruct (f x); auto.
  - destruct (f x), (f y); auto. apply perm_swap.
  - eapply perm_trans; eauto.
Qed.

(* C08, third part: the reported set does not depend on the order of the fragments (files), nor on
   which fragment of a pair is listed first *)
Theorem report_order : forall c mode auto cands cands', validate c = true ->
  NoDup cands -> Permutation cands cands' ->
  no_truncation c (extract c cands) -> no_truncation c (extract c cands') ->
  same_pair_set (report c mode auto cands) (report c mode auto cands').
Proof.
  intros c mode auto cands cands' Val ND P NT NT' p. apply validate_spec in Val.
  unfold Pairs.report. cbv zeta.
  pose proof (filter_perm _ (should_include c) _ _ P) as PF. fold (extract c cands) in PF. fold (extract c cands') in PF.
  assert (NDf : NoDup (extract c cands)) by (apply NoDup_filter; auto).
  assert (NDf' : NoDup (extract c cands')) by (eapply Permutation_NoDup; eauto).
  rewrite <- (Permutation_length PF).
  set (c' := set_use_lsh c (should_use_lsh mode (Z.of_nat (length (extract c cands))) auto)).
  rewrite !service_filter_sym_in.
  assert (V' : valid_cfg c') by (destruct Val; constructor; auto).
  rewrite (detect_lsh_sym_in c' _ p V' NDf NT), (detect_lsh_sym_in c' _ p V' NDf' NT').
  unfold lsh_active. rewrite <- (Permutation_length PF).
  split; intros [K (a & b & Ha & Hb & H)]; (split; [auto|]); exists a, b.
  - split; [eapply Permutation_in; eauto|]. split; [eapply Permutation_in; eauto|]. auto.
  - apply Permutation_sym in PF. split; [eapply Permutation_in; eauto|]. split; [eapply Permutation_in; eauto|]. auto.
Qed.

(* ---------------- verbatim copies ---------------- *)
Hypothesis sim_same : forall a b, f_tree a = f_tree b -> sim a b = 1%Q.
Hypothesis dist_same : forall a b, f_tree a = f_tree b -> dist a b = 0%Q.
Hypothesis gate_same : forall a b, f_tree a = f_tree b -> gate a b = true.

(* b is a verbatim copy of a: same tree, hence same node count and same feature sets *)
Record verbatim (a b : frag) : Prop := {
  vb_tree : f_tree a = f_tree b; vb_size : f_size a = f_size b;
  vb_feats : f_feats a = f_feats b; vb_lsh : f_lshfeats a = f_lshfeats b }.

(* the line-count pre-filter of shouldCompareFragments does not fire *)
Definition line_filter_passes (a b : frag) : Prop :=
  2 * Z.abs (f_lines a - f_lines b) <= f_lines a \/ 2 * Z.abs (f_lines a - f_lines b) <= f_lines b.

Lemma should_compare_verbatim : forall a b, f_size a = f_size b -> line_filter_passes a b -> should_compare a b = true.
Proof.
  intros a b S L. unfold should_compare. rewrite S, Z.sub_diag. simpl Z.abs.
  assert (E1 : clone_sc_cmp_size (inject_Z 0 / (inject_Z (f_size b + f_size b) / clone_sc_avg_div))%Q clone_sc_size_ratio = false).
  { unfold clone_sc_cmp_size. apply Qlt_spec_false. unfold clone_sc_size_ratio.
    assert (Z0 : (inject_Z 0 / (inject_Z (f_size b + f_size b) / clone_sc_avg_div) == 0)%Q) by (unfold Qdiv; apply Qmult_0_l).
    rewrite Z0. lra. }
  rewrite E1, andb_false_r.
  assert (E2 : clone_sc_cmp_line1 (inject_Z (Z.abs (f_lines a - f_lines b))) (inject_Z (f_lines a) * clone_sc_line_ratio1)%Q &&
               clone_sc_cmp_line2 (inject_Z (Z.abs (f_lines a - f_lines b))) (inject_Z (f_lines b) * clone_sc_line_ratio2)%Q = false).
  { unfold clone_sc_cmp_line1, clone_sc_cmp_line2, clone_sc_line_ratio1, clone_sc_line_ratio2.
    apply andb_false_iff. destruct L as [L|L]; [left|right]; apply Qlt_spec_false;
    unfold Qle, Qmult, inject_Z; simpl; lia. }
  rewrite E2. reflexivity.
Qed.

Lemma filter_all_true : forall (A : Type) (f : A -> bool) (l : list A), (forall x, In x l -> f x = true) -> filter f l = l.
Proof.
  induction l as [|x r IH]; simpl; intro H; auto. rewrite (H x (or_introl eq_refl)), IH; auto.
Qed.

Lemma inter_count_same : forall A, inter_count A A = length (set_of A).
Proof.
  intro A. unfold inter_count. f_equal. apply filter_all_true.
  intros x H. apply memN_in. unfold set_of in H. apply nodup_In in H. auto.
Qed.

Lemma jaccard_reject_same : forall a b, f_feats a = f_feats b -> jaccard_reject a b = false.
Proof.
  intros a b F. unfold jaccard_reject. rewrite <- F. destruct (f_feats a) as [|x l] eqn:E; auto.
  apply Qlt_spec_false. unfold jaccard, union_count. rewrite inter_count_same.
  replace (length (set_of (x :: l)) + length (set_of (x :: l)) - length (set_of (x :: l)))%nat with (length (set_of (x :: l))) by lia.
  assert (NZ : (0 < length (set_of (x :: l)))%nat).
  { destruct (set_of (x :: l)) eqn:E2; simpl; try lia.
    assert (I : In x (set_of (x :: l))) by (unfold set_of; apply nodup_In; left; auto). rewrite E2 in I. contradiction. }
  assert (Q1 : (inject_Z (Z.of_nat (length (set_of (x :: l)))) / inject_Z (Z.of_nat (length (set_of (x :: l)))) == 1)%Q).
  { apply Qmult_inv_r. unfold Qeq, inject_Z. cbn [Qnum Qden]. lia. }
  rewrite Q1. unfold analyzer_jaccardRejectionThreshold. lra.
Qed.

Lemma try_pair_verbatim : forall c a b, valid_cfg c -> verbatim a b -> overlapping a b = false ->
  should_include c a = true -> should_include c b = true -> line_filter_passes a b ->
  In (Build_cpair a b 1 0 Type1) (try_pair c a b).
Proof.
  intros c a b V [T S F _] O Ia Ib L. apply try_pair_in. destruct V.
  apply should_include_spec in Ia, Ib.
  constructor; simpl; auto.
  - symmetry. apply sim_same. auto.
  - symmetry. apply dist_same. auto.
  - apply should_compare_verbatim; auto.
  - apply jaccard_reject_same; auto.
  - rewrite sim_same by auto. apply classify_one. tauto.
  - unfold effective_threshold. destruct (clone_sig_cmp_unset (c_sim_thr c) 0); [lra|tauto].
  - lia.
Qed.

(* C08, second part (partial: under the explicit line-count hypothesis, see C08_verbatim_refuted) *)
Theorem report_verbatim : forall c mode auto cands a b, validate c = true -> NoDup cands ->
  In a cands -> In b cands -> a <> b -> verbatim a b -> overlapping a b = false ->
  should_include c a = true -> should_include c b = true -> line_filter_passes a b ->
  no_truncation c (extract c cands) ->
  (c_min_sim c <= 1 <= c_max_sim c)%Q -> In Type1 (c_enabled c) ->
  In_sym (Build_cpair a b 1 0 Type1) (report c mode auto cands).
Proof.
  intros c mode auto cands a b Val ND Ha Hb Ne VB O Ia Ib L NT [R1 R2] En. apply validate_spec in Val.
  unfold Pairs.report. cbv zeta. apply service_filter_sym_in. split.
  - unfold service_keep. simpl. apply andb_true_iff. split.
    + apply negb_true_iff. apply orb_false_iff. unfold clone_filter_cmp_min, clone_filter_cmp_max.
      split; apply Qlt_spec_false; auto.
    + apply existsb_exists. exists Type1. auto.
  - set (c' := set_use_lsh c _).
    assert (V' : valid_cfg c') by (destruct Val; constructor; auto).
    assert (NDf : NoDup (extract c cands)) by (apply NoDup_filter; auto).
    apply (detect_lsh_sym_in c' _ _ V' NDf NT).
    exists a, b. split; [apply filter_In; auto|]. split; [apply filter_In; auto|]. split; auto.
    pose proof (try_pair_verbatim c a b Val VB O Ia Ib L) as TP.
    split; [exact TP|]. intros _.
    assert (S : signature c' a = signature c' b) by (unfold Pairs.signature; rewrite (vb_lsh _ _ VB); auto).
    split.
    + unfold Pairs.share_band. rewrite <- S. apply share_keys_spec.
      pose proof (band_keys_nonempty c' a) as NE. destruct (band_keys bandhash c' (signature c' a)) as [|k l]; [congruence|].
      exists k. simpl. auto.
    + apply lsh_try_spec. split; [|exact TP]. rewrite <- S. unfold clone_lsh_cmp_est. apply Qlt_spec_false.
      rewrite estimate_same. apply lsh_threshold_le1.
Qed.

End Order.
