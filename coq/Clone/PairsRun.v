(* Entry points used by the correspondence checks (harness/c08.py, harness/c09.py): the Section
   variables of Clone/Pairs.v are instantiated with tables observed on the implementation. *)
From Coq Require Import ZArith QArith List Bool.
From PV Require Import Gen.DomainConst Gen.CloneConst Clone.Pairs.
Import ListNotations.
Open Scope Z_scope.

(* one cell per ordered fragment pair: similarity and distance observed on the implementation; pairs
   whose similarity is below Type4Threshold may be omitted (classify gives None for them and for the
   default 0 alike) *)
Definition qtab := list (N * N * Q * Q).
Definition lookup_cell (tab : qtab) (a b : frag) : option (N * N * Q * Q) :=
  find (fun e => (fst (fst (fst e)) =? f_id a)%N && (snd (fst (fst e)) =? f_id b)%N) tab.
Definition lookupSim (tab : qtab) (a b : frag) : Q := match lookup_cell tab a b with Some e => snd (fst e) | None => 0 end.
Definition lookupDist (tab : qtab) (a b : frag) : Q := match lookup_cell tab a b with Some e => snd e | None => 0 end.
(* gate: listed pairs are the ones the classifier rejects *)
Definition lookupGate (tab : list (N * N)) (a b : frag) : bool :=
  negb (existsb (fun e => (fst e =? f_id a)%N && (snd e =? f_id b)%N) tab).
Fixpoint list_eqb (l1 l2 : list N) : bool :=
  match l1, l2 with
  | [], [] => true
  | x :: r1, y :: r2 => (x =? y)%N && list_eqb r1 r2
  | _, _ => false
  end.
Definition lookupSig (tab : list (list N * list N)) (h : Z) (feats : list N) : list N :=
  match find (fun e => list_eqb (fst e) feats) tab with Some e => snd e | None => [] end.
(* hash/fnv New64a over the big-endian bytes of the band slice, as lsh_index.go:108-118 *)
Definition fnv_byte (h b : N) : N := N.land (N.lxor h b * 1099511628211) 18446744073709551615.
Definition fnv_u64 (h v : N) : N :=
  fold_left (fun h k => fnv_byte h (N.land (N.shiftr v (8 * k)) 255)) [7; 6; 5; 4; 3; 2; 1; 0]%N h.
Definition bandhash_fnv (l : list N) : N := fold_left fnv_u64 l 14695981039346656037%N.

Definition out_pair (p : cpair) : N * N * Z := (f_id (p_a p), f_id (p_b p), ctype_code (p_type p)).

Record tables := Build_tables { t_cells : qtab; t_gate : list (N * N); t_sig : list (list N * list N) }.
(* signatures may be given with densely renumbered values (only equality of entries matters to the model);
   then the band hash is a polynomial hash of the codes *)
Definition bandhash_poly (l : list N) : N := fold_left (fun acc x => (acc * 1000003 + x + 1) mod 2305843009213693951)%N l 7%N.

Definition run_extract (c : cfg) (cands : list frag) : list N := map f_id (extract c cands).

Definition run_exhaustive (t : tables) (c : cfg) (fs : list frag) :=
  map out_pair (exhaustive (lookupSim (t_cells t)) (lookupDist (t_cells t)) (lookupGate (t_gate t)) c fs).
Definition run_detect (t : tables) (c : cfg) (fs : list frag) :=
  map out_pair (detect_pairs (lookupSim (t_cells t)) (lookupDist (t_cells t)) (lookupGate (t_gate t)) c fs).
Definition run_batched (t : tables) (c : cfg) (fs : list frag) (bs : Z) :=
  map out_pair (limit_and_sort c (batched (lookupSim (t_cells t)) (lookupDist (t_cells t)) (lookupGate (t_gate t)) c fs (c_max_pairs c) bs)).
Definition run_lsh (t : tables) (c : cfg) (fs : list frag) :=
  map out_pair (detect_lsh (lookupSim (t_cells t)) (lookupDist (t_cells t)) (lookupGate (t_gate t)) (lookupSig (t_sig t)) bandhash_poly c fs).
Definition run_report (t : tables) (c : cfg) (mode auto : Z) (cands : list frag) :=
  map out_pair (report (lookupSim (t_cells t)) (lookupDist (t_cells t)) (lookupGate (t_gate t)) (lookupSig (t_sig t)) bandhash_poly c mode auto cands).
Definition run_visits (bs n : Z) := map (fun ij => (Z.of_nat (fst ij), Z.of_nat (snd ij))) (batch_visits (Z.to_nat bs) (Z.to_nat n)).
Definition run_bandkeys (t : tables) (c : cfg) (fs : list frag) :=
  map (fun f => map (fun k => (Z.of_nat (fst k), snd k)) (band_keys bandhash_fnv c (signature (lookupSig (t_sig t)) c f))) fs.
