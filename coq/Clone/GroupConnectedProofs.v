(* C10 — connected mode: the model of ConnectedGrouping.GroupClones returns exactly the connected
   components of G_t with at least two members (all pair lists, all thresholds). *)
From Coq Require Import NArith QArith List Bool Lia Arith Permutation.
From PV Require Import Clone.GroupSpec Clone.GroupSpecProofs Clone.GroupCommon Clone.GroupCommonProofs
  Clone.GroupConnected.
Import ListNotations.

Section Connected.
Variable t : Q.

(* a processed pair meeting the threshold joins a and b (self pairs allowed here) *)
Definition link (E : pgraph) (a b : N) : Prop :=
  exists s, (t <= s)%Q /\ (In (a, b, s) E \/ In (b, a, s) E).

Lemma link_sym E a b : link E a b -> link E b a.
Proof. intros [s [H1 H2]]. exists s. tauto. Qed.

Lemma link_mono E E' a b : incl E E' -> link E a b -> link E' a b.
Proof. intros Hi [s [H1 [H2 | H2]]]; exists s; split; auto. Qed.

Definition uf_step (u : uf) (p : pair) : uf :=
  let '(a, b, s) := p in if Qle_bool t s then uf_union u a b else u.

(* invariant of the union loop after the pairs E have been processed *)
Record inv (frs : list N) (u : uf) (E : pgraph) : Prop := {
  inv_keys : map fst u = frs;
  inv_sound : forall x y, In x frs -> In y frs -> uf_find u x = uf_find u y -> conn (link E) x y;
  inv_compl : forall x y, link E x y -> uf_find u x = uf_find u y;
  inv_dom : forall x y, link E x y -> In x frs /\ In y frs }.

Lemma inv_conn frs u E x y : inv frs u E -> conn (link E) x y -> uf_find u x = uf_find u y.
Proof.
  intros Hi H. induction H; auto. rewrite <- IHconn. eapply inv_compl; eauto.
Qed.

Lemma inv_init frs : inv frs (uf_init frs) [].
Proof.
  split.
  - apply uf_init_keys.
  - intros x y _ _. rewrite !uf_find_init. intros ->. constructor.
  - intros x y [s [_ [[] | []]]].
  - intros x y [s [_ [[] | []]]].
Qed.

Lemma inv_step frs u E a b s :
  In a frs -> In b frs -> inv frs u E -> inv frs (uf_step u (a, b, s)) (E ++ [(a, b, s)]).
Proof.
  intros Ha Hb [Hk Hs Hc Hd]. unfold uf_step.
  destruct (Qle_bool t s) eqn:Eq.
  - apply Qle_bool_iff in Eq.
    assert (Hfu : forall x, In x frs -> uf_find (uf_union u a b) x =
                   if N.eqb (uf_find u x) (uf_find u b) then uf_find u a else uf_find u x).
    { intros x Hx. apply uf_find_union. rewrite Hk. exact Hx. }
    assert (Hnew : link (E ++ [(a, b, s)]) a b).
    { exists s. split; auto. left. apply in_or_app. right. left. reflexivity. }
    assert (Hmono : forall x y, conn (link E) x y -> conn (link (E ++ [(a, b, s)])) x y).
    { apply conn_mono. intros x y. apply link_mono. apply incl_appl, incl_refl. }
    split.
    + rewrite uf_union_keys. exact Hk.
    + intros x y Hx Hy. rewrite (Hfu x Hx), (Hfu y Hy).
      destruct (N.eqb (uf_find u x) (uf_find u b)) eqn:Ex;
        destruct (N.eqb (uf_find u y) (uf_find u b)) eqn:Ey; intros Heq.
      * apply N.eqb_eq in Ex. apply N.eqb_eq in Ey. apply Hmono, Hs; auto. congruence.
      * apply N.eqb_eq in Ex.
        (* x ~ b, a ~ y *)
        eapply conn_trans. apply Hmono, (Hs x b); auto.
        eapply conn_step. apply link_sym. exact Hnew. apply Hmono, (Hs a y); auto.
      * apply N.eqb_eq in Ey.
        eapply conn_trans. apply Hmono, (Hs x a); auto.
        eapply conn_step. exact Hnew. apply Hmono, (Hs b y); auto.
      * apply Hmono, Hs; auto.
    + intros x y [s' [Hq Hin]].
      assert (Hcase : link E x y \/ (x = a /\ y = b) \/ (x = b /\ y = a)).
      { destruct Hin as [Hin | Hin]; apply in_app_or in Hin; destruct Hin as [Hin | [Hin | []]].
        - left. exists s'. auto.
        - inversion Hin; subst. auto.
        - left. exists s'. auto.
        - inversion Hin; subst. auto. }
      assert (Hxy : forall x y, uf_find u x = uf_find u y -> In x frs -> In y frs ->
                 uf_find (uf_union u a b) x = uf_find (uf_union u a b) y).
      { intros x0 y0 He Hx0 Hy0. rewrite (Hfu x0 Hx0), (Hfu y0 Hy0), He. reflexivity. }
      assert (Hab : uf_find (uf_union u a b) a = uf_find (uf_union u a b) b).
      { rewrite (Hfu a Ha), (Hfu b Hb), N.eqb_refl. destruct (N.eqb (uf_find u a) (uf_find u b)) eqn:E1; auto. }
      destruct Hcase as [Hl | [[-> ->] | [-> ->]]]; auto.
      destruct (Hd _ _ Hl). apply Hxy; auto.
    + intros x y [s' [Hq Hin]].
      destruct Hin as [Hin | Hin]; apply in_app_or in Hin; destruct Hin as [Hin | [Hin | []]].
      * apply (Hd x y). exists s'. auto.
      * inversion Hin; subst. auto.
      * apply (Hd x y). exists s'. auto.
      * inversion Hin; subst. auto.
  - (* pair below the threshold: nothing is joined and no link appears *)
    assert (Hlink : forall x y, link (E ++ [(a, b, s)]) x y -> link E x y).
    { intros x y [s' [Hq Hin]]. exists s'. split; auto.
      destruct Hin as [Hin | Hin]; apply in_app_or in Hin; destruct Hin as [Hin | [Hin | []]]; auto;
        inversion Hin; subst; apply Qle_bool_iff in Hq; congruence. }
    split; auto.
    + intros x y Hx Hy He. eapply conn_mono; [ | apply Hs; auto].
      intros x0 y0. apply link_mono. apply incl_appl, incl_refl.
Qed.
End Connected.

Lemma connected_fold t frs : forall l E u,
  (forall a b s, In (a, b, s) l -> In a frs /\ In b frs) ->
  inv t frs u E -> inv t frs (fold_left (uf_step t) l u) (E ++ l).
Proof.
  induction l as [|[[a b] s] l IH]; simpl; intros E u Hd Hi.
  - rewrite app_nil_r. exact Hi.
  - replace (E ++ (a, b, s) :: l) with ((E ++ [(a, b, s)]) ++ l)
      by (rewrite <- app_assoc; reflexivity).
    apply IH.
    + intros a' b' s' H. apply (Hd a' b' s'). auto.
    + destruct (Hd a b s (or_introl eq_refl)). apply inv_step; auto.
Qed.

Lemma connected_uf_inv t G :
  inv t (collect_fragments G) (connected_uf t G (collect_fragments G)) G.
Proof.
  unfold connected_uf.
  change (inv t (collect_fragments G)
            (fold_left (uf_step t) G (uf_init (collect_fragments G))) ([] ++ G)).
  apply connected_fold.
  - intros a b s H. eapply collect_endpoints; eauto.
  - apply inv_init.
Qed.

Lemma adj_link t G a b : adj t G a b -> link t G a b.
Proof. intros [_ [s [H1 H2]]]. exists s. auto. Qed.

Lemma link_adj t G a b : link t G a b -> a <> b -> adj t G a b.
Proof. intros [s [H1 H2]] Hn. split; auto. exists s. auto. Qed.

Lemma conn_link_adj t G a b : conn (link t G) a b -> conn (adj t G) a b.
Proof.
  induction 1. constructor.
  destruct (N.eq_dec a b) as [-> | Hn]; auto.
  econstructor; eauto using link_adj.
Qed.

Lemma conn_adj_link t G a b : conn (adj t G) a b -> conn (link t G) a b.
Proof. apply conn_mono. intros x y. apply adj_link. Qed.

Theorem group_connected_contract t G : contract_connected t G (group_connected t G).
Proof.
  pose proof (connected_uf_inv t G) as Hinv.
  pose proof (collect_NoDup G) as Hnd.
  unfold group_connected.
  set (frs := collect_fragments G) in *.
  set (u := connected_uf t G frs) in *.
  set (rep := uf_find u).
  set (mk := fun r => filter (fun f => N.eqb (rep f) r) frs).
  set (roots := fold_left add_frag (map rep frs) []).
  assert (Hbc : build_clusters rep frs = map mk roots) by reflexivity.
  rewrite Hbc, filter_map_comm, map_map.
  set (roots' := filter (fun r => (2 <=? length (mk r))%nat) roots).
  set (h := fun r => sort_frags (mk r)).
  assert (Hroots' : NoDup roots').
  { apply filter_NoDup. apply build_clusters_roots_NoDup. }
  assert (Hmem : forall r x, In x (h r) <-> In x frs /\ rep x = r).
  { intros r x. unfold h, mk. rewrite sort_frags_In, filter_In, N.eqb_eq. tauto. }
  assert (Hg : forall g, In g (map h roots') <-> exists r, In r roots' /\ g = h r).
  { intros g. rewrite in_map_iff. split; intros [r [H1 H2]]; exists r; auto. }
  assert (Hdomc : forall a b, conn (link t G) a b -> In a frs -> In b frs).
  { intros a b H. induction H; auto. intros _. apply IHconn. eapply (inv_dom _ _ _ _ Hinv); eauto. }
  assert (Hinside : forall r a b, conn (link t G) a b -> In a (h r) -> conn (adj_in t G (h r)) a b).
  { intros r a b H. induction H; intros Ha. constructor.
    assert (Hb : In b (h r)).
    { apply Hmem. apply Hmem in Ha. destruct Ha as [Ha1 Ha2]. split.
      - eapply (inv_dom _ _ _ _ Hinv); eauto.
      - rewrite <- Ha2. symmetry. apply (inv_compl _ _ _ _ Hinv). exact H. }
    destruct (N.eq_dec a b) as [-> | Hn]; auto.
    econstructor; [ | apply IHconn; exact Hb].
    split; [exact Ha | split; [exact Hb | apply link_adj; auto]]. }
  assert (Hlinked : forall g, In g (map h roots') -> linked t G g).
  { intros g Hin. apply Hg in Hin. destruct Hin as [r [Hr ->]].
    intros a b Ha Hb. apply Hinside; auto.
    apply Hmem in Ha. apply Hmem in Hb. destruct Ha as [Ha1 Ha2], Hb as [Hb1 Hb2].
    apply (inv_sound _ _ _ _ Hinv); auto. fold rep. congruence. }
  split; [split; [|split] | split].
  - (* NoDup, >= 2 members *)
    intros g Hin. apply Hg in Hin. destruct Hin as [r [Hr ->]]. unfold h. split.
    + apply sort_frags_NoDup. apply filter_NoDup. exact Hnd.
    + rewrite sort_frags_length. apply filter_In in Hr. destruct Hr as [_ Hr].
      apply Nat.leb_le in Hr. exact Hr.
  - (* disjoint *)
    apply disjoint_by_root with (key := rep); auto.
    intros r x _ Hx. apply Hmem in Hx. tauto.
  - exact Hlinked.
  - (* every group is one whole component *)
    intros g Hin a Ha b. split.
    + intros Hb. eapply conn_adj_in_adj. apply Hlinked; eauto.
    + intros Hc. apply Hg in Hin. destruct Hin as [r [Hr ->]].
      apply Hmem. apply Hmem in Ha. destruct Ha as [Ha1 Ha2].
      apply conn_adj_link in Hc. split.
      * eapply Hdomc; eauto.
      * rewrite <- Ha2. symmetry. apply (inv_conn _ _ _ _ _ _ Hinv). exact Hc.
  - (* every component with two members is a group *)
    intros a b Hn Hc. apply conn_adj_link in Hc.
    assert (Ha : In a frs).
    { inversion Hc as [|x c y Hl Hrest]; subst. congruence. apply (inv_dom _ _ _ _ Hinv _ _ Hl). }
    assert (Hb : In b frs) by (eapply Hdomc; eauto).
    assert (Hrep : rep a = rep b) by (apply (inv_conn _ _ _ _ _ _ Hinv); exact Hc).
    exists (h (rep a)). split.
    + apply Hg. exists (rep a). split; auto. apply filter_In. split.
      * apply fold_add_frag_In. right. apply in_map. exact Ha.
      * apply Nat.leb_le. apply two_members_length with (a := a) (b := b); auto.
        -- apply filter_NoDup. exact Hnd.
        -- apply filter_In. split; auto. apply N.eqb_refl.
        -- apply filter_In. split; auto. apply N.eqb_eq. auto.
    + apply Hmem. auto.
Qed.
