(* Entry points used by the correspondence check (harness/c10.py). *)
From Coq Require Import NArith ZArith QArith List Bool.
From PV Require Import Gen.GroupConst Clone.GroupSpec Clone.GroupCommon Clone.GroupConnected
  Clone.GroupComplete Clone.GroupKCore Clone.GroupStar Clone.GroupLattice.
Import ListNotations.

Definition mode_of (n : N) : mode :=
  match n with 0%N => MConnected | 1%N => MComplete | 2%N => MKCore | _ => MStar end.

(* the code model of CreateGroupingStrategy(config).GroupClones(pairs); [ord] is only used by
   k-core (map iteration order); None = a fuelled loop ran out of fuel (proved impossible) *)
Definition run_model (m : mode) (k : Z) (t : Q) (G : pgraph) (ord : list N) : option (list group) :=
  match m with
  | MConnected => Some (group_connected t G)
  | MComplete => group_complete t G
  | MKCore => group_kcore_ord t k G ord
  | MStar => Some (group_star t G)
  end.

(* the k the contract speaks about: NewKCoreGrouping raises k below 2 to 2 *)
Definition contract_k (k : Z) : N := Z.to_N (effective_k k).

(* one case: the model's groups, the contract checked on the implementation's groups,
   and the contract checked on the model's groups *)
Definition run_case (mn : N) (k : Z) (t : Q) (G : pgraph) (ord : list N) (impl : list group)
  : option (list group) * bool * bool :=
  let m := mode_of mn in
  let mg := run_model m k t G ord in
  (mg, check_contract m (contract_k k) t G impl,
   match mg with Some gs => check_contract m (contract_k k) t G gs | None => false end).

(* sets of sets: every group of one list occurs in the other (members are sorted on both sides) *)
Definition group_eqb (a b : group) : bool :=
  (length a =? length b)%nat && forallb (fun xy : N * N => N.eqb (fst xy) (snd xy)) (combine a b).
Definition same_groups (a b : list group) : bool :=
  forallb (fun g => existsb (group_eqb g) b) a && forallb (fun g => existsb (group_eqb g) a) b.

Definition ord_of (G : pgraph) (variant : bool) : list N :=
  if variant then rev (collect_fragments G) else collect_fragments G.

(* verdict for one case; the harness prints only the cases where some component is false:
   (index, model groups, contract(impl), contract(model), impl = model as sets of sets) *)
Definition verdict (idx : N) (mn : N) (k : Z) (t : Q) (G : pgraph) (ord : list N) (impl : list group)
  : list (N * option (list group) * bool * bool * bool) :=
  let '(mg, ci, cm) := run_case mn k t G ord impl in
  let same := match mg with Some gs => same_groups gs (map sort_frags impl) | None => false end in
  if ci && cm && same then [] else [(idx, mg, ci, cm, same)].

(* a case on the lattice: (index, code, variant, mode, k, impl groups) *)
Definition lattice_verdict (base : N) (t eps : Q) (n : nat)
  (c : N * N * bool * N * Z * list group) :=
  let '(idx, code, v, mn, k, impl) := c in
  let G := lattice_graph base t eps n code v in
  verdict idx mn k t G (ord_of G v) impl.

(* ---- compact evaluation of whole code ranges of the lattice (parsing one case per line is
   what costs time, not the computation): Coq enumerates the cases itself and prints one number
   per case; the harness computes the same number from the implementation's groups. *)
Definition ghead (g : group) : N := match g with x :: _ => x | [] => 0%N end.
Fixpoint ginsert (g : group) (l : list group) : list group :=
  match l with
  | [] => [g]
  | h :: r => if N.leb (ghead g) (ghead h) then g :: l else h :: ginsert g r
  end.
(* members sorted, groups sorted by their least member *)
Definition canon (gs : list group) : list group := fold_right ginsert [] (map sort_frags gs).

(* digit x of the code: 1 + least member of the group containing x, 0 if x is in no group *)
Definition minlabel (gs : list group) (x : N) : N :=
  match filter (memb x) gs with g :: _ => (ghead g + 1)%N | [] => 0%N end.
Definition enc (n : nat) (gs : list group) : N :=
  fold_right (fun x acc => (minlabel gs x + (N.of_nat n + 1) * acc)%N) 0%N (nrange 0 n).

Definition lattice_variant (code mn : N) (k : Z) : bool := N.odd (code + mn + Z.to_N k).

(* 0: out of fuel; otherwise 1 + 2*[contract holds for the canonical model groups] + 4*enc *)
Definition lattice_result (base : N) (t eps : Q) (n : nat) (code mn : N) (k : Z) : N :=
  let v := lattice_variant code mn k in
  let G := lattice_graph base t eps n code v in
  match run_model (mode_of mn) k t G (ord_of G v) with
  | None => 0%N
  | Some gs => let c := canon gs in
               (1 + 2 * (if check_contract (mode_of mn) (contract_k k) t G c then 1 else 0) + 4 * enc n c)%N
  end.

Definition variants5 : list (N * Z) := [(0, 2%Z); (1, 2%Z); (2, 2%Z); (2, 3%Z); (3, 2%Z)]%N.

Definition lattice_results (base : N) (t eps : Q) (n : nat) (start stride : N) (count : nat) : list N :=
  flat_map (fun i => let code := (start + stride * i)%N in
                     map (fun mk : N * Z => lattice_result base t eps n code (fst mk) (snd mk)) variants5)
           (nrange 0 count).
