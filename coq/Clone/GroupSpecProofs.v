(* C10 — facts about the specification: the computable closure decides connectivity and
   every contract checker is equivalent to its contract (all inputs, no bounds). *)
From Coq Require Import NArith QArith List Bool Lia Arith.
From PV Require Import Clone.GroupSpec.
Import ListNotations.

(* ---------------------------------------------------------------- basics *)
Lemma memb_In x l : memb x l = true <-> In x l.
Proof.
  unfold memb. rewrite existsb_exists. split.
  - intros [y [H1 H2]]. apply N.eqb_eq in H2. subst. auto.
  - intro. exists x. split; auto. apply N.eqb_refl.
Qed.

Lemma memb_false x l : memb x l = false <-> ~ In x l.
Proof. rewrite <- memb_In. destruct (memb x l); split; congruence. Qed.

Lemma joins_spec a b x y s :
  joins a b (x, y, s) = true <-> (x = a /\ y = b) \/ (x = b /\ y = a).
Proof.
  unfold joins. rewrite orb_true_iff, !andb_true_iff, !N.eqb_eq. tauto.
Qed.

Lemma adjb_spec t G a b : adjb t G a b = true <-> adj t G a b.
Proof.
  unfold adjb, adj. rewrite andb_true_iff, negb_true_iff, N.eqb_neq, existsb_exists.
  split.
  - intros [Hn [[[x y] s] [Hin H]]]. split; auto.
    apply andb_true_iff in H. destruct H as [Hj Hq]. simpl in Hq.
    apply Qle_bool_iff in Hq. apply joins_spec in Hj. exists s. split; auto.
    destruct Hj as [[-> ->] | [-> ->]]; auto.
  - intros [Hn [s [Hin Hq]]]. split; auto.
    destruct Hin as [Hin | Hin]; eexists; (split; [exact Hin|]);
      apply andb_true_iff; (split; [apply joins_spec; auto | simpl; apply Qle_bool_iff; auto]).
Qed.

Lemma adj_sym t G a b : adj t G a b -> adj t G b a.
Proof. intros [Hn [s [H Hq]]]. split; auto. exists s. tauto. Qed.

Lemma adjb_sym t G a b : adjb t G a b = adjb t G b a.
Proof.
  destruct (adjb t G a b) eqn:E1, (adjb t G b a) eqn:E2; auto.
  - apply adjb_spec, adj_sym, adjb_spec in E1. congruence.
  - apply adjb_spec, adj_sym, adjb_spec in E2. congruence.
Qed.

Lemma adj_in_sym t G g a b : adj_in t G g a b -> adj_in t G g b a.
Proof. intros (H1 & H2 & H3). split; [|split]; auto using adj_sym. Qed.

(* ---------------------------------------------------------------- conn *)
Lemma conn_trans (R : N -> N -> Prop) a b c : conn R a b -> conn R b c -> conn R a c.
Proof. induction 1; auto. intro. econstructor; eauto. Qed.

Lemma conn_one (R : N -> N -> Prop) a b : R a b -> conn R a b.
Proof. intro. econstructor; eauto. constructor. Qed.

Lemma conn_snoc (R : N -> N -> Prop) a b c : conn R a b -> R b c -> conn R a c.
Proof. intros. eapply conn_trans; eauto using conn_one. Qed.

Lemma conn_sym (R : N -> N -> Prop) : (forall a b, R a b -> R b a) -> forall a b, conn R a b -> conn R b a.
Proof. intros Hs a b H. induction H. constructor. eapply conn_snoc; eauto. Qed.

Lemma conn_mono (R R' : N -> N -> Prop) :
  (forall a b, R a b -> R' a b) -> forall a b, conn R a b -> conn R' a b.
Proof. intros Hm a b H. induction H. constructor. econstructor; eauto. Qed.

Lemma conn_adj_in_adj t G g a b : conn (adj_in t G g) a b -> conn (adj t G) a b.
Proof. apply conn_mono. intros x y (_ & _ & H). exact H. Qed.

Lemma conn_adj_in_mem t G g a b : conn (adj_in t G g) a b -> In a g -> In b g.
Proof. induction 1; auto. intros _. apply IHconn. destruct H as (_ & H & _). exact H. Qed.

(* ---------------------------------------------------------------- closure *)
Lemma filter_len_le {A} (p q : A -> bool) l :
  (forall x, In x l -> p x = true -> q x = true) ->
  (length (filter p l) <= length (filter q l))%nat.
Proof.
  induction l as [|x l IH]; simpl; intros H; auto.
  assert (IH' := IH (fun y Hy => H y (or_intror Hy))).
  destruct (p x) eqn:Ep.
  - rewrite (H x (or_introl eq_refl) Ep). simpl. lia.
  - destruct (q x); simpl; lia.
Qed.

Lemma filter_len_same {A} (p q : A -> bool) l :
  (forall x, In x l -> p x = true -> q x = true) ->
  (length (filter q l) <= length (filter p l))%nat ->
  forall x, In x l -> q x = true -> p x = true.
Proof.
  induction l as [|y l IH]; simpl; intros H Hlen x Hx Hq; [tauto|].
  assert (Hle := filter_len_le p q l (fun z Hz => H z (or_intror Hz))).
  destruct (p y) eqn:Ep.
  - rewrite (H y (or_introl eq_refl) Ep) in Hlen. simpl in Hlen.
    destruct Hx as [-> | Hx]; auto.
    apply IH; auto. lia.
  - destruct (q y) eqn:Eq; simpl in Hlen.
    + lia.
    + destruct Hx as [-> | Hx]; [congruence|]. apply IH; auto.
Qed.

Lemma filter_len_l {A} (p : A -> bool) l : (length (filter p l) <= length l)%nat.
Proof. induction l as [|x l IH]; simpl; auto. destruct (p x); simpl; lia. Qed.

Section Closure.
Variable R : N -> N -> bool.
Variable V : list N.

Definition Rin (u w : N) : Prop := In u V /\ In w V /\ R u w = true.

Definition stepp (S : list N) (w : N) : bool := memb w S || existsb (fun u => R u w) S.

Lemma step_In S w : In w (step R V S) <-> In w V /\ stepp S w = true.
Proof. unfold step. rewrite filter_In. reflexivity. Qed.

Lemma step_len S : (forall x, In x S -> In x V) ->
  S = filter (fun w => memb w S) V -> (length S <= length (step R V S))%nat.
Proof.
  intros HV HS. rewrite HS at 1. apply filter_len_le.
  intros x _ Hx. unfold stepp. rewrite Hx. reflexivity.
Qed.

(* sets represented as filters of V *)
Definition isfilt (S : list N) : Prop := S = filter (fun w => memb w S) V.

Lemma isfilt_filter q : isfilt (filter q V).
Proof.
  unfold isfilt. apply filter_ext_in. intros x Hx.
  destruct (q x) eqn:E.
  - symmetry. apply memb_In. apply filter_In. auto.
  - symmetry. apply memb_false. rewrite filter_In. intros [_ H]. congruence.
Qed.

Lemma isfilt_incl S : isfilt S -> forall x, In x S -> In x V.
Proof. intros H x Hx. rewrite H in Hx. apply filter_In in Hx. tauto. Qed.

Lemma isfilt_len S : isfilt S -> (length S <= length V)%nat.
Proof. intros H. rewrite H. apply filter_len_l. Qed.

Lemma close_closed fuel : forall S, isfilt S -> (length V < length S + fuel)%nat ->
  forall u w, In u (close R V fuel S) -> In w V -> R u w = true -> In w (close R V fuel S).
Proof.
  induction fuel as [|f IH]; intros S HS Hlen u w Hu Hw HR.
  - apply isfilt_len in HS. lia.
  - simpl in *. destruct (length (step R V S) <=? length S)%nat eqn:E.
    + apply Nat.leb_le in E.
      assert (Hst : stepp S w = true).
      { unfold stepp. apply orb_true_iff. right. apply existsb_exists. eauto. }
      apply memb_In.
      refine (filter_len_same (fun x => memb x S) (stepp S) V _ _ w Hw Hst).
      * intros x _ Hx. unfold stepp. rewrite Hx. reflexivity.
      * unfold step in E. rewrite <- HS. exact E.
    + apply Nat.leb_gt in E. eapply IH; eauto.
      * apply isfilt_filter.
      * lia.
Qed.

Lemma close_incl fuel : forall S, isfilt S -> forall x, In x S -> In x (close R V fuel S).
Proof.
  induction fuel as [|f IH]; intros S HS x Hx; simpl; auto.
  destruct (length (step R V S) <=? length S)%nat; auto.
  apply IH. apply isfilt_filter.
  apply step_In. split. eapply isfilt_incl; eauto.
  unfold stepp. apply orb_true_iff. left. apply memb_In. exact Hx.
Qed.

Lemma close_inv (P : N -> Prop) fuel : forall S,
  (forall x, In x S -> P x) ->
  (forall u w, P u -> In w V -> R u w = true -> P w) ->
  forall x, In x (close R V fuel S) -> P x.
Proof.
  induction fuel as [|f IH]; intros S HS HP x Hx; simpl in Hx; auto.
  destruct (length (step R V S) <=? length S)%nat; auto.
  eapply IH; [ | exact HP | exact Hx].
  intros y Hy. apply step_In in Hy. destruct Hy as [HyV Hy].
  unfold stepp in Hy. apply orb_true_iff in Hy. destruct Hy as [Hy | Hy].
  - apply HS. apply memb_In. exact Hy.
  - apply existsb_exists in Hy. destruct Hy as [u [Hu HR]]. eapply HP; eauto.
Qed.

Theorem reachb_spec a b : reachb R V a b = true <-> In a V /\ conn Rin a b.
Proof.
  unfold reachb, reach_set. rewrite memb_In. set (S0 := filter (N.eqb a) V).
  assert (HS0 : isfilt S0) by apply isfilt_filter.
  split.
  - intros H.
    assert (HP : In b V /\ In a V /\ conn Rin a b).
    { revert b H. apply close_inv with (P := fun x => In x V /\ In a V /\ conn Rin a x).
      - intros x Hx. apply filter_In in Hx. destruct Hx as [Hx E]. apply N.eqb_eq in E. subst x.
        repeat split; auto. constructor.
      - intros u w (Hu & Ha & Hc) Hw HR. repeat split; auto.
        eapply conn_snoc; eauto. repeat split; auto. }
    tauto.
  - intros [Ha Hc].
    assert (Hin : In a S0). { apply filter_In. split; auto. apply N.eqb_refl. }
    assert (Hlen : (length V < length S0 + length V)%nat).
    { destruct S0; [destruct Hin | simpl; lia]. }
    assert (Hcl := close_closed (length V) S0 HS0 Hlen).
    assert (Ha' : In a (close R V (length V) S0)) by (apply close_incl; auto).
    remember (close R V (length V) S0) as C. clear HeqC Hin Hlen.
    assert (Hgen : forall x y, conn Rin x y -> In x C -> In y C).
    { intros x y Hxy. induction Hxy; auto. intros Hx. destruct H as (Hu & Hw & HR).
      apply IHHxy. eapply Hcl; eauto. }
    eapply Hgen; eauto.
Qed.
End Closure.

(* ---------------------------------------------------------------- linked *)
Lemma conn_Rin_adj_in t G g a b : conn (Rin (adjb t G) g) a b <-> conn (adj_in t G g) a b.
Proof.
  split; apply conn_mono; intros x y (H1 & H2 & H3); (split; [|split]); auto; apply adjb_spec; auto.
Qed.

Lemma linkedb_spec t G g : linkedb t G g = true <-> linked t G g.
Proof.
  unfold linkedb, linked. destruct g as [|a g'].
  - split; auto. intros _ a b [].
  - set (g := a :: g'). cbv zeta. fold (reachb (adjb t G) g a). rewrite forallb_forall. split.
    + intros H x y Hx Hy.
      assert (Hax := H x Hx). assert (Hay := H y Hy).
      apply reachb_spec in Hax. apply reachb_spec in Hay.
      destruct Hax as [_ Hax]. destruct Hay as [_ Hay].
      apply conn_Rin_adj_in in Hax. apply conn_Rin_adj_in in Hay.
      eapply conn_trans; [ | exact Hay].
      apply conn_sym; auto. intros; apply adj_in_sym; auto.
    + intros H x Hx. apply reachb_spec. split. left; auto.
      apply conn_Rin_adj_in. apply H; auto. left; auto.
Qed.

(* ---------------------------------------------------------------- disjointness *)
Lemma nodupb_spec l : nodupb l = true <-> NoDup l.
Proof.
  induction l as [|x l IH]; simpl.
  - split; auto. constructor.
  - rewrite andb_true_iff, negb_true_iff, memb_false, IH. split.
    + intros [H1 H2]. constructor; auto.
    + intros H. inversion H; auto.
Qed.

Lemma nodup_app_iff {A} (l1 l2 : list A) :
  NoDup (l1 ++ l2) <-> NoDup l1 /\ NoDup l2 /\ (forall x, In x l1 -> ~ In x l2).
Proof.
  induction l1 as [|a l1 IH]; simpl.
  - split. intros; repeat split; auto. constructor. tauto.
  - split.
    + intros H. inversion H as [|? ? Hn Hd]; subst. apply IH in Hd. destruct Hd as (H1 & H2 & H3).
      repeat split; auto.
      * constructor; auto. intro. apply Hn. apply in_or_app. auto.
      * intros x [-> | Hx]; auto. intro. apply Hn. apply in_or_app. auto.
    + intros (H1 & H2 & H3). inversion H1; subst. constructor.
      * intro Hin. apply in_app_or in Hin. destruct Hin; auto. eapply H3; eauto.
      * apply IH. repeat split; auto.
Qed.

Lemma disjoint_cons g gs :
  disjoint_groups (g :: gs) <->
  disjoint_groups gs /\ (forall x, In x g -> forall g', In g' gs -> ~ In x g').
Proof.
  unfold disjoint_groups. split.
  - intros H. split.
    + intros i j gi gj Hi Hj Hne. apply (H (S i) (S j)); auto.
    + intros x Hx g' Hg'. apply In_nth_error in Hg'. destruct Hg' as [j Hj].
      apply (H 0%nat (S j) g g'); auto.
  - intros [H1 H2] i j gi gj Hi Hj Hne x Hx Hx'.
    destruct i as [|i], j as [|j]; simpl in *.
    + congruence.
    + inversion Hi; subst. apply nth_error_In in Hj. eapply H2; eauto.
    + inversion Hj; subst. apply nth_error_In in Hi. eapply H2; eauto.
    + eapply (H1 i j); eauto.
Qed.

Lemma nodup_concat gs :
  NoDup (concat gs) <-> (forall g, In g gs -> NoDup g) /\ disjoint_groups gs.
Proof.
  induction gs as [|g gs IH]; simpl.
  - split.
    + intros _. split. intros g []. intros i j gi gj Hi. destruct i; discriminate.
    + intros _. constructor.
  - rewrite nodup_app_iff, IH, disjoint_cons. split.
    + intros (H1 & (H2 & H3) & H4). repeat split; auto.
      * intros g0 [<- | Hg]; auto.
      * intros x Hx g' Hg' Hx'. apply (H4 x Hx). apply in_concat. eauto.
    + intros (H1 & H2 & H3). repeat split; auto.
      intros x Hx Hc. apply in_concat in Hc. destruct Hc as [g' [Hg' Hx']]. eapply H3; eauto.
Qed.

Lemma disjoint_same gs g g' x :
  disjoint_groups gs -> In g gs -> In g' gs -> In x g -> In x g' -> g = g'.
Proof.
  intros Hd Hg Hg' Hx Hx'.
  apply In_nth_error in Hg. apply In_nth_error in Hg'. destruct Hg as [i Hi], Hg' as [j Hj].
  destruct (Nat.eq_dec i j) as [-> | Hne]. congruence.
  exfalso. exact (Hd i j g g' Hi Hj Hne x Hx Hx').
Qed.

(* ---------------------------------------------------------------- checkers = contracts *)
Theorem check_common_spec t G gs : check_common t G gs = true <-> contract_common t G gs.
Proof.
  unfold check_common, contract_common.
  rewrite !andb_true_iff, !forallb_forall, nodupb_spec, nodup_concat. split.
  - intros [[H1 [H2 H3]] H4]. repeat split; auto.
    + apply Nat.leb_le. auto.
    + intros g Hg. apply linkedb_spec. auto.
  - intros (H1 & H2 & H3). repeat split.
    + intros g Hg. apply Nat.leb_le. apply H1; auto.
    + intros g Hg. apply H1; auto.
    + auto.
    + intros g Hg. apply linkedb_spec. auto.
Qed.

Lemma edge_cover_spec t G gs :
  forallb (fun p : pair => let '(a, b, s) := p in
     if N.eqb a b || negb (Qle_bool t s) then true
     else existsb (fun g => memb a g && memb b g) gs) G = true <->
  (forall a b, adj t G a b -> exists g, In g gs /\ In a g /\ In b g).
Proof.
  rewrite forallb_forall. split.
  - intros H a b [Hn [s [Hin Hq]]].
    assert (Hq' : Qle_bool t s = true) by (apply Qle_bool_iff; auto).
    destruct Hin as [Hin | Hin]; apply H in Hin; rewrite Hq' in Hin; simpl in Hin.
    + assert (E : N.eqb a b = false) by (apply N.eqb_neq; auto). rewrite E in Hin. simpl in Hin.
      apply existsb_exists in Hin. destruct Hin as [g [Hg Hm]]. apply andb_true_iff in Hm.
      rewrite !memb_In in Hm. exists g. tauto.
    + assert (E : N.eqb b a = false) by (apply N.eqb_neq; auto). rewrite E in Hin. simpl in Hin.
      apply existsb_exists in Hin. destruct Hin as [g [Hg Hm]]. apply andb_true_iff in Hm.
      rewrite !memb_In in Hm. exists g. tauto.
  - intros H [[a b] s] Hin.
    destruct (N.eqb a b) eqn:E; simpl; auto.
    destruct (Qle_bool t s) eqn:Eq; simpl; auto.
    apply N.eqb_neq in E. apply Qle_bool_iff in Eq.
    destruct (H a b) as [g (Hg & Ha & Hb)].
    { split; auto. exists s. auto. }
    apply existsb_exists. exists g. split; auto. apply andb_true_iff. rewrite !memb_In. auto.
Qed.

Theorem check_connected_spec t G gs :
  check_connected t G gs = true <-> contract_connected t G gs.
Proof.
  unfold check_connected, contract_connected.
  rewrite andb_true_iff, check_common_spec, edge_cover_spec. split.
  - intros [Hc He]. split; auto.
    assert (Hcl : forall g a b, In g gs -> In a g -> conn (adj t G) a b -> In b g).
    { intros g a b Hg Ha Hcn. induction Hcn; auto.
      apply IHHcn. destruct (He _ _ H) as [g' (Hg' & Ha' & Hb')].
      destruct Hc as (_ & Hd & _).
      rewrite (disjoint_same gs g g' a); auto. }
    split.
    + intros g Hg a Ha b. split.
      * intros Hb. destruct Hc as (_ & _ & Hl). eapply conn_adj_in_adj. apply Hl; eauto.
      * intros Hcn. eapply Hcl; eauto.
    + intros a b Hn Hcn. destruct Hcn as [|a c b Hac _]. congruence.
      destruct (He _ _ Hac) as [g (Hg & Ha & _)]. eauto.
  - intros (Hc & Hcomp & Hall). split; auto.
    intros a b Hab.
    assert (Hcn : conn (adj t G) a b) by (apply conn_one; auto).
    destruct (Hall a b) as [g [Hg Ha]]; auto. destruct Hab; auto.
    exists g. repeat split; auto. apply (Hcomp g Hg a Ha b). auto.
Qed.

Theorem check_complete_spec t G gs :
  check_complete t G gs = true <-> contract_complete t G gs.
Proof.
  unfold check_complete, contract_complete.
  rewrite andb_true_iff, check_common_spec, forallb_forall. split.
  - intros [Hc H]. split; auto. intros g Hg a b Ha Hb Hn.
    apply H in Hg. rewrite forallb_forall in Hg. apply Hg in Ha. rewrite forallb_forall in Ha.
    apply Ha in Hb. apply orb_true_iff in Hb. destruct Hb as [Hb | Hb].
    + apply N.eqb_eq in Hb. congruence.
    + apply adjb_spec. auto.
  - intros [Hc H]. split; auto. intros g Hg.
    apply forallb_forall. intros a Ha. apply forallb_forall. intros b Hb.
    destruct (N.eqb a b) eqn:E; auto. simpl. apply adjb_spec. apply (H g); auto.
    apply N.eqb_neq. auto.
Qed.

Theorem check_kcore_spec k t G gs :
  check_kcore k t G gs = true <-> contract_kcore k t G gs.
Proof.
  unfold check_kcore, contract_kcore.
  rewrite andb_true_iff, check_common_spec, forallb_forall. split.
  - intros [Hc H]. split; auto. intros g Hg a Ha.
    apply H in Hg. rewrite forallb_forall in Hg. apply Hg in Ha. apply N.leb_le. auto.
  - intros [Hc H]. split; auto. intros g Hg. apply forallb_forall. intros a Ha.
    apply N.leb_le. auto.
Qed.

Theorem check_star_spec t G gs :
  check_star t G gs = true <-> contract_star t G gs.
Proof.
  unfold check_star, contract_star.
  rewrite andb_true_iff, check_common_spec, forallb_forall. split.
  - intros [Hc H]. split; auto. intros g Hg.
    apply H in Hg. apply existsb_exists in Hg. destruct Hg as [m [Hm Hf]].
    exists m. split; auto. intros f Hfg. rewrite forallb_forall in Hf. apply Hf in Hfg.
    apply orb_true_iff in Hfg. destruct Hfg as [E | E].
    + left. apply N.eqb_eq. auto.
    + right. apply adjb_spec. auto.
  - intros [Hc H]. split; auto. intros g Hg.
    destruct (H g Hg) as [m [Hm Hf]]. apply existsb_exists. exists m. split; auto.
    apply forallb_forall. intros f Hfg. apply orb_true_iff.
    destruct (Hf f Hfg) as [-> | Ha].
    + left. apply N.eqb_refl.
    + right. apply adjb_spec. auto.
Qed.

Theorem check_contract_spec m k t G gs :
  check_contract m k t G gs = true <-> contract m k t G gs.
Proof.
  destruct m; simpl.
  - apply check_connected_spec.
  - apply check_complete_spec.
  - apply check_kcore_spec.
  - apply check_star_spec.
Qed.

(* the mode-specific part implies "linked" for clique and star groups *)
Lemma clique_linked t G g :
  (forall a b, In a g -> In b g -> a <> b -> adj t G a b) -> linked t G g.
Proof.
  intros H a b Ha Hb. destruct (N.eq_dec a b) as [-> | Hn]. constructor.
  apply conn_one. repeat split; auto; apply H; auto.
Qed.

Lemma star_linked t G g m :
  In m g -> (forall f, In f g -> f = m \/ adj t G f m) -> linked t G g.
Proof.
  intros Hm H.
  assert (Hto : forall a, In a g -> conn (adj_in t G g) a m).
  { intros a Ha. destruct (H a Ha) as [-> | Had]. constructor.
    apply conn_one. repeat split; auto; apply Had. }
  intros a b Ha Hb. eapply conn_trans. apply Hto; auto.
  apply conn_sym. intros; apply adj_in_sym; auto. apply Hto; auto.
Qed.
