(* Clone/PairsPre.v — entry points that expose the pre-filters of the pair pipeline by themselves
   (properties C08, C09), in BOTH argument orders.

   shouldCompareFragments (clone_detector.go:911) is called as (earlier, later) by the exhaustive double loop and by
   the LSH candidate loop, and as (later, earlier) by the batch loop for fragments of earlier batches
   (tryCreateClonePair(i, j) with j < batchStart <= i).  "batched = unbatched" and "LSH never invents" therefore need
   the filter to give the same answer for (a, b) and (b, a).  The model [should_compare] is symmetric
   (PairsFacts.should_compare_sym); the harness evaluates it here for both orders on every fragment pair of the
   size-ratio and line-ratio lattices and compares each order with what the implementation did in that order. *)
From Coq Require Import ZArith QArith List Bool.
From PV Require Import Gen.DomainConst Gen.CloneConst Clone.Pairs.
Import ListNotations.
Open Scope Z_scope.

(* (id a, id b, should_compare a b, should_compare b a) for every position pair a before b *)
Definition run_prefilter (fs : list frag) : list (N * N * bool * bool) :=
  map (fun ab => (f_id (fst ab), f_id (snd ab), should_compare (fst ab) (snd ab), should_compare (snd ab) (fst ab))) (pairs_of fs).

(* The property-side reading of the two filters, written without reference to the code's arithmetic:
   sizes differ by more than half of their mean <-> 4 |s1 - s2| > s1 + s2 (with s1 + s2 > 0);
   line counts differ by more than half of EACH fragment <-> 2 |l1 - l2| > max l1 l2. *)
Definition size_rejects_spec (s1 s2 : Z) : bool := (0 <? s1 + s2) && (s1 + s2 <? 4 * Z.abs (s1 - s2)).
Definition line_rejects_spec (l1 l2 : Z) : bool := (Z.max l1 l2 <? 2 * Z.abs (l1 - l2)).
Definition prefilter_spec (a b : frag) : bool :=
  negb (size_rejects_spec (f_size a) (f_size b)) && negb (line_rejects_spec (f_lines a) (f_lines b)).

Lemma size_rejects_spec_sym : forall s1 s2, size_rejects_spec s1 s2 = size_rejects_spec s2 s1.
Proof.
  intros. unfold size_rejects_spec. rewrite (Z.add_comm s2 s1).
  replace (Z.abs (s2 - s1)) with (Z.abs (s1 - s2)); auto.
  rewrite <- Z.abs_opp. f_equal. ring.
Qed.

Lemma line_rejects_spec_sym : forall l1 l2, line_rejects_spec l1 l2 = line_rejects_spec l2 l1.
Proof.
  intros. unfold line_rejects_spec. rewrite (Z.max_comm l2 l1).
  replace (Z.abs (l2 - l1)) with (Z.abs (l1 - l2)); auto.
  rewrite <- Z.abs_opp. f_equal. ring.
Qed.

Theorem prefilter_spec_sym : forall a b, prefilter_spec a b = prefilter_spec b a.
Proof. intros. unfold prefilter_spec. now rewrite size_rejects_spec_sym, line_rejects_spec_sym. Qed.

(* model filter vs. the spec reading, both orders, evaluated per case by the harness (no proof about the generated
   constants here: Gen/CloneConst.v is regenerated from the Go source on every run) *)
Definition run_prefilter_spec (fs : list frag) : list (N * N * bool) :=
  map (fun ab => (f_id (fst ab), f_id (snd ab), prefilter_spec (fst ab) (snd ab))) (pairs_of fs).
