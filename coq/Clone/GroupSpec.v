(* C10 — specification side: weighted pair graphs, the threshold graph G_t, connectivity,
   and the contract of every grouping mode, written directly from the property text.
   Nothing here looks at how internal/analyzer/*_grouping.go compute their groups.

   Fragments are numbers (N); the harness numbers the fragments by their position in the
   location order (fragmentLess), so [a <? b] is fragmentLess.  Similarities and the
   threshold are rationals; the harness only uses dyadic values k/64, for which the Go
   float64 comparison [sim >= threshold] and [Qle_bool] agree exactly.

   This file also contains the *computable contract checkers* the harness runs on the
   groups the implementation returns; GroupSpecProofs.v proves each checker equivalent
   to the corresponding contract (for all inputs). *)
From Coq Require Import NArith QArith List Bool.
Import ListNotations.

Definition pair : Type := (N * N * Q)%type.       (* Fragment1, Fragment2, Similarity *)
Definition pgraph : Type := list pair.
Definition group : Type := list N.

Definition memb (x : N) (l : list N) : bool := existsb (N.eqb x) l.

(* ---------------------------------------------------------------- threshold graph G_t *)
(* a and b are neighbours in G_t: distinct, and some reported pair joins them with
   similarity >= t (in either orientation) *)
Definition adj (t : Q) (G : pgraph) (a b : N) : Prop :=
  a <> b /\ exists s, (In (a, b, s) G \/ In (b, a, s) G) /\ (t <= s)%Q.

Definition joins (a b : N) (p : pair) : bool :=
  let '(x, y, _) := p in (N.eqb x a && N.eqb y b) || (N.eqb x b && N.eqb y a).

Definition adjb (t : Q) (G : pgraph) (a b : N) : bool :=
  negb (N.eqb a b) && existsb (fun p => joins a b p && Qle_bool t (snd p)) G.

(* reflexive-transitive closure; adjacency is symmetric, so this is "same component" *)
Inductive conn (R : N -> N -> Prop) : N -> N -> Prop :=
| conn_refl : forall a, conn R a a
| conn_step : forall a b c, R a b -> conn R b c -> conn R a c.

(* adjacency using only members of g: "linked by reported pairs >= t inside the group" *)
Definition adj_in (t : Q) (G : pgraph) (g : group) (a b : N) : Prop :=
  In a g /\ In b g /\ adj t G a b.

(* number of G_t-neighbours of a among the members of g *)
Definition deg_in (t : Q) (G : pgraph) (g : group) (a : N) : N :=
  N.of_nat (length (filter (adjb t G a) g)).

(* ---------------------------------------------------------------- contracts *)
(* no fragment belongs to two groups *)
Definition disjoint_groups (gs : list group) : Prop :=
  forall i j gi gj, nth_error gs i = Some gi -> nth_error gs j = Some gj -> i <> j ->
    forall x, In x gi -> ~ In x gj.

(* every two members of g are joined by a chain of pairs >= t that stays inside g *)
Definition linked (t : Q) (G : pgraph) (g : group) : Prop :=
  forall a b, In a g -> In b g -> conn (adj_in t G g) a b.

(* the part of the contract common to all modes *)
Definition contract_common (t : Q) (G : pgraph) (gs : list group) : Prop :=
  (forall g, In g gs -> NoDup g /\ (2 <= length g)%nat) /\
  disjoint_groups gs /\
  (forall g, In g gs -> linked t G g).

(* g is one whole connected component of G_t *)
Definition is_component (t : Q) (G : pgraph) (g : group) : Prop :=
  forall a, In a g -> forall b, In b g <-> conn (adj t G) a b.

(* connected mode: the groups are exactly the components of G_t with >= 2 members *)
Definition contract_connected (t : Q) (G : pgraph) (gs : list group) : Prop :=
  contract_common t G gs /\
  (forall g, In g gs -> is_component t G g) /\
  (forall a b, a <> b -> conn (adj t G) a b -> exists g, In g gs /\ In a g).

(* complete-linkage mode: every two members are a pair >= t *)
Definition contract_complete (t : Q) (G : pgraph) (gs : list group) : Prop :=
  contract_common t G gs /\
  (forall g, In g gs -> forall a b, In a g -> In b g -> a <> b -> adj t G a b).

(* k-core mode: every member has >= k neighbours inside its group *)
Definition contract_kcore (k : N) (t : Q) (G : pgraph) (gs : list group) : Prop :=
  contract_common t G gs /\
  (forall g, In g gs -> forall a, In a g -> (k <= deg_in t G g a)%N).

(* star mode: some member (the medoid) is >= t with every other member *)
Definition contract_star (t : Q) (G : pgraph) (gs : list group) : Prop :=
  contract_common t G gs /\
  (forall g, In g gs -> exists m, In m g /\ forall f, In f g -> f = m \/ adj t G f m).

Inductive mode := MConnected | MComplete | MKCore | MStar.

Definition contract (m : mode) (k : N) (t : Q) (G : pgraph) (gs : list group) : Prop :=
  match m with
  | MConnected => contract_connected t G gs
  | MComplete => contract_complete t G gs
  | MKCore => contract_kcore k t G gs
  | MStar => contract_star t G gs
  end.

(* ---------------------------------------------------------------- computable closure *)
(* One round: the members of V already in S or adjacent to a member of S. *)
Definition step (R : N -> N -> bool) (V S : list N) : list N :=
  filter (fun w => memb w S || existsb (fun u => R u w) S) V.

(* Iterate until nothing is added (at most [fuel] rounds). *)
Fixpoint close (R : N -> N -> bool) (V : list N) (fuel : nat) (S : list N) : list N :=
  match fuel with
  | O => S
  | S f => let S' := step R V S in
           if (length S' <=? length S)%nat then S else close R V f S'
  end.

(* b is reachable from a inside V along R *)
Definition reach_set (R : N -> N -> bool) (V : list N) (a : N) : list N :=
  close R V (length V) (filter (N.eqb a) V).
Definition reachb (R : N -> N -> bool) (V : list N) (a b : N) : bool :=
  memb b (reach_set R V a).

(* ---------------------------------------------------------------- contract checkers *)
Fixpoint nodupb (l : list N) : bool :=
  match l with [] => true | x :: r => negb (memb x r) && nodupb r end.

Definition linkedb (t : Q) (G : pgraph) (g : group) : bool :=
  match g with
  | [] => true
  | a :: _ => let C := reach_set (adjb t G) g a in forallb (fun b => memb b C) g
  end.

Definition check_common (t : Q) (G : pgraph) (gs : list group) : bool :=
  forallb (fun g => (2 <=? length g)%nat) gs && nodupb (concat gs) && forallb (linkedb t G) gs.

Definition check_connected (t : Q) (G : pgraph) (gs : list group) : bool :=
  check_common t G gs &&
  forallb (fun p : pair => let '(a, b, s) := p in
     if N.eqb a b || negb (Qle_bool t s) then true
     else existsb (fun g => memb a g && memb b g) gs) G.

Definition check_complete (t : Q) (G : pgraph) (gs : list group) : bool :=
  check_common t G gs &&
  forallb (fun g => forallb (fun a => forallb (fun b => N.eqb a b || adjb t G a b) g) g) gs.

Definition check_kcore (k : N) (t : Q) (G : pgraph) (gs : list group) : bool :=
  check_common t G gs &&
  forallb (fun g => forallb (fun a => (k <=? deg_in t G g a)%N) g) gs.

Definition check_star (t : Q) (G : pgraph) (gs : list group) : bool :=
  check_common t G gs &&
  forallb (fun g => existsb (fun m => forallb (fun f => N.eqb f m || adjb t G f m) g) g) gs.

Definition check_contract (m : mode) (k : N) (t : Q) (G : pgraph) (gs : list group) : bool :=
  match m with
  | MConnected => check_connected t G gs
  | MComplete => check_complete t G gs
  | MKCore => check_kcore k t G gs
  | MStar => check_star t G gs
  end.
