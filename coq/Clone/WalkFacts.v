(* Facts about the fragment walk (Clone/Walk.v): it lists exactly the candidate nodes reachable through the
   lists it follows, and - with the lists read from the current Go source - every candidate node of the tree
   that ConvertAST builds for the comparison. *)
From Coq Require Import ZArith List Bool Arith.
From PV Require Import Gen.CloneConst Clone.Walk.
Import ListNotations.

(* induction over the nested lists *)
Section WInd.
Variable P : wnode -> Prop.
Hypothesis H : forall l c sub, (forall k m, In m (sub k) -> P m) -> P (WNode l c sub).
Fixpoint wnode_nested_ind (n : wnode) : P n :=
  match n with
  | WNode l c sub => H l c sub (fun k =>
      (fix go (ms : list wnode) : forall m, In m ms -> P m :=
         match ms with
         | [] => fun m h => match h with end
         | x :: r => fun m h => match h with
                                | or_introl e => eq_ind x P (wnode_nested_ind x) m e
                                | or_intror h' => go r m h'
                                end
         end) (sub k))
  end.
End WInd.

Lemma walk_sound : forall fields root l, In l (walk fields root) -> exists sub, reach fields root (WNode l true sub).
Proof.
  intros fields root. induction root as [l0 c sub IH] using wnode_nested_ind. intros l HIn.
  cbn [walk] in HIn. apply in_app_or in HIn. destruct HIn as [HIn | HIn].
  - destruct c; [|destruct HIn]. destruct HIn as [<- | []]. exists sub. apply reach_here.
  - apply in_flat_map in HIn. destruct HIn as [k [Hk HIn]].
    apply in_flat_map in HIn. destruct HIn as [m [Hm HIn]].
    destruct (IH k m Hm l HIn) as [sub' R]. exists sub'. eapply reach_down; eauto.
Qed.

Lemma walk_complete_fields : forall fields root l sub, reach fields root (WNode l true sub) -> In l (walk fields root).
Proof.
  intros fields root l sub R. remember (WNode l true sub) as tgt eqn:E. induction R as [n | l0 c sub0 k m n Hk Hm R IH].
  - subst n. cbn [walk]. left. reflexivity.
  - specialize (IH E). cbn [walk]. apply in_or_app. right.
    apply in_flat_map. exists k. split; [exact Hk|]. apply in_flat_map. exists m. split; assumption.
Qed.

Lemma walk_spec : forall fields root l, In l (walk fields root) <-> exists sub, reach fields root (WNode l true sub).
Proof.
  intros. split; [apply walk_sound|]. intros [sub R]. eapply walk_complete_fields; eauto.
Qed.

Lemma reach_mono : forall f g a b, incl f g -> reach f a b -> reach g a b.
Proof.
  intros f g a b I R. induction R as [n | l c sub k m n Hk Hm R IH]; [apply reach_here|].
  eapply reach_down; eauto.
Qed.

(* a walk that follows every list of the compared tree lists every candidate node of that tree *)
Lemma walk_covers_tree : forall walk_fields tree_fields root l sub, incl tree_fields walk_fields ->
  reach tree_fields root (WNode l true sub) -> In l (walk walk_fields root).
Proof.
  intros wf tf root l sub I R. eapply walk_complete_fields. eapply reach_mono; eauto.
Qed.

(* ---- the lists of the current Go source ---- *)
Definition covers (walk_fields tree_fields : list nat) : bool :=
  forallb (fun k => existsb (Nat.eqb k) walk_fields) tree_fields.
Lemma covers_incl : forall w t, covers w t = true -> incl t w.
Proof.
  intros w t H k Hk. unfold covers in H. rewrite forallb_forall in H. specialize (H k Hk).
  apply existsb_exists in H. destruct H as [x [Hx E]]. apply Nat.eqb_eq in E. subst x. exact Hx.
Qed.

(* extractFragmentsRecursive follows every list ConvertAST builds the tree from (Handlers and Finalbody among them) *)
Lemma clone_walk_covers_tree : incl clone_tree_fields clone_walk_fields.
Proof. apply covers_incl. vm_compute. reflexivity. Qed.
Lemma clone_walk_src_same : clone_walk_src_fields = clone_walk_fields.
Proof. vm_compute. reflexivity. Qed.
Lemma clone_tree_has_handlers_finally : In 3%nat clone_tree_fields /\ In 4%nat clone_tree_fields /\ In 1%nat clone_tree_fields /\ In 2%nat clone_tree_fields.
Proof. vm_compute. tauto. Qed.

(* every candidate node of the compared tree of a file is listed by the walk, whichever of the two walks is used *)
Lemma candidates_complete : forall root l sub, reach clone_tree_fields root (WNode l true sub) ->
  In l (walk clone_walk_fields root) /\ In l (walk clone_walk_src_fields root).
Proof.
  intros root l sub R. rewrite clone_walk_src_same. split; eapply walk_covers_tree; eauto using clone_walk_covers_tree.
Qed.
(* and nothing else: a listed location is that of a candidate node of the compared tree *)
Lemma candidates_sound : forall root l, In l (walk clone_walk_fields root) -> exists sub, reach clone_walk_fields root (WNode l true sub).
Proof. intros. apply walk_sound. assumption. Qed.

(* try: import fast / except ImportError: def f(...): ... / finally: def g(...): ...  — both definitions are listed
   (finding F36, repaired: they were not while the walk followed Children, Body and Orelse only) *)
Definition w_def (s e : Z) : wnode := mk s e true [] [] [] [] [].
Definition w_try : wnode :=
  mk 1 20 true [] [mk 2 2 false [] [] [] [] []] [] [mk 3 10 false [] [w_def 4 10] [] [] []] [w_def 12 20].
Lemma handler_finally_example :
  walk clone_walk_fields w_try = [(1, 20); (4, 10); (12, 20)]%Z /\ walk [0; 1; 2]%nat w_try = [(1, 20)]%Z.
Proof. vm_compute. split; reflexivity. Qed.
