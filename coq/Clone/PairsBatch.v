(* Batched detection = exhaustive detection (as sets of unordered pairs, and in number) when the
   pair limit does not truncate. *)
From Coq Require Import ZArith QArith List Bool Arith Lia Permutation Lqa.
From PV Require Import Gen.DomainConst Gen.CloneConst Clone.Pairs Clone.PairsFacts Clone.PairsProofs.
Import ListNotations.
Open Scope Z_scope.

(* ---------------- more index combinatorics: each unordered pair exactly once ---------------- *)
Definition norm (ij : nat * nat) : nat * nat := if (fst ij <? snd ij)%nat then ij else (snd ij, fst ij).

Lemma NoDup_app_intro : forall (A : Type) (l1 l2 : list A), NoDup l1 -> NoDup l2 ->
  (forall z, In z l1 -> ~ In z l2) -> NoDup (l1 ++ l2).
Proof.
  induction l1 as [|x r IH]; simpl; intros l2 N1 N2 D; auto.
  inversion N1; subst. constructor.
  - intro H. apply in_app_or in H as [H|H]; [contradiction|]. eapply D; eauto.
  - apply IH; auto.
Qed.

Lemma NoDup_flat_map : forall (A B : Type) (f : A -> list B) (l : list A),
  NoDup l -> (forall x, In x l -> NoDup (f x)) ->
  (forall x y z, In x l -> In y l -> x <> y -> In z (f x) -> ~ In z (f y)) -> NoDup (flat_map f l).
Proof.
  induction l as [|x r IH]; simpl; intros ND N1 DJ; [constructor|].
  inversion ND; subst. apply NoDup_app_intro.
  - apply N1. left. auto.
  - apply IH; auto.
    intros y1 y2 z Hy1 Hy2 Ne Hz. apply (DJ y1 y2 z); auto.
  - intros z Hz Hin. apply in_flat_map in Hin as (y & Hy & Hzy).
    apply (DJ x y z); auto. intro; subst; contradiction.
Qed.

Lemma NoDup_map_pair : forall (i : nat) (l : list nat), NoDup l -> NoDup (map (pair i) l).
Proof.
  induction l; simpl; intros H; [constructor|]. inversion H; subst. constructor; auto.
  intro I. apply in_map_iff in I as (y & E & Hy). inversion E; subst. contradiction.
Qed.

Lemma batch_loop_nodup : forall fuel bs n s, NoDup (batch_loop fuel bs n s).
Proof.
  induction fuel as [|f IH]; simpl; intros bs n s; [constructor|].
  destruct (n <=? s)%nat eqn:E; [constructor|]. apply Nat.leb_gt in E.
  apply NoDup_app_intro.
  - apply NoDup_flat_map.
    + apply seq_NoDup.
    + intros i Hi. apply in_seq in Hi. apply NoDup_app_intro.
      * apply NoDup_map_pair, seq_NoDup.
      * apply NoDup_map_pair, seq_NoDup.
      * intros z H1 H2. apply in_map_iff in H1 as (j1 & E1 & H1). apply in_map_iff in H2 as (j2 & E2 & H2).
        subst z. inversion E2; subst. apply in_seq in H1, H2. lia.
    + intros x y z Hx Hy Hxy H1 H2.
      apply in_app_or in H1 as [H1|H1]; apply in_map_iff in H1 as (j1 & E1 & _);
      apply in_app_or in H2 as [H2|H2]; apply in_map_iff in H2 as (j2 & E2 & _); subst z; inversion E2; congruence.
  - apply IH.
  - intros [i j] H1 H2. apply batch_loop_sound in H2.
    apply in_flat_map in H1 as (i' & Hi & H1). apply in_seq in Hi.
    apply in_app_or in H1 as [H1|H1]; apply in_map_iff in H1 as (j' & E' & _); inversion E'; subst; lia.
Qed.

Lemma NoDup_map_inj_on : forall (A B : Type) (f : A -> B) (l : list A),
  NoDup l -> (forall x y, In x l -> In y l -> f x = f y -> x = y) -> NoDup (map f l).
Proof.
  induction l as [|x r IH]; simpl; intros ND Inj; [constructor|]. inversion ND; subst. constructor.
  - intro H. apply in_map_iff in H as (y & E & Hy). assert (y = x) by (apply Inj; auto). subst. contradiction.
  - apply IH; auto.
Qed.

Lemma pairs_of_seq_in : forall n s a b, In (a, b) (pairs_of (seq s n)) <-> (s <= a /\ a < b /\ b < s + n)%nat.
Proof.
  induction n as [|n IH]; simpl; intros s a b; [split; [contradiction|lia]|].
  rewrite in_app_iff, in_map_iff, IH. split.
  - intros [(y & E & Hy)|H]; [inversion E; subst; apply in_seq in Hy; lia|lia].
  - intros (G1 & G2 & G3). destruct (Nat.eq_dec a s) as [->|Ne].
    + left. exists b. split; auto. apply in_seq. lia.
    + right. lia.
Qed.

Lemma pairs_of_nodup : forall (A : Type) (l : list A), NoDup l -> NoDup (pairs_of l).
Proof.
  induction l as [|x r IH]; simpl; intro ND; [constructor|]. inversion ND; subst.
  apply NoDup_app_intro; auto.
  - apply NoDup_map_inj_on; auto. intros y z _ _ E. inversion E. auto.
  - intros [a b] G1 G2. apply in_map_iff in G1 as (y & E & _). inversion E; subst. apply pairs_of_in in G2. tauto.
Qed.

Lemma batch_visits_perm : forall bs n, (0 < bs)%nat -> Permutation (map norm (batch_visits bs n)) (pairs_of (seq 0 n)).
Proof.
  intros bs n Hbs. destruct (batch_visits_spec bs n Hbs) as (S1 & S2 & S3).
  apply NoDup_Permutation.
  - apply NoDup_map_inj_on; [apply batch_loop_nodup|].
    intros [i j] [i' j'] H1 H2 E. unfold norm in E. simpl in E.
    destruct (i <? j)%nat eqn:E1; destruct (i' <? j')%nat eqn:E2; inversion E; subst; auto.
    + exfalso. eapply S3; eauto.
    + exfalso. eapply S3; eauto.
  - apply pairs_of_nodup, seq_NoDup.
  - intros [a b]. rewrite pairs_of_seq_in, in_map_iff. split.
    + intros ([i j] & E & H). apply S1 in H. unfold norm in E. simpl in E.
      destruct (i <? j)%nat eqn:E1; inversion E; subst.
      * apply Nat.ltb_lt in E1. lia.
      * apply Nat.ltb_ge in E1. lia.
    + intros (_ & H1 & H2). destruct (S2 a b ltac:(lia)) as [H|H].
      * exists (a, b). split; auto. unfold norm. simpl. apply Nat.ltb_lt in H1. rewrite H1. auto.
      * exists (b, a). split; auto. unfold norm. simpl. assert (E : (b <? a)%nat = false) by (apply Nat.ltb_ge; lia). rewrite E. auto.
Qed.

Section Batch.
Variable sim : frag -> frag -> Q.
Variable dist : frag -> frag -> Q.
Variable gate : frag -> frag -> bool.

Notation try_pair := (try_pair sim dist gate).
Notation try_create := (try_create sim dist gate).
Notation exhaustive := (exhaustive sim dist gate).
Notation batch_step := (batch_step sim dist gate).
Notation batched := (batched sim dist gate).
Notation detect_pairs := (detect_pairs sim dist gate).

(* what one visit of the batch loop contributes when nothing is cut off *)
Definition qv (c : cfg) (fs : list frag) (ij : nat * nat) : list cpair :=
  match nth_error fs (fst ij), nth_error fs (snd ij) with
  | Some a, Some b => try_pair c a b
  | _, _ => []
  end.
Definition batch_qualifying (c : cfg) (fs : list frag) (bs : nat) : list cpair :=
  flat_map (qv c fs) (batch_visits bs (length fs)).

Lemma try_create_t4 : forall c a b, valid_cfg c -> try_create c a b (c_t4 c) = try_pair c a b.
Proof.
  intros c a b V. unfold Pairs.try_create.
  pose proof (try_pair_length sim dist gate c a b) as L.
  destruct (try_pair c a b) as [|p l] eqn:E; auto.
  destruct l; [|simpl in L; lia].
  assert (I : In p (try_pair c a b)) by (rewrite E; left; auto).
  apply try_pair_in in I. destruct I.
  destruct (classify_band c _ _ V j_class) as [_ B].
  simpl. unfold clone_try_cmp_min. rewrite j_sim. apply Qle_bool_iff in B. rewrite B. reflexivity.
Qed.

Lemma batch_step_spec : forall c fs maxp, valid_cfg c -> forall v top m,
  (m = c_t4 c \/ maxp <= Z.of_nat (length top)) ->
  Z.of_nat (length top + length (qv c fs v)) <= maxp ->
  exists top' m', batch_step c fs maxp (top, m) v = (top', m') /\ Permutation top' (top ++ qv c fs v) /\
                  (m' = c_t4 c \/ maxp <= Z.of_nat (length top')).
Proof.
  intros c fs maxp V v top m Inv Len. unfold Pairs.batch_step, qv in *.
  destruct (nth_error fs (fst v)) as [a|]; [|exists top, m; rewrite app_nil_r; auto].
  destruct (nth_error fs (snd v)) as [b|]; [|exists top, m; rewrite app_nil_r; auto].
  pose proof (try_pair_length sim dist gate c a b) as L.
  destruct (try_pair c a b) as [|p l] eqn:E.
  - assert (T : try_create c a b m = []) by (unfold Pairs.try_create; rewrite E; reflexivity).
    rewrite T. exists top, m. rewrite app_nil_r. auto.
  - destruct l; [|simpl in L; lia]. clear L. simpl in Len.
    assert (Hm : m = c_t4 c) by (destruct Inv; auto; lia).
    subst m. rewrite try_create_t4, E by auto.
    assert (R : clone_add_cmp_room (Z.of_nat (length top)) maxp = true) by (unfold clone_add_cmp_room; apply Z.ltb_lt; lia).
    unfold add_with_limit. rewrite R.
    pose proof (insert_desc_perm p top) as P.
    eexists. eexists. split; [reflexivity|]. split.
    + eapply perm_trans; [apply P|]. apply Permutation_cons_append.
    + destruct (maxp <=? Z.of_nat (length (insert_desc p top))) eqn:E2; auto. apply Z.leb_le in E2. auto.
Qed.

Lemma batch_fold_perm : forall c fs maxp, valid_cfg c -> forall visits top m,
  (m = c_t4 c \/ maxp <= Z.of_nat (length top)) ->
  Z.of_nat (length top + length (flat_map (qv c fs) visits)) <= maxp ->
  Permutation (fst (fold_left (batch_step c fs maxp) visits (top, m))) (top ++ flat_map (qv c fs) visits).
Proof.
  intros c fs maxp V. induction visits as [|v r IH]; intros top m Inv Len.
  - simpl. rewrite app_nil_r. auto.
  - cbn [fold_left flat_map] in *. rewrite app_length in Len.
    destruct (batch_step_spec c fs maxp V v top m Inv ltac:(lia)) as (top' & m' & E & P & Inv').
    rewrite E. eapply perm_trans.
    + apply IH; auto. rewrite (Permutation_length P), app_length. lia.
    + rewrite app_assoc. apply Permutation_app_tail. auto.
Qed.

Definition batch_size_eff (bs : Z) : nat := Z.to_nat (if bs <=? 0 then clone_batch_default_batchSize else bs).

Lemma batch_size_eff_pos : forall bs, (0 < batch_size_eff bs)%nat.
Proof.
  intro bs. unfold batch_size_eff. destruct (bs <=? 0) eqn:E.
  - vm_compute. lia.
  - apply Z.leb_gt in E. lia.
Qed.

Lemma batched_perm : forall c fs bs, valid_cfg c -> 0 < c_max_pairs c ->
  Z.of_nat (length (batch_qualifying c fs (batch_size_eff bs))) <= c_max_pairs c ->
  Permutation (batched c fs (c_max_pairs c) bs) (batch_qualifying c fs (batch_size_eff bs)).
Proof.
  intros c fs bs V Hm Len. unfold Pairs.batched.
  assert (E : (c_max_pairs c <=? 0) = false) by (apply Z.leb_gt; auto). rewrite E.
  apply (batch_fold_perm c fs (c_max_pairs c) V _ [] (c_t4 c)); auto.
Qed.

(* ---- membership ---- *)
Lemma batch_qualifying_in : forall c fs bs p, In p (batch_qualifying c fs bs) <->
  exists i j a b, In (i, j) (batch_visits bs (length fs)) /\ nth_error fs i = Some a /\ nth_error fs j = Some b /\ In p (try_pair c a b).
Proof.
  intros. unfold batch_qualifying. rewrite in_flat_map. split.
  - intros ([i j] & H1 & H2). unfold qv in H2. simpl in H2.
    destruct (nth_error fs i) as [a|] eqn:Ea; [|contradiction]. destruct (nth_error fs j) as [b|] eqn:Eb; [|contradiction].
    exists i, j, a, b. auto.
  - intros (i & j & a & b & H1 & Ea & Eb & H2). exists (i, j). split; auto. unfold qv. simpl. rewrite Ea, Eb. auto.
Qed.

Lemma In_sym_swap : forall p r, In_sym (swap_pair p) r <-> In_sym p r.
Proof. intros. unfold In_sym. rewrite swap_pair_invol. tauto. Qed.

Hypothesis sim_sym : forall a b, sim a b = sim b a.
Hypothesis dist_sym : forall a b, dist a b = dist b a.
Hypothesis gate_sym : forall a b, gate a b = gate b a.

Lemma try_pair_swap : forall c a b p, In p (try_pair c a b) -> In (swap_pair p) (try_pair c b a).
Proof. intros c a b p H. apply (try_pair_sym sim dist gate sim_sym dist_sym gate_sym c a b p). exact H. Qed.

Lemma exhaustive_sym_in : forall c fs p, NoDup fs ->
  (In_sym p (exhaustive c fs) <-> exists a b, In a fs /\ In b fs /\ a <> b /\ In p (try_pair c a b)).
Proof.
  intros c fs p ND. unfold In_sym. rewrite !exhaustive_in. split.
  - intros [(a & b & H1 & H2)|(a & b & H1 & H2)].
    + pose proof (pairs_of_distinct _ _ _ _ ND H1). apply pairs_of_in in H1. exists a, b. tauto.
    + pose proof (pairs_of_distinct _ _ _ _ ND H1). apply pairs_of_in in H1. apply try_pair_swap in H2.
      rewrite swap_pair_invol in H2. exists b, a. repeat split; auto; tauto.
  - intros (a & b & Ha & Hb & Ne & H).
    destruct (pairs_of_cover _ fs a b ND Ha Hb Ne) as [P|P].
    + left. exists a, b. auto.
    + right. exists b, a. split; auto. apply try_pair_swap. auto.
Qed.

Lemma batch_qualifying_sym_in : forall c fs bs p, NoDup fs -> (0 < bs)%nat ->
  (In_sym p (batch_qualifying c fs bs) <-> exists a b, In a fs /\ In b fs /\ a <> b /\ In p (try_pair c a b)).
Proof.
  intros c fs bs p ND Hbs. destruct (batch_visits_spec bs (length fs) Hbs) as (S1 & S2 & _).
  assert (Fwd : forall q, In q (batch_qualifying c fs bs) -> exists a b, In a fs /\ In b fs /\ a <> b /\ In q (try_pair c a b)).
  { intros q H. apply batch_qualifying_in in H as (i & j & a & b & V & Ea & Eb & H).
    exists a, b. split; [eapply nth_error_In; eauto|]. split; [eapply nth_error_In; eauto|]. split; auto.
    intro; subst b. apply S1 in V. destruct V as (Li & _ & Ne). apply Ne.
    rewrite NoDup_nth_error in ND. apply ND; auto. congruence. }
  unfold In_sym. split.
  - intros [H|H]; [apply Fwd; auto|].
    apply Fwd in H as (a & b & Ha & Hb & Ne & H). apply try_pair_swap in H. rewrite swap_pair_invol in H.
    exists b, a. repeat split; auto.
  - intros (a & b & Ha & Hb & Ne & H).
    apply In_nth_error in Ha as (i & Ei). apply In_nth_error in Hb as (j & Ej).
    assert (Li : (i < length fs)%nat) by (apply nth_error_Some; congruence).
    assert (Lj : (j < length fs)%nat) by (apply nth_error_Some; congruence).
    assert (Nij : i <> j) by (intro; subst; congruence).
    assert (C : In (i, j) (batch_visits bs (length fs)) \/ In (j, i) (batch_visits bs (length fs))).
    { destruct (Nat.lt_ge_cases i j); [apply S2; lia|]. destruct (S2 j i ltac:(lia)); auto. }
    destruct C as [C|C].
    + left. apply batch_qualifying_in. exists i, j, a, b. auto.
    + right. apply batch_qualifying_in. exists j, i, b, a. repeat split; auto. apply try_pair_swap. auto.
Qed.

(* ---- counting: the batch loop finds exactly as many qualifying pairs as the double loop ---- *)
Lemma qv_norm_length : forall c fs ij, length (qv c fs (norm ij)) = length (qv c fs ij).
Proof.
  intros c fs [i j]. unfold norm. simpl. destruct (i <? j)%nat; auto.
  unfold qv. simpl. destruct (nth_error fs j), (nth_error fs i); auto.
  apply (try_pair_sym_length sim dist gate sim_sym dist_sym gate_sym).
Qed.

Lemma flat_map_length_pointwise : forall (A B : Type) (f g : A -> list B) (l : list A),
  (forall x, length (f x) = length (g x)) -> length (flat_map f l) = length (flat_map g l).
Proof. induction l; simpl; intros; auto. rewrite !app_length, H, IHl; auto. Qed.

Lemma qv_row : forall c fs k x r s, nth_error fs k = Some x ->
  (forall t, (t < length r)%nat -> nth_error fs (s + t) = nth_error r t) ->
  flat_map (qv c fs) (map (pair k) (seq s (length r))) = flat_map (fun b => try_pair c x b) r.
Proof.
  intros c fs k x. induction r as [|y r IH]; intros s Hk Hr; simpl; auto.
  unfold qv at 1. simpl. rewrite Hk. specialize (Hr 0%nat ltac:(simpl; lia)) as H0. rewrite Nat.add_0_r in H0. simpl in H0. rewrite H0.
  f_equal. apply IH; auto. intros t Ht. specialize (Hr (S t) ltac:(simpl; lia)). rewrite Nat.add_succ_r in Hr. simpl in Hr. auto.
Qed.

Lemma flat_map_map : forall (A B C : Type) (f : B -> list C) (g : A -> B) (l : list A),
  flat_map f (map g l) = flat_map (fun x => f (g x)) l.
Proof. induction l; simpl; auto. rewrite IHl. auto. Qed.

Lemma qv_pairs_of : forall c fs l s, (forall t, (t < length l)%nat -> nth_error fs (s + t) = nth_error l t) ->
  flat_map (qv c fs) (pairs_of (seq s (length l))) = flat_map (fun ab => try_pair c (fst ab) (snd ab)) (pairs_of l).
Proof.
  intros c fs. induction l as [|x r IH]; intros s H; simpl; auto.
  rewrite !flat_map_app. f_equal.
  - rewrite (qv_row c fs s x r (S s)).
    + rewrite flat_map_map. reflexivity.
    + specialize (H 0%nat ltac:(simpl; lia)). rewrite Nat.add_0_r in H. auto.
    + intros t Ht. specialize (H (S t) ltac:(simpl; lia)). rewrite Nat.add_succ_r in H. auto.
  - apply IH. intros t Ht. specialize (H (S t) ltac:(simpl; lia)). rewrite Nat.add_succ_r in H. auto.
Qed.

Lemma batch_count : forall c fs bs, (0 < bs)%nat -> length (batch_qualifying c fs bs) = length (exhaustive c fs).
Proof.
  intros c fs bs Hbs. unfold batch_qualifying.
  rewrite <- (flat_map_length_pointwise _ _ (fun ij => qv c fs (norm ij)) (qv c fs)) by (intro; apply qv_norm_length).
  rewrite <- (flat_map_map _ _ _ (qv c fs) norm).
  rewrite (Permutation_length (Permutation_flat_map (qv c fs) (batch_visits_perm bs (length fs) Hbs))).
  unfold Pairs.exhaustive. rewrite (qv_pairs_of c fs fs 0); auto.
Qed.

(* no truncation: the number of qualifying pairs does not exceed MaxClonePairs *)
Definition no_truncation (c : cfg) (fs : list frag) : Prop :=
  0 < c_max_pairs c /\ Z.of_nat (length (exhaustive c fs)) <= c_max_pairs c.

Lemma In_sym_perm : forall p r1 r2, Permutation r1 r2 -> (In_sym p r1 <-> In_sym p r2).
Proof.
  intros p r1 r2 P. pose proof (Permutation_sym P) as P'. unfold In_sym. split; intros [H|H].
  - left. apply (Permutation_in _ P H).
  - right. apply (Permutation_in _ P H).
  - left. apply (Permutation_in _ P' H).
  - right. apply (Permutation_in _ P' H).
Qed.

(* C09: batched and unbatched exhaustive detection return the same set of pairs (up to which fragment
   is listed first) when nothing is cut off *)
Lemma batched_same_set : forall c fs bs, valid_cfg c -> NoDup fs -> no_truncation c fs ->
  same_pair_set (batched c fs (c_max_pairs c) bs) (exhaustive c fs) /\
  length (batched c fs (c_max_pairs c) bs) = length (exhaustive c fs).
Proof.
  intros c fs bs V ND [Hm Len].
  pose proof (batch_size_eff_pos bs) as Hbs.
  assert (P : Permutation (batched c fs (c_max_pairs c) bs) (batch_qualifying c fs (batch_size_eff bs))).
  { apply batched_perm; auto. rewrite batch_count; auto. }
  split.
  - intro p. rewrite (In_sym_perm p _ _ P). rewrite exhaustive_sym_in by auto.
    apply batch_qualifying_sym_in; auto.
  - rewrite (Permutation_length P). apply batch_count; auto.
Qed.

Lemma exhaustive_short : forall c fs, (length fs <= 1)%nat -> exhaustive c fs = [].
Proof. intros c fs H. destruct fs as [|x [|y r]]; simpl in *; auto. lia. Qed.

(* the public non-LSH entry point, whatever batching it chooses *)
Lemma detect_pairs_same_set : forall c fs, valid_cfg c -> NoDup fs -> no_truncation c fs ->
  same_pair_set (detect_pairs c fs) (exhaustive c fs).
Proof.
  intros c fs V ND NT p. unfold Pairs.detect_pairs.
  destruct (Z.of_nat (length fs) <=? 1) eqn:E.
  - apply Z.leb_le in E. rewrite exhaustive_short by lia. tauto.
  - destruct NT as [Hm Len].
    destruct ((c_batch_threshold c <? Z.of_nat (length fs)) || (c_max_pairs c <? Z.of_nat (length fs) * (Z.of_nat (length fs) - 1) / 2)).
    + destruct (batched_same_set c fs (calculate_batch_size c (Z.of_nat (length fs))) V ND (conj Hm Len)) as [S L].
      rewrite (In_sym_perm p _ _ (limit_and_sort_all c _ ltac:(rewrite L; auto))). apply S.
    + apply In_sym_perm. apply limit_and_sort_all. auto.
Qed.

End Batch.
