(* C10 — complete-linkage mode: the model [group_complete] meets [contract_complete]
   (for a positive threshold) and never runs out of fuel. *)
From Coq Require Import NArith QArith List Bool Lia Arith Permutation.
From PV Require Import Clone.GroupSpec Clone.GroupSpecProofs Clone.GroupCommon Clone.GroupComplete.
Import ListNotations.

(* ---------------------------------------------------------------- fragments *)
Lemma add_frag_nodup acc f : NoDup acc -> NoDup (add_frag acc f).
Proof.
  unfold add_frag. destruct (memb f acc) eqn:E; auto. intro H.
  apply memb_false in E. apply nodup_app_iff. split; auto. split.
  - constructor; auto. constructor.
  - intros x Hx [<-|[]]. auto.
Qed.

Lemma collect_fragments_nodup G : NoDup (collect_fragments G).
Proof.
  unfold collect_fragments. generalize (@nil N) (NoDup_nil N).
  induction G as [|[[a b] s] G IH]; simpl; intros acc H; auto.
  apply IH. auto using add_frag_nodup.
Qed.

Lemma concat_singletons (l : list N) : concat (map (fun f => [f]) l) = l.
Proof. induction l; simpl; congruence. Qed.

(* ---------------------------------------------------------------- sorting *)
Lemma insert_perm x l : Permutation (insert x l) (x :: l).
Proof.
  induction l as [|y r IH]; simpl; auto.
  destruct (N.leb x y); auto.
  eapply perm_trans. apply perm_skip, IH. apply perm_swap.
Qed.

Lemma sort_frags_perm l : Permutation (sort_frags l) l.
Proof.
  induction l as [|x l IH]; simpl; auto.
  eapply perm_trans. apply insert_perm. auto.
Qed.

(* ---------------------------------------------------------------- merging *)
Lemma remove_nth_perm (l : list (list N)) : forall j,
  Permutation (nth j l [] ++ concat (remove_nth j l)) (concat l).
Proof.
  induction l as [|c r IH]; intros [|j]; simpl; auto.
  rewrite app_assoc.
  eapply perm_trans. apply Permutation_app_tail, Permutation_app_comm.
  rewrite <- app_assoc. apply Permutation_app_head, IH.
Qed.

Lemma merge_clusters_perm cls : forall i j, (i < j)%nat ->
  Permutation (concat (merge_clusters cls i j)) (concat cls).
Proof.
  unfold merge_clusters.
  induction cls as [|c r IH]; intros i j Hij.
  { destruct i, j; simpl; auto. }
  destruct j as [|j]; [lia|]. destruct i as [|i]; simpl.
  - rewrite <- app_assoc. apply Permutation_app_head, remove_nth_perm.
  - apply Permutation_app_head, IH. lia.
Qed.

Lemma set_nth_length {A} (x : A) l : forall i, length (set_nth i x l) = length l.
Proof. induction l as [|y r IH]; intros [|i]; simpl; auto. Qed.

Lemma remove_nth_length {A} (l : list A) : forall j, (j < length l)%nat ->
  length (remove_nth j l) = pred (length l).
Proof.
  induction l as [|y r IH]; intros [|j] H; simpl in *; auto; try lia.
  rewrite IH by lia. lia.
Qed.

Lemma merge_clusters_length cls i j : (j < length cls)%nat ->
  length (merge_clusters cls i j) = pred (length cls).
Proof.
  intro H. unfold merge_clusters.
  rewrite remove_nth_length; rewrite set_nth_length; auto.
Qed.

(* ---------------------------------------------------------------- best_pair *)
Lemma fold_pick {A B} (f : option A * B -> A -> option A * B) :
  (forall st x, fst (f st x) = fst st \/ fst (f st x) = Some x) ->
  forall l st r, fst (fold_left f l st) = Some r -> fst st = Some r \/ In r l.
Proof.
  intros Hf. induction l as [|x l IH]; simpl; intros st r H; auto.
  apply IH in H. destruct H as [H|H]; auto.
  destruct (Hf st x) as [E|E]; rewrite E in H; auto.
  injection H; auto.
Qed.

Lemma idx_pairs_range n i j : In (i, j) (idx_pairs n) -> (i < j < n)%nat.
Proof.
  unfold idx_pairs. rewrite in_flat_map. intros [x [Hx H]].
  apply in_map_iff in H. destruct H as [y [E Hy]]. injection E; intros; subst.
  apply in_seq in Hx. apply in_seq in Hy. lia.
Qed.

Lemma best_pair_range t G cls i j :
  best_pair t G cls = Some (i, j) -> (i < j < length cls)%nat.
Proof.
  unfold best_pair. intro H. apply idx_pairs_range.
  apply fold_pick in H.
  - destruct H as [H|H]; [discriminate|auto].
  - intros [best score] [i' j'].
    destruct (Qle_bool t (cluster_sim t G (nth i' cls []) (nth j' cls [])) &&
              Qltb score (cluster_sim t G (nth i' cls []) (nth j' cls []))); simpl; auto.
Qed.

(* ---------------------------------------------------------------- merge_loop *)
Lemma merge_loop_nodup t G : forall fuel cls cls',
  merge_loop t G fuel cls = Some cls' -> NoDup (concat cls) -> NoDup (concat cls').
Proof.
  induction fuel as [|f IH]; simpl; intros cls cls' H Hn; [discriminate|].
  destruct (best_pair t G cls) as [[i j]|] eqn:E.
  - apply IH in H; auto. apply best_pair_range in E.
    eapply Permutation_NoDup; [|exact Hn].
    apply Permutation_sym, merge_clusters_perm. lia.
  - injection H; intros; subst; auto.
Qed.

Lemma merge_loop_total t G : forall fuel cls,
  (length cls <= fuel)%nat -> (1 <= fuel)%nat -> merge_loop t G fuel cls <> None.
Proof.
  induction fuel as [|f IH]; simpl; intros cls H1 H2; [lia|].
  destruct (best_pair t G cls) as [[i j]|] eqn:E; [|discriminate].
  apply best_pair_range in E. apply IH.
  - rewrite merge_clusters_length; lia.
  - lia.
Qed.

(* ---------------------------------------------------------------- similarity and adj *)
Lemma sim_lookup_some G a b : forall acc v,
  fold_left (fun acc (p : pair) =>
     if joins a b p then
       match acc with
       | None => Some (snd p)
       | Some old => if Qltb old (snd p) then Some (snd p) else acc
       end
     else acc) G acc = Some v ->
  acc = Some v \/ exists p, In p G /\ joins a b p = true /\ snd p = v.
Proof.
  induction G as [|p G IH]; simpl; intros acc v H; auto.
  apply IH in H. destruct H as [H|[q [H1 H2]]].
  - destruct (joins a b p) eqn:J; auto.
    destruct acc as [old|].
    + destruct (Qltb old (snd p)); auto.
      right. exists p. injection H; auto.
    + right. exists p. injection H; auto.
  - right. exists q. tauto.
Qed.

Lemma similarity_adj t G a b :
  (0 < t)%Q -> a <> b -> (t <= similarity G a b)%Q -> adj t G a b.
Proof.
  intros Ht Hn H. unfold similarity in H.
  apply N.eqb_neq in Hn. rewrite Hn in H. apply N.eqb_neq in Hn.
  destruct (sim_lookup G a b) as [v|] eqn:E.
  - unfold sim_lookup in E. apply sim_lookup_some in E.
    destruct E as [E|[[[x y] s] [H1 [H2 H3]]]]; [discriminate|].
    simpl in H3. subst s. split; auto. exists v. split; auto.
    apply joins_spec in H2. destruct H2 as [[-> ->]|[-> ->]]; auto.
  - exfalso. eapply Qlt_not_le; eauto.
Qed.

Lemma verify_pairs t G cl : verify_cluster t G cl = true ->
  forall a b, In a cl -> In b cl -> a <> b ->
    (t <= similarity G a b)%Q \/ (t <= similarity G b a)%Q.
Proof.
  induction cl as [|x r IH]; simpl; intros H a b Ha Hb Hn; [contradiction|].
  apply andb_true_iff in H. destruct H as [H1 H2]. rewrite forallb_forall in H1.
  assert (K : forall y, In y r -> (t <= similarity G x y)%Q).
  { intros y Hy. apply H1 in Hy. unfold Qltb in Hy. rewrite negb_involutive in Hy.
    apply Qle_bool_iff; auto. }
  destruct Ha as [Ha|Ha], Hb as [Hb|Hb]; subst; auto. congruence.
Qed.

Lemma verify_clique t G cl : (0 < t)%Q -> verify_cluster t G cl = true ->
  forall a b, In a cl -> In b cl -> a <> b -> adj t G a b.
Proof.
  intros Ht H a b Ha Hb Hn.
  destruct (verify_pairs t G cl H a b Ha Hb Hn) as [K|K].
  - apply similarity_adj; auto.
  - apply adj_sym, similarity_adj; auto.
Qed.

(* ---------------------------------------------------------------- final filtering *)
Lemma incl_concat_filter {A} (P : list A -> bool) cls :
  forall x, In x (concat (filter P cls)) -> In x (concat cls).
Proof.
  intros x. rewrite !in_concat. intros [l [H1 H2]]. apply filter_In in H1.
  exists l. tauto.
Qed.

Lemma nodup_concat_filter {A} (P : list A -> bool) cls :
  NoDup (concat cls) -> NoDup (concat (filter P cls)).
Proof.
  induction cls as [|c r IH]; simpl; auto. intro H.
  apply nodup_app_iff in H. destruct H as (H1 & H2 & H3).
  destruct (P c); simpl; auto.
  apply nodup_app_iff. split; auto. split; auto.
  intros x Hx Hc. apply (H3 x Hx). eapply incl_concat_filter; eauto.
Qed.

Lemma concat_sort_perm cls : Permutation (concat (map sort_frags cls)) (concat cls).
Proof.
  induction cls as [|c r IH]; simpl; auto.
  apply Permutation_app; auto using sort_frags_perm.
Qed.

Lemma complete_final_contract t G cls :
  (0 < t)%Q -> NoDup (concat cls) -> contract_complete t G (complete_final t G cls).
Proof.
  intros Ht Hn. unfold complete_final.
  set (P := fun cl : list N => (2 <=? length cl)%nat && verify_cluster t G cl).
  assert (Hc : forall g, In g (map sort_frags (filter P cls)) ->
             forall a b, In a g -> In b g -> a <> b -> adj t G a b).
  { intros g Hg a b Ha Hb Hab. apply in_map_iff in Hg. destruct Hg as [cl [<- Hcl]].
    apply filter_In in Hcl. destruct Hcl as [_ Hp]. unfold P in Hp.
    apply andb_true_iff in Hp. destruct Hp as [_ Hv].
    pose proof (sort_frags_perm cl) as Hp.
    apply (verify_clique t G cl Ht Hv); auto; eapply Permutation_in; eauto. }
  assert (Hnd : NoDup (concat (map sort_frags (filter P cls)))).
  { eapply Permutation_NoDup. apply Permutation_sym, concat_sort_perm.
    apply nodup_concat_filter; auto. }
  apply nodup_concat in Hnd. destruct Hnd as [Hnd Hdis].
  split; [|exact Hc]. split; [|split]; auto.
  - intros g Hg. split; auto.
    apply in_map_iff in Hg. destruct Hg as [cl [<- Hcl]].
    apply filter_In in Hcl. destruct Hcl as [_ Hp]. unfold P in Hp.
    apply andb_true_iff in Hp. destruct Hp as [Hl _]. apply Nat.leb_le in Hl.
    rewrite (Permutation_length (sort_frags_perm cl)). exact Hl.
  - intros g Hg. apply clique_linked. exact (Hc g Hg).
Qed.

Lemma contract_complete_nil t G : contract_complete t G [].
Proof.
  split; [split; [|split]|].
  - intros g [].
  - intros [|i] j gi gj H; discriminate.
  - intros g [].
  - intros g [].
Qed.

(* ---------------------------------------------------------------- main theorems *)
Theorem group_complete_contract : forall t G gs,
  (0 < t)%Q -> group_complete t G = Some gs -> contract_complete t G gs.
Proof.
  intros t G gs Ht H. unfold group_complete in H.
  pose proof (collect_fragments_nodup G) as Hn.
  rewrite <- (concat_singletons (collect_fragments G)) in Hn.
  destruct (collect_fragments G) as [|f1 [|f2 fr]].
  - injection H; intros; subst. apply contract_complete_nil.
  - injection H; intros; subst. apply contract_complete_nil.
  - destruct (merge_loop t G (length (f1 :: f2 :: fr)) (map (fun f => [f]) (f1 :: f2 :: fr)))
      as [cls|] eqn:E; [|discriminate].
    injection H; intros; subst.
    apply complete_final_contract; auto.
    eapply merge_loop_nodup; eauto.
Qed.

Theorem group_complete_total : forall t G, group_complete t G <> None.
Proof.
  intros t G. unfold group_complete.
  destruct (collect_fragments G) as [|f1 [|f2 fr]]; try discriminate.
  destruct (merge_loop t G (length (f1 :: f2 :: fr)) (map (fun f => [f]) (f1 :: f2 :: fr)))
    as [cls|] eqn:E; [discriminate|].
  exfalso. revert E. apply merge_loop_total.
  - rewrite map_length. auto.
  - simpl. lia.
Qed.

