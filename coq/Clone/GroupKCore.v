(* C10 — model of KCoreGrouping.GroupClones (internal/analyzer/k_core_grouping.go:24-164):
   adjacency of the pairs >= threshold, iterative removal of vertices of degree < k with a
   work queue, then the connected components of what is left (stack-based search).

   Go ranges over maps in three places (initial degrees 67-69 / queue 74-79, the neighbours of
   the removed vertex 92, the neighbours in the component search 124). The model takes one
   list [ord] (a permutation of the vertices) standing for the map iteration order: every such
   range visits its keys in the order they have in [ord]. Not modelled: Similarity/CloneType,
   ids, final order of groups. *)
From Coq Require Import NArith ZArith QArith List Bool.
From PV Require Import Gen.GroupConst Clone.GroupSpec Clone.GroupCommon.
Import ListNotations.

(* adj[a][b] is set (lines 56-59): some pair joins a and b with similarity >= threshold *)
Definition listed (t : Q) (G : pgraph) (a b : N) : bool :=
  existsb (fun p : pair => joins a b p && Qle_bool t (snd p)) G.

Definition amap : Type := list (N * list N).

Fixpoint aget (m : amap) (v : N) : option (list N) :=
  match m with
  | [] => None
  | (x, l) :: m' => if N.eqb x v then Some l else aget m' v
  end.
Definition nbrs (m : amap) (v : N) : list N := match aget m v with Some l => l | None => [] end.
Definition adel (m : amap) (v : N) : amap := filter (fun xl : N * list N => negb (N.eqb (fst xl) v)) m.
Definition aremove (m : amap) (u v : N) : amap :=      (* delete(adj[u], v) *)
  map (fun xl : N * list N => let '(x, l) := xl in
         if N.eqb x u then (x, filter (fun w => negb (N.eqb w v)) l) else xl) m.

Fixpoint zget (m : list (N * Z)) (v : N) : Z :=
  match m with
  | [] => 0%Z
  | (x, d) :: m' => if N.eqb x v then d else zget m' v
  end.
Definition zset (m : list (N * Z)) (v : N) (d : Z) : list (N * Z) :=
  map (fun xd : N * Z => if N.eqb (fst xd) v then (fst xd, d) else xd) m.

Record kstate := mkK {
  k_adj : amap; k_deg : list (N * Z); k_queue : list N; k_inq : list N; k_removed : list N }.

(* NewKCoreGrouping, lines 16-21 *)
Definition effective_k (k : Z) : Z := if (k <? clone_kcore_minK)%Z then clone_kcore_minK else k.

(* lines 28-79 *)
Definition kcore_init (t : Q) (G : pgraph) (k : Z) (ord nodes : list N) : kstate :=
  let adj0 := map (fun v => (v, filter (listed t G v) ord)) nodes in
  let deg0 := map (fun v => (v, Z.of_nat (length (nbrs adj0 v)))) nodes in
  let low := filter (fun v => (zget deg0 v <? k)%Z) ord in
  mkK adj0 deg0 low low [].

(* lines 92-102: one neighbour u of the vertex v being removed *)
Definition peel_nbr (k : Z) (v : N) (st : kstate) (u : N) : kstate :=
  if memb u (k_removed st) then st
  else
    let d := (zget (k_deg st) u - 1)%Z in
    let adj' := aremove (k_adj st) u v in
    let deg' := zset (k_deg st) u d in
    if (d <? k)%Z && negb (memb u (k_inq st))
    then mkK adj' deg' (k_queue st ++ [u]) (u :: k_inq st) (k_removed st)
    else mkK adj' deg' (k_queue st) (k_inq st) (k_removed st).

(* lines 83-105; every vertex enters the queue at most once: |nodes|+1 rounds suffice *)
Fixpoint peel (k : Z) (fuel : nat) (st : kstate) : option kstate :=
  match fuel with
  | O => None
  | S f =>
      match k_queue st with
      | [] => Some st
      | v :: q =>
          if memb v (k_removed st)
          then peel k f (mkK (k_adj st) (k_deg st) q (k_inq st) (k_removed st))
          else
            let st1 := mkK (k_adj st) (k_deg st) q (k_inq st) (v :: k_removed st) in
            let st2 := fold_left (peel_nbr k v) (nbrs (k_adj st) v) st1 in
            peel k f (mkK (adel (k_adj st2) v) (k_deg st2) (k_queue st2) (k_inq st2) (k_removed st2))
      end
  end.

(* lines 119-131: stack-based component search; head of the list = top of the stack *)
Fixpoint dfs (adj : amap) (removed : list N) (fuel : nat) (stack visited comp : list N)
  : option (list N * list N) :=
  match fuel with
  | O => None
  | S f =>
      match stack with
      | [] => Some (comp, visited)
      | v :: st =>
          let '(st', vis') :=
            fold_left (fun (sv : list N * list N) u =>
                 let '(s, vis) := sv in
                 if negb (memb u removed) && negb (memb u vis) then (u :: s, u :: vis) else sv)
              (nbrs adj v) (st, visited) in
          dfs adj removed f st' vis' (comp ++ [v])
      end
  end.

(* lines 114-140 *)
Definition kcore_components (st : kstate) (nodes : list N) : option (list group) :=
  let sorted := sort_frags nodes in
  let res :=
    fold_left (fun (acc : option (list N * list group)) start =>
       match acc with
       | None => None
       | Some (visited, groups) =>
           if memb start (k_removed st) || memb start visited ||
              match aget (k_adj st) start with None => true | Some _ => false end
           then acc
           else match dfs (k_adj st) (k_removed st) (S (length nodes)) [start] (start :: visited) [] with
                | None => None
                | Some (comp, visited') =>
                    if (length comp <? 2)%nat then Some (visited', groups)
                    else Some (visited', groups ++ [sort_frags comp])
                end
       end) sorted (Some ([], [])) in
  match res with Some (_, groups) => Some groups | None => None end.

(* [ord]: map iteration order (a permutation of the collected fragments) *)
Definition group_kcore_ord (t : Q) (kk : Z) (G : pgraph) (ord : list N) : option (list group) :=
  let k := effective_k kk in
  let nodes := collect_fragments G in
  match peel k (S (length nodes)) (kcore_init t G k ord nodes) with
  | None => None
  | Some st => kcore_components st nodes
  end.

Definition group_kcore (t : Q) (kk : Z) (G : pgraph) : option (list group) :=
  group_kcore_ord t kk G (collect_fragments G).
