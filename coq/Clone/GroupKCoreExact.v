(* C10 — the k-core grouping model (GroupKCore.v), exactness and fuel sufficiency, for an abstract
   symmetric irreflexive edge relation E on a duplicate-free vertex list:
   - the work-queue pruning loop [peel] never runs out of its |nodes|+1 rounds, and the vertices
     it leaves are THE maximal vertex set in which every vertex has >= k neighbours inside the
     set (greatest fixpoint; whatever the removal order);
   - the stack-based search [dfs] never runs out of fuel, and [kcore_components] returns every
     connected component with >= 2 members of what is left, members sorted.
   GroupKCoreProofs.v has the invariants ([WF], [dinv], [outer_inv]); this file adds the
   termination measures, the "no vertex of a k-core set is ever removed" invariant and the
   completeness of the component search. *)
From Coq Require Import NArith ZArith QArith List Bool Lia Arith Permutation Sorted.
From Coq Require Import Zify ZifyBool ZifyNat ZifyN.
From PV Require Import Gen.GroupConst Clone.GroupSpec Clone.GroupSpecProofs Clone.GroupCommon Clone.GroupKCore
  Clone.GroupKCoreProofs Clone.GroupSpecKCoreProofs.
Import ListNotations.
Local Close Scope Q_scope.

Lemma zget_zset_cases m u d w :
  zget (zset m u d) w = zget m w \/ (w = u /\ zget (zset m u d) w = d).
Proof.
  induction m as [|[x dx] m IH]; simpl; auto.
  destruct (N.eqb x u) eqn:Exu; simpl.
  - destruct (N.eqb x w) eqn:Exw; auto.
    apply N.eqb_eq in Exu. apply N.eqb_eq in Exw. right. split; congruence.
  - destruct (N.eqb x w); auto.
Qed.

(* ---------------------------------------------------------------- the pruning loop *)
Section PeelX.
Context (E : N -> N -> bool) (nodes : list N) (k : Z).
Context (Esym : forall a b, E a b = E b a) (Eirr : forall a, E a a = false).

(* one round of [peel] *)
Definition peel_next (st : kstate) : option kstate :=
  match k_queue st with
  | [] => None
  | v :: q =>
      Some (if memb v (k_removed st)
            then mkK (k_adj st) (k_deg st) q (k_inq st) (k_removed st)
            else
              let st1 := mkK (k_adj st) (k_deg st) q (k_inq st) (v :: k_removed st) in
              let st2 := fold_left (peel_nbr k v) (nbrs (k_adj st) v) st1 in
              mkK (adel (k_adj st2) v) (k_deg st2) (k_queue st2) (k_inq st2) (k_removed st2))
  end.

Lemma peel_unfold f st :
  peel k (S f) st = match peel_next st with None => Some st | Some s => peel k f s end.
Proof.
  unfold peel_next. simpl. destruct (k_queue st) as [|v q]; auto.
  destruct (memb v (k_removed st)); reflexivity.
Qed.

Lemma peel_next_WF st s : WF E nodes k st -> peel_next st = Some s -> WF E nodes k s.
Proof.
  unfold peel_next. intros HWF H.
  destruct (k_queue st) as [|v q] eqn:Eq; [discriminate|].
  destruct HWF as (Ha & Hq1 & Hq2 & Hq3 & Hq4). rewrite Eq in *.
  destruct (memb v (k_removed st)) eqn:Em; inversion H; subst s; clear H.
  - split; simpl; auto. split; [|split; [|split]]; auto.
    + intros w Hw Hlt. destruct (Hq1 w Hw Hlt); auto. subst.
      apply memb_In in Em. destruct Hw; contradiction.
    + intros x Hx. destruct (Hq2 x Hx) as [H1 | H1]; auto. destruct H1; auto.
      subst. right. apply memb_In; auto.
    + intros x Hx. apply Hq4. right; auto.
  - apply memb_false in Em.
    assert (Hv : alive nodes (k_removed st) v) by (split; auto; apply Hq4; left; auto).
    destruct (Ha v Hv) as (lv & Hgv & Hndv & Hinv & Hzv).
    set (Rm' := v :: k_removed st) in *.
    assert (Hsub : forall w, alive nodes Rm' w -> alive nodes (k_removed st) w /\ w <> v).
    { intros w [H1 H2]. split. split; auto. intro; apply H2; right; auto.
      intros ->. apply H2. left; auto. }
    unfold nbrs. rewrite Hgv.
    match goal with |- WF _ _ _ (mkK (adel (k_adj ?s) _) _ _ _ _) => set (st2 := s) end.
    assert (HI : Inner E nodes k Rm' v [] st2).
    { apply fold_inner; auto. left; auto.
      - intros u Hu. apply Hinv in Hu. destruct Hu as [[H1 H2] H3]. split; auto.
        intros [<- | H4]; auto. rewrite Eirr in H3. discriminate.
      - split; [reflexivity|]. simpl. split.
        + intros w Hw. apply Hsub in Hw. destruct Hw as [Hw Hne].
          destruct (Ha w Hw) as (l & Hg & Hnd & Hin & Hz). exists l.
          split; auto. split; auto. split; auto.
          intros x. rewrite Hin. split.
          * intros [[H1 H2] H3]. destruct (N.eq_dec x v) as [-> | Hx].
            -- right. split; auto. apply Hinv. split; auto. rewrite Esym; auto.
            -- left. split; auto. split; auto. intros [H4 | H4]; auto.
          * intros [[H1 H2] | [-> H2]].
            -- apply Hsub in H1. destruct H1; auto.
            -- apply Hinv in H2. destruct H2 as [_ H2]. split; auto. rewrite Esym; auto.
        + split; [|split; [|split]]; auto.
          * intros w Hw Hlt. apply Hsub in Hw. destruct Hw as [Hw Hne].
            destruct (Hq1 w Hw Hlt); auto. congruence.
          * intros x Hx. destruct (Hq2 x Hx) as [[<- | H1] | H1]; auto.
            right; left; auto. right; right; auto.
          * intros x Hx. apply Hq4. right; auto. }
    destruct HI as (HR & Hadj & HQ). unfold WF. simpl. rewrite HR. split; auto.
    intros w Hw. destruct (Hadj w Hw) as (l & Hg & Hnd & Hin & Hz). exists l.
    rewrite aget_adel_other.
    + split; auto. split; auto. split; auto. intros x. rewrite Hin. split; auto.
      intros [H1 | [_ []]]; auto.
    + intros ->. destruct Hw as [_ Hw]. apply Hw. left; auto.
Qed.

(* a k-core set: duplicate-free, vertices, every member has >= k E-neighbours in the set *)
Definition coreE (S : list N) : Prop :=
  NoDup S /\ forall v, In v S -> In v nodes /\ (k <= Z.of_nat (length (filter (E v) S)))%Z.

(* no member of any k-core set has been removed *)
Definition Safe (Rm : list N) : Prop := forall S, coreE S -> forall v, In v S -> ~ In v Rm.

(* every queued vertex is removed already or has degree < k *)
Definition Qlow (st : kstate) : Prop :=
  forall w, In w (k_queue st) -> In w (k_removed st) \/ (zget (k_deg st) w < k)%Z.

Definition X' (st : kstate) : Prop :=
  NoDup (k_inq st) /\ (forall u, In u (k_inq st) -> In u nodes) /\
  map fst (k_deg st) = nodes /\ Qlow st.

Definition X (st : kstate) : Prop := X' st /\ Safe (k_removed st).

(* termination measure: |queue| - |ever queued|; a push keeps it, a pop decreases it *)
Definition delta (st : kstate) : Z :=
  (Z.of_nat (length (k_queue st)) - Z.of_nat (length (k_inq st)))%Z.

Lemma peel_nbr_X v st u : In u nodes -> X' st ->
  X' (peel_nbr k v st u) /\ delta (peel_nbr k v st u) = delta st /\
  k_removed (peel_nbr k v st u) = k_removed st.
Proof.
  intros Hu (Xn & Xi & Xm & Xq). unfold peel_nbr.
  destruct (memb u (k_removed st)) eqn:Em. { repeat split; auto. }
  set (d := (zget (k_deg st) u - 1)%Z).
  assert (Hud : In u (map fst (k_deg st))) by (rewrite Xm; exact Hu).
  assert (Hold : forall w, In w (k_queue st) ->
            In w (k_removed st) \/ (zget (zset (k_deg st) u d) w < k)%Z).
  { intros w Hw. destruct (Xq w Hw) as [H | H]; auto. right.
    destruct (zget_zset_cases (k_deg st) u d w) as [Hc | [-> Hc]]; rewrite Hc; auto.
    unfold d. lia. }
  destruct ((d <? k)%Z && negb (memb u (k_inq st))) eqn:Eb.
  - apply andb_true_iff in Eb. destruct Eb as [Ed Ei].
    apply Z.ltb_lt in Ed. apply negb_true_iff, memb_false in Ei.
    split; [|split]; [| |reflexivity].
    + unfold X', Qlow. simpl. split; [|split; [|split]].
      * constructor; auto.
      * intros x [<- | Hx]; auto.
      * rewrite map_fst_zset. exact Xm.
      * intros w Hw. apply in_app_or in Hw. destruct Hw as [Hw | [<- | []]]; auto.
        right. rewrite zget_zset_same by auto. exact Ed.
    + unfold delta. cbn [k_queue k_inq]. rewrite app_length. cbn [length]. lia.
  - split; [|split]; [| |reflexivity].
    + unfold X', Qlow. simpl. split; [|split; [|split]]; auto.
      rewrite map_fst_zset. exact Xm.
    + unfold delta. cbn [k_queue k_inq]. reflexivity.
Qed.

Lemma fold_X v : forall todo st, (forall u, In u todo -> In u nodes) -> X' st ->
  X' (fold_left (peel_nbr k v) todo st) /\
  delta (fold_left (peel_nbr k v) todo st) = delta st /\
  k_removed (fold_left (peel_nbr k v) todo st) = k_removed st.
Proof.
  induction todo as [|u todo IH]; simpl; intros st Hin HX; auto.
  destruct (peel_nbr_X v st u) as (H1 & H2 & H3); auto.
  destruct (IH (peel_nbr k v st u)) as (I1 & I2 & I3); auto.
  split; auto. split; congruence.
Qed.

Lemma peel_next_X st s : WF E nodes k st -> X st -> peel_next st = Some s ->
  X s /\ delta s = (delta st - 1)%Z.
Proof.
  unfold peel_next. intros (Ha & Hq1 & Hq2 & Hq3 & Hq4) ((Xn & Xi & Xm & Xq) & Xs) H.
  destruct (k_queue st) as [|v q] eqn:Eq; [discriminate|].
  assert (Hdq : delta st = (Z.of_nat (length q) + 1 - Z.of_nat (length (k_inq st)))%Z).
  { unfold delta. rewrite Eq. cbn [length]. lia. }
  destruct (memb v (k_removed st)) eqn:Em; inversion H; subst s; clear H.
  - split; [split|].
    + unfold X', Qlow. simpl. split; [|split; [|split]]; auto.
      intros w Hw. apply Xq. rewrite Eq. right; auto.
    + exact Xs.
    + rewrite Hdq. unfold delta. cbn [k_queue k_inq]. lia.
  - apply memb_false in Em.
    assert (Hv : alive nodes (k_removed st) v) by (split; auto; apply Hq4; left; auto).
    destruct (Ha v Hv) as (lv & Hgv & Hndv & Hinv & Hzv).
    assert (Hlow : (zget (k_deg st) v < k)%Z).
    { destruct (Xq v) as [H | H]; auto. rewrite Eq; left; auto. contradiction. }
    unfold nbrs. rewrite Hgv.
    set (st1 := mkK (k_adj st) (k_deg st) q (k_inq st) (v :: k_removed st)).
    assert (HX1 : X' st1).
    { unfold X', Qlow. simpl. split; [|split; [|split]]; auto.
      intros w Hw. destruct (Xq w) as [H | H]; auto. rewrite Eq; right; auto. }
    destruct (fold_X v lv st1) as (F1 & F2 & F3); auto.
    { intros u Hu. apply Hinv in Hu. destruct Hu as [[Hu _] _]. exact Hu. }
    set (st2 := fold_left (peel_nbr k v) lv st1) in *.
    split; [split|].
    + exact F1.
    + simpl. rewrite F3. simpl.
      intros S HS x Hx [<- | Hr]; [|revert Hr; apply Xs with S; auto].
      destruct HS as [Snd Sdeg]. destruct (Sdeg v Hx) as [_ Hk].
      assert (Hle : (length (filter (E v) S) <= length lv)%nat).
      { apply NoDup_incl_length. apply NoDup_filter; auto.
        intros u Hu. apply filter_In in Hu. destruct Hu as [HuS HuE].
        apply Hinv. split; auto. split. apply Sdeg; auto.
        apply Xs with S; auto. split; auto. }
      lia.
    + change (delta st2 = (delta st - 1)%Z). rewrite F2, Hdq. unfold delta, st1. cbn [k_queue k_inq]. lia.
Qed.

(* the loop cannot use up more than |nodes| + delta rounds *)
Lemma peel_total : forall fuel st, WF E nodes k st -> X st ->
  (Z.of_nat (length nodes) + delta st < Z.of_nat fuel)%Z ->
  exists st', peel k fuel st = Some st' /\ WF E nodes k st' /\ X st' /\ k_queue st' = [].
Proof.
  induction fuel as [|f IH]; intros st HWF HX Hm.
  - exfalso. destruct HX as ((Xn & Xi & _) & _).
    assert (length (k_inq st) <= length nodes)%nat by (apply NoDup_incl_length; auto).
    unfold delta in Hm. lia.
  - rewrite peel_unfold. destruct (peel_next st) as [s|] eqn:En.
    + destruct (peel_next_X st s HWF HX En) as [HXs Hd].
      apply IH; auto. eapply peel_next_WF; eauto. lia.
    + exists st. split; auto. split; auto. split; auto.
      unfold peel_next in En. destruct (k_queue st); [reflexivity | discriminate].
Qed.

Definition alive_list (st : kstate) : list N :=
  filter (fun v => negb (memb v (k_removed st))) nodes.

Lemma alive_list_In st v : In v (alive_list st) <-> alive nodes (k_removed st) v.
Proof.
  unfold alive_list, alive. rewrite filter_In, negb_true_iff, memb_false. tauto.
Qed.

(* when the queue is empty what is left is the greatest k-core set *)
Lemma peel_final st : NoDup nodes -> WF E nodes k st -> Safe (k_removed st) -> k_queue st = [] ->
  coreE (alive_list st) /\ forall S, coreE S -> forall v, In v S -> In v (alive_list st).
Proof.
  intros Hnd (Ha & Hq1 & _) Hs Hq0. split.
  - split. apply NoDup_filter; auto.
    intros v Hv. apply alive_list_In in Hv. split. apply Hv.
    destruct (Ha v Hv) as (l & _ & Hndl & Hin & Hz).
    assert (Hk : (k <= zget (k_deg st) v)%Z).
    { destruct (Z_lt_le_dec (zget (k_deg st) v) k) as [Hlt | Hge]; auto.
      apply (Hq1 v Hv) in Hlt. rewrite Hq0 in Hlt. destruct Hlt. }
    assert (Hle : (length l <= length (filter (E v) (alive_list st)))%nat).
    { apply NoDup_incl_length; auto. intros u Hu. apply Hin in Hu.
      apply filter_In. split; [apply alive_list_In|]; tauto. }
    lia.
  - intros S HS v Hv. apply alive_list_In. split. apply HS; auto. eapply Hs; eauto.
Qed.

Context (ord : list N) (Hord_nd : NoDup ord) (Hord_in : forall x, In x ord <-> In x nodes).

Lemma init_X : X (init_state E nodes k ord).
Proof.
  destruct (init_WF E nodes k ord Hord_nd Hord_in) as (_ & _ & _ & Hm & _).
  split; [split; [|split; [|split]]|].
  - simpl. apply NoDup_filter; auto.
  - simpl. intros u Hu. apply filter_In in Hu. apply Hord_in. tauto.
  - exact Hm.
  - intros w Hw. right. simpl in Hw. apply filter_In in Hw. destruct Hw as [_ Hw].
    apply Z.ltb_lt in Hw. exact Hw.
  - intros S _ v _ [].
Qed.

Theorem peel_exact : NoDup nodes ->
  exists st, peel k (S (length nodes)) (init_state E nodes k ord) = Some st /\
    WF E nodes k st /\ k_queue st = [] /\
    coreE (alive_list st) /\ (forall S, coreE S -> forall v, In v S -> In v (alive_list st)).
Proof.
  intros Hnd.
  destruct (peel_total (S (length nodes)) (init_state E nodes k ord)) as (st & Hp & HW & HX & Hq).
  - apply init_WF; auto.
  - apply init_X.
  - unfold delta. simpl. lia.
  - exists st. split; auto. split; auto. split; auto. apply peel_final; auto. apply HX.
Qed.
End PeelX.

(* ---------------------------------------------------------------- the component search *)
Section DfsX.
Context (E : N -> N -> bool) (nodes : list N) (st : kstate).
Context (Esym : forall a b, E a b = E b a) (Eirr : forall a, E a a = false).
Context (Hnb : forall v, al nodes st v ->
           forall u, In u (nbrs (k_adj st) v) <-> al nodes st u /\ E v u = true).
Context (Hag : forall v, al nodes st v -> aget (k_adj st) v <> None).

Lemma dfs_step s0 V0 v stk visited comp st' vis' :
  dinv E nodes st s0 V0 (v :: stk) visited comp ->
  fold_left (fun (sv : list N * list N) u =>
       let '(s, vis) := sv in
       if negb (memb u (k_removed st)) && negb (memb u vis) then (u :: s, u :: vis) else sv)
    (nbrs (k_adj st) v) (stk, visited) = (st', vis') ->
  dinv E nodes st s0 V0 st' vis' (comp ++ [v]) /\
  (forall x, In x (comp ++ v :: stk) -> In x ((comp ++ [v]) ++ st')).
Proof.
  intros (Hnd & Hvis & Hmem & Hcl) Ef.
  assert (Hv : al nodes st v) by (apply Hmem; apply in_or_app; right; left; auto).
  apply push_spec in Ef.
  2:{ intros u Hu. apply (Hnb v Hv) in Hu. destruct Hu as [[_ Hu] _]. exact Hu. }
  destruct Ef as (new & -> & -> & Hndn & Hin).
  assert (HS' : forall x, In x ((comp ++ [v]) ++ new ++ stk) <-> In x (comp ++ v :: stk) \/ In x new).
  { intros x. rewrite !in_app_iff. simpl. tauto. }
  split; [|intros x Hx; apply HS'; auto].
  split; [|split; [|split]].
  - apply (Permutation_NoDup (l := new ++ comp ++ v :: stk)).
    + rewrite <- app_assoc. simpl.
      eapply perm_trans. apply Permutation_app_swap_app.
      apply Permutation_app_head. apply Permutation_sym. apply Permutation_middle.
    + apply nodup_app_iff. split; auto. split; auto.
      intros x Hx Hx'. apply Hin in Hx. destruct Hx as [_ Hx]. apply Hx.
      apply Hvis. left; auto.
  - intros x. rewrite HS', in_app_iff, Hvis. tauto.
  - intros x Hx. apply HS' in Hx. destruct Hx as [Hx | Hx].
    + destruct (Hmem x Hx) as (H1 & H2 & H3). split; auto. split; auto.
      eapply conn_mono; [|exact H3]. apply Rin_mono. intros y Hy. apply HS'. auto.
    + assert (Hx' := Hx). apply Hin in Hx'. destruct Hx' as [Hxl Hxv].
      apply (Hnb v Hv) in Hxl. destruct Hxl as [Hax Hex].
      split; auto. split.
      * intros Hc. apply Hxv. apply Hvis. auto.
      * eapply conn_snoc.
        -- destruct (Hmem v) as (_ & _ & H3). apply in_or_app; right; left; auto.
           eapply conn_mono; [|exact H3]. apply Rin_mono. intros y Hy. apply HS'. auto.
        -- split; [|split]; auto; apply HS'; auto.
           left. apply in_or_app; right; left; auto.
  - intros x u Hx Hu He. apply in_app_or in Hx. apply in_or_app.
    destruct Hx as [Hx | [<- | []]].
    + right. eapply Hcl; eauto.
    + destruct (in_dec N.eq_dec u visited) as [Hi | Hi]; auto.
      left. apply Hin. split; auto. apply (Hnb v Hv). auto.
Qed.

(* every round moves one new vertex to [comp]; |nodes| + 1 rounds are enough *)
Lemma dfs_total s0 V0 : forall fuel stack visited comp,
  dinv E nodes st s0 V0 stack visited comp ->
  (length nodes < fuel + length comp)%nat ->
  exists c' v', dfs (k_adj st) (k_removed st) fuel stack visited comp = Some (c', v') /\
    forall x, In x (comp ++ stack) -> In x c'.
Proof.
  induction fuel as [|f IH]; intros stack visited comp HI Hm.
  - exfalso. destruct HI as (Hnd & _ & Hmem & _).
    assert (length (comp ++ stack) <= length nodes)%nat.
    { apply NoDup_incl_length; auto. intros x Hx. apply Hmem in Hx. apply Hx. }
    rewrite app_length in *. lia.
  - cbn [dfs]. destruct stack as [|v stk].
    + exists comp, visited. split; auto. intros x Hx. rewrite app_nil_r in Hx. exact Hx.
    + match goal with |- context [fold_left ?F ?L ?A] => destruct (fold_left F L A) as [st' vis'] eqn:Ef end.
      destruct (dfs_step s0 V0 v stk visited comp st' vis' HI Ef) as [HI' Hsub].
      destruct (IH st' vis' (comp ++ [v]) HI') as (c' & v' & Hd & Hc).
      { rewrite app_length. simpl. lia. }
      exists c', v'. split; auto.
Qed.

Lemma dfs_start s0 V0 : al nodes st s0 -> ~ In s0 V0 ->
  exists c v', dfs (k_adj st) (k_removed st) (S (length nodes)) [s0] (s0 :: V0) [] = Some (c, v') /\
    In s0 c.
Proof.
  intros Hs0 Hn0.
  destruct (dfs_total s0 V0 (S (length nodes)) [s0] (s0 :: V0) []) as (c & v' & Hd & Hc).
  - split; [|split; [|split]]; simpl.
    + constructor; auto. constructor.
    + intros x. tauto.
    + intros x [<- | []]. split; auto. split; auto. constructor.
    + intros x u [].
  - simpl. lia.
  - exists c, v'. split; auto. apply Hc. left; auto.
Qed.

(* x has no neighbour left: its component is {x}, which is not reported *)
Definition iso (x : N) : Prop := forall u, al nodes st u -> E x u = false.

Definition outer_inv2 (vis : list N) (gs : list group) : Prop :=
  outer_inv E nodes st vis gs /\
  (forall g, In g gs -> StronglySorted N.le g) /\
  (forall x, In x vis -> al nodes st x -> In x (concat gs) \/ iso x).

Lemma short_single (c : list N) a x : (length c < 2)%nat -> In a c -> In x c -> x = a.
Proof.
  destruct c as [|y [|z c]]; simpl; intros Hl Ha Hx; [tauto | | lia].
  destruct Ha as [Ha | []]. destruct Hx as [Hx | []]. congruence.
Qed.

Lemma outer_fold2 : forall L vis gs,
  (forall x, In x L -> In x nodes) -> outer_inv2 vis gs ->
  exists vis' gs',
    fold_left (outer_step st (S (length nodes))) L (Some (vis, gs)) = Some (vis', gs') /\
    outer_inv2 vis' gs' /\ (forall x, In x vis -> In x vis') /\
    (forall x, In x L -> al nodes st x -> In x vis').
Proof.
  induction L as [|a L IH]; intros vis gs HL HI.
  { exists vis, gs. simpl. split; auto. split; auto. split; auto. intros x []. }
  assert (HL' : forall x, In x L -> In x nodes) by (intros; apply HL; right; auto).
  cbn [fold_left]. unfold outer_step at 2.
  destruct (memb a (k_removed st) || memb a vis ||
            match aget (k_adj st) a with None => true | Some _ => false end) eqn:Ec.
  { destruct (IH vis gs HL' HI) as (vis' & gs' & Hf & HI' & Hmono & Hcov).
    exists vis', gs'. split; auto. split; auto. split; auto.
    intros x [<- | Hx] Hax; auto.
    apply orb_true_iff in Ec. destruct Ec as [Ec | Ec].
    - apply orb_true_iff in Ec. destruct Ec as [Ec | Ec]; apply memb_In in Ec.
      + destruct Hax; contradiction.
      + auto.
    - exfalso. apply (Hag a Hax). destruct (aget (k_adj st) a); [discriminate | reflexivity]. }
  apply orb_false_iff in Ec. destruct Ec as [Ec _]. apply orb_false_iff in Ec.
  destruct Ec as [Er Ev]. apply memb_false in Er. apply memb_false in Ev.
  assert (Haa : al nodes st a) by (split; auto; apply HL; left; auto).
  destruct (dfs_start a vis Haa Ev) as (comp & visited' & Ed & Hac).
  rewrite Ed.
  destruct HI as ((Hc & Hg & Hnd & Hsub) & Hsorted & Hcls).
  assert (Ed' := Ed). apply (dfs_post E nodes st Esym Hnb) in Ed'; auto.
  destruct Ed' as (D1 & D2 & D3 & D4 & D5 & D6).
  destruct (length comp <? 2)%nat eqn:El.
  - apply Nat.ltb_lt in El.
    destruct (IH visited' gs HL') as (vis' & gs' & Hf & HI' & Hmono & Hcov).
    { split; [|split]; auto.
      - split; auto. split; auto. split; auto. intros x Hx. apply D5. right. auto.
      - intros x Hx Hax. apply D5 in Hx. destruct Hx as [Hx | Hx]; auto.
        right. assert (x = a) by (eapply short_single; eauto). subst x.
        intros u Hu. destruct (E a u) eqn:Eau; auto.
        assert (Huc : In u comp) by (eapply D3; eauto).
        assert (u = a) by (eapply short_single; eauto). subst u.
        rewrite Eirr in Eau. discriminate. }
    exists vis', gs'. split; auto. split; auto. split.
    + intros x Hx. apply Hmono. apply D5. auto.
    + intros x [<- | Hx] Hax; auto. apply Hmono. apply D5. auto.
  - apply Nat.ltb_ge in El.
    assert (HP := sort_perm comp).
    assert (Hiff : forall x, In x (sort_frags comp) <-> In x comp).
    { intros x. split; apply Permutation_in; auto. apply Permutation_sym; auto. }
    destruct (IH visited' (gs ++ [sort_frags comp]) HL') as (vis' & gs' & Hf & HI' & Hmono & Hcov).
    { split; [|split].
      - split; auto. split; [|split].
        + intros g Hg'. apply in_app_or in Hg'. destruct Hg' as [Hg' | [<- | []]]; auto.
          split. { eapply Permutation_NoDup; [apply Permutation_sym; exact HP | auto]. }
          split. { rewrite (Permutation_length HP). auto. }
          split. { intros x Hx. apply Hiff in Hx. apply D2; auto. }
          split. { intros x u Hx Hu He. apply Hiff. apply Hiff in Hx. eapply D3; eauto. }
          intros x y Hx Hy. apply Hiff in Hx. apply Hiff in Hy.
          eapply conn_mono; [|apply D4; eauto]. apply Rin_mono. intros z Hz. apply Hiff; auto.
        + rewrite concat_app. simpl. rewrite app_nil_r. apply nodup_app_iff. split; auto.
          split. { eapply Permutation_NoDup; [apply Permutation_sym; exact HP | auto]. }
          intros x Hx Hx'. apply Hiff in Hx'. apply D2 in Hx'. destruct Hx' as [_ Hx'].
          apply Hx'. auto.
        + intros x Hx. rewrite concat_app in Hx. simpl in Hx. rewrite app_nil_r in Hx.
          apply D5. apply in_app_or in Hx. destruct Hx as [Hx | Hx]; auto.
          left. apply Hiff; auto.
      - intros g Hg'. apply in_app_or in Hg'. destruct Hg' as [Hg' | [<- | []]]; auto.
        apply sort_frags_sorted.
      - intros x Hx Hax. rewrite concat_app. simpl. rewrite app_nil_r.
        apply D5 in Hx. destruct Hx as [Hx | Hx].
        + left. apply in_or_app. right. apply Hiff. exact Hx.
        + destruct (Hcls x Hx Hax) as [H | H]; auto. left. apply in_or_app. auto. }
    exists vis', gs'. split; auto. split; auto. split.
    + intros x Hx. apply Hmono. apply D5. auto.
    + intros x [<- | Hx] Hax; auto. apply Hmono. apply D5. auto.
Qed.

(* the search never runs out of fuel and reports every component with >= 2 members *)
Theorem components_exact :
  exists gs, kcore_components st nodes = Some gs /\
    (forall g, In g gs -> goodg E nodes st g /\ StronglySorted N.le g) /\
    NoDup (concat gs) /\
    (forall x, al nodes st x -> In x (concat gs) \/ iso x).
Proof.
  assert (Hk : kcore_components st nodes =
               match fold_left (outer_step st (S (length nodes))) (sort_frags nodes) (Some ([], [])) with
               | Some (_, groups) => Some groups | None => None end) by reflexivity.
  destruct (outer_fold2 (sort_frags nodes) [] []) as (vis' & gs' & Hf & HI & _ & Hcov).
  - intros x Hx. eapply Permutation_in; [apply sort_perm | auto].
  - split; [|split].
    + split; [|split; [|split]]; simpl; auto.
      * intros x u [].
      * intros g [].
      * constructor.
    + intros g [].
    + intros x [].
  - exists gs'. rewrite Hk, Hf. split; auto.
    destruct HI as ((_ & Hg & Hnd & _) & Hs & Hc).
    split; [|split]; auto.
    intros x Hx. apply Hc; auto. apply Hcov; auto.
    eapply Permutation_in; [apply Permutation_sym, sort_perm | apply Hx].
Qed.
End DfsX.
