(* C10 — lemmas about the shared model pieces of GroupCommon.v. *)
From Coq Require Import NArith QArith List Bool Lia Arith Permutation.
From PV Require Import Clone.GroupSpec Clone.GroupSpecProofs Clone.GroupCommon.
Import ListNotations.

(* ---------------------------------------------------------------- add_frag / collect *)
Lemma add_frag_In acc f x : In x (add_frag acc f) <-> In x acc \/ x = f.
Proof.
  unfold add_frag. destruct (memb f acc) eqn:E.
  - apply memb_In in E. split; auto. intros [H | ->]; auto.
  - rewrite in_app_iff. simpl. intuition.
Qed.

Lemma add_frag_NoDup acc f : NoDup acc -> NoDup (add_frag acc f).
Proof.
  unfold add_frag. destruct (memb f acc) eqn:E; auto.
  apply memb_false in E. intros H. apply nodup_app_iff. repeat split; auto.
  - constructor; auto. constructor.
  - intros x Hx [<- | []]. auto.
Qed.

Lemma fold_add_frag_In l : forall acc x, In x (fold_left add_frag l acc) <-> In x acc \/ In x l.
Proof.
  induction l as [|f l IH]; simpl; intros acc x. tauto.
  rewrite IH, add_frag_In. intuition.
Qed.

Lemma fold_add_frag_NoDup l : forall acc, NoDup acc -> NoDup (fold_left add_frag l acc).
Proof. induction l; simpl; auto using add_frag_NoDup. Qed.

Definition collect_step (acc : list N) (p : pair) : list N :=
  let '(a, b, _) := p in add_frag (add_frag acc a) b.

Lemma collect_fold_NoDup G : forall acc, NoDup acc -> NoDup (fold_left collect_step G acc).
Proof.
  induction G as [|[[a b] s] G IH]; simpl; auto. intros. apply IH. auto using add_frag_NoDup.
Qed.

Lemma collect_fold_In G : forall acc x,
  In x (fold_left collect_step G acc) <->
  In x acc \/ exists a b s, In (a, b, s) G /\ (x = a \/ x = b).
Proof.
  induction G as [|[[a b] s] G IH]; simpl; intros acc x.
  - split; auto. intros [H | (a & b & s & [] & _)]; auto.
  - rewrite IH, !add_frag_In. split.
    + intros [[[H | ->] | ->] | (a' & b' & s' & Hin & Hx)]; auto.
      * right. exists a, b, s. auto.
      * right. exists a, b, s. auto.
      * right. exists a', b', s'. auto.
    + intros [H | (a' & b' & s' & [Heq | Hin] & Hx)]; auto.
      * inversion Heq; subst. destruct Hx as [-> | ->]; auto.
      * right. exists a', b', s'. auto.
Qed.

Lemma collect_NoDup G : NoDup (collect_fragments G).
Proof. apply (collect_fold_NoDup G []). constructor. Qed.

Lemma collect_In G x :
  In x (collect_fragments G) <-> exists a b s, In (a, b, s) G /\ (x = a \/ x = b).
Proof.
  unfold collect_fragments. fold collect_step.
  change (fold_left (fun acc p => let '(a, b, _) := p in add_frag (add_frag acc a) b) G [])
    with (fold_left collect_step G []).
  rewrite collect_fold_In. simpl. tauto.
Qed.

Lemma collect_endpoints G a b s : In (a, b, s) G ->
  In a (collect_fragments G) /\ In b (collect_fragments G).
Proof. intros H. split; apply collect_In; exists a, b, s; auto. Qed.

(* ---------------------------------------------------------------- sort *)
Lemma insert_perm x l : Permutation (insert x l) (x :: l).
Proof.
  induction l as [|y l IH]; simpl; auto.
  destruct (N.leb x y); auto.
  eapply perm_trans. apply perm_skip. exact IH. apply perm_swap.
Qed.

Lemma sort_frags_perm l : Permutation (sort_frags l) l.
Proof.
  induction l as [|x l IH]; simpl; auto.
  eapply perm_trans. apply insert_perm. auto.
Qed.

Lemma sort_frags_In l x : In x (sort_frags l) <-> In x l.
Proof.
  split; apply Permutation_in; [apply sort_frags_perm | apply Permutation_sym, sort_frags_perm].
Qed.

Lemma sort_frags_NoDup l : NoDup l -> NoDup (sort_frags l).
Proof. apply Permutation_NoDup. apply Permutation_sym, sort_frags_perm. Qed.

Lemma sort_frags_length l : length (sort_frags l) = length l.
Proof. apply Permutation_length, sort_frags_perm. Qed.

(* ---------------------------------------------------------------- union-find *)
Lemma uf_find_init frs x : uf_find (uf_init frs) x = x.
Proof.
  induction frs as [|f frs IH]; simpl; auto.
  destruct (N.eqb f x) eqn:E; auto. apply N.eqb_eq in E. auto.
Qed.

Lemma uf_init_keys frs : map fst (uf_init frs) = frs.
Proof. unfold uf_init. rewrite map_map. simpl. apply map_id. Qed.

Lemma uf_union_keys u a b : map fst (uf_union u a b) = map fst u.
Proof.
  unfold uf_union. destruct (N.eqb (uf_find u a) (uf_find u b)); auto.
  rewrite map_map. apply map_ext. intros [y r]. reflexivity.
Qed.

Lemma uf_find_map (g : N -> N) u x : In x (map fst u) ->
  uf_find (map (fun yr : N * N => let '(y, r) := yr in (y, g r)) u) x = g (uf_find u x).
Proof.
  induction u as [|[y r] u IH]; simpl. tauto.
  intros [-> | H].
  - rewrite N.eqb_refl. reflexivity.
  - destruct (N.eqb y x); auto.
Qed.

(* the representative after a union, for fragments known to the structure *)
Lemma uf_find_union u a b x : In x (map fst u) ->
  uf_find (uf_union u a b) x =
  if N.eqb (uf_find u x) (uf_find u b) then uf_find u a else uf_find u x.
Proof.
  intros Hx. unfold uf_union. destruct (N.eqb (uf_find u a) (uf_find u b)) eqn:E.
  - apply N.eqb_eq in E. destruct (N.eqb (uf_find u x) (uf_find u b)) eqn:E2; auto.
    apply N.eqb_eq in E2. congruence.
  - apply (uf_find_map (fun r => if N.eqb r (uf_find u b) then uf_find u a else r)). exact Hx.
Qed.

(* ---------------------------------------------------------------- clusters *)
Lemma build_clusters_In (find : N -> N) frs c :
  In c (build_clusters find frs) <->
  exists r, (exists f, In f frs /\ find f = r) /\ c = filter (fun f => N.eqb (find f) r) frs.
Proof.
  unfold build_clusters. rewrite in_map_iff. split.
  - intros [r [<- Hr]]. exists r. split; auto.
    apply fold_add_frag_In in Hr. destruct Hr as [[] | Hr].
    apply in_map_iff in Hr. destruct Hr as [f [<- Hf]]. eauto.
  - intros [r [[f [Hf <-]] ->]]. exists (find f). split; auto.
    apply fold_add_frag_In. right. apply in_map. exact Hf.
Qed.

Lemma build_clusters_roots_NoDup (find : N -> N) frs :
  NoDup (fold_left add_frag (map find frs) []).
Proof. apply fold_add_frag_NoDup. constructor. Qed.

Lemma filter_map_comm {A B} (P : B -> bool) (f : A -> B) l :
  filter P (map f l) = map f (filter (fun x => P (f x)) l).
Proof. induction l as [|x l IH]; simpl; auto. destruct (P (f x)); simpl; congruence. Qed.

Lemma filter_NoDup {A} (p : A -> bool) l : NoDup l -> NoDup (filter p l).
Proof.
  induction 1; simpl. constructor. destruct (p x); auto. constructor; auto.
  rewrite filter_In. tauto.
Qed.

Lemma two_members_length (l : list N) a b : NoDup l -> In a l -> In b l -> a <> b -> (2 <= length l)%nat.
Proof.
  intros Hnd Ha Hb Hn.
  assert (Hinc : incl [a; b] l) by (intros x [<- | [<- | []]]; auto).
  apply NoDup_incl_length in Hinc. exact Hinc.
  constructor. intros [H | []]; congruence. constructor; auto. constructor.
Qed.

(* groups built as  map h (filter P (map mk roots))  from distinct roots, where every member
   of the group of r is mapped to r by [key], are pairwise disjoint *)
Lemma disjoint_by_root (key : N -> N) (h : N -> group) roots :
  NoDup roots ->
  (forall r x, In r roots -> In x (h r) -> key x = r) ->
  disjoint_groups (map h roots).
Proof.
  intros Hnd Hkey i j gi gj Hi Hj Hne x Hxi Hxj.
  destruct (nth_error roots i) as [ri|] eqn:Ei; [|rewrite nth_error_map, Ei in Hi; discriminate].
  destruct (nth_error roots j) as [rj|] eqn:Ej; [|rewrite nth_error_map, Ej in Hj; discriminate].
  rewrite nth_error_map, Ei in Hi. rewrite nth_error_map, Ej in Hj. simpl in *.
  inversion Hi; inversion Hj; subst.
  assert (ri = rj).
  { rewrite <- (Hkey ri x), <- (Hkey rj x); auto; eapply nth_error_In; eauto. }
  subst rj. apply Hne. eapply NoDup_nth_error; eauto.
  apply nth_error_Some. congruence. congruence.
Qed.
