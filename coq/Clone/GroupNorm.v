(* C10 — evaluating the contract checker on graphs whose similarities are arbitrary float64
   values (the pair lists real detector runs and CLI reports contain; exact rationals with
   denominator 2^52).  [check_contract] looks at the similarities only through [t <= s]; it does so
   once per candidate edge of its closure, which is slow on 100-bit rationals.  [norm_graph t G]
   decides [t <= s] ONCE per pair: it keeps the pairs at or above the threshold and gives them the
   similarity 1.  GroupNormProofs.v proves, for every input, that the checker returns the same
   verdict on (1, norm_graph t G) as on (t, G); the code model still runs on the original G. *)
From Coq Require Import NArith ZArith QArith List Bool.
From PV Require Import Clone.GroupSpec Clone.GroupCommon Clone.GroupKCore Clone.GroupRun.
Import ListNotations.

Definition norm_graph (t : Q) (G : pgraph) : pgraph :=
  map (fun p : pair => (fst p, 1%Q)) (filter (fun p : pair => Qle_bool t (snd p)) G).

(* The k-core model reads the similarities only when it builds its adjacency map (k_core_grouping.go:56-59,
   [listed]); that map is built from the normalised graph, the vertex list still from all pairs of G. *)
Definition group_kcore_ord_norm (t : Q) (kk : Z) (G : pgraph) (ord : list N) : option (list group) :=
  let k := effective_k kk in
  let nodes := collect_fragments G in
  match peel k (S (length nodes)) (kcore_init 1%Q (norm_graph t G) k ord nodes) with
  | None => None
  | Some st => kcore_components st nodes
  end.

Definition run_model_norm (m : mode) (k : Z) (t : Q) (G : pgraph) (ord : list N) : option (list group) :=
  match m with
  | MKCore => group_kcore_ord_norm t k G ord
  | _ => run_model m k t G ord
  end.

(* GroupRun.verdict with the two checker calls (and the k-core adjacency map) made on the normalised graph *)
Definition verdict_norm (idx : N) (mn : N) (k : Z) (t : Q) (G : pgraph) (ord : list N) (impl : list group)
  : list (N * option (list group) * bool * bool * bool) :=
  let m := mode_of mn in
  let G1 := norm_graph t G in
  let mg := run_model_norm m k t G ord in
  let ci := check_contract m (contract_k k) 1%Q G1 impl in
  let cm := match mg with Some gs => check_contract m (contract_k k) 1%Q G1 gs | None => false end in
  let same := match mg with Some gs => same_groups gs (map sort_frags impl) | None => false end in
  if ci && cm && same then [] else [(idx, mg, ci, cm, same)].
