(* Clone/Pairs.v — model of the pair-detection pipeline *around* the similarity function
   (properties C08, C09).

   Go sources mirrored (ludo-technologies/pyscn):
     internal/analyzer/clone_detector.go   shouldIncludeFragment (517-529), detectClonePairsWithContext (777-799),
                                           detectClonePairsStandardWithContext (801-828),
                                           detectClonePairsWithBatchingContext (830-892), shouldCompareFragments (894-910),
                                           compareFragments (912-940), compareWithAPTED / compareFragmentsWithClassifier,
                                           classifyCloneType (998-1011), isSignificantClone (1038-1058),
                                           isOverlappingLocation (1079-1087), tryCreateClonePair (1116-1137),
                                           addPairWithLimit (1139-1162), limitAndSortClonePairs (1164-1175),
                                           DetectClonesWithLSH (600-750)
     internal/analyzer/lsh_index.go        computeBandKeys (92-124), FindCandidates (50-68)
     internal/analyzer/minhash.go          ComputeSignature (56-88, abstract), EstimateJaccardSimilarity (90-107)
     internal/analyzer/syntactic_similarity.go  jaccardSimilarity (99-)
     service/clone_service.go              filterClonePairs (410-436), createDetectorConfig (243-293)
     domain/clone.go                       Validate (262-315), ShouldUseLSH (378-393)

   The similarity function itself (APTED, C07) is NOT modelled here: [sim], [dist], the
   multi-dimensional classifier gate [gate], the MinHash signature [sig] and the FNV band hash
   [bandhash] are Section variables.  Every comparison operator and numeric literal comes from
   Gen/CloneConst.v (regenerated from the Go sources on every run). *)
From Coq Require Import ZArith QArith List Bool Arith Lia.
From PV Require Import Gen.DomainConst Gen.CloneConst.
Import ListNotations.
Open Scope Z_scope.

Inductive ctype := Type1 | Type2 | Type3 | Type4.

Definition ctype_eqb (a b : ctype) : bool :=
  match a, b with Type1, Type1 | Type2, Type2 | Type3, Type3 | Type4, Type4 => true | _, _ => false end.

Definition ctype_code (t : ctype) : Z :=
  match t with Type1 => analyzer_Type1Clone | Type2 => analyzer_Type2Clone | Type3 => analyzer_Type3Clone | Type4 => analyzer_Type4Clone end.

(* A code fragment (analyzer.CodeFragment) reduced to what the pipeline looks at.
   f_tree: identity of the converted tree (equal iff the TreeNode trees are equal);
   f_feats: CodeFragment.Features (Jaccard pre-filter); f_lshfeats: the feature set the LSH
   stage extracts (it depends on lsh_rows through the sub-tree height). *)
Record frag := Build_frag {
  f_id : N; f_file : N; f_start : Z; f_end : Z; f_size : Z; f_lines : Z;
  f_tree : N; f_feats : list N; f_lshfeats : list N }.

Record cfg := Build_cfg {
  c_min_lines : Z; c_min_nodes : Z;
  c_t1 : Q; c_t2 : Q; c_t3 : Q; c_t4 : Q;
  c_sim_thr : Q;            (* SimilarityThreshold *)
  c_max_dist : Q;           (* MaxEditDistance, 0 = no limit *)
  c_max_pairs : Z;          (* MaxClonePairs *)
  c_batch_threshold : Z; c_batch_large : Z; c_batch_small : Z; c_large_project : Z;
  c_use_gate : bool;        (* classifier != nil && EnableMultiDimensionalAnalysis *)
  c_use_lsh : bool;
  c_lsh_thr : Q; c_lsh_bands : Z; c_lsh_rows : Z; c_lsh_hashes : Z;
  c_min_sim : Q; c_max_sim : Q; c_enabled : list ctype   (* service-side filter *) }.

Record cpair := Build_cpair { p_a : frag; p_b : frag; p_sim : Q; p_dist : Q; p_type : ctype }.

Definition swap_pair (p : cpair) : cpair := Build_cpair (p_b p) (p_a p) (p_sim p) (p_dist p) (p_type p).

(* ---------------------------------------------------------------------------------- *)
(* domain/clone.go:262 Validate (the part about thresholds and sizes) *)
Definition in01 (q : Q) : bool := Qle_bool 0 q && Qle_bool q 1.
Definition validate (c : cfg) : bool :=
  (1 <=? c_min_lines c) && (1 <=? c_min_nodes c) && in01 (c_sim_thr c) && Qle_bool 0 (c_max_dist c) &&
  in01 (c_t1 c) && in01 (c_t2 c) && in01 (c_t3 c) && in01 (c_t4 c) &&
  negb (Qle_bool (c_t1 c) (c_t2 c)) && negb (Qle_bool (c_t2 c) (c_t3 c)) && negb (Qle_bool (c_t3 c) (c_t4 c)).

(* domain/clone.go:380 ShouldUseLSH; mode: 1 = "true", 2 = "false", otherwise auto *)
Definition should_use_lsh (mode : Z) (fragment_count auto_threshold : Z) : bool :=
  if mode =? 1 then true else if mode =? 2 then false else
  let thr := if auto_threshold =? 0 then 500 else auto_threshold in thr <=? fragment_count.

(* ---------------------------------------------------------------------------------- *)
(* clone_detector.go:534 shouldIncludeFragment *)
Definition should_include (c : cfg) (f : frag) : bool :=
  if clone_include_cmp_nodes (f_size f) (c_min_nodes c) then false
  else if clone_include_cmp_lines (f_lines f) (c_min_lines c) then false else true.

(* extractFragmentsRecursive keeps the traversal order of the candidates *)
Definition extract (c : cfg) (cands : list frag) : list frag := filter (should_include c) cands.

(* clone_detector.go:1097 isOverlappingLocation *)
Definition overlapping (a b : frag) : bool :=
  if negb (f_file a =? f_file b)%N then false
  else negb (clone_overlap_cmp1 (f_end a) (f_start b) || clone_overlap_cmp2 (f_end b) (f_start a)).

(* clone_detector.go:911 shouldCompareFragments *)
Definition should_compare (a b : frag) : bool :=
  let size_diff := inject_Z (Z.abs (f_size a - f_size b)) in
  let avg := (inject_Z (f_size a + f_size b) / clone_sc_avg_div)%Q in
  if clone_sc_cmp_avgpos avg clone_sc_avg_pos && clone_sc_cmp_size (size_diff / avg)%Q clone_sc_size_ratio then false
  else
    let line_diff := inject_Z (Z.abs (f_lines a - f_lines b)) in
    if clone_sc_cmp_line1 line_diff (inject_Z (f_lines a) * clone_sc_line_ratio1)%Q &&
       clone_sc_cmp_line2 line_diff (inject_Z (f_lines b) * clone_sc_line_ratio2)%Q then false
    else true.

(* syntactic_similarity.go:99 jaccardSimilarity on feature sets *)
Definition memN (x : N) (l : list N) : bool := existsb (N.eqb x) l.
Definition set_of (l : list N) : list N := nodup N.eq_dec l.
Definition inter_count (A B : list N) : nat := length (filter (fun x => memN x B) (set_of A)).
Definition union_count (A B : list N) : nat := (length (set_of A) + length (set_of B) - inter_count A B)%nat.
Definition jaccard (A B : list N) : Q :=
  match A, B with
  | [], [] => 1
  | [], _ | _, [] => 0
  | _, _ => (inject_Z (Z.of_nat (inter_count A B)) / inject_Z (Z.of_nat (union_count A B)))%Q
  end.
(* compareFragments: the Jaccard rejection applies only when both feature lists are non-empty *)
Definition jaccard_reject (a b : frag) : bool :=
  match f_feats a, f_feats b with
  | [], _ | _, [] => false
  | _, _ => clone_Qlt (jaccard (f_feats a) (f_feats b)) analyzer_jaccardRejectionThreshold
  end.

(* clone_detector.go:1015 classifyCloneType *)
Definition classify (c : cfg) (s : Q) : option ctype :=
  if clone_classify_cmp1 s (c_t1 c) then Some Type1
  else if clone_classify_cmp2 s (c_t2 c) then Some Type2
  else if clone_classify_cmp3 s (c_t3 c) then Some Type3
  else if clone_classify_cmp4 s (c_t4 c) then Some Type4
  else None.

(* list helpers shared by the sort and the batch loop *)
Fixpoint insert_desc (p : cpair) (l : list cpair) : list cpair :=
  match l with
  | [] => [p]
  | x :: r => if clone_Qlt (p_sim x) (p_sim p) then p :: l else x :: insert_desc p r
  end.
(* sort.Slice by descending similarity (unstable in Go: any order among equal similarities is possible;
   the model picks insertion order) *)
Definition sort_desc (l : list cpair) : list cpair := fold_right insert_desc [] l.

(* all position pairs (earlier, later) of a list: the i<j double loop *)
Fixpoint pairs_of {A : Type} (l : list A) : list (A * A) :=
  match l with [] => [] | x :: r => map (pair x) r ++ pairs_of r end.

Definition effective_threshold (c : cfg) : Q :=
  if clone_sig_cmp_unset (c_sim_thr c) 0 then c_t4 c else c_sim_thr c.

(* batch loop index pairs, detectClonePairsWithBatchingContext:847-881, as (i, j) in visiting order *)
Fixpoint batch_loop (fuel bs n start : nat) : list (nat * nat) :=
  match fuel with
  | O => []
  | S fuel' =>
    if (n <=? start)%nat then [] else
    let e := Nat.min (start + bs) n in
    flat_map (fun i => map (pair i) (seq (S i) (e - S i)) ++ map (pair i) (seq 0 start)) (seq start (e - start))
    ++ batch_loop fuel' bs n (start + bs)
  end.
Definition batch_visits (bs n : nat) : list (nat * nat) := batch_loop n bs n 0.

Section Pipeline.
(* analyzer.APTEDAnalyzer.ComputeSimilarity / ComputeDistance on the two fragments' trees *)
Variable sim : frag -> frag -> Q.
Variable dist : frag -> frag -> Q.
(* CloneClassifier.ClassifyClone(f1, f2) != nil *)
Variable gate : frag -> frag -> bool.
(* MinHasher.ComputeSignature: numHashes -> feature list -> signature *)
Variable sig : Z -> list N -> list N.
(* FNV-64a of the concatenated band slice *)
Variable bandhash : list N -> N.

(* clone_detector.go:930 compareFragments + compareWithAPTED / compareFragmentsWithClassifier *)
Definition compare (c : cfg) (a b : frag) : option cpair :=
  if negb (should_compare a b) then None
  else if jaccard_reject a b then None
  else if c_use_gate c && negb (gate a b) then None
  else match classify c (sim a b) with
       | None => None
       | Some t => Some (Build_cpair a b (sim a b) (dist a b) t)
       end.

(* clone_detector.go:1055 isSignificantClone *)
Definition significant (c : cfg) (p : cpair) : bool :=
  if clone_sig_cmp_below (p_sim p) (effective_threshold c) then false
  else if clone_sig_cmp_distset (c_max_dist c) 0 && clone_sig_cmp_dist (p_dist p) (c_max_dist c) then false
  else clone_sig_cmp_size (Z.min (f_size (p_a p)) (f_size (p_b p))) (c_min_nodes c).

(* body of the exhaustive double loop (813-825): zero or one pair *)
Definition try_pair (c : cfg) (a b : frag) : list cpair :=
  if overlapping a b then []
  else match compare c a b with
       | Some p => if significant c p then [p] else []
       | None => []
       end.

(* clone_detector.go:818 detectClonePairsStandardWithContext *)
Definition exhaustive (c : cfg) (fs : list frag) : list cpair :=
  flat_map (fun ab => try_pair c (fst ab) (snd ab)) (pairs_of fs).

(* clone_detector.go:1181 limitAndSortClonePairs *)
Definition limit_and_sort (c : cfg) (l : list cpair) : list cpair :=
  firstn (Z.to_nat (c_max_pairs c)) (sort_desc l).

(* clone_detector.go:1133 tryCreateClonePair *)
Definition try_create (c : cfg) (a b : frag) (min_similarity : Q) : list cpair :=
  filter (fun p => clone_try_cmp_min (p_sim p) min_similarity) (try_pair c a b).

(* clone_detector.go:1156 addPairWithLimit *)
Definition add_with_limit (top : list cpair) (p : cpair) (maxp : Z) : list cpair :=
  if clone_add_cmp_room (Z.of_nat (length top)) maxp then insert_desc p top
  else match rev top with
       | [] => top
       | worst :: _ => if clone_add_cmp_better (p_sim p) (p_sim worst) then insert_desc p (removelast top) else top
       end.

Definition batch_step (c : cfg) (fs : list frag) (maxp : Z) (st : list cpair * Q) (ij : nat * nat) : list cpair * Q :=
  let (top, min_similarity) := st in
  match nth_error fs (fst ij), nth_error fs (snd ij) with
  | Some a, Some b =>
    match try_create c a b min_similarity with
    | p :: _ =>
      let top' := add_with_limit top p maxp in
      (top', if (maxp <=? Z.of_nat (length top')) then match rev top' with w :: _ => p_sim w | [] => min_similarity end
             else min_similarity)
    | [] => st
    end
  | _, _ => st
  end.

(* clone_detector.go:847 detectClonePairsWithBatchingContext *)
Definition batched (c : cfg) (fs : list frag) (max_pairs batch_size : Z) : list cpair :=
  let maxp := if max_pairs <=? 0 then clone_batch_default_maxPairs else max_pairs in
  let bs := if batch_size <=? 0 then clone_batch_default_batchSize else batch_size in
  fst (fold_left (batch_step c fs maxp) (batch_visits (Z.to_nat bs) (length fs)) ([], c_t4 c)).

(* clone_detector.go:783 calculateBatchSize *)
Definition calculate_batch_size (c : cfg) (n : Z) : Z :=
  if n <? c_batch_threshold c then n
  else if c_large_project c <? n then c_batch_small c else c_batch_large c.

(* clone_detector.go:794 detectClonePairsWithContext *)
Definition detect_pairs (c : cfg) (fs : list frag) : list cpair :=
  let n := Z.of_nat (length fs) in
  if n <=? 1 then [] else
  let estimated := n * (n - 1) / 2 in
  let needs_batching := (c_batch_threshold c <? n) || (c_max_pairs c <? estimated) in
  limit_and_sort c (if needs_batching then batched c fs (c_max_pairs c) (calculate_batch_size c n) else exhaustive c fs).

(* ---------------- LSH path ---------------- *)
Definition rows_eff (c : cfg) : Z := if c_lsh_rows c <=? 0 then clone_lsh_default_rows else c_lsh_rows c.
Definition bands_cfg (c : cfg) : Z := if c_lsh_bands c <=? 0 then clone_lsh_default_bands else c_lsh_bands c.
Definition hashes_eff (c : cfg) : Z := if c_lsh_hashes c <=? 0 then clone_minhash_default_hashes else c_lsh_hashes c.

Definition signature (c : cfg) (f : frag) : list N := sig (hashes_eff c) (f_lshfeats f).

(* lsh_index.go:92 computeBandKeys: rows actually used and number of bands actually produced *)
Definition rows_used (c : cfg) (total : Z) : Z := clone_lsh_rows_used (rows_eff c) total.
Definition bands_eff (c : cfg) (total : Z) : Z := Z.min (bands_cfg c) (total / rows_used c total).

Definition band_keys (c : cfg) (s : list N) : list (nat * N) :=
  let total := Z.of_nat (length s) in
  let r := Z.to_nat (rows_used c total) in
  map (fun k => (k, bandhash (firstn r (skipn (k * r) s)))) (seq 0 (Z.to_nat (bands_eff c total))).

Definition key_eqb (k1 k2 : nat * N) : bool := Nat.eqb (fst k1) (fst k2) && N.eqb (snd k1) (snd k2).
(* two fragments are LSH candidates of each other iff they share a band bucket (FindCandidates) *)
Definition share_keys (ka kb : list (nat * N)) : bool := existsb (fun k => existsb (key_eqb k) kb) ka.
Definition share_band (c : cfg) (a b : frag) : bool :=
  share_keys (band_keys c (signature c a)) (band_keys c (signature c b)).

(* minhash.go:90 EstimateJaccardSimilarity *)
Fixpoint matches (s1 s2 : list N) : nat :=
  match s1, s2 with
  | x :: r1, y :: r2 => ((if N.eqb x y then 1 else 0) + matches r1 r2)%nat
  | _, _ => O
  end.
Definition estimate (s1 s2 : list N) : Q :=
  let n := Nat.min (length s1) (length s2) in
  match n with O => 0 | _ => (inject_Z (Z.of_nat (matches s1 s2)) / inject_Z (Z.of_nat n))%Q end.

Definition lsh_threshold (c : cfg) : Q :=
  if clone_Qlt (c_lsh_thr c) 0 then 0 else if clone_Qlt 1 (c_lsh_thr c) then 1 else c_lsh_thr c.

(* body of the candidate loop (698-719) for the unordered candidate pair (a earlier than b) *)
Definition lsh_try (c : cfg) (a b : frag) : list cpair :=
  if overlapping a b then []
  else if clone_lsh_cmp_est (estimate (signature c a) (signature c b)) (lsh_threshold c) then []
  else match compare c a b with
       | Some p => if significant c p then [p] else []
       | None => []
       end.

(* The Go loop walks records x candidates in map order and de-duplicates unordered pairs with
   seenPairs; as a set this is: every position pair i<j whose fragments share a band bucket. *)
Definition lsh_pairs (c : cfg) (fs : list frag) : list cpair :=
  let keyed := map (fun f => (f, band_keys c (signature c f))) fs in   (* AddFragment: keys once per fragment *)
  flat_map (fun ab => lsh_try c (fst (fst ab)) (fst (snd ab)))
           (filter (fun ab => share_keys (snd (fst ab)) (snd (snd ab))) (pairs_of keyed)).

(* clone_detector.go:618 DetectClonesWithLSH *)
Definition detect_lsh (c : cfg) (fs : list frag) : list cpair :=
  if negb (c_use_lsh c) then detect_pairs c fs
  else if (length fs <=? 1)%nat then detect_pairs c fs
  else limit_and_sort c (lsh_pairs c fs).

(* service/clone_service.go:411 filterClonePairs *)
Definition service_keep (c : cfg) (p : cpair) : bool :=
  negb (clone_filter_cmp_min (p_sim p) (c_min_sim c) || clone_filter_cmp_max (p_sim p) (c_max_sim c)) &&
  existsb (ctype_eqb (p_type p)) (c_enabled c).
Definition service_filter (c : cfg) (l : list cpair) : list cpair := filter (service_keep c) l.

Definition set_use_lsh (c : cfg) (b : bool) : cfg :=
  Build_cfg (c_min_lines c) (c_min_nodes c) (c_t1 c) (c_t2 c) (c_t3 c) (c_t4 c) (c_sim_thr c) (c_max_dist c)
            (c_max_pairs c) (c_batch_threshold c) (c_batch_large c) (c_batch_small c) (c_large_project c)
            (c_use_gate c) b (c_lsh_thr c) (c_lsh_bands c) (c_lsh_rows c) (c_lsh_hashes c)
            (c_min_sim c) (c_max_sim c) (c_enabled c).

(* service.DetectClonesInFiles: extraction, LSH decision, detection, service-side filter.
   [cands]: every fragment candidate node of every file, in file and traversal order. *)
Definition report (c : cfg) (lsh_mode lsh_auto : Z) (cands : list frag) : list cpair :=
  let fs := extract c cands in
  let c' := set_use_lsh c (should_use_lsh lsh_mode (Z.of_nat (length fs)) lsh_auto) in
  service_filter c (detect_lsh c' fs).

End Pipeline.

(* ---------------------------------------------------------------------------------- *)
(* Spec side: the property's own vocabulary, independent of how the code computes it. *)
Open Scope Q_scope.
Definition in_band (c : cfg) (s : Q) (t : ctype) : Prop :=
  match t with
  | Type1 => c_t1 c <= s
  | Type2 => c_t2 c <= s /\ s < c_t1 c
  | Type3 => c_t3 c <= s /\ s < c_t2 c
  | Type4 => c_t4 c <= s /\ s < c_t3 c
  end.
Close Scope Q_scope.

(* two fragments share a source line of one file *)
Definition overlap_spec (a b : frag) : Prop :=
  f_file a = f_file b /\ exists l, f_start a <= l <= f_end a /\ f_start b <= l <= f_end b.

Definition In_sym (p : cpair) (r : list cpair) : Prop := In p r \/ In (swap_pair p) r.
(* equality of reports as sets of unordered pairs *)
Definition same_pair_set (r1 r2 : list cpair) : Prop := forall p, In_sym p r1 <-> In_sym p r2.
