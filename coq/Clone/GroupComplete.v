(* C10 — model of CompleteLinkageGrouping.GroupClones
   (internal/analyzer/complete_linkage_grouping.go:19-155): greedy agglomerative merging of
   the two clusters with the highest complete-linkage similarity >= threshold, then every
   cluster is re-verified pairwise before it becomes a group.
   Not modelled: Similarity/CloneType of a group, ids, final ordering of groups. *)
From Coq Require Import NArith QArith List Bool.
From PV Require Import Clone.GroupSpec Clone.GroupCommon.
Import ListNotations.

(* clusterSim, complete_linkage_grouping.go:58-81: 0 as soon as one cross pair is below the
   threshold, otherwise the minimum cross similarity (starting from 1.0) *)
Definition cluster_sim (t : Q) (G : pgraph) (a b : list N) : Q :=
  let ss := flat_map (fun x => map (fun y => similarity G x y) b) a in
  if existsb (fun s => Qltb s t) ss then 0
  else match ss with
       | [] => 0
       | _ => fold_left (fun m s => if Qltb s m then s else m) ss 1
       end.

(* index pairs i < j in the order of the two nested loops (lines 88-89) *)
Definition idx_pairs (n : nat) : list (nat * nat) :=
  flat_map (fun i => map (fun j => (i, j)) (seq (S i) (n - S i))) (seq 0 n).

(* lines 85-99: first pair with the strictly highest score among those >= threshold *)
Definition best_pair (t : Q) (G : pgraph) (cls : list (list N)) : option (nat * nat) :=
  fst (fold_left (fun (st : option (nat * nat) * Q) (ij : nat * nat) =>
         let '(best, score) := st in
         let '(i, j) := ij in
         let s := cluster_sim t G (nth i cls []) (nth j cls []) in
         if Qle_bool t s && Qltb score s then (Some (i, j), s) else st)
       (idx_pairs (length cls)) (None, (-1)%Q)).

Fixpoint set_nth {A} (i : nat) (x : A) (l : list A) : list A :=
  match l, i with
  | [], _ => []
  | _ :: r, O => x :: r
  | y :: r, S i' => y :: set_nth i' x r
  end.

Fixpoint remove_nth {A} (i : nat) (l : list A) : list A :=
  match l, i with
  | [], _ => []
  | _ :: r, O => r
  | y :: r, S i' => y :: remove_nth i' r
  end.

(* lines 103-107 *)
Definition merge_clusters (cls : list (list N)) (i j : nat) : list (list N) :=
  remove_nth j (set_nth i (nth i cls [] ++ nth j cls []) cls).

(* lines 84-108; every merge removes one cluster, so |fragments| rounds always suffice *)
Fixpoint merge_loop (t : Q) (G : pgraph) (fuel : nat) (cls : list (list N)) : option (list (list N)) :=
  match fuel with
  | O => None
  | S f => match best_pair t G cls with
           | None => Some cls
           | Some (i, j) => merge_loop t G f (merge_clusters cls i j)
           end
  end.

(* lines 116-128: all intra-cluster pairs (i < j) must meet the threshold *)
Fixpoint verify_cluster (t : Q) (G : pgraph) (cl : list N) : bool :=
  match cl with
  | [] => true
  | x :: r => forallb (fun y => negb (Qltb (similarity G x y) t)) r && verify_cluster t G r
  end.

Definition complete_final (t : Q) (G : pgraph) (cls : list (list N)) : list group :=
  map sort_frags (filter (fun cl => (2 <=? length cl)%nat && verify_cluster t G cl) cls).

Definition group_complete (t : Q) (G : pgraph) : option (list group) :=
  let frs := collect_fragments G in
  match frs with
  | [] | [_] => Some []                                     (* n < 2, line 47 *)
  | _ => match merge_loop t G (length frs) (map (fun f => [f]) frs) with
         | Some cls => Some (complete_final t G cls)
         | None => None                                      (* out of fuel: never (proved) *)
         end
  end.
