(* C10 — the star/medoid grouping model satisfies contract_star (for every pair graph and
   every threshold t > 0).  The proof does not depend on what star_loop computes: the
   final filtering step establishes the contract for ANY assignment of representatives. *)
From Coq Require Import NArith ZArith QArith List Bool Lia Arith Permutation.
From PV Require Import Gen.GroupConst Clone.GroupSpec Clone.GroupSpecProofs Clone.GroupCommon Clone.GroupStar.
Import ListNotations.

(* ---------------------------------------------------------------- fragments are NoDup *)
Lemma add_frag_nodup acc f : NoDup acc -> NoDup (add_frag acc f).
Proof.
  unfold add_frag. intros H. destruct (memb f acc) eqn:E; auto.
  apply memb_false in E. apply nodup_app_iff. repeat split; auto.
  - constructor; [intros []|constructor].
  - intros x Hx [<-|[]]. auto.
Qed.

Lemma fold_add_frag_nodup l : forall acc, NoDup acc -> NoDup (fold_left add_frag l acc).
Proof. induction l; simpl; auto using add_frag_nodup. Qed.

Lemma collect_fragments_nodup G : NoDup (collect_fragments G).
Proof.
  unfold collect_fragments.
  assert (H : forall acc, NoDup acc ->
            NoDup (fold_left (fun acc (p : pair) => let '(a, b, _) := p in
                                add_frag (add_frag acc a) b) G acc)).
  { induction G as [|[[a b] s] G IH]; simpl; auto.
    intros acc Ha. apply IH. auto using add_frag_nodup. }
  apply H. constructor.
Qed.

(* ---------------------------------------------------------------- clusters are disjoint *)
Lemma clusters_nodup (find : N -> N) frs : NoDup frs ->
  forall roots, NoDup roots ->
  NoDup (concat (map (fun r => filter (fun f => N.eqb (find f) r) frs) roots)).
Proof.
  intros Hf roots. induction roots as [|r roots IH]; simpl; intros Hr.
  - constructor.
  - inversion Hr as [|? ? Hn Hd]; subst. apply nodup_app_iff. repeat split; auto.
    + apply NoDup_filter. exact Hf.
    + intros x Hx Hc. apply filter_In in Hx. destruct Hx as [_ Hx]. apply N.eqb_eq in Hx.
      apply in_concat in Hc. destruct Hc as [c [Hc Hxc]].
      apply in_map_iff in Hc. destruct Hc as [r' [<- Hr']].
      apply filter_In in Hxc. destruct Hxc as [_ Hxc]. apply N.eqb_eq in Hxc.
      apply Hn. congruence.
Qed.

Lemma build_clusters_nodup find frs : NoDup frs -> NoDup (concat (build_clusters find frs)).
Proof.
  intros H. unfold build_clusters. apply clusters_nodup; auto.
  apply fold_add_frag_nodup. constructor.
Qed.

(* ---------------------------------------------------------------- sort_frags permutes *)
Lemma insert_perm x l : Permutation (insert x l) (x :: l).
Proof.
  induction l as [|y r IH]; simpl; auto.
  destruct (N.leb x y); auto.
  eapply perm_trans. apply perm_skip. exact IH. apply perm_swap.
Qed.

Lemma sort_frags_perm l : Permutation (sort_frags l) l.
Proof.
  induction l as [|x l IH]; simpl; auto.
  eapply perm_trans. apply insert_perm. apply perm_skip. exact IH.
Qed.

(* ---------------------------------------------------------------- the medoid is a member *)
Lemma fold_pick (F : option N * Q -> N -> option N * Q) :
  (forall st c, F st c = st \/ fst (F st c) = Some c) ->
  forall l st b, fst (fold_left F l st) = Some b -> fst st = Some b \/ In b l.
Proof.
  intros HF l. induction l as [|c l IH]; simpl; intros st b H; auto.
  apply IH in H. destruct H as [H | H]; auto.
  destruct (HF st c) as [E | E].
  - rewrite E in H. auto.
  - rewrite E in H. inversion H. auto.
Qed.

Lemma find_medoid_In G members m : find_medoid G members = Some m -> In m members.
Proof.
  unfold find_medoid. destruct members as [|x [|y r]]; try discriminate.
  - intros H. inversion H. left; auto.
  - set (ms := x :: y :: r). intros H. apply fold_pick in H.
    + destruct H as [H | H]; [discriminate | exact H].
    + intros [best bavg] c. cbv zeta.
      match goal with |- context [if ?b then _ else _] => destruct b end.
      * right; reflexivity.
      * destruct best; [left | right]; reflexivity.
Qed.

(* ---------------------------------------------------------------- similarity >= t > 0 is an edge *)
Lemma sim_fold_inv a b l : forall acc v,
  fold_left (fun acc (p : pair) =>
     if joins a b p then
       match acc with
       | None => Some (snd p)
       | Some old => if Qltb old (snd p) then Some (snd p) else acc
       end
     else acc) l acc = Some v ->
  acc = Some v \/ exists p, In p l /\ joins a b p = true /\ snd p = v.
Proof.
  induction l as [|p l IH]; simpl; intros acc v H; auto.
  apply IH in H. destruct H as [H | (q & Hq & Hj & Hs)].
  - destruct (joins a b p) eqn:J; auto.
    destruct acc as [old|].
    + destruct (Qltb old (snd p)); auto.
      inversion H. right. exists p. auto.
    + inversion H. right. exists p. auto.
  - right. exists q. auto.
Qed.

Lemma sim_lookup_some G a b v : sim_lookup G a b = Some v ->
  exists p, In p G /\ joins a b p = true /\ snd p = v.
Proof.
  unfold sim_lookup. intros H. apply sim_fold_inv in H.
  destruct H as [H | H]; [discriminate | exact H].
Qed.

Lemma sim_adj t G f m : (0 < t)%Q -> f <> m ->
  Qle_bool t (similarity G f m) = true -> adj t G f m.
Proof.
  intros Ht Hn H. apply Qle_bool_iff in H. unfold similarity in H.
  assert (E : N.eqb f m = false) by (apply N.eqb_neq; auto). rewrite E in H.
  destruct (sim_lookup G f m) as [v|] eqn:L.
  - apply sim_lookup_some in L. destruct L as ([[x y] s] & Hin & Hj & Hs).
    simpl in Hs. subst v. apply joins_spec in Hj.
    split; auto. exists s. split; auto.
    destruct Hj as [[-> ->] | [-> ->]]; auto.
  - exfalso. apply (Qlt_irrefl 0). eapply Qlt_le_trans; eauto.
Qed.

(* ---------------------------------------------------------------- star_filter *)
Lemma star_filter_inv t G c g : In g (star_filter t G c) ->
  exists m, find_medoid G c = Some m /\
    g = sort_frags (filter (fun f => N.eqb f m || Qle_bool t (similarity G f m)) c) /\
    (2 <= length (filter (fun f => N.eqb f m || Qle_bool t (similarity G f m)) c))%nat.
Proof.
  unfold star_filter. destruct (length c <? 2)%nat; [intros []|].
  destruct (find_medoid G c) as [m|]; [|intros []].
  cbv zeta.
  destruct (length (filter (fun f => N.eqb f m || Qle_bool t (similarity G f m)) c) <? 2)%nat eqn:E;
    [intros []|].
  intros [<-|[]]. exists m. repeat split; auto. apply Nat.ltb_ge in E. exact E.
Qed.

Lemma star_filter_shape t G c :
  star_filter t G c = [] \/ exists g, star_filter t G c = [g].
Proof.
  unfold star_filter. destruct (length c <? 2)%nat; auto.
  destruct (find_medoid G c) as [m|]; auto. cbv zeta.
  match goal with |- context [if ?b then _ else _] => destruct b end; eauto.
Qed.

Lemma star_filter_sub t G c g x : In g (star_filter t G c) -> In x g -> In x c.
Proof.
  intros Hg Hx. apply star_filter_inv in Hg. destruct Hg as (m & _ & -> & _).
  eapply Permutation_in in Hx; [|apply sort_frags_perm].
  apply filter_In in Hx. tauto.
Qed.

Lemma star_filter_nodup t G c g : NoDup c -> In g (star_filter t G c) -> NoDup g.
Proof.
  intros Hc Hg. apply star_filter_inv in Hg. destruct Hg as (m & _ & -> & _).
  eapply Permutation_NoDup; [apply Permutation_sym, sort_frags_perm|].
  apply NoDup_filter. exact Hc.
Qed.

Lemma star_filter_len t G c g : In g (star_filter t G c) -> (2 <= length g)%nat.
Proof.
  intros Hg. apply star_filter_inv in Hg. destruct Hg as (m & _ & -> & Hl).
  rewrite (Permutation_length (sort_frags_perm _)). exact Hl.
Qed.

Lemma star_filter_star t G c g : (0 < t)%Q -> In g (star_filter t G c) ->
  exists m, In m g /\ forall f, In f g -> f = m \/ adj t G f m.
Proof.
  intros Ht Hg. apply star_filter_inv in Hg. destruct Hg as (m & Hm & -> & _).
  apply find_medoid_In in Hm. exists m. split.
  - eapply Permutation_in; [apply Permutation_sym, sort_frags_perm|].
    apply filter_In. split; auto. rewrite N.eqb_refl. reflexivity.
  - intros f Hf. eapply Permutation_in in Hf; [|apply sort_frags_perm].
    apply filter_In in Hf. destruct Hf as [_ Hf].
    destruct (N.eq_dec f m) as [-> | Hn]; auto.
    right. apply orb_true_iff in Hf. destruct Hf as [Hf | Hf].
    + apply N.eqb_eq in Hf. contradiction.
    + apply sim_adj; auto.
Qed.

Lemma flat_star_sub t G cls x :
  In x (concat (flat_map (star_filter t G) cls)) -> In x (concat cls).
Proof.
  intros H. apply in_concat in H. destruct H as [g [Hg Hx]].
  apply in_flat_map in Hg. destruct Hg as [c [Hc Hg]].
  apply in_concat. exists c. split; auto. eapply star_filter_sub; eauto.
Qed.

Lemma flat_star_nodup t G cls :
  NoDup (concat cls) -> NoDup (concat (flat_map (star_filter t G) cls)).
Proof.
  induction cls as [|c cls IH]; simpl; intros H; [constructor|].
  apply nodup_app_iff in H. destruct H as (Hc & Hcls & Hd).
  rewrite concat_app. apply nodup_app_iff. repeat split; auto.
  - destruct (star_filter_shape t G c) as [E | [g E]]; rewrite E; simpl; [constructor|].
    rewrite app_nil_r. apply (star_filter_nodup t G c); auto. rewrite E. left; auto.
  - intros x Hx Hx'. apply flat_star_sub in Hx'. apply (Hd x); auto.
    apply in_concat in Hx. destruct Hx as [g [Hg Hx]]. eapply star_filter_sub; eauto.
Qed.

(* ---------------------------------------------------------------- the contract *)
Lemma star_final_contract : forall t G (find : N -> N) frs, (0 < t)%Q -> NoDup frs ->
  contract_star t G (flat_map (star_filter t G) (build_clusters find frs)).
Proof.
  intros t G find frs Ht Hf.
  assert (Hcl := build_clusters_nodup find frs Hf).
  set (cls := build_clusters find frs) in *.
  assert (Hgs := flat_star_nodup t G cls Hcl).
  apply nodup_concat in Hgs. destruct Hgs as [Hnd Hdis].
  assert (Hstar : forall g, In g (flat_map (star_filter t G) cls) ->
            exists m, In m g /\ forall f, In f g -> f = m \/ adj t G f m).
  { intros g Hg. apply in_flat_map in Hg. destruct Hg as [c [_ Hg]].
    eapply star_filter_star; eauto. }
  split; [split; [|split]|]; auto.
  - intros g Hg. split; auto.
    apply in_flat_map in Hg. destruct Hg as [c [_ Hg]]. eapply star_filter_len; eauto.
  - intros g Hg. destruct (Hstar g Hg) as [m [Hm Hall]]. eapply star_linked; eauto.
Qed.

Theorem group_star_contract : forall t G, (0 < t)%Q -> contract_star t G (group_star t G).
Proof.
  intros t G Ht. unfold group_star, star_final. cbv zeta.
  apply star_final_contract; auto. apply collect_fragments_nodup.
Qed.

