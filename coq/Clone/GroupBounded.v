(* C10 — bounded theorems, by computation over the small-scope domain of GroupLattice.v:
   every weighted graph on 4 fragments with weights in {absent, t-1/64, t, t+1/64}, t = 3/4
   (4^6 = 4096 graphs), both pair orders (k-core: the 3-point lattice, all map orders). *)
From Coq Require Import NArith ZArith QArith List Bool.
From PV Require Import Gen.GroupConst Clone.GroupSpec Clone.GroupSpecKCore Clone.GroupCommon Clone.GroupConnected
  Clone.GroupComplete Clone.GroupKCore Clone.GroupStar Clone.GroupLattice Clone.GroupRun.
Import ListNotations.

Definition T : Q := 3 # 4.
Definition EPS : Q := 1 # 64.

Fixpoint perms (l : list N) : list (list N) :=
  match l with
  | [] => [[]]
  | x :: r => flat_map (fun p => map (fun i => firstn i p ++ x :: skipn i p) (seq 0 (S (length p)))) (perms r)
  end.

(* k-core: for every map iteration order (all permutations of the collected fragments) the model
   terminates, satisfies the k-core contract, and returns exactly the components (>= 2 members)
   of the k-core as defined by GroupSpecKCore.spec_kcore_groups *)
Definition kcore_ok (k : Z) (G : pgraph) : bool :=
  let spec := map sort_frags (spec_kcore_groups (contract_k k) T G) in
  forallb (fun ord =>
    match group_kcore_ord T k G ord with
    | Some gs => check_kcore (contract_k k) T G gs && same_groups gs spec
    | None => false
    end) (perms (collect_fragments G)).

(* k-core only compares similarities with the threshold, so the 3-point lattice
   {absent, t-1/64, t} already produces every behaviour on 4 fragments (3^6 = 729 graphs) *)
Definition graphs4_3 : list pgraph :=
  flat_map (fun code => [lattice_graph 3 T EPS 4 code false; lattice_graph 3 T EPS 4 code true]) (all_codes 3 4).

Lemma kcore_bounded_all :
  forallb (fun G => kcore_ok 2 G && kcore_ok 3 G) graphs4_3 = true.
Proof. vm_compute. reflexivity. Qed.

(* the connected model equals the executable component specification (the unbounded theorem
   group_connected_contract states the same through the inductive connectivity predicate) *)
Definition connected_ok (G : pgraph) : bool :=
  same_groups (group_connected T G) (map sort_frags (spec_connected_groups T G)).

Lemma connected_bounded : forallb connected_ok graphs4_3 = true.
Proof. vm_compute. reflexivity. Qed.
