(* C10 — the contract checker gives the same verdict on the normalised graph (GroupNorm.v). *)
From Coq Require Import NArith ZArith QArith List Bool.
From PV Require Import Clone.GroupSpec Clone.GroupCommon Clone.GroupKCore Clone.GroupRun Clone.GroupNorm.
Import ListNotations.

Lemma forallb_ext' {A} (f g : A -> bool) l : (forall x, f x = g x) -> forallb f l = forallb g l.
Proof. intros H. induction l as [|x l IH]; simpl; [reflexivity|]. now rewrite H, IH. Qed.

Lemma existsb_ext' {A} (f g : A -> bool) l : (forall x, f x = g x) -> existsb f l = existsb g l.
Proof. intros H. induction l as [|x l IH]; simpl; [reflexivity|]. now rewrite H, IH. Qed.

Lemma filter_ext' {A} (f g : A -> bool) l : (forall x, f x = g x) -> filter f l = filter g l.
Proof. intros H. induction l as [|x l IH]; simpl; [reflexivity|]. now rewrite H, IH. Qed.

Lemma adjb_norm t G a b : adjb 1%Q (norm_graph t G) a b = adjb t G a b.
Proof.
  unfold adjb, norm_graph. f_equal.
  induction G as [|p G IH]; simpl; [reflexivity|].
  destruct (Qle_bool t (snd p)) eqn:E; simpl.
  - rewrite IH. destruct p as [[x y] s]. simpl. reflexivity.
  - rewrite IH. now rewrite andb_false_r.
Qed.

Section Ext.
  Variables R R' : N -> N -> bool.
  Hypothesis HR : forall a b, R a b = R' a b.

  Lemma step_ext V S : step R V S = step R' V S.
  Proof. unfold step. apply filter_ext'. intros w. f_equal. apply existsb_ext'. intros u. apply HR. Qed.

  Lemma close_ext V fuel : forall S, close R V fuel S = close R' V fuel S.
  Proof.
    induction fuel as [|f IH]; intros S; simpl; [reflexivity|].
    rewrite step_ext. destruct (length (step R' V S) <=? length S)%nat; [reflexivity|apply IH].
  Qed.

  Lemma reach_set_ext V a : reach_set R V a = reach_set R' V a.
  Proof. unfold reach_set. apply close_ext. Qed.
End Ext.

Lemma linkedb_norm t G g : linkedb 1%Q (norm_graph t G) g = linkedb t G g.
Proof.
  unfold linkedb. destruct g as [|a g]; [reflexivity|].
  rewrite (reach_set_ext _ (adjb t G)); [reflexivity|]. intros; apply adjb_norm.
Qed.

Lemma check_common_norm t G gs : check_common 1%Q (norm_graph t G) gs = check_common t G gs.
Proof. unfold check_common. f_equal. apply forallb_ext'. intros g. apply linkedb_norm. Qed.

Lemma edge_cover_norm t G (E : N -> N -> bool) :
  forallb (fun p : pair => let '(a, b, s) := p in
     if N.eqb a b || negb (Qle_bool 1%Q s) then true else E a b) (norm_graph t G) =
  forallb (fun p : pair => let '(a, b, s) := p in
     if N.eqb a b || negb (Qle_bool t s) then true else E a b) G.
Proof.
  unfold norm_graph. induction G as [|p G IH]; simpl; [reflexivity|].
  destruct p as [[a b] s]. simpl. destruct (Qle_bool t s) eqn:Es; simpl.
  - now rewrite IH.
  - rewrite IH. now rewrite orb_true_r.
Qed.

Theorem check_contract_norm m k t G gs :
  check_contract m k 1%Q (norm_graph t G) gs = check_contract m k t G gs.
Proof.
  destruct m; simpl.
  - unfold check_connected. rewrite check_common_norm. f_equal.
    apply (edge_cover_norm t G (fun a b => existsb (fun g => memb a g && memb b g) gs)).
  - unfold check_complete. rewrite check_common_norm. f_equal.
    apply forallb_ext'; intros g. apply forallb_ext'; intros a. apply forallb_ext'; intros b.
    now rewrite adjb_norm.
  - unfold check_kcore. rewrite check_common_norm. f_equal.
    apply forallb_ext'; intros g. apply forallb_ext'; intros a. unfold deg_in.
    rewrite (filter_ext' (adjb 1%Q (norm_graph t G) a) (adjb t G a)); [reflexivity|]. intros; apply adjb_norm.
  - unfold check_star. rewrite check_common_norm. f_equal.
    apply forallb_ext'; intros g. apply existsb_ext'; intros c. apply forallb_ext'; intros f.
    now rewrite adjb_norm.
Qed.

Lemma listed_norm t G a b : listed 1%Q (norm_graph t G) a b = listed t G a b.
Proof.
  unfold listed, norm_graph.
  induction G as [|p G IH]; simpl; [reflexivity|].
  destruct (Qle_bool t (snd p)) eqn:E; simpl.
  - rewrite IH. destruct p as [[x y] s]. simpl. reflexivity.
  - rewrite IH. now rewrite andb_false_r.
Qed.

Lemma kcore_init_norm t G k ord nodes :
  kcore_init 1%Q (norm_graph t G) k ord nodes = kcore_init t G k ord nodes.
Proof.
  unfold kcore_init.
  assert (H : map (fun v => (v, filter (listed 1%Q (norm_graph t G) v) ord)) nodes =
              map (fun v => (v, filter (listed t G v) ord)) nodes).
  { apply map_ext. intros v. f_equal. apply filter_ext'. intros w. apply listed_norm. }
  now rewrite H.
Qed.

Theorem run_model_norm_eq m k t G ord : run_model_norm m k t G ord = run_model m k t G ord.
Proof.
  destruct m; simpl; try reflexivity.
  unfold group_kcore_ord_norm, group_kcore_ord. cbv zeta. now rewrite kcore_init_norm.
Qed.

Theorem verdict_norm_eq idx mn k t G ord impl :
  verdict_norm idx mn k t G ord impl = verdict idx mn k t G ord impl.
Proof.
  unfold verdict_norm, verdict, run_case. cbv zeta. rewrite run_model_norm_eq.
  destruct (run_model (mode_of mn) k t G ord); now rewrite ?check_contract_norm.
Qed.
