(* Which nodes of a parsed file become fragment candidates: the walk of
   clone_detector.go:463 extractFragmentsRecursive (and its twin :366 extractFragmentsRecursiveWithSource).

   A parser.Node keeps its sub-nodes in several lists; the ones that hold statements and that
   apted_tree.go:161 ConvertAST puts into the compared tree are numbered
     0 Children, 1 Body, 2 Orelse, 3 Handlers, 4 Finalbody.
   The lists the walk follows (Gen.CloneConst.clone_walk_fields) and the lists the tree is built from
   (clone_tree_fields) are read from the `range node.<list>` loops of the Go source by the translator.

   Model only; the facts are in WalkFacts.v. *)
From Coq Require Import ZArith List.
Import ListNotations.

(* a node of the statement skeleton: location (start line, end line), isFragmentCandidate, sub-nodes per list code *)
Inductive wnode : Type := WNode (loc : Z * Z) (cand : bool) (sub : nat -> list wnode).

Definition w_loc (n : wnode) : Z * Z := match n with WNode l _ _ => l end.
Definition w_cand (n : wnode) : bool := match n with WNode _ c _ => c end.
Definition w_sub (n : wnode) : nat -> list wnode := match n with WNode _ _ s => s end.

(* extractFragmentsRecursive with the size filter off: the node itself if it is a candidate, then the
   nodes of each followed list in the order of the loops (pre-order) *)
Fixpoint walk (fields : list nat) (n : wnode) : list (Z * Z) :=
  match n with
  | WNode l c sub => (if c then [l] else []) ++ flat_map (fun k => flat_map (walk fields) (sub k)) fields
  end.

(* SPEC: [n] lies in the tree that is built from [root] by following the lists [fields] *)
Inductive reach (fields : list nat) : wnode -> wnode -> Prop :=
| reach_here : forall n, reach fields n n
| reach_down : forall l c sub k m n, In k fields -> In m (sub k) -> reach fields m n -> reach fields (WNode l c sub) n.

(* printer-friendly constructor for the harness: the five lists in the order of the codes *)
Definition mk (s e : Z) (c : bool) (l0 l1 l2 l3 l4 : list wnode) : wnode :=
  WNode (s, e) c (fun k => match k with 0 => l0 | 1 => l1 | 2 => l2 | 3 => l3 | 4 => l4 | _ => [] end)%nat.
