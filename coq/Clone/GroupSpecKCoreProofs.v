(* C10 — facts about the executable specification of GroupSpecKCore.v (all inputs, no bounds):
   - [prune] computes THE maximal k-core of G_t (the greatest vertex set in which every vertex
     has >= k neighbours inside the set), and its fuel |V| always suffices;
   - [components_in] lists the connected components of G_t restricted to a vertex set, each
     exactly once;
   - insertion sort is canonical (two duplicate-free lists with the same members sort to the
     same list), so "same set of sets" can be stated as [Permutation] of lists of sorted groups;
   - [same_groups] decides mutual inclusion of two lists of groups. *)
From Coq Require Import NArith ZArith QArith List Bool Lia Arith Permutation Sorted.
From Coq Require Import Zify ZifyBool ZifyNat ZifyN.
From PV Require Import Gen.GroupConst Clone.GroupSpec Clone.GroupSpecProofs Clone.GroupSpecKCore Clone.GroupCommon
  Clone.GroupCommonProofs Clone.GroupLattice Clone.GroupRun.
Import ListNotations.
Local Close Scope Q_scope.

(* ---------------------------------------------------------------- lists *)
Definition seteq (a b : list N) : Prop := forall x, In x a <-> In x b.

Lemma seteq_sym a b : seteq a b -> seteq b a.
Proof. intros H x. symmetry. apply H. Qed.

Lemma seteq_trans a b c : seteq a b -> seteq b c -> seteq a c.
Proof. intros H1 H2 x. rewrite (H1 x). apply H2. Qed.

Lemma seteq_perm a b : NoDup a -> NoDup b -> seteq a b -> Permutation a b.
Proof. intros. apply NoDup_Permutation; auto. Qed.

Lemma filter_filter {A} (p q : A -> bool) l :
  filter p (filter q l) = filter (fun x => q x && p x) l.
Proof.
  induction l as [|x l IH]; simpl; auto.
  destruct (q x); simpl; [destruct (p x)|]; rewrite IH; reflexivity.
Qed.

Lemma filter_full {A} (p : A -> bool) l :
  length (filter p l) = length l -> forall x, In x l -> p x = true.
Proof.
  induction l as [|y l IH]; simpl; intros H x Hx; [tauto|].
  pose proof (filter_len_l p l) as Hle.
  destruct (p y) eqn:Ep; simpl in H.
  - destruct Hx as [<- | Hx]; auto.
  - lia.
Qed.

Lemma filter_full_eq {A} (p : A -> bool) l : (forall x, In x l -> p x = true) -> filter p l = l.
Proof.
  induction l as [|y l IH]; simpl; intros H; auto.
  rewrite (H y (or_introl eq_refl)). f_equal. apply IH. intros; apply H; auto.
Qed.

Lemma isfilt_sub V S (p : N -> bool) : isfilt V S -> isfilt V (filter p S).
Proof.
  intros H. rewrite H. rewrite filter_filter. apply isfilt_filter.
Qed.

Lemma isfilt_NoDup V S : NoDup V -> isfilt V S -> NoDup S.
Proof. intros Hnd H. rewrite H. apply filter_NoDup. exact Hnd. Qed.

Lemma isfilt_self V : isfilt V V.
Proof.
  unfold isfilt. symmetry. apply filter_full_eq. intros x Hx. apply memb_In. exact Hx.
Qed.

Lemma isfilt_seteq V S S' : isfilt V S -> isfilt V S' -> seteq S S' -> S = S'.
Proof.
  intros H H' He. rewrite H, H'. apply filter_ext. intros x.
  destruct (memb x S) eqn:E1, (memb x S') eqn:E2; auto.
  - apply memb_In, He, memb_In in E1. congruence.
  - apply memb_In, He, memb_In in E2. congruence.
Qed.

Lemma nodup_concat_filter (p : group -> bool) gs : NoDup (concat gs) -> NoDup (concat (filter p gs)).
Proof.
  induction gs as [|g gs IH]; simpl; auto.
  rewrite nodup_app_iff. intros (H1 & H2 & H3).
  destruct (p g); simpl; auto.
  apply nodup_app_iff. split; auto. split; auto.
  intros x Hx Hc. apply (H3 x Hx).
  apply in_concat in Hc. destruct Hc as (g' & Hg' & Hx'). apply filter_In in Hg'.
  apply in_concat. exists g'. tauto.
Qed.

Lemma concat_map_sort_perm gs : Permutation (concat (map sort_frags gs)) (concat gs).
Proof.
  induction gs as [|g gs IH]; simpl; auto.
  apply Permutation_app; auto. apply sort_frags_perm.
Qed.

Lemma nodup_concat_nodup (gs : list group) :
  NoDup (concat gs) -> (forall g, In g gs -> g <> []) -> NoDup gs.
Proof.
  induction gs as [|g gs IH]; simpl; intros Hnd Hne; [constructor|].
  apply nodup_app_iff in Hnd. destruct Hnd as (H1 & H2 & H3).
  constructor; [|apply IH; auto].
  intros Hin. destruct g as [|x g']. { apply (Hne []); auto. }
  apply (H3 x). left; auto. apply in_concat. exists (x :: g'). split; auto. left; auto.
Qed.

(* ---------------------------------------------------------------- canonical sorting *)
Lemma insert_sorted x l : StronglySorted N.le l -> StronglySorted N.le (insert x l).
Proof.
  induction l as [|y l IH]; simpl; intros H.
  - constructor; constructor.
  - destruct (N.leb x y) eqn:E.
    + apply N.leb_le in E. constructor; auto.
      inversion H as [|? ? Hs Hf]; subst.
      constructor; auto. rewrite Forall_forall in *. intros z Hz. specialize (Hf z Hz). lia.
    + apply N.leb_gt in E. inversion H as [|? ? Hs Hf]; subst.
      constructor; auto. rewrite Forall_forall in *. intros z Hz.
      apply (Permutation_in _ (insert_perm x l)) in Hz. destruct Hz as [<- | Hz]; [lia | auto].
Qed.

Lemma sort_frags_sorted l : StronglySorted N.le (sort_frags l).
Proof. induction l as [|x l IH]; simpl; [constructor | apply insert_sorted; auto]. Qed.

Lemma sorted_perm_eq : forall a b,
  StronglySorted N.le a -> StronglySorted N.le b -> Permutation a b -> a = b.
Proof.
  induction a as [|x a IH]; intros b Ha Hb HP.
  - apply Permutation_nil in HP. auto.
  - destruct b as [|y b]. { apply Permutation_sym, Permutation_nil in HP. discriminate. }
    inversion Ha as [|? ? Hsa Hfa]; subst. inversion Hb as [|? ? Hsb Hfb]; subst.
    rewrite Forall_forall in *.
    assert (Hxy : x = y).
    { assert (H1 : In x (y :: b)) by (eapply Permutation_in; [exact HP | left; auto]).
      assert (H2 : In y (x :: a)) by (eapply Permutation_in; [apply Permutation_sym; exact HP | left; auto]).
      destruct H1 as [H1 | H1]; auto. destruct H2 as [H2 | H2]; auto.
      specialize (Hfa y H2). specialize (Hfb x H1). lia. }
    subst y. f_equal. apply IH; auto. eapply Permutation_cons_inv; eauto.
Qed.

Lemma sort_frags_canon a b : NoDup a -> NoDup b -> seteq a b -> sort_frags a = sort_frags b.
Proof.
  intros Ha Hb He. apply sorted_perm_eq; try apply sort_frags_sorted.
  eapply perm_trans. apply sort_frags_perm.
  eapply perm_trans. apply seteq_perm; eauto. apply Permutation_sym, sort_frags_perm.
Qed.

Lemma sorted_sort_id g : StronglySorted N.le g -> sort_frags g = g.
Proof. intros H. apply sorted_perm_eq; auto using sort_frags_sorted, sort_frags_perm. Qed.

(* ---------------------------------------------------------------- same_groups *)
Lemma group_eqb_spec : forall a b, group_eqb a b = true <-> a = b.
Proof.
  unfold group_eqb. induction a as [|x a IH]; intros [|y b]; simpl; split; intros H;
    try reflexivity; try discriminate.
  - apply andb_true_iff in H. destruct H as [Hl H]. simpl in H.
    apply andb_true_iff in H. destruct H as [Hxy H]. apply N.eqb_eq in Hxy. subst y. f_equal.
    apply IH. apply andb_true_iff. split; auto.
  - inversion H; subst. apply andb_true_iff. simpl.
    assert (H' : b = b) by reflexivity. apply IH in H'. apply andb_true_iff in H'.
    destruct H' as [H1 H2]. split; auto. rewrite N.eqb_refl. simpl. exact H2.
Qed.

Lemma same_groups_spec a b :
  same_groups a b = true <-> (forall g, In g a -> In g b) /\ (forall g, In g b -> In g a).
Proof.
  unfold same_groups. rewrite andb_true_iff, !forallb_forall.
  assert (Hex : forall g l, existsb (group_eqb g) l = true <-> In g l).
  { intros g l. rewrite existsb_exists. split.
    - intros (g' & Hg' & He). apply group_eqb_spec in He. subst. auto.
    - intros H. exists g. split; auto. apply group_eqb_spec. reflexivity. }
  split; intros [H1 H2]; split; intros g Hg; apply Hex; auto.
Qed.

Lemma same_groups_perm a b : Permutation a b -> same_groups a b = true.
Proof.
  intros HP. apply same_groups_spec. split; intros g; apply Permutation_in; auto.
  apply Permutation_sym; auto.
Qed.

(* two families of pairwise disjoint nonempty duplicate-free groups that cover each other
   member-wise are the same set of sets *)
Lemma groups_equiv_perm (gs1 gs2 : list group) :
  NoDup (concat gs1) -> NoDup (concat gs2) ->
  (forall g, In g gs1 -> g <> []) -> (forall g, In g gs2 -> g <> []) ->
  (forall g1, In g1 gs1 -> exists g2, In g2 gs2 /\ seteq g1 g2) ->
  (forall g2, In g2 gs2 -> exists g1, In g1 gs1 /\ seteq g1 g2) ->
  Permutation (map sort_frags gs1) (map sort_frags gs2).
Proof.
  intros Hn1 Hn2 He1 He2 H12 H21.
  assert (Hnd : forall gs : list group, NoDup (concat gs) -> (forall g, In g gs -> g <> []) ->
                  NoDup (map sort_frags gs)).
  { intros gs Hn He. apply nodup_concat_nodup.
    - eapply Permutation_NoDup; [apply Permutation_sym, concat_map_sort_perm | exact Hn].
    - intros g Hg. apply in_map_iff in Hg. destruct Hg as (g0 & <- & Hg0). intros Hnil.
      apply (He g0 Hg0). destruct g0 as [|x g0']; auto.
      assert (Hx : In x (sort_frags (x :: g0'))) by (apply sort_frags_In; left; auto).
      rewrite Hnil in Hx. destruct Hx. }
  assert (Hg : forall (gs : list group) (g : group), NoDup (concat gs) -> In g gs -> NoDup g).
  { intros gs g Hn Hin. apply nodup_concat in Hn. destruct Hn as [Hn _]. auto. }
  apply NoDup_Permutation; auto.
  intros g. rewrite !in_map_iff. split.
  - intros (g1 & <- & Hg1). destruct (H12 g1 Hg1) as (g2 & Hg2 & Hs). exists g2. split; auto.
    symmetry. apply sort_frags_canon; eauto.
  - intros (g2 & <- & Hg2). destruct (H21 g2 Hg2) as (g1 & Hg1 & Hs). exists g1. split; auto.
    apply sort_frags_canon; eauto.
Qed.

(* ---------------------------------------------------------------- reach_set / components *)
Section Comps.
Variable R : N -> N -> bool.
Variable V : list N.
Hypothesis Rsym : forall a b, R a b = R b a.
Hypothesis Vnd : NoDup V.

Lemma close_isfilt fuel : forall S, isfilt V S -> isfilt V (close R V fuel S).
Proof.
  induction fuel as [|f IH]; simpl; intros S HS; auto.
  destruct (length (step R V S) <=? length S)%nat; auto.
  apply IH. apply isfilt_filter.
Qed.

Lemma reach_set_isfilt a : isfilt V (reach_set R V a).
Proof. apply close_isfilt. apply isfilt_filter. Qed.

Lemma reach_set_NoDup a : NoDup (reach_set R V a).
Proof. eapply isfilt_NoDup; [exact Vnd | apply reach_set_isfilt]. Qed.

Lemma reach_set_In a b : In b (reach_set R V a) <-> In a V /\ conn (Rin R V) a b.
Proof. rewrite <- reachb_spec. unfold reachb. symmetry. apply memb_In. Qed.

Lemma Rin_symm a b : Rin R V a b -> Rin R V b a.
Proof. intros (H1 & H2 & H3). split; [|split]; auto. rewrite Rsym. exact H3. Qed.

Lemma connV_sym a b : conn (Rin R V) a b -> conn (Rin R V) b a.
Proof. apply conn_sym. apply Rin_symm. Qed.

Definition comp_step (acc : list group) (v : N) : list group :=
  if existsb (memb v) acc then acc else acc ++ [reach_set R V v].

Definition comps_inv (acc : list group) : Prop :=
  (forall c, In c acc -> exists v, In v V /\ c = reach_set R V v) /\ NoDup (concat acc).

Lemma comps_fold : forall L acc, (forall v, In v L -> In v V) -> comps_inv acc ->
  comps_inv (fold_left comp_step L acc) /\
  (forall c, In c acc -> In c (fold_left comp_step L acc)) /\
  (forall v, In v L -> exists c, In c (fold_left comp_step L acc) /\ In v c).
Proof.
  induction L as [|v L IH]; simpl; intros acc HL Hinv.
  - split; auto. split; auto. intros v [].
  - assert (HL' : forall x, In x L -> In x V) by (intros; apply HL; auto).
    assert (HvV : In v V) by (apply HL; auto).
    assert (Hinv' : comps_inv (comp_step acc v) /\ (forall c, In c acc -> In c (comp_step acc v)) /\
                    exists c, In c (comp_step acc v) /\ In v c).
    { unfold comp_step. destruct (existsb (memb v) acc) eqn:Ex.
      - split; auto. split; auto. apply existsb_exists in Ex. destruct Ex as (c & Hc & Hm).
        apply memb_In in Hm. eauto.
      - destruct Hinv as [Hr Hnd]. split; [split|split].
        + intros c Hc. apply in_app_or in Hc. destruct Hc as [Hc | [<- | []]]; eauto.
        + rewrite concat_app. simpl. rewrite app_nil_r. apply nodup_app_iff.
          split; auto. split. apply reach_set_NoDup.
          intros x Hx Hx'. apply in_concat in Hx. destruct Hx as (c & Hc & Hxc).
          destruct (Hr c Hc) as (v' & Hv' & ->).
          apply reach_set_In in Hxc. apply reach_set_In in Hx'.
          assert (Hvc : In v (reach_set R V v')).
          { apply reach_set_In. split; [tauto|]. eapply conn_trans. apply Hxc.
            apply connV_sym. apply Hx'. }
          assert (Ht : existsb (memb v) acc = true).
          { apply existsb_exists. exists (reach_set R V v'). split; auto. apply memb_In; auto. }
          congruence.
        + intros c Hc. apply in_or_app; auto.
        + exists (reach_set R V v). split. apply in_or_app; right; left; auto.
          apply reach_set_In. split; auto. constructor. }
    destruct Hinv' as (Hi & Hsub & c0 & Hc0 & Hvc0).
    destruct (IH (comp_step acc v) HL' Hi) as (I1 & I2 & I3).
    split; auto. split; auto.
    intros x [<- | Hx]; auto. exists c0. split; auto.
Qed.

Definition comps : list group := fold_left comp_step V [].

Lemma comps_spec :
  (forall c, In c comps -> exists v, In v V /\ c = reach_set R V v) /\
  NoDup (concat comps) /\
  (forall v, In v V -> exists c, In c comps /\ In v c).
Proof.
  destruct (comps_fold V []) as ((H1 & H2) & _ & H3); auto.
  split. intros c []. constructor.
Qed.
End Comps.

Lemma components_in_comps t G S : components_in t G S = comps (adjb t G) S.
Proof. reflexivity. Qed.

(* ---------------------------------------------------------------- the maximal k-core *)
(* S is a k-core set of G_t: duplicate-free, made of vertices of G, every member has at least
   k G_t-neighbours among the members *)
Definition core_closed (k : N) (t : Q) (G : pgraph) (S : list N) : Prop :=
  forall v, In v S -> (k <= deg_in t G S v)%N.

Definition is_kcore (k : N) (t : Q) (G : pgraph) (S : list N) : Prop :=
  NoDup S /\ (forall v, In v S -> In v (vertices G)) /\ core_closed k t G S.

(* P is THE k-core: a k-core set containing every k-core set *)
Definition max_kcore (k : N) (t : Q) (G : pgraph) (P : list N) : Prop :=
  is_kcore k t G P /\ forall S, is_kcore k t G S -> forall v, In v S -> In v P.

Lemma vertices_collect G : vertices G = collect_fragments G.
Proof. reflexivity. Qed.

Lemma deg_in_mono t G C S v : NoDup C -> (forall x, In x C -> In x S) ->
  (deg_in t G C v <= deg_in t G S v)%N.
Proof.
  intros Hnd Hsub. unfold deg_in.
  assert (length (filter (adjb t G v) C) <= length (filter (adjb t G v) S))%nat; [|lia].
  apply NoDup_incl_length. apply filter_NoDup; auto.
  intros x Hx. apply filter_In in Hx. apply filter_In. split; [apply Hsub|]; tauto.
Qed.

Lemma prune_incl k t G fuel : forall S x, In x (prune k t G fuel S) -> In x S.
Proof.
  induction fuel as [|f IH]; simpl; intros S x Hx; auto.
  destruct (length (filter _ S) =? length S)%nat; auto.
  apply IH in Hx. apply filter_In in Hx. tauto.
Qed.

Lemma prune_isfilt k t G V fuel : forall S, isfilt V S -> isfilt V (prune k t G fuel S).
Proof.
  induction fuel as [|f IH]; simpl; intros S HS; auto.
  destruct (length (filter _ S) =? length S)%nat; auto.
  apply IH. apply isfilt_sub. exact HS.
Qed.

(* fuel >= |S| is enough: every round that does not stop removes a vertex *)
Lemma prune_closed k t G fuel : forall S, (length S <= fuel)%nat ->
  core_closed k t G (prune k t G fuel S).
Proof.
  induction fuel as [|f IH]; simpl; intros S Hlen.
  - destruct S; [|simpl in Hlen; lia]. intros v [].
  - destruct (length (filter (fun v => (k <=? deg_in t G S v)%N) S) =? length S)%nat eqn:E.
    + apply Nat.eqb_eq in E. intros v Hv.
      apply (filter_full _ _ E) in Hv. apply N.leb_le in Hv. exact Hv.
    + apply Nat.eqb_neq in E.
      pose proof (filter_len_l (fun v => (k <=? deg_in t G S v)%N) S). apply IH. lia.
Qed.

Lemma prune_greatest k t G C fuel : NoDup C -> core_closed k t G C ->
  forall S, (forall x, In x C -> In x S) -> forall x, In x C -> In x (prune k t G fuel S).
Proof.
  intros Hnd Hc. induction fuel as [|f IH]; simpl; intros S Hsub x Hx; auto.
  assert (Hsub' : forall y, In y C -> In y (filter (fun v => (k <=? deg_in t G S v)%N) S)).
  { intros y Hy. apply filter_In. split; auto. apply N.leb_le.
    pose proof (Hc y Hy). pose proof (deg_in_mono t G C S y Hnd Hsub). lia. }
  destruct (length (filter _ S) =? length S)%nat; auto.
Qed.

Theorem prune_max_kcore k t G :
  max_kcore k t G (prune k t G (length (vertices G)) (vertices G)).
Proof.
  set (V := vertices G).
  assert (HV : NoDup V) by (unfold V; rewrite vertices_collect; apply collect_NoDup).
  split; [split; [|split]|].
  - eapply isfilt_NoDup; [exact HV|]. apply prune_isfilt. apply isfilt_self.
  - intros v Hv. eapply prune_incl; eauto.
  - apply prune_closed. auto.
  - intros S (Hnd & Hsub & Hc) v Hv. eapply prune_greatest; eauto.
Qed.

Lemma max_kcore_unique k t G P P' : max_kcore k t G P -> max_kcore k t G P' -> seteq P P'.
Proof. intros [H1 H2] [H1' H2'] x. split; intros Hx; eauto. Qed.
