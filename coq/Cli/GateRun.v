(* Cli/GateRun.v — entry points used by the correspondence check (harness/c19.py):
   the model's verdict and output next to a boolean form of the specification. *)
From Coq Require Import ZArith List Bool.
From PV Require Import Gen.DomainConst Gen.CheckConst Cli.Gate.
Import ListNotations.
Open Scope Z_scope.

Definition selb (f : flags) (by_default : bool) (names : list sel_name) : bool :=
  match f_select f with
  | [] => by_default
  | l => existsb (fun x => existsb (sel_eqb x) names) l
  end.

(* gate_spec as a boolean (GateSpecB.gate_spec_b_iff) *)
Definition gate_spec_b (i : input) : bool :=
  let f := i_flags i in
  let r := i_res i in
  forallb (fun x => negb (sel_eqb x SInvalid)) (f_select f) &&
  implb (selb f true [SComplexity])
        (negb (r_cx_err r) && forallb (fun fn => snd fn <=? eff_max_complexity i) (r_functions r)) &&
  implb (selb f true [SDeadcode])
        (negb (r_dead_err r) &&
         (f_allow_dead_code f || forallb (fun fd => dead_level (snd fd) <? dead_level gate_severity) (r_findings r))) &&
  implb (selb f false [SDeps; SCircular])
        (negb (r_deps_err r) && (f_allow_circular_deps f || (zlen (r_cycles r) <=? eff_max_cycles i))) &&
  implb (selb f false [SMockdata])
        (negb (r_mock_err r) && forallb (fun m => snd m <? domain_level_MockDataSeverityWarning) (r_mock r)).

(* (model exit, issueCount, hasErrors, enabled analyses, lines, messages), spec verdict, effective thresholds *)
Definition run_case (i : input) :=
  let o := run_check i in
  ((o_exit o, o_issues o, o_errors o, o_enabled o, o_lines o, o_msgs o),
   gate_spec_b i, (eff_max_complexity i, eff_max_cycles i)).
