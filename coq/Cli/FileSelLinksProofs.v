(* Cli/FileSelLinksProofs.v — the link-aware code model and specification coincide with Cli/FileSel.v on trees without
   links (so every C18 theorem carries over), and differ on trees with links in three ways (witnesses). *)
From Coq Require Import NArith List Bool.
From PV Require Import Gen.FileSelConst Cli.Glob Cli.FileSel Cli.FileSelLinks.
Import ListNotations.
Open Scope N_scope.

Lemma no_links_only_dangling : forall t, no_links t = true -> only_dangling_links t = true.
Proof.
  fix IH 1. intros [n | n cs | n k cs] H; simpl in *; try reflexivity; try discriminate.
  induction cs as [| c cs IHcs]; simpl in *; [reflexivity |].
  apply andb_true_iff in H. destruct H as [Hc Hcs]. rewrite (IH c Hc). simpl. apply IHcs. exact Hcs.
Qed.

(* a dangling link is to the code what it is to the property, whatever follow_symlinks says: nothing *)
Lemma spec_view_only_dangling : forall follow t, only_dangling_links t = true -> spec_view follow t = code_view t.
Proof.
  intro follow. fix IH 1. intros [n | n cs | n k cs] H; simpl in *.
  - reflexivity.
  - f_equal. f_equal.
    induction cs as [| c cs IHcs]; simpl in *.
    + reflexivity.
    + apply andb_true_iff in H. destruct H as [Hc Hcs].
      rewrite (IH c Hc). f_equal. apply IHcs. exact Hcs.
  - clear IH. destruct k; try discriminate H. destruct follow; reflexivity.
Qed.

Lemma spec_world_only_dangling : forall follow w, only_dangling_links w = true -> spec_world follow w = code_world w.
Proof. intros. unfold spec_world, code_world. rewrite spec_view_only_dangling by assumption. reflexivity. Qed.

(* on a tree whose links are all dangling the specification is the C18 one on the tree without them *)
Lemma analyzed_spec_only_dangling : forall follow w cwd ts r inc exc, only_dangling_links w = true ->
  analyzed_spec follow w cwd ts r inc exc = spec_list (code_world w) cwd ts r inc exc.
Proof. intros. unfold analyzed_spec. rewrite spec_world_only_dangling by assumption. reflexivity. Qed.

(* without links the specification is the old one, whatever follow_symlinks says *)
Lemma analyzed_spec_no_links : forall follow w cwd ts r inc exc, no_links w = true ->
  analyzed_spec follow w cwd ts r inc exc = spec_list (code_world w) cwd ts r inc exc.
Proof. intros. apply analyzed_spec_only_dangling. apply no_links_only_dangling. assumption. Qed.

(* the outcome is the collected list of the tree the code sees, filtered to what can be read (by definition) *)
Lemma analyzed_code_collects : forall w cwd ts r inc exc,
  analyzed_code w cwd ts r inc exc =
  option_map (fun ps => filter (readable_at w) (map (fun p => segs (abs cwd p)) ps))
             (collect_python_files (code_world w) cwd ts r inc exc).
Proof. reflexivity. Qed.

(* ---- the two ways the code differs from the property on trees with links, and the one it no longer does ------------------------------------------ *)
Definition s (l : list N) : str := l.
Definition n_a : name := [97; 46; 112; 121].          (* a.py *)
Definition n_l : name := [108; 46; 112; 121].         (* l.py *)
Definition n_d : name := [100].                       (* d *)
Definition n_p : name := [112].                       (* p *)
Definition inc_all : list str := [[42; 42; 47; 42; 46; 112; 121]].   (* **/*.py *)

(* /p/{a.py, l.py -> a.py}: with follow_symlinks = false the link is analysed as a file of its own *)
Definition w_file_link : lnode := LDir [] [LDir n_p [LFile n_a; LLink n_l KFile []]].
Lemma file_link_followed_by_default :
  analyzed_code w_file_link [n_p] [mkpath false []] true inc_all [] = Some [[n_p; n_a]; [n_p; n_l]] /\
  analyzed_spec false w_file_link [n_p] [mkpath false []] true inc_all [] = [[n_p; n_a]].
Proof. split; vm_compute; reflexivity. Qed.

(* /p/{a.py, d -> {l.py}}: with follow_symlinks = true the linked directory is still not entered *)
Definition w_dir_link : lnode := LDir [] [LDir n_p [LFile n_a; LLink n_d KDir [LFile n_l]]].
Lemma dir_link_never_followed :
  analyzed_code w_dir_link [n_p] [mkpath false []] true inc_all [] = Some [[n_p; n_a]] /\
  analyzed_spec true w_dir_link [n_p] [mkpath false []] true inc_all [] = [[n_p; n_a]; [n_p; n_d; n_l]].
Proof. split; vm_compute; reflexivity. Qed.

(* /p/{a.py, l.py -> nothing}: the dangling link is skipped, the other file is analysed (it used to hide every file) *)
Definition w_dangling : lnode := LDir [] [LDir n_p [LFile n_a; LLink n_l KDangling []]].
Lemma dangling_link_skipped :
  forall follow, analyzed_code w_dangling [n_p] [mkpath false []] true inc_all [] =
                 Some (analyzed_spec follow w_dangling [n_p] [mkpath false []] true inc_all []) /\
                 analyzed_spec follow w_dangling [n_p] [mkpath false []] true inc_all [] = [[n_p; n_a]].
Proof. intros []; split; vm_compute; reflexivity. Qed.

(* named as a target it is an error, like any path that does not exist *)
Lemma dangling_link_as_target_fails :
  analyzed_code w_dangling [n_p] [mkpath false [n_l]] true inc_all [] = None.
Proof. vm_compute. reflexivity. Qed.
