(* Cli/FileSelLinksProofs.v — the link-aware code model and specification coincide with Cli/FileSel.v on trees without
   links (so every C18 theorem carries over), and differ on trees with links in three ways (witnesses). *)
From Coq Require Import NArith List Bool.
From PV Require Import Gen.FileSelConst Cli.Glob Cli.FileSel Cli.FileSelLinks.
Import ListNotations.
Open Scope N_scope.

Lemma spec_view_no_links : forall follow t, no_links t = true -> spec_view follow t = [code_view t].
Proof.
  intro follow. fix IH 1. intros [n | n cs | n k cs] H; simpl in *.
  - reflexivity.
  - f_equal. f_equal.
    induction cs as [| c cs IHcs]; simpl in *.
    + reflexivity.
    + apply andb_true_iff in H. destruct H as [Hc Hcs].
      rewrite (IH c Hc). simpl. f_equal. apply IHcs. exact Hcs.
  - discriminate.
Qed.

Lemma spec_world_no_links : forall follow w, no_links w = true -> spec_world follow w = code_view w.
Proof. intros. unfold spec_world. rewrite spec_view_no_links by assumption. reflexivity. Qed.

(* without links the specification is the old one, whatever follow_symlinks says *)
Lemma analyzed_spec_no_links : forall follow w cwd ts r inc exc, no_links w = true ->
  analyzed_spec follow w cwd ts r inc exc = spec_list (code_view w) cwd ts r inc exc.
Proof. intros. unfold analyzed_spec. rewrite spec_world_no_links by assumption. reflexivity. Qed.

(* a link-free tree has no dangling location *)
Lemma llookup_no_links_not_link : forall loc w, no_links w = true ->
  match llookup w loc with Some (LLink _ _ _) => False | _ => True end.
Proof.
  induction loc as [| n rest IH]; intros w H; simpl.
  - destruct w; simpl in *; try exact I. discriminate.
  - destruct w as [m | m cs | m k cs]; simpl in *; try exact I.
    assert (Hc : forall c, lfind_child n cs = Some c -> no_links c = true).
    { clear IH. induction cs as [| c0 cs IHcs]; simpl in *; intros c Hf; [discriminate |].
      apply andb_true_iff in H. destruct H as [H0 Hs].
      destruct (str_eqb (lnode_name c0) n); [inversion Hf; subst; exact H0 | apply IHcs; assumption]. }
    destruct (lfind_child n cs) as [c |] eqn:E; [| exact I].
    apply IH. apply Hc. reflexivity.
Qed.

Lemma dangling_at_no_links : forall w loc, no_links w = true -> dangling_at w loc = false.
Proof.
  intros w loc H. unfold dangling_at. pose proof (llookup_no_links_not_link loc w H) as P.
  destruct (llookup w loc) as [[| |] |]; try reflexivity. contradiction.
Qed.

Lemma existsb_dangling_no_links : forall w locs, no_links w = true -> existsb (dangling_at w) locs = false.
Proof.
  intros w locs H. induction locs as [| l ls IH]; simpl; [reflexivity |].
  rewrite dangling_at_no_links by assumption. exact IH.
Qed.

(* without links the analyses never fail because of the tree: the outcome is the collected list filtered to files *)
Lemma analyzed_code_no_links : forall w cwd ts r inc exc, no_links w = true ->
  analyzed_code w cwd ts r inc exc =
  option_map (fun ps => filter (readable_at w) (map (fun p => segs (abs cwd p)) ps))
             (collect_python_files (code_view w) cwd ts r inc exc).
Proof.
  intros. unfold analyzed_code. destruct (collect_python_files (code_view w) cwd ts r inc exc); simpl; [| reflexivity].
  rewrite existsb_dangling_no_links by assumption. reflexivity.
Qed.

(* ---- the three ways the code differs from the property on trees with links ------------------------------------------ *)
Definition s (l : list N) : str := l.
Definition n_a : name := [97; 46; 112; 121].          (* a.py *)
Definition n_l : name := [108; 46; 112; 121].         (* l.py *)
Definition n_d : name := [100].                       (* d *)
Definition n_p : name := [112].                       (* p *)
Definition inc_all : list str := [[42; 42; 47; 42; 46; 112; 121]].   (* **/*.py *)

(* /p/{a.py, l.py -> a.py}: with follow_symlinks = false the link is analysed as a file of its own *)
Definition w_file_link : lnode := LDir [] [LDir n_p [LFile n_a; LLink n_l KFile []]].
Lemma file_link_followed_by_default :
  analyzed_code w_file_link [n_p] [mkpath false []] true inc_all [] = Some [[n_p; n_a]; [n_p; n_l]] /\
  analyzed_spec false w_file_link [n_p] [mkpath false []] true inc_all [] = [[n_p; n_a]].
Proof. split; vm_compute; reflexivity. Qed.

(* /p/{a.py, d -> {l.py}}: with follow_symlinks = true the linked directory is still not entered *)
Definition w_dir_link : lnode := LDir [] [LDir n_p [LFile n_a; LLink n_d KDir [LFile n_l]]].
Lemma dir_link_never_followed :
  analyzed_code w_dir_link [n_p] [mkpath false []] true inc_all [] = Some [[n_p; n_a]] /\
  analyzed_spec true w_dir_link [n_p] [mkpath false []] true inc_all [] = [[n_p; n_a]; [n_p; n_d; n_l]].
Proof. split; vm_compute; reflexivity. Qed.

(* /p/{a.py, l.py -> nothing}: one dangling link and no file is analysed at all *)
Definition w_dangling : lnode := LDir [] [LDir n_p [LFile n_a; LLink n_l KDangling []]].
Lemma dangling_link_hides_every_file :
  analyzed_code w_dangling [n_p] [mkpath false []] true inc_all [] = None /\
  (forall follow, analyzed_spec follow w_dangling [n_p] [mkpath false []] true inc_all [] = [[n_p; n_a]]).
Proof. split; [vm_compute; reflexivity | intros []; vm_compute; reflexivity]. Qed.
