(* Cli/ConfigKeysProofs.v — lemmas about the generic model of file-only configuration keys (Cli/ConfigKeys.v). *)
From Coq Require Import ZArith Bool List Lia.
From PV Require Import Cli.ConfigKeys.
Open Scope Z_scope.

Lemma spec_inforce_refl : forall k v, spec_ok k (Some v) (InForce v) = true.
Proof. intros; simpl; apply Z.eqb_refl. Qed.

(* a key whose presence test accepts the value, whose value reaches the request: the file's value is in force, or the
   run is refused because the value is outside the validated range *)
Lemma key_present_full : forall k v,
  present (k_presence k) v = true -> k_plumbing k = UsesFile ->
  spec_ok k (Some v) (key_model k (Some v)) = true.
Proof.
  intros k v Hp Hu. unfold key_model, loaded, arrives. rewrite Hp, Hu.
  destruct (in_range k v) eqn:E; simpl.
  - apply Z.eqb_refl.
  - rewrite E. reflexivity.
Qed.

(* pointer-typed keys: every value, 0 and false included *)
Lemma key_pointer_full : forall k file,
  k_presence k = PPointer -> k_plumbing k = UsesFile -> in_range k (k_default k) = true ->
  spec_ok k file (key_model k file) = true.
Proof.
  intros k [v|] Hp Hu Hd.
  - apply key_present_full; [rewrite Hp; reflexivity | exact Hu].
  - unfold key_model, loaded, arrives. rewrite Hd, Hu. simpl. apply Z.eqb_refl.
Qed.

Lemma key_absent_full : forall k,
  k_plumbing k = UsesFile -> in_range k (k_default k) = true -> key_model k None = InForce (k_default k).
Proof. intros k Hu Hd. unfold key_model, loaded, arrives. rewrite Hd, Hu. reflexivity. Qed.

(* a value the presence test does not accept behaves exactly like an absent key *)
Lemma key_not_present_is_absent : forall k v,
  present (k_presence k) v = false -> key_model k (Some v) = key_model k None.
Proof. intros k v Hp. unfold key_model, loaded. rewrite Hp. reflexivity. Qed.

(* hence the full statement is false for a `> 0` key at 0 *)
Lemma key_positive_zero_refuted :
  exists k v, k_presence k = PPositive /\ k_plumbing k = UsesFile /\ in_range k v = true /\ in_range k (k_default k) = true /\
              spec_ok k (Some v) (key_model k (Some v)) = false.
Proof. exists (mk_key PPositive UsesFile 10 0 100), 0. repeat split; vm_compute; reflexivity. Qed.

(* it holds for the `> 0`, `>= 0` and non-empty keys on every value their test accepts *)
Lemma key_positive_full : forall k v, k_presence k = PPositive -> k_plumbing k = UsesFile -> 0 < v ->
  spec_ok k (Some v) (key_model k (Some v)) = true.
Proof. intros k v Hp Hu Hv. apply key_present_full; [rewrite Hp; simpl; apply Z.ltb_lt; exact Hv | exact Hu]. Qed.

Lemma key_nonnegative_full : forall k v, k_presence k = PNonNegative -> k_plumbing k = UsesFile -> 0 <= v ->
  spec_ok k (Some v) (key_model k (Some v)) = true.
Proof. intros k v Hp Hu Hv. apply key_present_full; [rewrite Hp; simpl; apply Z.leb_le; exact Hv | exact Hu]. Qed.

Lemma key_nonempty_full : forall k v, k_presence k = PNonEmpty -> k_plumbing k = UsesFile -> v <> 0 ->
  spec_ok k (Some v) (key_model k (Some v)) = true.
Proof.
  intros k v Hp Hu Hv. apply key_present_full; [| exact Hu]. rewrite Hp; simpl.
  apply negb_true_iff, Z.eqb_neq; exact Hv.
Qed.

(* keys whose value never reaches the request: the file's value is "in force" only when it coincides with the literal *)
Definition literal_of (k : keyspec) : option Z :=
  match k_plumbing k with UsesFile => None | RequestWins l => Some l | NotCopied l => Some l end.

Lemma key_overridden : forall k lit v,
  literal_of k = Some lit -> in_range k (loaded k (Some v)) = true ->
  spec_ok k (Some v) (key_model k (Some v)) = (lit =? v).
Proof.
  intros k lit v Hl Hr. unfold key_model. rewrite Hr. unfold arrives, literal_of in *.
  destruct (k_plumbing k); inversion Hl; subst; reflexivity.
Qed.

Lemma key_overridden_refuted :
  exists k v, literal_of k <> None /\ in_range k v = true /\ spec_ok k (Some v) (key_model k (Some v)) = false.
Proof. exists (mk_key PPointer (RequestWins 1) 1 0 1), 0. repeat split; try discriminate; vm_compute; reflexivity. Qed.

(* a run is refused only for a value outside the validated range *)
Lemma key_rejected_only_invalid : forall k v,
  present (k_presence k) v = true -> key_model k (Some v) = Rejected -> in_range k v = false.
Proof.
  intros k v Hp. unfold key_model, loaded. rewrite Hp. destruct (in_range k v); [discriminate | reflexivity].
Qed.

Lemma key_valid_never_rejected : forall k file, in_range k (loaded k file) = true -> key_model k file <> Rejected.
Proof. intros k file H. unfold key_model. rewrite H. discriminate. Qed.
