(* Cli/ConfigRun.v — entry points the C17 harness evaluates with vm_compute: (model, spec) per case. *)
From Coq Require Import ZArith QArith List Bool.
From PV Require Import Gen.DomainConst Gen.CheckConst Gen.ConfigConst Cli.Gate Cli.Config Cli.Discovery.
Import ListNotations.
Open Scope Z_scope.

Inductive value := VZ (z : Z) | VQ (q : Q) | VSev (s : severity) | VFrac (n d : Z).

Definition frac (q : Q) : value := let r := Qred q in VFrac (Qnum r) (Zpos (Qden r)).

Definition optZ (o : option value) : option Z := match o with Some (VZ z) => Some z | _ => None end.
Definition optQ (o : option value) : option Q := match o with Some (VQ q) => Some q | _ => None end.
Definition optS (o : option value) : option severity := match o with Some (VSev s) => Some s | _ => None end.

Inductive option_id :=
| OAnalyzeMinComplexityOutput      (* --min-complexity / [output] min_complexity *)
| OAnalyzeMinComplexityComplexity  (* --min-complexity / [complexity] min_complexity *)
| OAnalyzeMinSeverity
| OAnalyzeCloneThreshold
| OAnalyzeMinCbo
| OAnalyzeCxLow | OAnalyzeCxMedium | OAnalyzeCboLow | OAnalyzeCboMedium | OAnalyzeLcomLow | OAnalyzeLcomMedium
| OCheckMaxComplexity.

(* (model, spec): the effective value per the code model and per [eff] *)
Definition run_option (o : option_id) (flag file : option value) : value * value :=
  match o with
  | OAnalyzeMinComplexityOutput =>
      (VZ (analyze_min_complexity (optZ flag) None (optZ file)), VZ (eff (optZ flag) (optZ file) analyze_flag_default_min_complexity))
  | OAnalyzeMinComplexityComplexity =>
      (VZ (analyze_min_complexity (optZ flag) (optZ file) None), VZ (eff (optZ flag) (optZ file) analyze_flag_default_min_complexity))
  | OAnalyzeMinSeverity =>
      (VSev (analyze_min_severity (optS flag) (optS file)), VSev (eff (optS flag) (optS file) default_min_severity))
  | OAnalyzeCloneThreshold =>
      (frac (analyze_clone_threshold (optQ flag) (optQ file)),
       frac (eff (optQ flag) (optQ file) analyze_flag_default_clone_threshold))
  | OAnalyzeMinCbo =>
      (VZ (analyze_min_cbo (optZ flag) (optZ file)), VZ (eff (optZ flag) (optZ file) analyze_flag_default_min_cbo))
  | OAnalyzeCxLow => (VZ (analyze_complexity_low_threshold (optZ file)), VZ (eff None (optZ file) domain_DefaultComplexityLowThreshold))
  | OAnalyzeCxMedium => (VZ (analyze_complexity_medium_threshold (optZ file)), VZ (eff None (optZ file) domain_DefaultComplexityMediumThreshold))
  | OAnalyzeCboLow => (VZ (analyze_cbo_low_threshold (optZ file)), VZ (eff None (optZ file) domain_DefaultCBOLowThreshold))
  | OAnalyzeCboMedium => (VZ (analyze_cbo_medium_threshold (optZ file)), VZ (eff None (optZ file) domain_DefaultCBOMediumThreshold))
  | OAnalyzeLcomLow => (VZ (analyze_lcom_low_threshold (optZ file)), VZ (eff None (optZ file) domain_DefaultLCOMLowThreshold))
  | OAnalyzeLcomMedium => (VZ (analyze_lcom_medium_threshold (optZ file)), VZ (eff None (optZ file) domain_DefaultLCOMMediumThreshold))
  | OCheckMaxComplexity =>
      (VZ (check_max_complexity (optZ flag) (optZ file)), VZ (eff (optZ flag) (optZ file) check_flag_default_max_complexity))
  end.

(* (model, spec, the F24 layout occurs in a chain that is searched) *)
Definition run_discovery (ex : explicit_arg) (target cwd : list dir) : source * source * bool :=
  let f24 := match ex with
             | ExNone => f24_layout target || (match find_config target with None => f24_layout cwd | Some _ => false end)
             | ExDir ch => f24_layout ch || (match find_config ch with None => f24_layout cwd | Some _ => false end)
             | _ => false
             end in
  (resolve ex target cwd, spec_resolve ex target cwd, f24).

Definition defaults_table :=
  (analyze_flag_default_min_complexity, default_min_severity, frac analyze_flag_default_clone_threshold,
   analyze_flag_default_min_cbo, check_flag_default_max_complexity,
   (domain_DefaultComplexityLowThreshold, domain_DefaultComplexityMediumThreshold, domain_DefaultCBOLowThreshold,
    domain_DefaultCBOMediumThreshold, domain_DefaultLCOMLowThreshold, domain_DefaultLCOMMediumThreshold)).
