(* File selection with the full pattern language (Cli/GlobX.v): what a pattern without '/'
   decides about a file does not depend on how deep the file lies below the target, hence
   not on which directory above the file was named as the target. *)
From Coq Require Import NArith List Bool.
From PV Require Import Gen.FileSelConst Cli.Glob Cli.GlobX Cli.GlobXProofs Cli.FileSel Cli.FileSelProofs.
Import ListNotations.
Open Scope N_scope.

Lemma has_slash_str_eq : forall p, has_slash p = has_slash_str p.
Proof. reflexivity. Qed.

(* file_reader.go matchesPattern on a pattern without '/' : the verdict on d/b is the verdict on b *)
Theorem matches_pattern_slashless_depth : forall p d b, has_slash p = false ->
  matches_pattern p (d ++ [b]) = matches_pattern p [b].
Proof.
  intros p d b Hp. unfold matches_pattern. rewrite last_last. change (last [b] []) with b. rewrite Hp. cbn [negb andb]. rewrite orb_diag.
  destruct (xglob p [b]) eqn:E; [apply orb_true_r|]. rewrite orb_false_r.
  destruct (xglob p (d ++ [b])) eqn:E2; [|reflexivity].
  pose proof (xglob_slashless_name p d b Hp E2) as E3. unfold name in *. congruence.
Qed.

Lemma existsb_ext_in : forall A (f g : A -> bool) l, (forall x, In x l -> f x = g x) -> existsb f l = existsb g l.
Proof.
  induction l as [|x l IH]; intros H; [reflexivity|]. simpl. rewrite (H x (or_introl eq_refl)), IH; [reflexivity|].
  intros y Hy. apply H. right. exact Hy.
Qed.

(* pattern lists without '/' : the same file, seen from the project root (d/b) and from its own
   directory (b), gets the same verdict *)
Theorem selectedb_slashless_depth : forall inc exc d b,
  forallb (fun p => negb (has_slash p)) (inc ++ exc) = true ->
  selectedb inc exc (d ++ [b]) = selectedb inc exc [b].
Proof.
  intros inc exc d b H. rewrite forallb_forall in H. unfold selectedb.
  assert (Hi : existsb (fun p => matches_pattern p (d ++ [b])) inc = existsb (fun p => matches_pattern p [b]) inc).
  { apply existsb_ext_in. intros p Hp. apply matches_pattern_slashless_depth. apply negb_true_iff, H, in_or_app. left. exact Hp. }
  assert (He : existsb (fun p => matches_pattern p (d ++ [b])) exc = existsb (fun p => matches_pattern p [b]) exc).
  { apply existsb_ext_in. intros p Hp. apply matches_pattern_slashless_depth. apply negb_true_iff, H, in_or_app. right. exact Hp. }
  rewrite Hi, He. reflexivity.
Qed.

Corollary should_include_slashless_depth : forall inc exc d b,
  forallb (fun p => negb (has_slash p)) (inc ++ exc) = true ->
  should_include_file (d ++ [b]) inc exc = should_include_file [b] inc exc.
Proof. intros. rewrite !should_include_selectedb. apply selectedb_slashless_depth. assumption. Qed.

(* ---- the new syntax on small inputs ---------------------------------------------------------- *)
(* "{test,spec}_*.py" *)
Definition p_brace : str := [123; 116; 101; 115; 116; 44; 115; 112; 101; 99; 125; 95; 42; 46; 112; 121].
(* "[!a-z]*.py" and "[^a-z]*.py" *)
Definition p_negcls : str := [91; 33; 97; 45; 122; 93; 42; 46; 112; 121].
Definition p_negcls2 : str := [91; 94; 97; 45; 122; 93; 42; 46; 112; 121].
(* "**/{tests,testing}/**" *)
Definition p_brace_path : str := [42; 42; 47; 123; 116; 101; 115; 116; 115; 44; 116; 101; 115; 116; 105; 110; 103; 125; 47; 42; 42].
(* "\*.py" *)
Definition p_esc : str := [92; 42; 46; 112; 121].
Definition n_spec_core : str := [115; 112; 101; 99; 95; 99; 111; 114; 101; 46; 112; 121].   (* spec_core.py *)
Definition n_core : str := [99; 111; 114; 101; 46; 112; 121].                              (* core.py *)
Definition n_Core : str := [67; 111; 114; 101; 46; 112; 121].                              (* Core.py *)
Definition n_pkg : str := [112; 107; 103].
Definition n_deep : str := [100; 101; 101; 112].
Definition n_tests : str := [116; 101; 115; 116; 115].
Definition n_star_py : str := [42; 46; 112; 121].                                          (* the file name "*.py" *)

Example ex_brace_any_depth :
  matches_pattern p_brace [n_spec_core] = true /\
  matches_pattern p_brace [n_pkg; n_spec_core] = true /\
  matches_pattern p_brace [n_pkg; n_deep; n_spec_core] = true /\
  matches_pattern p_brace [n_pkg; n_core] = false.
Proof. vm_compute. repeat split. Qed.

Example ex_negated_class_any_depth :
  matches_pattern p_negcls [n_Core] = true /\ matches_pattern p_negcls [n_pkg; n_deep; n_Core] = true /\
  matches_pattern p_negcls [n_pkg; n_core] = false /\
  matches_pattern p_negcls2 [n_pkg; n_Core] = true /\ matches_pattern p_negcls2 [n_pkg; n_core] = false.
Proof. vm_compute. repeat split. Qed.

Example ex_brace_in_path :
  matches_pattern p_brace_path [n_tests; n_core] = true /\
  matches_pattern p_brace_path [n_pkg; n_tests; n_deep; n_core] = true /\
  matches_pattern p_brace_path [n_pkg; n_core] = false.
Proof. vm_compute. repeat split. Qed.

Example ex_escape :
  matches_pattern p_esc [n_pkg; n_star_py] = true /\ matches_pattern p_esc [n_pkg; n_core] = false.
Proof. vm_compute. repeat split. Qed.

Example ex_new_patterns_ok : forallb xpat_ok [p_brace; p_negcls; p_negcls2; p_brace_path; p_esc] = true.
Proof. vm_compute. reflexivity. Qed.

(* an exclude list in the new syntax: spec_core.py is excluded seen from anywhere above it *)
Example ex_exclude_brace_every_target :
  should_include_file [n_pkg; n_deep; n_spec_core] [] [p_brace] = false /\
  should_include_file [n_deep; n_spec_core] [] [p_brace] = false /\
  should_include_file [n_spec_core] [] [p_brace] = false /\
  should_include_file [n_pkg; n_deep; n_core] [] [p_brace] = true.
Proof. vm_compute. repeat split. Qed.
