(* Cli/ConfigKeys.v — the keys of .pyscn.toml / [tool.pyscn] that have NO flag of `pyscn analyze` (property C17, the
   "otherwise the value in the configuration file when the key is present (even if it is 0 or false), otherwise the
   documented default" half of the statement), one generic model for all of them.

   Go code mirrored (hand-written; bound to the code by the key sweep of harness/c17keys.py, which runs the real
   binary once per key and value and compares the echoed request with [key_model]):
     internal/config/pyproject_loader.go  merge<Section>Section 86-518: a key is taken from the file when
                                          `x != nil` (pointer-typed field), `x > 0`, `x >= 0`, `x != ""` / `len(x) > 0`
     internal/config/config.go            LoadConfigWithTarget 258-288 -> Config.Validate 597-670, validateDeadCodeConfig 729-770,
     internal/config/pyscn_config.go      PyscnConfig.Validate 428-601 (analyze loads and validates the whole file once,
                                          app/analyze_usecase.go getFilePatterns 632-663, before any analysis runs)
     service/config_loader.go 201-321, dead_code_config_loader.go 154-214, cbo_config_loader.go 137-171,
     clone_config_loader.go 73-137        file value -> request of the analysis (some keys are not copied)
     app/clone_usecase.go                 mergeConfiguration 241-315 (some request fields always replace the file's)

   Values are integers: booleans 0/1, enumerations by index (0 = the empty string / empty list, 1..n the documented
   values, n+1 = a value outside the documented domain), fractions in 1/10000.  No proofs in this file. *)
From Coq Require Import ZArith Bool List.
Import ListNotations.
Open Scope Z_scope.

(* how the loader recognises "the key is present in the file" *)
Inductive presence :=
| PPointer        (* pointer-typed TOML field: nil = absent, anything else (0, false) is a value *)
| PPositive       (* plain int/float field tested with `> 0` *)
| PNonNegative    (* plain float field tested with `>= 0` *)
| PNonEmpty.      (* string tested with `!= ""`, list tested with `len > 0` *)

(* what happens to the loaded value on its way into the request the analysis runs with *)
Inductive plumbing :=
| UsesFile                 (* the loaded value arrives *)
| RequestWins (lit : Z)    (* a field of analyze's request literal always replaces it *)
| NotCopied (lit : Z).     (* the converter never copies it; the request keeps its own value *)

Inductive outcome := Rejected | InForce (v : Z).

Record keyspec := mk_key {
  k_presence : presence;
  k_plumbing : plumbing;
  k_default : Z;            (* DefaultPyscnConfig *)
  k_lo : Z; k_hi : Z        (* range accepted by Validate besides the default itself; k_lo > k_hi: the key is not validated *)
}.

Definition present (p : presence) (v : Z) : bool :=
  match p with
  | PPointer => true
  | PPositive => 0 <? v
  | PNonNegative => 0 <=? v
  | PNonEmpty => negb (v =? 0)
  end.

Definition loaded (k : keyspec) (file : option Z) : Z :=
  match file with
  | Some v => if present (k_presence k) v then v else k_default k
  | None => k_default k
  end.

(* the default always passes validation (e.g. max_complexity: 0 = no limit, else > medium_threshold) *)
Definition in_range (k : keyspec) (v : Z) : bool :=
  if k_lo k <=? k_hi k then ((k_lo k <=? v) && (v <=? k_hi k)) || (v =? k_default k) else true.

Definition arrives (k : keyspec) (v : Z) : Z :=
  match k_plumbing k with
  | UsesFile => v
  | RequestWins lit => lit
  | NotCopied lit => lit
  end.

(* the code: load, validate the loaded configuration, hand the value to the analysis *)
Definition key_model (k : keyspec) (file : option Z) : outcome :=
  let v := loaded k file in
  if in_range k v then InForce (arrives k v) else Rejected.

(* the property: the file's value is in force when the key is present — whatever the value, 0 and false included —
   else the default; a run may be refused only for a value outside the documented domain *)
Definition spec_ok (k : keyspec) (file : option Z) (o : outcome) : bool :=
  match file, o with
  | None, InForce x => x =? k_default k
  | None, Rejected => false
  | Some v, InForce x => x =? v
  | Some v, Rejected => negb (in_range k v)
  end.

Definition outcome_eqb (a b : outcome) : bool :=
  match a, b with
  | Rejected, Rejected => true
  | InForce x, InForce y => x =? y
  | _, _ => false
  end.

(* entry point of the harness: (model outcome, does the model outcome satisfy the property) *)
Definition run_key (p : presence) (pl : plumbing) (dflt lo hi : Z) (file : option Z) : outcome * bool :=
  let k := mk_key p pl dflt lo hi in
  (key_model k file, spec_ok k file (key_model k file)).

(* the property applied to an observed outcome *)
Definition judge_key (p : presence) (pl : plumbing) (dflt lo hi : Z) (file : option Z) (o : outcome) : bool :=
  spec_ok (mk_key p pl dflt lo hi) file o.
