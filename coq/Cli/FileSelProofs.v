(* Proofs about the file selection model Cli/FileSel.v: the model computes exactly the
   specified set, each file once, independently of how targets are spelled. *)
From Coq Require Import NArith List Bool Lia.
From PV Require Import Gen.FileSelConst Cli.Glob Cli.GlobX Cli.FileSel Cli.PathProofs.
Import ListNotations.
Open Scope N_scope.

(* ---- induction on directory trees ---------------------------------------------------- *)
Section NodeInd.
Variable P : node -> Prop.
Hypothesis HF : forall n, P (File n).
Hypothesis HD : forall n cs, Forall P cs -> P (Dir n cs).
Fixpoint node_ind2 (nd : node) : P nd :=
  match nd with
  | File n => HF n
  | Dir n cs =>
      HD n cs ((fix go (l : list node) : Forall P l :=
                  match l with
                  | [] => Forall_nil P
                  | c :: l' => Forall_cons c (node_ind2 c) (go l')
                  end) cs)
  end.
End NodeInd.

Lemma wf_dir_children : forall n cs, wf_node (Dir n cs) -> Forall wf_node cs.
Proof.
  intros n cs [_ [_ H]]. induction cs as [|c cs IH]; constructor.
  - apply H.
  - apply IH. apply H.
Qed.

Lemma wf_node_plain : forall nd, wf_node nd -> plain (node_name nd) = true.
Proof. intros [n|n cs] H; simpl in *; [assumption|apply H]. Qed.

Definition wf_children (nd : node) : Prop :=
  match nd with Dir _ cs => Forall wf_node cs | File _ => True end.

Lemma find_child_In : forall n cs c, find_child n cs = Some c -> In c cs /\ node_name c = n.
Proof.
  induction cs as [|x cs IH]; simpl; intros c H; [discriminate|].
  destruct (str_eqb (node_name x) n) eqn:E.
  - inversion H; subst. split; [left; reflexivity|apply str_eqb_eq; assumption].
  - destruct (IH _ H). split; [right|]; assumption.
Qed.

Lemma lookup_wf_children : forall loc nd nd', wf_children nd -> lookup nd loc = Some nd' -> wf_children nd'.
Proof.
  induction loc as [|n rest IH]; simpl; intros nd nd' Hw H.
  - inversion H; subst; assumption.
  - destruct nd as [m|m cs]; [discriminate|].
    destruct (find_child n cs) as [c|] eqn:E; [|discriminate].
    apply find_child_In in E as [Hin _]. simpl in Hw.
    apply (IH c nd'); [|assumption].
    rewrite Forall_forall in Hw. specialize (Hw _ Hin).
    destruct c as [k|k ks]; simpl; [exact I|]. eapply wf_dir_children; eassumption.
Qed.

Lemma wf_world_children : forall w, wf_world w -> wf_children w.
Proof. intros [n|n cs] H; simpl in *; [exact I|apply H]. Qed.

(* ---- shouldIncludeFile is the boolean form of [selected] ------------------------------- *)
Lemma should_include_selectedb : forall rel inc exc, should_include_file rel inc exc = selectedb inc exc rel.
Proof.
  intros. unfold should_include_file, selectedb.
  destruct (existsb (fun p => matches_pattern p rel) exc); simpl.
  - rewrite andb_false_r. reflexivity.
  - rewrite andb_true_r. destruct (is_nil inc); reflexivity.
Qed.

Lemma matches_pattern_iff : forall p rel, rel <> [] -> (matches_pattern p rel = true <-> pat_selects p rel).
Proof.
  intros p rel Hne. unfold matches_pattern, pat_selects. split.
  - intros H. apply orb_true_iff in H as [H|H]; [left; assumption|right].
    apply andb_true_iff in H as [H1 H2]. apply negb_true_iff in H1. split; [assumption|].
    exists (removelast rel), (last rel []). split; [apply app_removelast_last; assumption|assumption].
  - intros [H|[H1 [d [b [E H2]]]]].
    + rewrite H. reflexivity.
    + subst rel. rewrite last_last. rewrite H1, H2. simpl. apply orb_true_r.
Qed.

Lemma is_nil_true : forall A (l : list A), is_nil l = true <-> l = [].
Proof. intros A [|x l]; simpl; split; congruence. Qed.

Lemma selectedb_iff : forall inc exc rel, rel <> [] -> (selectedb inc exc rel = true <-> selected inc exc rel).
Proof.
  intros inc exc rel Hne. unfold selectedb, selected. rewrite andb_true_iff, orb_true_iff, negb_true_iff.
  split; intros [H1 H2]; split.
  - destruct H1 as [H1|H1]; [left; apply is_nil_true; assumption|right].
    apply existsb_exists in H1 as [p [Hin Hm]]. exists p. split; [assumption|]. apply matches_pattern_iff; assumption.
  - intros p Hin Hs. apply matches_pattern_iff in Hs; [|assumption].
    assert (existsb (fun p0 => matches_pattern p0 rel) exc = true) by (apply existsb_exists; exists p; split; assumption).
    congruence.
  - destruct H1 as [H1|[p [Hin Hs]]]; [left; apply is_nil_true; assumption|right].
    apply existsb_exists. exists p. split; [assumption|]. apply matches_pattern_iff; assumption.
  - destruct (existsb (fun p => matches_pattern p rel) exc) eqn:E; [|reflexivity].
    apply existsb_exists in E as [p [Hin Hm]]. exfalso. apply (H2 p Hin). apply matches_pattern_iff; assumption.
Qed.

(* ---- the walk, relative to the root --------------------------------------------------- *)
Section WalkProofs.
Variable cwd : list name.
Variable recursive : bool.
Variables inc exc : list str.

Definition lkey (p : spath) : list name := segs (abs cwd p).

(* the same walk, producing the path below the directory holding the node *)
Fixpoint walk_rel (rel : list name) (nd : node) : list (list name) :=
  match nd with
  | File n =>
      if is_hidden n then []
      else if is_valid_python_file n && should_include_file (rel ++ [n]) inc exc then [[n]]
      else []
  | Dir n sub =>
      if negb recursive then []
      else if is_hidden n then []
      else if should_skip_directory n then []
      else map (cons n) (flat_map (walk_rel (rel ++ [n])) sub)
  end.

Lemma map_flat_map : forall A B C (f : B -> C) (g : A -> list B) l,
  map f (flat_map g l) = flat_map (fun x => map f (g x)) l.
Proof. induction l as [|x l IH]; simpl; [reflexivity|]. rewrite map_app, IH. reflexivity. Qed.

Lemma flat_map_ext_Forall : forall A B (f g : A -> list B) l,
  Forall (fun x => f x = g x) l -> flat_map f l = flat_map g l.
Proof. induction 1; simpl; [reflexivity|]. congruence. Qed.

Lemma walk_node_keys : forall nd path rel, wf_node nd ->
  map lkey (walk_node recursive inc exc path rel nd) = map (app (lkey path)) (walk_rel rel nd).
Proof.
  intros nd. induction nd as [n|n cs IH] using node_ind2; intros path rel Hwf.
  - simpl. destruct (is_hidden n); [reflexivity|].
    destruct (is_valid_python_file n && should_include_file (rel ++ [n]) inc exc); [|reflexivity].
    simpl. unfold lkey. rewrite abs_join by exact Hwf. reflexivity.
  - simpl. destruct (negb recursive); [reflexivity|].
    destruct (is_hidden n); [reflexivity|]. destruct (should_skip_directory n); [reflexivity|].
    rewrite !map_flat_map. apply flat_map_ext_Forall.
    pose proof (wf_dir_children _ _ Hwf) as Hc.
    rewrite Forall_forall in *. intros c Hin. cbv beta.
    rewrite (IH c Hin) by (apply Hc; assumption).
    unfold lkey at 1. rewrite abs_join by (apply (wf_node_plain (Dir n cs)); assumption).
    fold (lkey path). rewrite map_map. apply map_ext. intros r. rewrite <- app_assoc. reflexivity.
Qed.

Lemma filter_map_comm : forall A B (f : A -> B) (P : B -> bool) l,
  filter P (map f l) = map f (filter (fun x => P (f x)) l).
Proof. induction l as [|x l IH]; simpl; [reflexivity|]. destruct (P (f x)); simpl; rewrite IH; reflexivity. Qed.

Lemma filter_flat_map : forall A B (g : A -> list B) (P : B -> bool) l,
  filter P (flat_map g l) = flat_map (fun x => filter P (g x)) l.
Proof. induction l as [|x l IH]; simpl; [reflexivity|]. rewrite filter_app, IH. reflexivity. Qed.

Lemma walk_rel_filter : forall nd rel,
  walk_rel rel nd = filter (fun r => selectedb inc exc (rel ++ r)) (under_list recursive nd).
Proof.
  intros nd. induction nd as [n|n cs IH] using node_ind2; intros rel.
  - simpl. destruct (is_hidden n); simpl; [reflexivity|].
    destruct (is_valid_python_file n); simpl; [|reflexivity].
    rewrite should_include_selectedb. destruct (selectedb inc exc (rel ++ [n])); reflexivity.
  - simpl. destruct recursive; simpl; [|reflexivity].
    destruct (is_hidden n); simpl; [reflexivity|]. destruct (should_skip_directory n); simpl; [reflexivity|].
    rewrite filter_map_comm. f_equal. rewrite filter_flat_map. apply flat_map_ext_Forall.
    rewrite Forall_forall in *. intros c Hin. rewrite (IH c Hin).
    apply filter_ext. intros r. rewrite <- app_assoc. reflexivity.
Qed.

Lemma collect_from_directory_keys : forall t cs, Forall wf_node cs ->
  map lkey (collect_from_directory recursive inc exc t cs) =
  map (app (lkey t)) (filter (selectedb inc exc) (flat_map (under_list recursive) cs)).
Proof.
  intros t cs Hwf. unfold collect_from_directory.
  rewrite map_flat_map, filter_flat_map, map_flat_map. apply flat_map_ext_Forall.
  rewrite Forall_forall in *. intros c Hin.
  rewrite walk_node_keys by (apply Hwf; assumption). rewrite walk_rel_filter. reflexivity.
Qed.

(* ---- one target, all targets ---------------------------------------------------------- *)
Variable w : node.
Hypothesis Hw : wf_world w.

Definition resolves (t : spath) : bool := match lookup w (lkey t) with Some _ => true | None => false end.

Lemma spec_locs_cons : forall loc locs,
  spec_locs w recursive inc exc (loc :: locs) = spec_locs w recursive inc exc [loc] ++ spec_locs w recursive inc exc locs.
Proof. intros. unfold spec_locs. simpl. rewrite app_nil_r. reflexivity. Qed.

Lemma collect_target_keys : forall t, file_target_ok w cwd t ->
  option_map (map lkey) (collect_target w cwd recursive inc exc t) =
  if resolves t then Some (spec_locs w recursive inc exc [lkey t]) else None.
Proof.
  intros t Hok. unfold collect_target, resolves, spec_locs, lkey in *. simpl flat_map.
  destruct (lookup w (segs (abs cwd t))) as [[n|n cs]|] eqn:E; [| |reflexivity].
  - destruct (Hok n E) as [Hl Hs]. rewrite Hs, Hl. simpl.
    rewrite should_include_selectedb, app_nil_r.
    destruct (is_valid_python_file n && selectedb inc exc [n]); reflexivity.
  - simpl. rewrite app_nil_r. f_equal. apply collect_from_directory_keys.
    apply (lookup_wf_children _ _ _ (wf_world_children _ Hw) E).
Qed.

Lemma collect_all_keys : forall ts, Forall (file_target_ok w cwd) ts ->
  option_map (map lkey) (collect_all w cwd recursive inc exc ts) =
  if forallb resolves ts then Some (spec_list w cwd ts recursive inc exc) else None.
Proof.
  induction ts as [|t ts IH]; intros Hok; [reflexivity|].
  inversion Hok; subst. specialize (IH H2). pose proof (collect_target_keys t H1) as Ht.
  simpl collect_all. unfold spec_list in *. simpl map. rewrite spec_locs_cons. simpl forallb.
  destruct (collect_target w cwd recursive inc exc t) as [fs|]; simpl in Ht.
  - destruct (resolves t); [|discriminate]. inversion Ht as [Hfs]. simpl.
    destruct (collect_all w cwd recursive inc exc ts) as [more|]; simpl in IH.
    + destruct (forallb resolves ts); [|discriminate]. inversion IH as [Hm]. simpl.
      rewrite map_app. fold (lkey t). congruence.
    + destruct (forallb resolves ts); [discriminate|]. reflexivity.
  - destruct (resolves t); [discriminate|]. reflexivity.
Qed.

(* ---- uniqueFiles ----------------------------------------------------------------------- *)
Fixpoint dedup_from (seen ks : list spath) : list spath :=
  match ks with
  | [] => []
  | k :: rest => if existsb (spath_eqb k) seen then dedup_from seen rest else k :: dedup_from (k :: seen) rest
  end.

Lemma mem_iff : forall k seen, existsb (spath_eqb k) seen = true <-> In k seen.
Proof.
  intros. rewrite existsb_exists. split.
  - intros [x [Hin He]]. apply spath_eqb_eq in He. subst. assumption.
  - intros H. exists k. split; [assumption|apply spath_eqb_eq; reflexivity].
Qed.

Lemma unique_files_keys : forall fs seen,
  map (abs cwd) (unique_files_from cwd seen fs) = dedup_from seen (map (abs cwd) fs).
Proof.
  induction fs as [|f fs IH]; intros seen; simpl; [reflexivity|].
  destruct (existsb (spath_eqb (abs cwd f)) seen); simpl; rewrite IH; reflexivity.
Qed.

Lemma dedup_In : forall ks seen k, In k (dedup_from seen ks) <-> In k ks /\ ~ In k seen.
Proof.
  induction ks as [|k0 ks IH]; intros seen k; simpl; [tauto|].
  destruct (existsb (spath_eqb k0) seen) eqn:E.
  - apply mem_iff in E. rewrite IH. split.
    + intros [H1 H2]. tauto.
    + intros [[H1|H1] H2]; [subst; contradiction|tauto].
  - assert (Hn : ~ In k0 seen) by (intros H; apply mem_iff in H; congruence).
    simpl. rewrite IH. simpl. split.
    + intros [H|[H1 H2]]; [subst; tauto|tauto].
    + intros [[H|H] H2]; [left; assumption|].
      destruct (spath_eqb k0 k) eqn:Ek; [left; apply spath_eqb_eq; assumption|right].
      split; [assumption|]. intros [H3|H3]; [|contradiction].
      subst. rewrite (proj2 (spath_eqb_eq k k) eq_refl) in Ek. discriminate.
Qed.

Lemma dedup_NoDup : forall ks seen, NoDup (dedup_from seen ks).
Proof.
  induction ks as [|k0 ks IH]; intros seen; simpl; [constructor|].
  destruct (existsb (spath_eqb k0) seen); [apply IH|].
  constructor; [|apply IH]. intros H. apply dedup_In in H as [_ H]. apply H. left. reflexivity.
Qed.

Lemma abs_eta : forall p, abs cwd p = mkpath true (lkey p).
Proof.
  intros p. unfold lkey. pose proof (abs_rooted cwd p) as H. destruct (abs cwd p) as [r s]. simpl in *. subst. reflexivity.
Qed.

Lemma map_abs_lkey : forall l, map (abs cwd) l = map (mkpath true) (map lkey l).
Proof. intros l. rewrite map_map. apply map_ext. intros p. apply abs_eta. Qed.

(* the locations CollectPythonFiles returns: the specified ones, first occurrences *)
Theorem collect_python_files_keys : forall ts, Forall (file_target_ok w cwd) ts ->
  option_map (map (abs cwd)) (collect_python_files w cwd ts recursive inc exc) =
  if forallb resolves ts
  then Some (dedup_from [] (map (mkpath true) (spec_list w cwd ts recursive inc exc)))
  else None.
Proof.
  intros ts Hok. pose proof (collect_all_keys ts Hok) as H. unfold collect_python_files, unique_files.
  destruct (collect_all w cwd recursive inc exc ts) as [fs|]; simpl in *.
  - destruct (forallb resolves ts); [|discriminate]. inversion H as [Hfs].
    rewrite unique_files_keys, map_abs_lkey, Hfs. reflexivity.
  - destruct (forallb resolves ts); [discriminate|reflexivity].
Qed.

End WalkProofs.

(* ---- the enumeration is the specification ------------------------------------------------ *)
Lemma under_nonempty : forall rec cs rel, under rec cs rel -> rel <> [].
Proof. intros rec cs rel H. inversion H; discriminate. Qed.

Lemma under_list_sound : forall rec nd r, In r (under_list rec nd) -> forall cs, In nd cs -> under rec cs r.
Proof.
  intros rec nd. induction nd as [n|d sub IH] using node_ind2; intros r Hin cs Hcs; simpl in Hin.
  - destruct (is_hidden n) eqn:E1; simpl in Hin; [contradiction|].
    destruct (is_valid_python_file n) eqn:E2; simpl in Hin; [|contradiction].
    destruct Hin as [Hin|[]]. subst. apply under_file; assumption.
  - destruct rec eqn:Er; simpl in Hin; [|contradiction].
    destruct (is_hidden d) eqn:E1; simpl in Hin; [contradiction|].
    destruct (should_skip_directory d) eqn:E2; simpl in Hin; [contradiction|].
    apply in_map_iff in Hin as [r' [Hr Hin]]. subst r.
    apply in_flat_map in Hin as [c [Hc Hin]].
    rewrite Forall_forall in IH.
    eapply under_dir; try eassumption; [reflexivity|]. apply (IH c Hc r' Hin sub Hc).
Qed.

Lemma under_list_complete : forall rec cs r, under rec cs r -> In r (flat_map (under_list rec) cs).
Proof.
  intros rec cs r H. induction H as [cs n Hin Hh Hv|cs d sub rel Hr Hin Hh Hs Hu IH].
  - apply in_flat_map. exists (File n). split; [assumption|]. simpl. rewrite Hh, Hv. simpl. left. reflexivity.
  - apply in_flat_map. exists (Dir d sub). split; [assumption|]. simpl. rewrite Hh, Hs.
    destruct rec; [|discriminate]. simpl. apply in_map. assumption.
Qed.

Lemma under_list_iff : forall rec cs r, In r (flat_map (under_list rec) cs) <-> under rec cs r.
Proof.
  intros. split; [|apply under_list_complete].
  intros H. apply in_flat_map in H as [c [Hc Hin]]. eapply under_list_sound; eassumption.
Qed.

Theorem spec_list_correct : forall w cwd ts rec inc exc f,
  In f (spec_list w cwd ts rec inc exc) <-> sel_spec w cwd ts rec inc exc f.
Proof.
  intros. unfold spec_list, spec_locs, sel_spec. rewrite in_flat_map. split.
  - intros [loc [Hloc Hin]]. apply in_map_iff in Hloc as [t [Ht Hts]]. subst loc. exists t. split; [assumption|].
    destruct (lookup w (segs (abs cwd t))) as [[n|n cs]|] eqn:E; [| |contradiction].
    + left. destruct (is_valid_python_file n) eqn:Ev; simpl in Hin; [|contradiction].
      destruct (selectedb inc exc [n]) eqn:Es; simpl in Hin; [|contradiction].
      destruct Hin as [Hin|[]]. exists n. repeat split; try assumption; try congruence.
      * apply selectedb_iff in Es; [apply Es|discriminate].
      * apply selectedb_iff in Es; [apply Es|discriminate].
    + right. apply in_map_iff in Hin as [rel [Hf Hin]]. apply filter_In in Hin as [Hu Hs].
      apply under_list_iff in Hu. exists n, cs, rel. repeat split; try assumption; try congruence.
      * apply selectedb_iff in Hs; [apply Hs|eapply under_nonempty; eassumption].
      * apply selectedb_iff in Hs; [apply Hs|eapply under_nonempty; eassumption].
  - intros [t [Ht H]]. exists (segs (abs cwd t)). split; [apply in_map_iff; exists t; split; [reflexivity|assumption]|].
    destruct H as [[n [E [Hv [Hs Hf]]]]|[n [cs [rel [E [Hu [Hs Hf]]]]]]]; rewrite E.
    + rewrite Hv. apply selectedb_iff in Hs; [|discriminate]. rewrite Hs. simpl. left. congruence.
    + subst f. apply in_map. apply filter_In. split; [apply under_list_iff; assumption|].
      apply selectedb_iff; [eapply under_nonempty; eassumption|assumption].
Qed.

(* ---- the property ------------------------------------------------------------------------ *)
Lemma in_map_mkpath : forall f l, In (mkpath true f) (map (mkpath true) l) <-> In f l.
Proof.
  intros. rewrite in_map_iff. split.
  - intros [x [H Hin]]. inversion H; subst. assumption.
  - intros H. exists f. split; [reflexivity|assumption].
Qed.

(* the files analysed are exactly the specified ones *)
Theorem sel_model_eq_spec : forall w cwd ts rec inc exc out,
  wf_world w -> Forall (file_target_ok w cwd) ts ->
  collect_python_files w cwd ts rec inc exc = Some out ->
  forall f, In f (map (fun p => segs (abs cwd p)) out) <-> sel_spec w cwd ts rec inc exc f.
Proof.
  intros w cwd ts rec inc exc out Hw Hok Hc f.
  pose proof (collect_python_files_keys cwd rec inc exc w Hw ts Hok) as H. rewrite Hc in H. simpl in H.
  destruct (forallb (resolves cwd w) ts); [|discriminate]. inversion H as [Hk].
  rewrite <- spec_list_correct.
  assert (Hk' : map (mkpath true) (map (lkey cwd) out) =
                dedup_from [] (map (mkpath true) (spec_list w cwd ts rec inc exc))).
  { rewrite <- map_abs_lkey. exact Hk. }
  change (fun p => segs (abs cwd p)) with (lkey cwd).
  split; intros Hin.
  - apply (proj2 (in_map_mkpath f _)) in Hin. rewrite Hk' in Hin.
    apply dedup_In in Hin as [Hin _]. apply in_map_mkpath in Hin. exact Hin.
  - apply in_map_mkpath. rewrite Hk'. apply dedup_In. split; [apply in_map_mkpath; assumption|intros []].
Qed.

(* the run fails as a whole exactly when a target does not exist *)
Theorem fails_iff_missing : forall w cwd ts rec inc exc,
  wf_world w -> Forall (file_target_ok w cwd) ts ->
  (collect_python_files w cwd ts rec inc exc = None <->
   exists t, In t ts /\ lookup w (segs (abs cwd t)) = None).
Proof.
  intros w cwd ts rec inc exc Hw Hok.
  pose proof (collect_python_files_keys cwd rec inc exc w Hw ts Hok) as H.
  destruct (forallb (resolves cwd w) ts) eqn:E.
  - split.
    + intros Hn. rewrite Hn in H. discriminate.
    + intros [t [Hin Hl]]. rewrite forallb_forall in E. specialize (E t Hin). unfold resolves, lkey in E. rewrite Hl in E. discriminate.
  - split.
    + intros _. apply not_true_iff_false in E. rewrite forallb_forall in E.
      destruct (existsb (fun t => negb (resolves cwd w t)) ts) eqn:Ex.
      * apply existsb_exists in Ex as [t [Hin Hr]]. exists t. split; [assumption|].
        unfold resolves, lkey in Hr. destruct (lookup w (segs (abs cwd t))); [discriminate|reflexivity].
      * exfalso. apply E. intros t Hin.
        destruct (resolves cwd w t) eqn:Er; [reflexivity|].
        assert (existsb (fun t => negb (resolves cwd w t)) ts = true) by (apply existsb_exists; exists t; rewrite Er; split; [assumption|reflexivity]).
        congruence.
    + intros _. destruct (collect_python_files w cwd ts rec inc exc); [discriminate|reflexivity].
Qed.

(* each file once, whatever the targets (overlapping, repeated, spelled differently) *)
Theorem each_once : forall w cwd ts rec inc exc out,
  collect_python_files w cwd ts rec inc exc = Some out ->
  NoDup (map (fun p => segs (abs cwd p)) out).
Proof.
  intros w cwd ts rec inc exc out H. unfold collect_python_files in H.
  destruct (collect_all w cwd rec inc exc ts) as [fs|]; [|discriminate]. inversion H; subst. clear H.
  assert (Hn : NoDup (map (abs cwd) (unique_files cwd fs))).
  { unfold unique_files. rewrite unique_files_keys. apply dedup_NoDup. }
  rewrite (map_abs_lkey cwd) in Hn. unfold lkey in Hn.
  eapply NoDup_map_inv. eassumption.
Qed.

(* the same directories and files, spelled differently from different working directories:
   the same files, in the same order *)
Theorem spelling_invariant : forall w cwd cwd' ts ts' rec inc exc,
  wf_world w ->
  Forall2 (fun t t' => abs cwd t = abs cwd' t') ts ts' ->
  Forall (file_target_ok w cwd) ts -> Forall (file_target_ok w cwd') ts' ->
  option_map (map (abs cwd)) (collect_python_files w cwd ts rec inc exc) =
  option_map (map (abs cwd')) (collect_python_files w cwd' ts' rec inc exc).
Proof.
  intros w cwd cwd' ts ts' rec inc exc Hw Hsame Hok Hok'.
  rewrite (collect_python_files_keys cwd rec inc exc w Hw ts Hok).
  rewrite (collect_python_files_keys cwd' rec inc exc w Hw ts' Hok').
  assert (Hl : map (fun t => segs (abs cwd t)) ts = map (fun t => segs (abs cwd' t)) ts').
  { clear Hok Hok'. induction Hsame; simpl; [reflexivity|]. congruence. }
  assert (Hr : forallb (resolves cwd w) ts = forallb (resolves cwd' w) ts').
  { clear Hok Hok' Hl. induction Hsame; simpl; [reflexivity|]. unfold resolves at 1 3, lkey. rewrite H. congruence. }
  unfold spec_list. rewrite Hl, Hr. reflexivity.
Qed.

(* a pattern without a slash excludes by file name at any depth *)
Theorem exclude_by_name_any_depth : forall inc exc p d b,
  In p exc -> has_slash p = false -> xglob p [b] = true -> ~ selected inc exc (d ++ [b]).
Proof.
  intros inc exc p d b Hin Hs Hg [_ H]. apply (H p Hin). right. split; [assumption|]. exists d, b. split; [reflexivity|assumption].
Qed.

(* a file argument whose last element is an ordinary name is acceptable *)
Lemma lookup_last_name : forall loc nd x nd', lookup nd (loc ++ [x]) = Some nd' -> node_name nd' = x.
Proof.
  induction loc as [|n loc IH]; simpl; intros nd x nd' H.
  - destruct nd as [m|m cs]; [discriminate|]. destruct (find_child x cs) as [c|] eqn:E; [|discriminate].
    inversion H; subst. apply find_child_In in E. apply E.
  - destruct nd as [m|m cs]; [discriminate|]. destruct (find_child n cs) as [c|] eqn:E; [|discriminate].
    eapply IH. eassumption.
Qed.

Theorem file_target_ok_plain : forall w cwd t d n,
  segs t = d ++ [n] -> plain n = true -> file_target_ok w cwd t.
Proof.
  intros w cwd t d n Hs Hp m Hl.
  destruct (abs_last_plain cwd t d n Hs Hp) as [loc Hloc]. rewrite Hloc in Hl.
  apply lookup_last_name in Hl. simpl in Hl. subst m. split.
  - rewrite Hs. apply last_last.
  - unfold ends_with_slash. rewrite Hs, rev_unit.
    unfold plain in Hp. repeat (apply andb_true_iff in Hp as [Hp ?]). apply negb_true_iff. assumption.
Qed.
