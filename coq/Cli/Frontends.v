(* C20: the two front ends that build an app.AnalyzeUseCaseConfig: cmd/pyscn/analyze.go:createUseCaseConfig (flags)
   and mcp/handlers.go:HandleAnalyzeCode (tool arguments).  Analyses are numbered 0..5 in the order both functions test
   them (names regenerated in Gen/McpConst.v: the two front ends use different spellings for the same analyses). *)
From Coq Require Import ZArith QArith List String Bool.
From PV Require Import Gen.McpConst.
Import ListNotations.

Record ucfg := { skip : list bool; min_complexity : Z; min_severity : string; clone_similarity : Q }.

Definition has (sel : list string) (name : string) : bool := existsb (String.eqb name) sel.

(* createUseCaseConfig: --select given -> skip what is not selected; otherwise the --skip-* flags *)
Definition cli_cfg (select : list string) (skip_flags : list bool) (minc : Z) (sev : string) (sim : Q) : ucfg :=
  {| skip := match select with
             | [] => skip_flags
             | _ => map (fun n => negb (has select n)) cli_analysis_names
             end;
     min_complexity := minc;
     min_severity := (if String.eqb sev "critical" then "critical" else if String.eqb sev "info" then "info" else "warning")%string;
     clone_similarity := sim |}.

(* HandleAnalyzeCode: skip X = not requested and something was requested *)
Definition mcp_cfg (analyses : list string) (minc : Z) (sev : string) (sim : Q) : ucfg :=
  {| skip := map (fun n => negb (has analyses n) && negb (Nat.eqb (List.length analyses) 0)) mcp_analysis_names;
     min_complexity := minc;
     min_severity := (if String.eqb sev "critical" then "critical" else if String.eqb sev "error" then "critical"
                      else if String.eqb sev "info" then "info" else "warning")%string;
     clone_similarity := sim |}.

(* the MCP spelling of each CLI analysis name *)
Definition to_mcp (n : string) : string :=
  (if String.eqb n "deadcode" then "dead_code" else if String.eqb n "clones" then "clone" else n)%string.

(* the single-analysis tools (HandleCheckComplexity, HandleDetectClones, HandleCheckCoupling, HandleCheckCohesion,
   HandleFindDeadCode) hand the use case a directory and the patterns to walk it with; `pyscn analyze` walks with the
   patterns of the [analysis] section (app/analyze_usecase.go getFilePatterns).  A tool selects the same files when the
   only configuration fields it reads patterns from are those two (Gen/McpConst.v mcp_tool_pattern_sources) *)
Definition analysis_pattern_fields : list string :=
  ["cfg.Analysis.ExcludePatterns"; "cfg.Analysis.IncludePatterns"]%string.

Definition reads_analysis_patterns_only (srcs : list string) : bool :=
  forallb (fun s => existsb (String.eqb s) analysis_pattern_fields) srcs &&
  forallb (fun a => existsb (String.eqb a) srcs) analysis_pattern_fields.

Definition single_tools : list string :=
  ["check_complexity"; "detect_clones"; "check_coupling"; "check_cohesion"; "find_dead_code"]%string.

Definition tools_select_files_like_cli : bool :=
  forallb (fun t => existsb (fun r => String.eqb (fst r) t && reads_analysis_patterns_only (snd r)) mcp_tool_pattern_sources) single_tools.
