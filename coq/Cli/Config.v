(* Cli/Config.v — model of how `pyscn analyze` / `pyscn check` arrive at the effective value of every option that
   exists both as a command-line flag and as a key of .pyscn.toml / [tool.pyscn] (property C17), plus the options
   of `analyze` that exist only in the file (risk thresholds).

   Go code mirrored (read literally; file:line as of the modelled tree):
     cmd/pyscn/analyze.go           CreateCobraCommand 83-143 (flag defaults), createUseCaseConfig 186-228,
                                    buildIndividualUseCases 267-375 (Flags().Changed -> service.WithExplicit...)
     app/analyze_usecase.go         Execute 184-277 (ResolveConfigPath from paths[0]), createAnalysisTasks 280-451
                                    (request values: flag variables and hard-wired thresholds)
     app/complexity_usecase.go      loadAndMergeConfig 226-252 (same shape in dead_code/cbo/lcom use cases)
     app/clone_usecase.go           ExecuteAndReturn 110-175, mergeConfiguration 241-315
     service/config_loader.go       MergeConfig 49-113, pyscnConfigToUnifiedConfig 201-321
     service/dead_code_config_loader.go  MergeConfig 49-151, configToRequest 154-214
     service/cbo_config_loader.go   MergeConfig 48-134, configToRequest 137-171
     service/lcom_config_loader.go  MergeConfig, configToRequest
     service/clone_config_loader.go cloneConfigToCloneRequest 73-137
     service/explicit_flag_loaders.go    the four wrappers that re-apply an explicitly given flag
     internal/config/pyproject_loader.go mergeComplexitySection 86-99, mergeClonesSection 103-239, mergeDeadCodeSection
                                    242-276, mergeOutputSection 279-295, mergeCboSection 314-336, mergeLcomSection 339-346
     internal/config/pyscn_config.go     DefaultPyscnConfig
     cmd/pyscn/check.go             checkComplexity 326-388 (through Cli/Gate.v)

   Inputs of every model function: [flag : option value] — None = flag absent (cobra leaves the variable at the
   flag default and Flags().Changed is false), Some v = flag given with value v; [file : option value] — None = key
   absent from the configuration file in force (or no file at all), Some v = key present with value v.
   Output: the value the analysis runs with (what the JSON report echoes and what the filters use).

   Every constant, default, sentinel and comparison comes from Gen/ConfigConst.v, Gen/CheckConst.v, Gen/DomainConst.v,
   regenerated from the Go sources on each run. No proofs in this file. *)
From Coq Require Import ZArith QArith List Bool.
From PV Require Import Gen.DomainConst Gen.CheckConst Gen.ConfigConst Cli.Gate.
Import ListNotations.
Open Scope Z_scope.

(* ------------------------------------------------------------------------------------------ *)
(* specification: the property text                                                            *)
(* ------------------------------------------------------------------------------------------ *)

(* explicit flag over config file over default *)
Definition eff {A : Type} (flag file : option A) (dflt : A) : A :=
  match flag with
  | Some v => v
  | None => match file with Some v => v | None => dflt end
  end.

(* ------------------------------------------------------------------------------------------ *)
(* shared pieces                                                                               *)
(* ------------------------------------------------------------------------------------------ *)

(* the translator found the plumbing it expects: flag variable -> AnalyzeUseCaseConfig -> request field *)
Definition analyze_wiring_ok : bool :=
  analyze_cfg_MinComplexity_is_flag && analyze_cfg_CloneSimilarity_is_flag && analyze_cfg_MinCBO_is_flag &&
  analyze_severity_switch_identity && analyze_req_MinComplexity_is_flag && analyze_req_MinSeverity_is_flag &&
  analyze_req_SimilarityThreshold_is_flag && analyze_req_MinCBO_is_flag && svc_dead_severity_switch_identity &&
  cfg_loaders_share_section_merges.

(* an int key of the TOML file merged into DefaultPyscnConfig: `if section.Key != nil { defaults.X = *section.Key }` *)
Definition file_int (is_pointer : bool) (dflt : Z) (key : option Z) : Z :=
  match key with
  | Some v => if is_pointer then v else dflt
  | None => dflt
  end.

(* the value a cobra flag variable holds after parsing *)
Definition flag_var {A : Type} (flag : option A) (cobra_default : A) : A :=
  match flag with Some v => v | None => cobra_default end.

(* service.WithExplicit...: when the command saw Flags().Changed, the request value is re-applied after the merge *)
Definition given {A : Type} (flag : option A) : bool := match flag with Some _ => true | None => false end.

Definition apply_explicit {A : Type} (tracking : bool) (flag_given : bool) (req merged : A) : A :=
  if flag_given && tracking then req else merged.

(* ------------------------------------------------------------------------------------------ *)
(* analyze --min-complexity / [output] min_complexity, [complexity] min_complexity             *)
(* ------------------------------------------------------------------------------------------ *)

(* pyscnConfigToUnifiedConfig: Output.MinComplexity = ComplexityMinComplexity, replaced by OutputMinComplexity when > 0 *)
Definition cfg_min_complexity (fcx fout : option Z) : Z :=
  let cxv := file_int cfg_key_complexity_min_complexity_is_pointer cfg_default_ComplexityMinComplexity fcx in
  let outv := file_int cfg_key_output_min_complexity_is_pointer cfg_default_OutputMinComplexity fout in
  if svc_output_min_complexity_overrides outv then outv else cxv.

(* ConfigurationLoaderImpl.MergeConfig: `if override.MinComplexity != 1` *)
Definition merge_min_complexity (req cfg : Z) : Z :=
  if negb (req =? svc_merge_sentinel_MinComplexity) then req else cfg.

Definition analyze_min_complexity_with (tracking : bool) (flag fcx fout : option Z) : Z :=
  let req := flag_var flag analyze_flag_default_min_complexity in
  apply_explicit tracking (given flag) req (merge_min_complexity req (cfg_min_complexity fcx fout)).

Definition analyze_min_complexity := analyze_min_complexity_with analyze_explicit_min_complexity.

(* ------------------------------------------------------------------------------------------ *)
(* analyze --min-severity / [dead_code] min_severity                                           *)
(* ------------------------------------------------------------------------------------------ *)

Definition sev_of_level (l : Z) : severity :=
  if l =? domain_level_DeadCodeSeverityInfo then SevInfo
  else if l =? domain_level_DeadCodeSeverityWarning then SevWarning
  else if l =? domain_level_DeadCodeSeverityCritical then SevCritical
  else SevOther.

Definition valid_sev (s : severity) : bool := match s with SevOther => false | _ => true end.

(* createUseCaseConfig: switch c.minSeverity { "critical" | "warning" | "info" -> the same; default -> fallback } *)
Definition analyze_request_severity (flag : option severity) : Z :=
  match flag with
  | Some SevOther => analyze_severity_fallback_level
  | Some s => dead_level s
  | None => analyze_flag_default_min_severity_level
  end.

(* configToRequest: switch cfg.DeadCode.MinSeverity { "critical" | "info" -> the same; default -> fallback } *)
Definition cfg_severity_switch (l : Z) : Z :=
  if l =? domain_level_DeadCodeSeverityCritical then domain_level_DeadCodeSeverityCritical
  else if l =? domain_level_DeadCodeSeverityInfo then domain_level_DeadCodeSeverityInfo
  else svc_dead_severity_fallback_level.

(* mergeDeadCodeSection: `if deadCode.MinSeverity != ""`; SevOther = a non-empty string that is no severity *)
Definition cfg_severity (file : option severity) : Z :=
  match file with
  | Some s => if cfg_key_dead_code_min_severity_nonempty_test then cfg_severity_switch (dead_level s)
              else cfg_severity_switch cfg_default_DeadCodeMinSeverity_level
  | None => cfg_severity_switch cfg_default_DeadCodeMinSeverity_level
  end.

(* DeadCodeConfigurationLoaderImpl.MergeConfig: `override.MinSeverity != "" && override.MinSeverity != Warning` *)
Definition merge_severity (req cfg : Z) : Z :=
  if negb (req =? domain_level_DeadCodeSeverity_other) && negb (req =? svc_merge_sentinel_MinSeverity_level) then req else cfg.

Definition analyze_min_severity_with (tracking : bool) (flag file : option severity) : severity :=
  let req := analyze_request_severity flag in
  sev_of_level (apply_explicit tracking (given flag) req (merge_severity req (cfg_severity file))).

Definition analyze_min_severity := analyze_min_severity_with analyze_explicit_min_severity.

Definition default_min_severity : severity := sev_of_level analyze_flag_default_min_severity_level.

(* ------------------------------------------------------------------------------------------ *)
(* analyze --clone-threshold / [clones] similarity_threshold                                   *)
(* ------------------------------------------------------------------------------------------ *)

(* mergeClonesSection: `if clones.SimilarityThreshold > 0` (a float field, not a pointer) *)
Definition cfg_similarity (file : option Q) : Q :=
  match file with
  | Some v => if cfg_key_clones_similarity_threshold_given v then v else cfg_default_SimilarityThreshold
  | None => cfg_default_SimilarityThreshold
  end.

(* CloneUseCase.mergeConfiguration: `if requestReq.SimilarityThreshold != defaultReq.SimilarityThreshold` *)
Definition merge_similarity (req cfg : Q) : Q :=
  if app_clone_merge_SimilarityThreshold_given req then req else cfg.

(* explicitSimilarityLoader puts the explicit value into the loaded configuration: both sides of the merge carry it *)
Definition analyze_clone_threshold_with (tracking : bool) (flag file : option Q) : Q :=
  let req := flag_var flag analyze_flag_default_clone_threshold in
  let cfg := match flag with
             | Some v => if tracking then v else cfg_similarity file
             | None => cfg_similarity file
             end in
  merge_similarity req cfg.

Definition analyze_clone_threshold := analyze_clone_threshold_with analyze_explicit_clone_threshold.

(* ------------------------------------------------------------------------------------------ *)
(* analyze --min-cbo / [cbo] min_cbo                                                           *)
(* ------------------------------------------------------------------------------------------ *)

Definition cfg_min_cbo (file : option Z) : Z := file_int cfg_key_cbo_min_cbo_is_pointer cfg_default_CboMinCbo file.

(* CBOConfigurationLoaderImpl.MergeConfig: `if override.MinCBO > 0` *)
Definition merge_min_cbo (req cfg : Z) : Z := if svc_cbo_merge_MinCBO_given req then req else cfg.

Definition analyze_min_cbo_with (tracking : bool) (flag file : option Z) : Z :=
  let req := flag_var flag analyze_flag_default_min_cbo in
  apply_explicit tracking (given flag) req (merge_min_cbo req (cfg_min_cbo file)).

Definition analyze_min_cbo := analyze_min_cbo_with analyze_explicit_min_cbo.

(* ------------------------------------------------------------------------------------------ *)
(* analyze: options that exist only in the file (no flag): risk thresholds                     *)
(* ------------------------------------------------------------------------------------------ *)

(* [complexity] low_threshold / medium_threshold: request hard-wired, merge `!= default && > 0` *)
Definition analyze_complexity_low_threshold (file : option Z) : Z :=
  let req := analyze_req_cx_LowThreshold in
  if svc_cx_merge_LowThreshold_given req then req
  else file_int cfg_key_complexity_low_threshold_is_pointer cfg_default_ComplexityLowThreshold file.

Definition analyze_complexity_medium_threshold (file : option Z) : Z :=
  let req := analyze_req_cx_MediumThreshold in
  if svc_cx_merge_MediumThreshold_given req then req
  else file_int cfg_key_complexity_medium_threshold_is_pointer cfg_default_ComplexityMediumThreshold file.

(* [cbo] low_threshold / medium_threshold: request = domain defaults, merge `> 0 && != default` (before fix: f36bff9
   the merge was `> 0`, which counted the defaults carried by the request as given: F6) *)
Definition analyze_cbo_low_threshold (file : option Z) : Z :=
  let req := analyze_req_cbo_LowThreshold in
  if svc_cbo_merge_LowThreshold_given req then req
  else file_int cfg_key_cbo_low_threshold_is_pointer cfg_default_CboLowThreshold file.

Definition analyze_cbo_medium_threshold (file : option Z) : Z :=
  let req := analyze_req_cbo_MediumThreshold in
  if svc_cbo_merge_MediumThreshold_given req then req
  else file_int cfg_key_cbo_medium_threshold_is_pointer cfg_default_CboMediumThreshold file.

(* [lcom] low_threshold / medium_threshold: request 0 ("let config file values take precedence"), merge `> 0` *)
Definition analyze_lcom_low_threshold (file : option Z) : Z :=
  let req := analyze_req_lcom_LowThreshold in
  if svc_lcom_merge_LowThreshold_given req then req
  else file_int cfg_key_lcom_low_threshold_is_pointer cfg_default_LcomLowThreshold file.

Definition analyze_lcom_medium_threshold (file : option Z) : Z :=
  let req := analyze_req_lcom_MediumThreshold in
  if svc_lcom_merge_MediumThreshold_given req then req
  else file_int cfg_key_lcom_medium_threshold_is_pointer cfg_default_LcomMediumThreshold file.

(* ------------------------------------------------------------------------------------------ *)
(* check --max-complexity / [complexity] max_complexity: the chain of Cli/Gate.v                *)
(* ------------------------------------------------------------------------------------------ *)

Definition check_flags_of (flag : option Z) : flags := Build_flags false flag false false false None [].

Definition check_file_of (file : option Z) : option file_cfg :=
  match file with Some v => Some (Build_file_cfg (Some v) None None) | None => None end.

Definition check_max_complexity (flag file : option Z) : Z :=
  max_complexity_threshold (check_flags_of flag) (check_file_of file).
