(* Cli/Gate.v — model of the decision function of `pyscn check` (property C19).

   Go code mirrored (read literally), file:line as of the modelled tree:
     cmd/pyscn/check.go   runCheck 122-245, determineEnabledAnalyses 248-265, containsAnalysis 268-280,
                          validateSelectedAnalyses 304-323, checkComplexity 326-388, checkDeadCode 391-464,
                          checkClones 468-544, checkCircularDependenciesIn 602-653 (one project root; the loop over the
                          roots of several targets, checkCircularDependencies 548-558 and dependencyProjectRoots
                          563-599, is Cli/GateRoots.v), checkMockdata 656-719
     cmd/pyscn/main.go    main: os.Exit(1) when the command returns an error
     service/config_loader.go            MergeConfig 49-113 (MinComplexity / MaxComplexity sentinels)
     service/dead_code_config_loader.go  MergeConfig 49-151 (MinSeverity sentinel), configToRequest 154-214
     service/complexity_service.go       filterFunctions 161-177
     service/dead_code_service.go        filterFindingsBySeverity 282-290
     internal/config/config.go           PyscnConfigToConfig 289- (file value used only when > 0)
     internal/config/toml_loader.go      ResolveConfigPath 365-384, FindConfigFileFromPath 390-427
     domain/dead_code.go                 DeadCodeSeverity.Level / IsAtLeast 295-311

   The analyses themselves are abstracted: the inputs are their results (functions with their
   complexities, dead-code findings with severities, clone pairs, cycles, mock-data findings) and
   one error flag per analysis. Every number, default, comparison operator and sentinel below is
   taken from Gen/CheckConst.v and Gen/DomainConst.v, which the translator regenerates from the
   Go sources before each run. No proofs in this file. *)
From Coq Require Import ZArith List Bool.
From PV Require Import Gen.DomainConst Gen.CheckConst.
Import ListNotations.
Open Scope Z_scope.

(* ------------------------------------------------------------------------------------------ *)
(* inputs                                                                                      *)
(* ------------------------------------------------------------------------------------------ *)

(* one element of --select after strings.ToLower; SInvalid = any other string *)
Inductive sel_name := SComplexity | SDeadcode | SClones | SDeps | SCircular | SMockdata | SInvalid.

Definition sel_eqb (a b : sel_name) : bool :=
  match a, b with
  | SComplexity, SComplexity | SDeadcode, SDeadcode | SClones, SClones | SDeps, SDeps
  | SCircular, SCircular | SMockdata, SMockdata | SInvalid, SInvalid => true
  | _, _ => false
  end.

(* domain.DeadCodeSeverity; SevOther = any other string (Level() = 0) *)
Inductive severity := SevInfo | SevWarning | SevCritical | SevOther.

Definition dead_level (s : severity) : Z :=
  match s with
  | SevInfo => domain_level_DeadCodeSeverityInfo
  | SevWarning => domain_level_DeadCodeSeverityWarning
  | SevCritical => domain_level_DeadCodeSeverityCritical
  | SevOther => domain_level_DeadCodeSeverity_other
  end.

(* CheckCommand fields after cobra parsed the command line. [option] = flag given / absent
   (cmd.Flags().Changed); a bool flag that is absent has its default value. *)
Record flags := Build_flags {
  f_quiet : bool;
  f_max_complexity : option Z;
  f_allow_dead_code : bool;
  f_skip_clones : bool;
  f_allow_circular_deps : bool;
  f_max_cycles : option Z;
  f_select : list sel_name
}.

(* the keys of one .pyscn.toml / [tool.pyscn] the gate can depend on; None = key absent *)
Record file_cfg := Build_file_cfg {
  fc_max_complexity : option Z;      (* [complexity] max_complexity *)
  fc_min_complexity : option Z;      (* [output] min_complexity *)
  fc_min_severity : option severity  (* [dead_code] min_severity *)
}.

(* what the analyses return, before any request-driven filtering *)
Record results := Build_results {
  r_functions : list (N * Z);        (* function id, cyclomatic complexity *)
  r_cx_err : bool;                   (* useCase.AnalyzeAndReturn returned an error *)
  r_findings : list (N * severity);  (* dead-code finding id, severity *)
  r_dead_err : bool;
  r_clones : list N;                 (* clone pair ids *)
  r_clone_err : bool;
  r_cycles : list (N * bool);        (* cycle id, printable (Modules non-empty and first module has a node) *)
  r_deps_err : bool;
  r_mock : list (N * Z);             (* mock-data finding id, MockDataSeverity.Level() *)
  r_mock_err : bool
}.

Record input := Build_input {
  i_flags : flags;
  i_cfg_explicit : option file_cfg;  (* --config <file> *)
  i_cfg_target : option file_cfg;    (* nearest config file from the first target path upward *)
  i_cfg_cwd : option file_cfg;       (* nearest config file from the working directory upward *)
  i_res : results
}.

(* ------------------------------------------------------------------------------------------ *)
(* outputs                                                                                     *)
(* ------------------------------------------------------------------------------------------ *)

(* the per-violation lines written to stderr *)
Inductive line :=
| LComplex (id : N) (cx maxc : Z)  (* "<file>:<l>:<c>: <name> is too complex (<cx> > <maxc>)" *)
| LDead (id : N) (lvl : Z)         (* "<file>:<l>:<c>: <reason> (<severity>)" *)
| LClone (id : N)                  (* "<file>:<l>:<c>: clone of ..." *)
| LCycle (id : N)                  (* "<file>:1:1: circular dependency detected: ..." *)
| LMock (id : N).                  (* "<file>:<l>:<c>: mock data detected: ..." *)

(* the summary / status lines *)
Inductive msg :=
| MCxFailed | MDeadFailed | MCloneFailed | MDepsFailed | MMockFailed
| MDeadIgnored (n : Z)             (* "Found n dead code issue(s) (ignored due to --allow-dead-code)" *)
| MCloneInfo (n : Z)               (* "Found n code clone(s) (informational)" *)
| MCyclesAllowed (n : Z)           (* "Found n circular dependency cycle(s) (allowed by --allow-circular-deps)" *)
| MCyclesWithin (n maxc : Z)       (* "Found n circular dependency cycle(s) (within allowed limit of maxc)" *)
| MInvalidSelect                   (* "Error: invalid --select flag" *)
| MAnalysisFailed                  (* "Error: analysis failed with errors" *)
| MFound (n : Z)                   (* "Found n quality issue(s)" *)
| MPassed.                         (* "Code quality check passed" *)

Record output := Build_output {
  o_exit : Z;
  o_issues : Z;                      (* issueCount at the end of runCheck *)
  o_errors : bool;                   (* hasErrors *)
  o_enabled : list sel_name;         (* getEnabledAnalyses, shown in the first line unless --quiet *)
  o_lines : list line;
  o_msgs : list msg
}.

(* ------------------------------------------------------------------------------------------ *)
(* which analyses run                                                                          *)
(* ------------------------------------------------------------------------------------------ *)

(* containsAnalysis, check.go:268 *)
Definition contains_analysis (sel : list sel_name) (a : sel_name) : bool :=
  existsb (fun x => sel_eqb x a
                    || (sel_eqb a SDeps && sel_eqb x SCircular)
                    || (sel_eqb a SCircular && sel_eqb x SDeps)) sel.

(* validateSelectedAnalyses, check.go:304 (only called for a non-empty list) *)
Definition validate_selected (sel : list sel_name) : bool :=
  forallb (fun x => negb (sel_eqb x SInvalid)) sel.

Record skips := Build_skips { sk_cx : bool; sk_dead : bool; sk_clones : bool; sk_deps : bool; sk_mock : bool }.

(* determineEnabledAnalyses, check.go:248 *)
Definition determine_enabled (f : flags) : skips :=
  match f_select f with
  | [] => Build_skips false false (f_skip_clones f) true true
  | sel => Build_skips (negb (contains_analysis sel SComplexity))
                       (negb (contains_analysis sel SDeadcode))
                       (negb (contains_analysis sel SClones))
                       (negb (contains_analysis sel SDeps) && negb (contains_analysis sel SCircular))
                       (negb (contains_analysis sel SMockdata))
  end.

(* getEnabledAnalyses, check.go:283 *)
Definition enabled_list (s : skips) : list sel_name :=
  (if sk_cx s then [] else [SComplexity]) ++ (if sk_dead s then [] else [SDeadcode]) ++
  (if sk_clones s then [] else [SClones]) ++ (if sk_deps s then [] else [SDeps]) ++
  (if sk_mock s then [] else [SMockdata]).

(* ------------------------------------------------------------------------------------------ *)
(* configuration                                                                               *)
(* ------------------------------------------------------------------------------------------ *)

(* runCheck: ResolveConfigPath(c.configFile, args[0]) when [check_config_from_target]; then every use case
   loads ConfigPath, or — when that is empty — LoadDefaultConfig, which searches from the working directory. *)
Definition resolve_config (i : input) : option file_cfg :=
  match i_cfg_explicit i with
  | Some c => Some c
  | None =>
      if check_config_from_target then
        match i_cfg_target i with Some c => Some c | None => i_cfg_cwd i end
      else i_cfg_cwd i
  end.

(* PyscnConfigToConfig: cfg.Complexity.MaxComplexity = file value if > 0, else DefaultConfig's *)
Definition cfg_max_complexity (c : option file_cfg) : Z :=
  match c with
  | Some fc => match fc_max_complexity fc with
               | Some v => if v >? 0 then v else domain_DefaultComplexityMaxLimit
               | None => domain_DefaultComplexityMaxLimit
               end
  | None => domain_DefaultComplexityMaxLimit
  end.

(* PyscnConfigToConfig: cfg.Output.MinComplexity = file value if > 0, else DefaultConfig's *)
Definition cfg_min_complexity (c : option file_cfg) : Z :=
  match c with
  | Some fc => match fc_min_complexity fc with
               | Some v => if v >? 0 then v else domain_DefaultComplexityMinFilter
               | None => domain_DefaultComplexityMinFilter
               end
  | None => domain_DefaultComplexityMinFilter
  end.

(* configToRequest: "critical" / "info" / anything else (incl. absent: DefaultConfig says "warning") -> warning *)
Definition cfg_min_severity_level (c : option file_cfg) : Z :=
  match c with
  | Some fc => match fc_min_severity fc with
               | Some SevCritical => domain_level_DeadCodeSeverityCritical
               | Some SevInfo => domain_level_DeadCodeSeverityInfo
               | _ => domain_level_DeadCodeSeverityWarning
               end
  | None => domain_level_DeadCodeSeverityWarning
  end.

(* ConfigurationLoaderImpl.MergeConfig: the request value wins unless it equals the sentinel *)
Definition merged_max_complexity (c : option file_cfg) : Z :=
  if negb (check_req_MaxComplexity =? svc_merge_sentinel_MaxComplexity) then check_req_MaxComplexity
  else cfg_max_complexity c.

Definition merged_min_complexity (c : option file_cfg) : Z :=
  if negb (check_req_MinComplexity =? svc_merge_sentinel_MinComplexity) then check_req_MinComplexity
  else cfg_min_complexity c.

(* DeadCodeConfigurationLoaderImpl.MergeConfig: override.MinSeverity != "" && != Warning *)
Definition merged_min_severity_level (c : option file_cfg) : Z :=
  if negb (check_req_MinSeverity_level =? domain_level_DeadCodeSeverity_other)
     && negb (check_req_MinSeverity_level =? svc_merge_sentinel_MinSeverity_level)
  then check_req_MinSeverity_level
  else cfg_min_severity_level c.

(* ------------------------------------------------------------------------------------------ *)
(* the four gated checks and the clone report: Some (issue count, lines) or None = error         *)
(* ------------------------------------------------------------------------------------------ *)

Definition zlen {A} (l : list A) : Z := Z.of_nat (length l).

(* the threshold of checkComplexity, check.go:368-373 *)
Definition max_complexity_threshold (f : flags) (c : option file_cfg) : Z :=
  match f_max_complexity f with
  | Some v => v
  | None => if check_cfg_max_given (merged_max_complexity c) 0 then merged_max_complexity c
            else check_flag_default_max_complexity
  end.

(* response.Functions: service filterFunctions drops complexity < MinComplexity *)
Definition reported_functions (c : option file_cfg) (r : results) : list (N * Z) :=
  filter (fun fn => negb (snd fn <? merged_min_complexity c)) (r_functions r).

Definition complexity_violations (f : flags) (c : option file_cfg) (r : results) : list (N * Z) :=
  filter (fun fn => check_cx_exceeds (snd fn) (max_complexity_threshold f c)) (reported_functions c r).

Definition check_complexity (f : flags) (c : option file_cfg) (r : results) : option (Z * list line) :=
  if r_cx_err r then None
  else let v := complexity_violations f c r in
       Some (zlen v, if f_quiet f then []
                     else map (fun fn => LComplex (fst fn) (snd fn) (max_complexity_threshold f c)) v).

(* the gate severity of checkDeadCode, check.go:437-441 *)
Definition dead_gate_level (c : option file_cfg) : Z :=
  if negb (merged_min_severity_level c =? domain_level_DeadCodeSeverity_other) then merged_min_severity_level c
  else check_gate_default_severity_level.

(* response findings: service filterFindingsBySeverity keeps severity >= merged MinSeverity *)
Definition reported_findings (c : option file_cfg) (r : results) : list (N * severity) :=
  filter (fun fd => domain_DeadCodeSeverity_is_at_least (dead_level (snd fd)) (merged_min_severity_level c)) (r_findings r).

Definition dead_violations (c : option file_cfg) (r : results) : list (N * severity) :=
  filter (fun fd => domain_DeadCodeSeverity_is_at_least (dead_level (snd fd)) (dead_gate_level c)) (reported_findings c r).

Definition check_dead_code (f : flags) (c : option file_cfg) (r : results) : option (Z * list line) :=
  if r_dead_err r then None
  else let v := dead_violations c r in
       Some (zlen v, if f_quiet f then [] else map (fun fd => LDead (fst fd) (dead_level (snd fd))) v).

Definition check_clones (f : flags) (r : results) : option (Z * list line) :=
  if r_clone_err r then None
  else Some (zlen (r_clones r), if f_quiet f then [] else map LClone (r_clones r)).

(* checkCircularDependenciesIn: TotalCycles = len(CircularDependencies); a line per printable cycle.  With several
   targets [r_cycles] / [r_deps_err] stand for the project roots together (GateRootsProofs.check_circular_roots_merged) *)
Definition check_circular (f : flags) (r : results) : option (Z * list line) :=
  if r_deps_err r then None
  else match r_cycles r with
       | [] => Some (0, [])
       | cs => Some (zlen cs, if f_quiet f then []
                              else map (fun cy => LCycle (fst cy)) (filter (fun cy => snd cy) cs))
       end.

Definition mock_violations (r : results) : list (N * Z) :=
  filter (fun m => domain_MockDataSeverity_is_at_least (snd m) check_mock_gate_level) (r_mock r).

Definition check_mockdata (f : flags) (r : results) : option (Z * list line) :=
  if r_mock_err r then None
  else let v := mock_violations r in
       Some (zlen v, if f_quiet f then [] else map (fun m => LMock (fst m)) v).

Definition max_cycles_threshold (f : flags) : Z :=
  match f_max_cycles f with Some v => v | None => check_flag_default_max_cycles end.

(* ------------------------------------------------------------------------------------------ *)
(* runCheck                                                                                    *)
(* ------------------------------------------------------------------------------------------ *)

Record st := Build_st { s_issues : Z; s_err : bool; s_lines : list line; s_msgs : list msg }.

Definition fail_with (m : msg) (s : st) : st := Build_st (s_issues s) true (s_lines s) (s_msgs s ++ [m]).

(* check.go:156-165 *)
Definition step_complexity (f : flags) (c : option file_cfg) (r : results) (s : st) : st :=
  match check_complexity f c r with
  | None => fail_with MCxFailed s
  | Some (n, ls) => Build_st (s_issues s + n) (s_err s) (s_lines s ++ ls) (s_msgs s)
  end.

(* check.go:167-181 *)
Definition step_dead_code (f : flags) (c : option file_cfg) (r : results) (s : st) : st :=
  match check_dead_code f c r with
  | None => fail_with MDeadFailed s
  | Some (n, ls) =>
      if negb (f_allow_dead_code f) then Build_st (s_issues s + n) (s_err s) (s_lines s ++ ls) (s_msgs s)
      else if (n >? 0) && negb (f_quiet f)
           then Build_st (s_issues s) (s_err s) (s_lines s ++ ls) (s_msgs s ++ [MDeadIgnored n])
           else Build_st (s_issues s) (s_err s) (s_lines s ++ ls) (s_msgs s)
  end.

(* check.go:183-194: a clone failure is reported but is not an error; clone pairs are informational *)
Definition step_clones (f : flags) (r : results) (s : st) : st :=
  match check_clones f r with
  | None => Build_st (s_issues s) (s_err s) (s_lines s) (s_msgs s ++ [MCloneFailed])
  | Some (n, ls) =>
      if (n >? 0) && negb (f_quiet f)
      then Build_st (s_issues s) (s_err s) (s_lines s ++ ls) (s_msgs s ++ [MCloneInfo n])
      else Build_st (s_issues s) (s_err s) (s_lines s ++ ls) (s_msgs s)
  end.

(* check.go:196-215 *)
Definition step_deps (f : flags) (r : results) (s : st) : st :=
  match check_circular f r with
  | None => fail_with MDepsFailed s
  | Some (n, ls) =>
      if check_cycles_exceed n (max_cycles_threshold f) then
        if negb (f_allow_circular_deps f) then Build_st (s_issues s + n) (s_err s) (s_lines s ++ ls) (s_msgs s)
        else if (n >? 0) && negb (f_quiet f)
             then Build_st (s_issues s) (s_err s) (s_lines s ++ ls) (s_msgs s ++ [MCyclesAllowed n])
             else Build_st (s_issues s) (s_err s) (s_lines s ++ ls) (s_msgs s)
      else if (n >? 0) && negb (f_quiet f)
           then Build_st (s_issues s) (s_err s) (s_lines s ++ ls) (s_msgs s ++ [MCyclesWithin n (max_cycles_threshold f)])
           else Build_st (s_issues s) (s_err s) (s_lines s ++ ls) (s_msgs s)
  end.

(* check.go:217-226 *)
Definition step_mockdata (f : flags) (r : results) (s : st) : st :=
  match check_mockdata f r with
  | None => fail_with MMockFailed s
  | Some (n, ls) => Build_st (s_issues s + n) (s_err s) (s_lines s ++ ls) (s_msgs s)
  end.

Definition run_steps (i : input) : st :=
  let f := i_flags i in
  let c := resolve_config i in
  let r := i_res i in
  let k := determine_enabled f in
  let s0 := Build_st 0 false [] [] in
  let s1 := if sk_cx k then s0 else step_complexity f c r s0 in
  let s2 := if sk_dead k then s1 else step_dead_code f c r s1 in
  let s3 := if sk_clones k then s2 else step_clones f r s2 in
  let s4 := if sk_deps k then s3 else step_deps f r s3 in
  if sk_mock k then s4 else step_mockdata f r s4.

(* check.go:138-143: a non-empty --select list is validated first *)
Definition select_invalid (f : flags) : bool :=
  match f_select f with
  | [] => false
  | sel => negb (validate_selected sel)
  end.

(* runCheck + main *)
Definition run_check (i : input) : output :=
  let f := i_flags i in
  if select_invalid f then Build_output check_exit_failure 0 false [] [] [MInvalidSelect]
  else
    let s := run_steps i in
    let en := enabled_list (determine_enabled f) in
    if s_err s then
      Build_output check_exit_failure (s_issues s) true en (s_lines s) (s_msgs s ++ [MAnalysisFailed])
    else if check_has_issues (s_issues s) 0 then
      Build_output check_exit_failure (s_issues s) false en (s_lines s) (s_msgs s ++ [MFound (s_issues s)])
    else
      Build_output 0 (s_issues s) false en (s_lines s) (if f_quiet f then s_msgs s else s_msgs s ++ [MPassed]).

(* ------------------------------------------------------------------------------------------ *)
(* specification: the property text                                                            *)
(* ------------------------------------------------------------------------------------------ *)

(* which analyses are selected: complexity and dead code by default, each analysis when named in --select;
   dependency cycles only when named ("deps" or "circular") *)
Definition sel_cx (f : flags) : Prop := f_select f = [] \/ In SComplexity (f_select f).
Definition sel_dead (f : flags) : Prop := f_select f = [] \/ In SDeadcode (f_select f).
Definition sel_deps (f : flags) : Prop := In SDeps (f_select f) \/ In SCircular (f_select f).
Definition sel_mock (f : flags) : Prop := In SMockdata (f_select f).
Definition sel_clones (f : flags) : Prop :=
  (f_select f = [] /\ f_skip_clones f = false) \/ In SClones (f_select f).

(* the configuration in force: --config, else the file nearest to the analysed path, else the one nearest to
   the working directory (what `pyscn analyze` uses) *)
Definition spec_config (i : input) : option file_cfg :=
  match i_cfg_explicit i with
  | Some c => Some c
  | None => match i_cfg_target i with Some c => Some c | None => i_cfg_cwd i end
  end.

(* effective maximum complexity: explicit flag, else a positive config value, else the flag default (10) *)
Definition eff_max_complexity (i : input) : Z :=
  match f_max_complexity (i_flags i) with
  | Some v => v
  | None =>
      match spec_config i with
      | Some fc => match fc_max_complexity fc with
                   | Some v => if 0 <? v then v else check_flag_default_max_complexity
                   | None => check_flag_default_max_complexity
                   end
      | None => check_flag_default_max_complexity
      end
  end.

Definition eff_max_cycles (i : input) : Z :=
  match f_max_cycles (i_flags i) with Some v => v | None => check_flag_default_max_cycles end.

(* the gate severity of `check`: critical *)
Definition gate_severity : severity := SevCritical.

Definition gate_spec (i : input) : Prop :=
  let f := i_flags i in
  let r := i_res i in
  ~ In SInvalid (f_select f) /\
  (sel_cx f -> r_cx_err r = false /\ forall id cx, In (id, cx) (r_functions r) -> cx <= eff_max_complexity i) /\
  (sel_dead f -> r_dead_err r = false /\
                 (f_allow_dead_code f = true \/
                  forall id sv, In (id, sv) (r_findings r) -> dead_level sv < dead_level gate_severity)) /\
  (sel_deps f -> r_deps_err r = false /\
                 (f_allow_circular_deps f = true \/ zlen (r_cycles r) <= eff_max_cycles i)) /\
  (sel_mock f -> r_mock_err r = false /\
                 forall id lv, In (id, lv) (r_mock r) -> lv < domain_level_MockDataSeverityWarning).

(* the literal reading of "or when an analysis could not run": a failed clone analysis also counts *)
Definition gate_spec_literal (i : input) : Prop :=
  gate_spec i /\ (sel_clones (i_flags i) -> r_clone_err (i_res i) = false).

(* the violations the property says are printed (when not --quiet), as sets of ids *)
Definition spec_complexity_violations (i : input) : list (N * Z) :=
  filter (fun fn => eff_max_complexity i <? snd fn) (r_functions (i_res i)).
Definition spec_dead_violations (i : input) : list (N * severity) :=
  filter (fun fd => dead_level gate_severity <=? dead_level (snd fd)) (r_findings (i_res i)).

(* cyclomatic complexity is at least 1 (C03) *)
Definition results_wf (r : results) : Prop := forall id cx, In (id, cx) (r_functions r) -> 1 <= cx.
