(* Cli/GateLines.v — the per-violation lines `pyscn check` prints are exactly the violations. *)
From Coq Require Import ZArith List Bool Lia.
From PV Require Import Gen.DomainConst Gen.CheckConst Cli.Gate Cli.GateProofs.
Import ListNotations.
Open Scope Z_scope.

Definition lines_of (o : option (Z * list line)) : list line :=
  match o with Some (_, ls) => ls | None => [] end.

Lemma step_complexity_lines f c r s :
  s_lines (step_complexity f c r s) = s_lines s ++ lines_of (check_complexity f c r).
Proof. unfold step_complexity, fail_with. destruct (check_complexity f c r) as [[n ls]|]; cbn; [reflexivity|symmetry; apply app_nil_r]. Qed.

Lemma step_dead_code_lines f c r s :
  s_lines (step_dead_code f c r s) = s_lines s ++ lines_of (check_dead_code f c r).
Proof.
  unfold step_dead_code, fail_with. destruct (check_dead_code f c r) as [[n ls]|]; cbn [lines_of s_lines]; [|symmetry; apply app_nil_r].
  destruct (negb (f_allow_dead_code f)); [reflexivity|]. destruct ((n >? 0) && negb (f_quiet f)); reflexivity.
Qed.

Lemma step_clones_lines f r s :
  s_lines (step_clones f r s) = s_lines s ++ lines_of (check_clones f r).
Proof.
  unfold step_clones. destruct (check_clones f r) as [[n ls]|]; cbn [lines_of s_lines]; [|symmetry; apply app_nil_r].
  destruct ((n >? 0) && negb (f_quiet f)); reflexivity.
Qed.

Lemma step_deps_lines f r s :
  s_lines (step_deps f r s) = s_lines s ++ lines_of (check_circular f r).
Proof.
  unfold step_deps, fail_with. destruct (check_circular f r) as [[n ls]|]; cbn [lines_of s_lines]; [|symmetry; apply app_nil_r].
  destruct (check_cycles_exceed n (max_cycles_threshold f)).
  - destruct (negb (f_allow_circular_deps f)); [reflexivity|]. destruct ((n >? 0) && negb (f_quiet f)); reflexivity.
  - destruct ((n >? 0) && negb (f_quiet f)); reflexivity.
Qed.

Lemma step_mockdata_lines f r s :
  s_lines (step_mockdata f r s) = s_lines s ++ lines_of (check_mockdata f r).
Proof. unfold step_mockdata, fail_with. destruct (check_mockdata f r) as [[n ls]|]; cbn; [reflexivity|symmetry; apply app_nil_r]. Qed.

Definition when (skip : bool) (l : list line) : list line := if skip then [] else l.

(* everything runCheck prints per violation, in order: complexity, dead code, clones, cycles, mock data *)
Lemma run_steps_lines i :
  let f := i_flags i in let c := resolve_config i in let r := i_res i in let k := determine_enabled f in
  s_lines (run_steps i) =
    when (sk_cx k) (lines_of (check_complexity f c r)) ++ when (sk_dead k) (lines_of (check_dead_code f c r)) ++
    when (sk_clones k) (lines_of (check_clones f r)) ++ when (sk_deps k) (lines_of (check_circular f r)) ++
    when (sk_mock k) (lines_of (check_mockdata f r)).
Proof.
  cbv zeta. unfold run_steps, when.
  set (f := i_flags i). set (c := resolve_config i). set (r := i_res i). set (k := determine_enabled f).
  destruct (sk_cx k), (sk_dead k), (sk_clones k), (sk_deps k), (sk_mock k);
    rewrite ?step_mockdata_lines, ?step_deps_lines, ?step_clones_lines, ?step_dead_code_lines, ?step_complexity_lines;
    cbn [s_lines app]; rewrite <- ?app_assoc, ?app_nil_r; reflexivity.
Qed.

Lemma o_lines_run_check i :
  select_invalid (i_flags i) = false -> o_lines (run_check i) = s_lines (run_steps i).
Proof.
  intros V. unfold run_check. rewrite V. destruct (s_err _); [reflexivity|]. destruct (check_has_issues _ _); reflexivity.
Qed.

(* --quiet prints no per-violation line at all *)
Lemma quiet_no_lines_lemma i : f_quiet (i_flags i) = true -> o_lines (run_check i) = [].
Proof.
  intros Q. unfold run_check. destruct (select_invalid (i_flags i)) eqn:V; [reflexivity|].
  assert (E : s_lines (run_steps i) = []).
  { rewrite run_steps_lines. cbv zeta. unfold when, check_complexity, check_dead_code, check_clones, check_circular, check_mockdata.
    rewrite Q.
    repeat match goal with
           | |- context [if ?b then _ else _] => destruct b
           | |- context [match ?l with [] => _ | _ :: _ => _ end] => destruct l
           end; reflexivity. }
  destruct (s_err _); [exact E|]. destruct (check_has_issues _ _); exact E.
Qed.

Ltac other_kind :=
  match goal with
  | H : In _ (when _ (lines_of _)) |- _ =>
      unfold when, lines_of, check_complexity, check_dead_code, check_clones, check_circular, check_mockdata in H;
      repeat match type of H with
             | context [if ?b then _ else _] => destruct b
             | context [match ?l with [] => _ | _ :: _ => _ end] => destruct l
             end;
      try (destruct H; fail);
      try (apply in_map_iff in H; destruct H as (? & H & _); discriminate H)
  end.

(* complexity lines = the functions whose complexity exceeds the effective maximum, printed with that maximum *)
Lemma complexity_lines_lemma i :
  results_wf (i_res i) -> ~ In SInvalid (f_select (i_flags i)) -> f_quiet (i_flags i) = false ->
  forall id cx m,
    In (LComplex id cx m) (o_lines (run_check i)) <->
    (sel_cx (i_flags i) /\ r_cx_err (i_res i) = false /\ In (id, cx) (r_functions (i_res i)) /\
     eff_max_complexity i < cx /\ m = eff_max_complexity i).
Proof.
  intros Hwf V Q id cx m. apply select_invalid_iff in V. rewrite (o_lines_run_check i V), run_steps_lines. cbv zeta.
  rewrite !in_app_iff, <- sk_cx_iff. split.
  - intros [H|[H|[H|[H|H]]]]; try (other_kind; fail).
    unfold when in H. destruct (sk_cx _); [destruct H|]. split; [reflexivity|].
    unfold lines_of, check_complexity in H. destruct (r_cx_err _); [destruct H|]. split; [reflexivity|].
    rewrite Q in H. apply in_map_iff in H. destruct H as ([id' cx'] & E & Hin). cbn [fst snd] in E.
    rewrite max_complexity_threshold_eff in E. inversion E; subst.
    rewrite (complexity_violations_spec i Hwf) in Hin. unfold spec_complexity_violations in Hin.
    apply filter_In in Hin. destruct Hin as [Hin G]. cbn [snd] in G. apply Z.ltb_lt in G. auto.
  - intros (S & E & Hin & G & ->). left. unfold when. rewrite S. unfold lines_of, check_complexity. rewrite E, Q.
    apply in_map_iff. exists (id, cx). cbn [fst snd]. rewrite max_complexity_threshold_eff. split; [reflexivity|].
    rewrite (complexity_violations_spec i Hwf). unfold spec_complexity_violations. apply filter_In. split; [exact Hin|].
    cbn [snd]. apply Z.ltb_lt. exact G.
Qed.

(* dead-code lines = the findings at the gate severity (critical), whether or not --allow-dead-code is given *)
Lemma dead_lines_lemma i :
  ~ In SInvalid (f_select (i_flags i)) -> f_quiet (i_flags i) = false ->
  forall id lv,
    In (LDead id lv) (o_lines (run_check i)) <->
    (sel_dead (i_flags i) /\ r_dead_err (i_res i) = false /\
     exists sv, In (id, sv) (r_findings (i_res i)) /\ lv = dead_level sv /\ dead_level gate_severity <= lv).
Proof.
  intros V Q id lv. apply select_invalid_iff in V. rewrite (o_lines_run_check i V), run_steps_lines. cbv zeta.
  rewrite !in_app_iff, <- sk_dead_iff. split.
  - intros [H|[H|[H|[H|H]]]]; try (other_kind; fail).
    unfold when in H. destruct (sk_dead _); [destruct H|]. split; [reflexivity|].
    unfold lines_of, check_dead_code in H. destruct (r_dead_err _); [destruct H|]. split; [reflexivity|].
    rewrite Q in H. apply in_map_iff in H. destruct H as ([id' sv] & E & Hin). cbn [fst snd] in E. inversion E; subst.
    rewrite dead_violations_spec in Hin. unfold spec_dead_violations in Hin.
    apply filter_In in Hin. destruct Hin as [Hin G]. cbn [snd] in G. apply Z.leb_le in G. exists sv. auto.
  - intros (S & E & sv & Hin & -> & G). right; left. unfold when. rewrite S. unfold lines_of, check_dead_code. rewrite E, Q.
    apply in_map_iff. exists (id, sv). cbn [fst snd]. split; [reflexivity|].
    rewrite dead_violations_spec. unfold spec_dead_violations. apply filter_In. split; [exact Hin|].
    cbn [snd]. apply Z.leb_le. exact G.
Qed.

(* cycle lines = every detected cycle, whether or not it is within --max-cycles or allowed *)
Lemma cycle_lines_lemma i :
  ~ In SInvalid (f_select (i_flags i)) -> f_quiet (i_flags i) = false ->
  forall id,
    In (LCycle id) (o_lines (run_check i)) <->
    (sel_deps (i_flags i) /\ r_deps_err (i_res i) = false /\ In (id, true) (r_cycles (i_res i))).
Proof.
  intros V Q id. apply select_invalid_iff in V. rewrite (o_lines_run_check i V), run_steps_lines. cbv zeta.
  rewrite !in_app_iff, <- sk_deps_iff. split.
  - intros [H|[H|[H|[H|H]]]]; try (other_kind; fail).
    unfold when in H. destruct (sk_deps _); [destruct H|]. split; [reflexivity|].
    unfold lines_of, check_circular in H. destruct (r_deps_err _); [destruct H|]. split; [reflexivity|].
    destruct (r_cycles (i_res i)) as [|c0 cs] eqn:C; [destruct H|]. rewrite Q in H.
    apply in_map_iff in H. destruct H as ([id' b] & E & Hin). cbn [fst] in E. inversion E; subst.
    apply filter_In in Hin. destruct Hin as [Hin G]. cbn [snd] in G. subst b. exact Hin.
  - intros (S & E & Hin). right; right; right; left. unfold when. rewrite S. unfold lines_of, check_circular. rewrite E.
    destruct (r_cycles (i_res i)) as [|c0 cs] eqn:C; [destruct Hin|]. rewrite Q.
    apply in_map_iff. exists (id, true). split; [reflexivity|]. apply filter_In. split; [exact Hin|reflexivity].
Qed.

(* clone lines are printed for information; they exist exactly for the clone pairs found *)
Lemma clone_lines_lemma i :
  ~ In SInvalid (f_select (i_flags i)) -> f_quiet (i_flags i) = false ->
  forall id,
    In (LClone id) (o_lines (run_check i)) <->
    (sel_clones (i_flags i) /\ r_clone_err (i_res i) = false /\ In id (r_clones (i_res i))).
Proof.
  intros V Q id. apply select_invalid_iff in V. rewrite (o_lines_run_check i V), run_steps_lines. cbv zeta.
  rewrite !in_app_iff, <- sk_clones_iff. split.
  - intros [H|[H|[H|[H|H]]]]; try (other_kind; fail).
    unfold when in H. destruct (sk_clones _); [destruct H|]. split; [reflexivity|].
    unfold lines_of, check_clones in H. destruct (r_clone_err _); [destruct H|]. split; [reflexivity|].
    rewrite Q in H. apply in_map_iff in H. destruct H as (id' & E & Hin). inversion E; subst. exact Hin.
  - intros (S & E & Hin). right; right; left. unfold when. rewrite S. unfold lines_of, check_clones. rewrite E, Q.
    apply in_map_iff. exists id. auto.
Qed.
