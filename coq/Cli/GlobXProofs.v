(* Facts about the full pattern language (Cli/GlobX.v):
   - a pattern without '/' in its text matches a path of two or more segments only as "**",
     so what it says about a file is what it says about the file's name, at any depth
     ([xglob_slashless_name]);
   - on patterns without [ ] { } \ the matcher is Cli/Glob.v's ([xglob_conservative]). *)
From Coq Require Import NArith List Bool Lia.
From PV Require Import Cli.Glob Cli.GlobX.
Import ListNotations.
Open Scope N_scope.

(* ---- the characters of the tokens come from the pattern text ------------------------------ *)
Definition is_class (t : tok) : Prop := match t with TClass _ _ => True | _ => False end.

Ltac lex_cases H :=
  repeat match type of H with
         | context [if ?b then _ else _] => destruct b
         | context [match ?x with _ => _ end] => destruct x
         end.

Lemma lex_class_rest : forall n s, (length s <= n)%nat -> forall neg items last t rest,
  lex_class neg items last s = Some (t, rest) -> is_class t /\ incl rest s.
Proof.
  induction n as [|n IH]; intros s Hl neg items last t rest H.
  - destruct s; [discriminate|simpl in Hl; lia].
  - destruct s as [|c s1]; [discriminate|]. simpl in Hl.
    assert (Hrec : forall s' neg' items' last', (length s' <= n)%nat -> incl s' (c :: s1) ->
               lex_class neg' items' last' s' = Some (t, rest) -> is_class t /\ incl rest (c :: s1)).
    { intros s' neg' items' last' Hl' Hi H'. destruct (IH s' Hl' _ _ _ _ _ H') as [A B]. split; [exact A|].
      intros x Hx. apply Hi, B, Hx. }
    simpl in H.
    destruct (c =? c_rbrack).
    { destruct (is_nil items); [discriminate|]. inversion H; subst. split; [exact I|]. intros x Hx. right. exact Hx. }
    assert (Hsingle :
      (if c =? c_bslash
       then match s1 with e :: s2 => lex_class neg ((e, e) :: items) (Some e) s2 | [] => None end
       else lex_class neg ((c, c) :: items) (Some c) s1) = Some (t, rest) -> is_class t /\ incl rest (c :: s1)).
    { intros H'. destruct (c =? c_bslash).
      - destruct s1 as [|e s2]; [discriminate|]. simpl in Hl. eapply Hrec; [| |exact H']; [lia|].
        intros x Hx. right. right. exact Hx.
      - eapply Hrec; [| |exact H']; [lia|]. intros x Hx. right. exact Hx. }
    destruct last as [lo|]; [|exact (Hsingle H)].
    destruct (c =? c_dash); [|exact (Hsingle H)].
    destruct s1 as [|d s2]; [exact (Hsingle H)|].
    destruct (d =? c_rbrack); [exact (Hsingle H)|].
    simpl in Hl.
    destruct (d =? c_bslash).
    + destruct s2 as [|e s3]; [discriminate|]. simpl in Hl. eapply Hrec; [| |exact H]; [lia|].
      intros x Hx. right. right. right. exact Hx.
    + eapply Hrec; [| |exact H]; [lia|]. intros x Hx. right. right. exact Hx.
Qed.

Lemma simple_tok_lit : forall c d, simple_tok c = TLit d -> d = c.
Proof.
  intros c d. unfold simple_tok.
  destruct (c =? c_star); [discriminate|]. destruct (c =? c_quest); [discriminate|].
  destruct (c =? c_lbrace); [discriminate|]. destruct (c =? c_rbrace); [discriminate|].
  destruct (c =? c_comma); [discriminate|]. intros H. inversion H. reflexivity.
Qed.

Lemma lex_f_lits : forall f s ts, lex_f f s = Some ts -> forall c, In (TLit c) ts -> In c s.
Proof.
  induction f as [|f IH]; intros s ts H c Hin; [discriminate|].
  destruct s as [|a s1]; simpl in H.
  - inversion H; subst. destruct Hin.
  - destruct (a =? c_bslash).
    + destruct s1 as [|e s2]; [discriminate|].
      destruct (lex_f f s2) as [ts'|] eqn:E; [|discriminate]. simpl in H. inversion H; subst.
      destruct Hin as [Hin|Hin].
      * inversion Hin; subst. right. left. reflexivity.
      * right. right. eapply IH; eassumption.
    + destruct (a =? c_lbrack).
      * remember (match s1 with
                  | d :: s2 => if (d =? c_bang) || (d =? c_caret) then (true, s2) else (false, s1)
                  | [] => (false, s1)
                  end) as ns eqn:Ens.
        destruct ns as [neg s2].
        assert (Hs2 : incl s2 s1).
        { destruct s1 as [|d s1']; [inversion Ens; subst; intros x Hx; exact Hx|].
          destruct ((d =? c_bang) || (d =? c_caret)); inversion Ens; subst; intros x Hx; [right|]; exact Hx. }
        destruct (lex_class neg [] None s2) as [[t rest]|] eqn:Ec; [|discriminate].
        destruct (lex_f f rest) as [ts'|] eqn:E; [|discriminate]. simpl in H. inversion H; subst.
        destruct (lex_class_rest (length s2) s2 (le_n _) _ _ _ _ _ Ec) as [Hc Hr].
        destruct Hin as [Hin|Hin].
        -- subst t. destruct Hc.
        -- right. apply Hs2, Hr. eapply IH; eassumption.
      * destruct (lex_f f s1) as [ts'|] eqn:E; [|discriminate]. simpl in H. inversion H; subst.
        destruct Hin as [Hin|Hin].
        -- apply simple_tok_lit in Hin. subst. left. reflexivity.
        -- right. eapply IH; eassumption.
Qed.

(* ---- expansion keeps a property of the terms ------------------------------------------------ *)
Section Expand.
Variable Q : xcpat -> Prop.

Definition tokQ (t : tok) : Prop :=
  match t with
  | TLit c => Q (XLit c) | TAny => Q XAny | TStar => Q XStar | TClass n i => Q (XClass n i)
  | TOpen => True | TComma => Q (XLit c_comma) | TClose => Q (XLit c_rbrace)
  end.

Definition allQ (l : list xpat) : Prop := Forall (Forall Q) l.
Definition state_ok (st : xstate) : Prop :=
  allQ (fst st) /\ Forall (fun fr : xframe => allQ (fst fr) /\ allQ (snd fr)) (snd st).

Lemma xappend_ok : forall cur x, allQ cur -> Q x -> allQ (xappend cur x).
Proof.
  intros cur x H Hx. unfold allQ, xappend in *. rewrite Forall_forall in *. intros e He.
  apply in_map_iff in He as [e0 [<- He0]]. apply Forall_app. split; [apply H, He0|constructor; [exact Hx|constructor]].
Qed.

Lemma xproduct_ok : forall outer alts, allQ outer -> allQ alts -> allQ (xproduct outer alts).
Proof.
  intros outer alts Ho Ha. unfold allQ, xproduct in *. rewrite Forall_forall in *. intros e He.
  apply in_flat_map in He as [o [Hino He]]. apply in_map_iff in He as [a [<- Hina]].
  apply Forall_app. split; [apply Ho, Hino|apply Ha, Hina].
Qed.

Lemma allQ_app : forall a b, allQ a -> allQ b -> allQ (a ++ b).
Proof. intros a b Ha Hb. apply Forall_app. split; assumption. Qed.

Lemma allQ_nil1 : allQ [[]].
Proof. constructor; constructor. Qed.

Lemma xstep_ok : forall st t, state_ok st -> tokQ t -> state_ok (xstep st t).
Proof.
  intros [cur stack] t [Hc Hs] Ht. simpl in Hc, Hs.
  destruct t; simpl in Ht; simpl;
    try (split; simpl; [apply xappend_ok; assumption|assumption]).
  - (* TOpen *) split; simpl; [apply allQ_nil1|]. constructor; [|assumption]. simpl. split; [assumption|constructor].
  - (* TComma *) destruct stack as [|[outer alts] stack'].
    + split; simpl; [apply xappend_ok; assumption|constructor].
    + inversion Hs as [|? ? [Ho Ha] Hs']; subst. simpl in Ho, Ha. split; simpl; [apply allQ_nil1|].
      constructor; [|assumption]. simpl. split; [assumption|apply allQ_app; assumption].
  - (* TClose *) destruct stack as [|[outer alts] stack'].
    + split; simpl; [apply xappend_ok; assumption|constructor].
    + inversion Hs as [|? ? [Ho Ha] Hs']; subst. simpl in Ho, Ha. split; simpl; [|assumption].
      apply xproduct_ok; [assumption|apply allQ_app; assumption].
Qed.

Lemma fold_xstep_ok : forall ts st, state_ok st -> Forall tokQ ts -> state_ok (fold_left xstep ts st).
Proof.
  induction ts as [|t ts IH]; intros st Hst Hts; simpl; [assumption|].
  inversion Hts; subst. apply IH; [apply xstep_ok; assumption|assumption].
Qed.

Lemma expand_ok : forall ts es, Forall tokQ ts -> expand ts = Some es -> allQ es.
Proof.
  intros ts es Hts H. unfold expand, expand_state in H.
  assert (Hok : state_ok (fold_left xstep ts ([[]], []))).
  { apply fold_xstep_ok; [|assumption]. split; simpl; [apply allQ_nil1|constructor]. }
  destruct (fold_left xstep ts ([[]], [])) as [cur stack]. destruct stack; [|discriminate].
  inversion H; subst. apply Hok.
Qed.
End Expand.

(* ---- a pattern without '/' ------------------------------------------------------------------ *)
Definition has_slash_str (p : str) : bool := existsb (N.eqb c_slash) p.

Definition no_xslash (x : xcpat) : Prop := is_xslash x = false.

Lemma slashless_expansions : forall p, has_slash_str p = false -> Forall (Forall no_xslash) (expansions p).
Proof.
  intros p Hp. unfold expansions. destruct (lex p) as [ts|] eqn:El; [|constructor].
  destruct (expand ts) as [es|] eqn:Ee; [|constructor].
  apply (expand_ok no_xslash ts es); [|assumption].
  assert (Hnot : ~ In c_slash p).
  { intros Hin. assert (existsb (N.eqb c_slash) p = true) by (apply existsb_exists; exists c_slash; split; [assumption|apply N.eqb_refl]).
    unfold has_slash_str in Hp. congruence. }
  apply Forall_forall. intros t Ht. destruct t; simpl; try reflexivity; try exact I.
  unfold no_xslash. simpl. apply N.eqb_neq. intros ->. apply Hnot. eapply lex_f_lits; eassumption.
Qed.

Lemma xsplit_single : forall e, Forall no_xslash e -> xsplit e = [e].
Proof.
  induction e as [|x e IH]; intros H; [reflexivity|].
  inversion H as [|? ? Hx He]; subst. simpl. unfold no_xslash in Hx. rewrite Hx, (IH He). reflexivity.
Qed.

(* one segment of pattern: either "**" (matches everything) or it matches one-segment paths only *)
Lemma single_segment_name : forall e d b, Forall no_xslash e ->
  xsegs_match (xparse e) (d ++ [b]) = true -> xsegs_match (xparse e) [b] = true.
Proof.
  intros e d b He H. unfold xparse in *. rewrite (xsplit_single e He) in *. simpl in *. unfold to_xspat in *.
  destruct (is_xdstar e); [reflexivity|].
  destruct d as [|n d']; [exact H|]. simpl in H.
  destruct d'; simpl in H; rewrite andb_false_r in H; discriminate.
Qed.

(* what a pattern without '/' says about a file at any depth, it says about the file's name *)
Theorem xglob_slashless_name : forall p d b, has_slash_str p = false ->
  xglob p (d ++ [b]) = true -> xglob p [b] = true.
Proof.
  intros p d b Hp H. unfold xglob in *. pose proof (slashless_expansions p Hp) as Hall.
  rewrite Forall_forall in Hall.
  apply existsb_exists in H as [e [Hin He]]. apply existsb_exists. exists e. split; [assumption|].
  eapply single_segment_name; [apply Hall, Hin|eassumption].
Qed.

(* ---- conservative over Cli/Glob.v ------------------------------------------------------------ *)
Definition xc (c : N) : xcpat := if c =? c_star then XStar else if c =? c_quest then XAny else XLit c.


Lemma meta_free_neq : forall c, meta_free c = true ->
  (c =? c_lbrack) = false /\ (c =? c_rbrack) = false /\ (c =? c_lbrace) = false /\ (c =? c_rbrace) = false /\ (c =? c_bslash) = false.
Proof.
  intros c H. unfold meta_free in H. apply negb_true_iff in H.
  repeat (apply orb_false_iff in H as [H ?]). repeat split; assumption.
Qed.

(* reading a pattern without [ ] { } \ : one token per character *)
Lemma lex_f_meta_free : forall s f, forallb meta_free s = true -> (length s < f)%nat ->
  lex_f f s = Some (map simple_tok s).
Proof.
  induction s as [|c s IH]; intros f Hm Hf.
  - destruct f; [simpl in Hf; lia|reflexivity].
  - destruct f; [simpl in Hf; lia|]. simpl in Hm, Hf. apply andb_true_iff in Hm as [Hc Hm].
    destruct (meta_free_neq c Hc) as (H1 & H2 & H3 & H4 & H5).
    simpl. rewrite H5, H1. rewrite (IH f Hm); [reflexivity|lia].
Qed.

Lemma xstep_meta_free : forall c acc, meta_free c = true ->
  xstep ([acc], []) (simple_tok c) = ([acc ++ [xc c]], []).
Proof.
  intros c acc Hc. destruct (meta_free_neq c Hc) as (H1 & H2 & H3 & H4 & H5).
  unfold simple_tok, xc. rewrite H3, H4.
  destruct (c =? c_star); [reflexivity|]. destruct (c =? c_quest); [reflexivity|].
  destruct (c =? c_comma) eqn:E; [|reflexivity]. apply N.eqb_eq in E. subst. reflexivity.
Qed.

Lemma fold_xstep_meta_free : forall s acc, forallb meta_free s = true ->
  fold_left xstep (map simple_tok s) ([acc], []) = ([acc ++ map xc s], []).
Proof.
  induction s as [|c s IH]; intros acc Hm; cbn [fold_left map].
  - rewrite app_nil_r. reflexivity.
  - simpl in Hm. apply andb_true_iff in Hm as [Hc Hm].
    rewrite (xstep_meta_free c acc Hc), (IH _ Hm), <- app_assoc. reflexivity.
Qed.

Lemma expansions_meta_free : forall p, forallb meta_free p = true -> expansions p = [map xc p].
Proof.
  intros p Hm. unfold expansions, lex. rewrite (lex_f_meta_free p _ Hm (PeanoNat.Nat.lt_succ_diag_r _)).
  cbv beta iota. unfold expand, expand_state. set (st := fold_left _ _ _).
  assert (E : st = ([map xc p], [])) by (subst st; apply (fold_xstep_meta_free p [] Hm)).
  rewrite E. reflexivity.
Qed.

Lemma is_xslash_xc : forall c, is_xslash (xc c) = (c =? c_slash).
Proof.
  intros c. unfold xc. destruct (c =? c_star) eqn:E1; [apply N.eqb_eq in E1; subst; reflexivity|].
  destruct (c =? c_quest) eqn:E2; [apply N.eqb_eq in E2; subst; reflexivity|]. reflexivity.
Qed.

Lemma xsplit_xc : forall p, xsplit (map xc p) = map (map xc) (split_on c_slash p).
Proof.
  induction p as [|c p IH]; [reflexivity|]. simpl. rewrite is_xslash_xc, IH.
  destruct (c =? c_slash); [reflexivity|]. destruct (split_on c_slash p); reflexivity.
Qed.

Lemma xc_star : forall c, (xc c = XStar <-> c = c_star).
Proof.
  intros c. unfold xc. destruct (c =? c_star) eqn:E.
  - apply N.eqb_eq in E. tauto.
  - apply N.eqb_neq in E. destruct (c =? c_quest); split; intros H; try discriminate; contradiction.
Qed.

Lemma is_xdstar_xc : forall s, is_xdstar (map xc s) = is_dstar s.
Proof.
  intros s. destruct s as [|a [|b [|c s]]]; try reflexivity; simpl.
  - unfold xc. destruct (a =? c_star); [reflexivity|]. destruct (a =? c_quest); reflexivity.
  - unfold xc. destruct (a =? c_star); simpl; [|destruct (a =? c_quest); reflexivity].
    destruct (b =? c_star); [reflexivity|]. destruct (b =? c_quest); reflexivity.
  - unfold xc. destruct (a =? c_star); simpl; [|destruct (a =? c_quest); reflexivity].
    destruct (b =? c_star); simpl; [reflexivity|]. destruct (b =? c_quest); reflexivity.
Qed.

Lemma xseg_match_xc : forall s n, xseg_match (map xc s) n = seg_match (map parse_cpat s) n.
Proof.
  induction s as [|c s IH]; intros n; [reflexivity|].
  simpl. unfold xc at 1, parse_cpat at 1.
  destruct (c =? c_star).
  - induction n as [|x n IHn]; simpl; rewrite IH; [reflexivity|]. simpl in IHn. rewrite IHn. reflexivity.
  - destruct (c =? c_quest); destruct n; simpl; try reflexivity; rewrite IH; reflexivity.
Qed.

Lemma xsegs_match_xc : forall segs ns,
  xsegs_match (map to_xspat (map (map xc) segs)) ns = segs_match (map parse_seg segs) ns.
Proof.
  induction segs as [|s segs IH]; intros ns; [reflexivity|].
  simpl. unfold to_xspat at 1, parse_seg at 1. rewrite is_xdstar_xc.
  destruct (is_dstar s).
  - destruct segs as [|s2 segs']; [reflexivity|].
    remember (s2 :: segs') as rest.
    assert (Hne : map to_xspat (map (map xc) rest) <> [] /\ map parse_seg rest <> []) by (subst; split; discriminate).
    destruct Hne as [H1 H2].
    destruct (map to_xspat (map (map xc) rest)) as [|x xs] eqn:E1; [contradiction|].
    destruct (map parse_seg rest) as [|y ys] eqn:E2; [contradiction|].
    induction ns as [|n ns IHn]; rewrite IH; [reflexivity|]. rewrite IHn. reflexivity.
  - destruct ns as [|n ns]; [reflexivity|]. rewrite xseg_match_xc, IH. reflexivity.
Qed.

(* on the patterns of Cli/Glob.v the two matchers are one *)
Theorem xglob_conservative : forall p path, forallb meta_free p = true -> xglob p path = glob p path.
Proof.
  intros p path Hm. unfold xglob, glob, xparse, parse_pattern. rewrite (expansions_meta_free p Hm). simpl.
  rewrite orb_false_r, xsplit_xc, xsegs_match_xc. reflexivity.
Qed.

Corollary xglob_conservative_ok : forall p path, pat_ok p = true -> xglob p path = glob p path.
Proof.
  intros p path H. apply xglob_conservative. unfold pat_ok in H.
  apply andb_true_iff in H as [H _]. apply andb_true_iff in H as [_ H]. exact H.
Qed.
