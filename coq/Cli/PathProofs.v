(* Facts about the model of path/filepath Clean, Join, Abs (Cli/FileSel.v). *)
From Coq Require Import NArith List Bool Lia.
From PV Require Import Gen.FileSelConst Cli.Glob Cli.FileSel.
Import ListNotations.
Open Scope N_scope.

Lemma str_eqb_eq : forall a b, str_eqb a b = true <-> a = b.
Proof.
  induction a as [|x a IH]; intros [|y b]; simpl; split; intros H; try congruence; try discriminate.
  - apply andb_true_iff in H as [H1 H2]. apply N.eqb_eq in H1. apply IH in H2. congruence.
  - inversion H; subst. rewrite N.eqb_refl. simpl. apply IH. reflexivity.
Qed.

Lemma str_eqb_refl : forall a, str_eqb a a = true.
Proof. intros a. apply str_eqb_eq. reflexivity. Qed.

Lemma names_eqb_eq : forall a b, names_eqb a b = true <-> a = b.
Proof.
  induction a as [|x a IH]; intros [|y b]; simpl; split; intros H; try congruence; try discriminate.
  - apply andb_true_iff in H as [H1 H2]. apply str_eqb_eq in H1. apply IH in H2. congruence.
  - inversion H; subst. rewrite str_eqb_refl. simpl. apply IH. reflexivity.
Qed.

Lemma spath_eqb_eq : forall a b, spath_eqb a b = true <-> a = b.
Proof.
  intros [ra sa] [rb sb]. unfold spath_eqb. simpl. split; intros H.
  - apply andb_true_iff in H as [H1 H2]. apply Bool.eqb_prop in H1. apply names_eqb_eq in H2. congruence.
  - inversion H; subst. rewrite Bool.eqb_reflx. simpl. apply names_eqb_eq. reflexivity.
Qed.

(* an element that Clean keeps and that is not ".." *)
Definition pushable (s : name) : Prop := is_skip_seg s = false /\ is_dotdot s = false.

Lemma plain_pushable : forall n, plain n = true -> pushable n.
Proof.
  intros n H. unfold plain in H. repeat (apply andb_true_iff in H as [H ?]).
  unfold pushable, is_skip_seg, is_dotdot.
  rewrite negb_true_iff in *. rewrite H. simpl. split; assumption.
Qed.

Lemma clean_step_push : forall r st s, pushable s -> clean_step r st s = s :: st.
Proof. intros r st s [H1 H2]. unfold clean_step. rewrite H1, H2. reflexivity. Qed.

Lemma fold_push_all : forall r l st, Forall pushable l -> fold_left (clean_step r) l st = rev l ++ st.
Proof.
  induction l as [|s l IH]; intros st H; simpl; [reflexivity|].
  inversion H; subst. rewrite clean_step_push by assumption. rewrite IH by assumption.
  rewrite <- app_assoc. reflexivity.
Qed.

(* a rooted cleaned path has only pushable elements *)
Lemma clean_step_true_pushable : forall st s, Forall pushable st -> Forall pushable (clean_step true st s).
Proof.
  intros st s H. unfold clean_step.
  destruct (is_skip_seg s) eqn:E1; [assumption|].
  destruct (is_dotdot s) eqn:E2.
  - destruct st as [|top st']; [constructor|].
    inversion H; subst. destruct H2 as [_ H2]. rewrite H2. assumption.
  - constructor; [split; assumption|assumption].
Qed.

Lemma fold_true_pushable : forall l st, Forall pushable st -> Forall pushable (fold_left (clean_step true) l st).
Proof.
  induction l as [|s l IH]; intros st H; simpl; [assumption|].
  apply IH. apply clean_step_true_pushable. assumption.
Qed.

(* an unrooted cleaned path has no "" or "." elements *)
Definition kept (s : name) : Prop := is_skip_seg s = false.

Lemma clean_step_kept : forall r st s, Forall kept st -> Forall kept (clean_step r st s).
Proof.
  intros r st s H. unfold clean_step.
  destruct (is_skip_seg s) eqn:E1; [assumption|].
  destruct (is_dotdot s) eqn:E2.
  - destruct st as [|top st'].
    + destruct r; constructor; [assumption|constructor].
    + destruct (is_dotdot top); [constructor; assumption|]. inversion H; assumption.
  - constructor; assumption.
Qed.

Lemma fold_kept : forall r l st, Forall kept st -> Forall kept (fold_left (clean_step r) l st).
Proof.
  induction l as [|s l IH]; intros st H; simpl; [assumption|].
  apply IH. apply clean_step_kept. assumption.
Qed.

(* cleaning an unrooted path and then resolving it from a directory = resolving it directly *)
Lemma fold_clean_then_abs : forall l u stc, Forall kept u ->
  fold_left (clean_step true) (rev (fold_left (clean_step false) l u)) stc =
  fold_left (clean_step true) l (fold_left (clean_step true) (rev u) stc).
Proof.
  induction l as [|s l IH]; intros u stc Hu; simpl; [reflexivity|].
  rewrite IH by (apply clean_step_kept; assumption). f_equal.
  unfold clean_step at 2 3.
  destruct (is_skip_seg s) eqn:E1; [reflexivity|].
  destruct (is_dotdot s) eqn:E2.
  - destruct u as [|top u'].
    + simpl. unfold clean_step. rewrite E1, E2. reflexivity.
    + destruct (is_dotdot top) eqn:E3.
      * change (rev (s :: top :: u')) with (rev (top :: u') ++ [s]).
        rewrite fold_left_app. simpl. unfold clean_step at 1. rewrite E1, E2. reflexivity.
      * change (rev (top :: u')) with (rev u' ++ [top]).
        rewrite fold_left_app. simpl.
        inversion Hu; subst.
        rewrite (clean_step_push true _ top) by (split; assumption).
        rewrite E3. reflexivity.
  - change (rev (s :: u)) with (rev u ++ [s]).
    rewrite fold_left_app. simpl. unfold clean_step at 1. rewrite E1, E2. reflexivity.
Qed.

Lemma abs_rooted : forall cwd p, rooted (abs cwd p) = true.
Proof. intros cwd [[|] sg]; reflexivity. Qed.

Lemma abs_segs_pushable : forall cwd p, Forall pushable (segs (abs cwd p)).
Proof.
  intros cwd [[|] sg]; unfold abs, clean; simpl; apply Forall_rev; apply fold_true_pushable; constructor.
Qed.

(* the stack Abs computes *)
Definition abs_stack (cwd : list name) (p : spath) : list name :=
  if rooted p then fold_left (clean_step true) (segs p) []
  else fold_left (clean_step true) (segs p) (fold_left (clean_step true) cwd []).

Lemma abs_segs : forall cwd p, segs (abs cwd p) = rev (abs_stack cwd p).
Proof.
  intros cwd [[|] sg]; unfold abs, abs_stack, clean; simpl; [reflexivity|].
  rewrite fold_left_app. reflexivity.
Qed.

(* filepath.Abs(filepath.Join(p, n)) = Abs(p) + "/" + n for an ordinary name n *)
Theorem abs_join : forall cwd p n, plain n = true ->
  segs (abs cwd (join p n)) = segs (abs cwd p) ++ [n].
Proof.
  intros cwd [r sg] n Hn. apply plain_pushable in Hn.
  rewrite !abs_segs. unfold join, clean. simpl rooted. simpl segs.
  assert (E : fold_left (clean_step r) (sg ++ [n]) [] = n :: fold_left (clean_step r) sg []).
  { rewrite fold_left_app. simpl. apply clean_step_push. assumption. }
  rewrite E. simpl is_nil. rewrite andb_false_r.
  change (rev (n :: fold_left (clean_step r) sg [])) with (rev (fold_left (clean_step r) sg []) ++ [n]).
  destruct r; unfold abs_stack; cbn [rooted segs].
  - (* rooted *)
    rewrite fold_left_app. cbn [fold_left].
    assert (Hp : Forall pushable (fold_left (clean_step true) sg [])) by (apply fold_true_pushable; constructor).
    rewrite fold_push_all by (apply Forall_rev; assumption).
    rewrite rev_involutive, app_nil_r. rewrite clean_step_push by assumption. reflexivity.
  - (* relative *)
    rewrite fold_left_app. cbn [fold_left]. rewrite clean_step_push by assumption.
    rewrite fold_clean_then_abs by constructor. reflexivity.
Qed.

Lemma abs_eq_iff_segs : forall cwd cwd' p q, abs cwd p = abs cwd' q <-> segs (abs cwd p) = segs (abs cwd' q).
Proof.
  intros. split; [congruence|]. intros H.
  destruct (abs cwd p) as [r1 s1] eqn:E1, (abs cwd' q) as [r2 s2] eqn:E2. simpl in H. subst.
  assert (r1 = true) by (pose proof (abs_rooted cwd p) as X; rewrite E1 in X; exact X).
  assert (r2 = true) by (pose proof (abs_rooted cwd' q) as X; rewrite E2 in X; exact X).
  congruence.
Qed.

(* the last element of a spelling, when it is an ordinary name, is the last element of the location *)
Lemma abs_last_plain : forall cwd p d n, segs p = d ++ [n] -> plain n = true ->
  exists loc, segs (abs cwd p) = loc ++ [n].
Proof.
  intros cwd [r sg] d n Hs Hn. simpl in Hs. subst sg. apply plain_pushable in Hn.
  rewrite abs_segs. unfold abs_stack. simpl rooted. simpl segs.
  destruct r; rewrite fold_left_app; simpl fold_left; rewrite clean_step_push by assumption; simpl rev; eexists; reflexivity.
Qed.
