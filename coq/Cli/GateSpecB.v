(* Cli/GateSpecB.v — the boolean specification evaluated by the harness is the specification. *)
From Coq Require Import ZArith List Bool Lia.
From PV Require Import Gen.DomainConst Gen.CheckConst Cli.Gate Cli.GateProofs Cli.GateRun.
Import ListNotations.
Open Scope Z_scope.

Lemma existsb_single_iff l a : existsb (fun x => existsb (sel_eqb x) [a]) l = true <-> In a l.
Proof.
  rewrite existsb_exists. split.
  - intros [x [Hx H]]. cbn in H. rewrite orb_false_r in H. apply sel_eqb_eq in H. subst; exact Hx.
  - intros H. exists a. split; [exact H|]. cbn. destruct a; reflexivity.
Qed.

Lemma selb_cx_iff f : selb f true [SComplexity] = true <-> sel_cx f.
Proof.
  unfold selb, sel_cx. destruct (f_select f) eqn:E; [split; auto|]. rewrite existsb_single_iff.
  split; [auto|intros [H|H]; [discriminate|auto]].
Qed.
Lemma selb_dead_iff f : selb f true [SDeadcode] = true <-> sel_dead f.
Proof.
  unfold selb, sel_dead. destruct (f_select f) eqn:E; [split; auto|]. rewrite existsb_single_iff.
  split; [auto|intros [H|H]; [discriminate|auto]].
Qed.
Lemma selb_mock_iff f : selb f false [SMockdata] = true <-> sel_mock f.
Proof.
  unfold selb, sel_mock. destruct (f_select f) eqn:E; [split; [discriminate|intros []]|]. apply existsb_single_iff.
Qed.
Lemma selb_deps_iff f : selb f false [SDeps; SCircular] = true <-> sel_deps f.
Proof.
  unfold selb, sel_deps. destruct (f_select f) eqn:E; [split; [discriminate|intros [[]|[]]]|].
  rewrite existsb_exists. split.
  - intros [x [Hx H]]. cbn in H. rewrite orb_false_r in H. apply orb_true_iff in H as [H|H]; apply sel_eqb_eq in H; subst; auto.
  - intros [H|H]; [exists SDeps|exists SCircular]; split; auto.
Qed.

Lemma implb_iff (a b : bool) (A B : Prop) : (a = true <-> A) -> (b = true <-> B) -> (implb a b = true <-> (A -> B)).
Proof.
  intros HA HB. destruct a, b; cbn; split; intros H; try reflexivity; try discriminate H;
    try (intros X; apply HA in X; discriminate X);
    try (intros _; apply HB; reflexivity);
    try (exfalso; assert (X : false = true) by (apply HB, H, HA; reflexivity); discriminate X).
Qed.

Lemma forallb_pair_iff {A B} (p : A * B -> bool) (P : A -> B -> Prop) l :
  (forall a b, p (a, b) = true <-> P a b) ->
  (forallb p l = true <-> forall a b, In (a, b) l -> P a b).
Proof.
  intros H. rewrite forallb_forall. split.
  - intros F a b Hin. apply H, F, Hin.
  - intros F [a b] Hin. apply H, F, Hin.
Qed.

Lemma gate_spec_b_iff i : gate_spec_b i = true <-> gate_spec i.
Proof.
  unfold gate_spec_b, gate_spec. cbv zeta. rewrite !andb_true_iff.
  fold (validate_selected (f_select (i_flags i))). rewrite validate_selected_iff.
  rewrite (implb_iff _ _ _ _ (selb_cx_iff _) (iff_refl _)).
  rewrite (implb_iff _ _ _ _ (selb_dead_iff _) (iff_refl _)).
  rewrite (implb_iff _ _ _ _ (selb_deps_iff _) (iff_refl _)).
  rewrite (implb_iff _ _ _ _ (selb_mock_iff _) (iff_refl _)).
  rewrite !andb_true_iff, !orb_true_iff, !negb_true_iff, Z.leb_le.
  rewrite (forallb_pair_iff _ (fun _ cx => cx <= eff_max_complexity i)) by (intros; cbn [snd]; apply Z.leb_le).
  rewrite (forallb_pair_iff _ (fun _ sv => dead_level sv < dead_level gate_severity)) by (intros; cbn [snd]; apply Z.ltb_lt).
  rewrite (forallb_pair_iff _ (fun _ lv => lv < domain_level_MockDataSeverityWarning)) by (intros; cbn [snd]; apply Z.ltb_lt).
  tauto.
Qed.
