(* Cli/GateRoots.v — the circular-dependency step of `pyscn check` over several targets (property C19).

   Go code mirrored (read literally):
     cmd/pyscn/check.go   checkCircularDependencies (loop over the project roots, first failure ends the step),
                          dependencyProjectRoots (which targets are project roots),
                          checkCircularDependenciesIn (one root: Cli/Gate.v check_circular)

   Every target is a project root of its own; a target named again (same cleaned absolute path) counts at its first
   mention, a target inside another target is covered by that one.  A target is given by its cleaned absolute path
   (filepath.Abs), a list of names from the root; filepath.Rel of two such paths is "." when they are equal, starts
   with ".." when the base is not a prefix of the target, and is the remainder otherwise.

   Cli/Gate.v keeps one `results` record for the whole run: GateRootsProofs.v shows that it is the per-root results
   merged (cycles concatenated, the error flags or-ed).  No proofs in this file. *)
From Coq Require Import ZArith NArith List Bool Arith.
From PV Require Import Gen.DomainConst Gen.CheckConst Cli.Gate.
Import ListNotations.

Definition apath := list N.

Fixpoint is_prefix (u t : apath) : bool :=
  match u, t with
  | [], _ => true
  | a :: u', b :: t' => N.eqb a b && is_prefix u' t'
  | _ :: _, [] => false
  end.

Fixpoint apath_eqb (u t : apath) : bool :=
  match u, t with
  | [], [] => true
  | a :: u', b :: t' => N.eqb a b && apath_eqb u' t'
  | _, _ => false
  end.

(* filepath.Rel(base, t): "." / a path that does not start with ".." / a path that does *)
Inductive rel_kind := RelSame | RelInside | RelOutside.
Definition rel_of (base t : apath) : rel_kind :=
  if apath_eqb base t then RelSame else if is_prefix base t then RelInside else RelOutside.

(* the inner loop of dependencyProjectRoots for target i: is it covered by one of the targets j, j+1, ... *)
Fixpoint covered_from (j i : nat) (ti : apath) (ts : list apath) : bool :=
  match ts with
  | [] => false
  | tj :: rest =>
      (if Nat.eqb j i then false
       else match rel_of tj ti with
            | RelSame => Nat.ltb j i          (* same target: the first mention counts *)
            | RelInside => true
            | RelOutside => false
            end)
      || covered_from (S j) i ti rest
  end.

Fixpoint roots_from (all : list apath) (i : nat) (ts : list apath) : list apath :=
  match ts with
  | [] => []
  | ti :: rest => (if covered_from 0 i ti all then [] else [ti]) ++ roots_from all (S i) rest
  end.

(* dependencyProjectRoots; no target at all = the working directory *)
Definition dependency_project_roots (cwd : apath) (args : list apath) : list apath :=
  match args with
  | [] => [cwd]
  | _ => roots_from args 0 args
  end.

(* checkCircularDependencies: the roots one after the other (rs = what the analysis of each root returns); the lines of
   a root are printed as it is checked, the first failure ends the step with an error *)
Fixpoint check_circular_roots (f : flags) (rs : list results) : option Z * list line :=
  match rs with
  | [] => (Some 0%Z, [])
  | r :: rest =>
      match check_circular f r with
      | None => (None, [])
      | Some (n, ls) =>
          let '(m, ls') := check_circular_roots f rest in
          (option_map (Z.add n) m, ls ++ ls')
      end
  end.

(* the one `results` record of Cli/Gate.v that stands for the roots together (only the dependency fields matter here) *)
Definition merge_deps (rs : list results) : results :=
  Build_results [] false [] false [] false (flat_map r_cycles rs) (existsb r_deps_err rs) [] false.
