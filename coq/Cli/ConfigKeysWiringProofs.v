(* Cli/ConfigKeysWiringProofs.v — lemmas about the instances of Cli/ConfigKeysWiring.v (cited by Props/C17.v). *)
From Coq Require Import ZArith QArith Bool List Lia.
From PV Require Import Gen.DomainConst Gen.ConfigConst Cli.ConfigKeys Cli.ConfigKeysProofs Cli.ConfigKeysWiring.
Import ListNotations.
Open Scope Z_scope.

(* ---------------------------------------------------------------- [clones] skip_docstrings *)

Lemma skip_docstrings_full : forall file,
  spec_ok key_clones_skip_docstrings file (key_model key_clones_skip_docstrings file) = true.
Proof. intros file. apply key_pointer_full; reflexivity. Qed.

Lemma skip_docstrings_values :
  key_model key_clones_skip_docstrings None = InForce 1 /\
  key_model key_clones_skip_docstrings (Some 0) = InForce 0 /\
  key_model key_clones_skip_docstrings (Some 1) = InForce 1.
Proof. repeat split. Qed.

(* ---------------------------------------------------------------- [clones] max_edit_distance *)

Lemma max_edit_distance_positive : forall v, 0 < v ->
  spec_ok key_clones_max_edit_distance (Some v) (key_model key_clones_max_edit_distance (Some v)) = true.
Proof. intros v H. apply key_positive_full; [reflexivity | reflexivity | exact H]. Qed.

Lemma max_edit_distance_in_force : forall v, 0 < v -> key_model key_clones_max_edit_distance (Some v) = InForce v.
Proof.
  intros v H. unfold key_model, loaded. cbn [k_presence key_clones_max_edit_distance present].
  apply Z.ltb_lt in H. rewrite H. reflexivity.
Qed.

Lemma max_edit_distance_default :
  key_model key_clones_max_edit_distance None = InForce default_clones_max_edit_distance /\ default_clones_max_edit_distance = 500000.
Proof. split; reflexivity. Qed.

(* what remains: the presence test is `> 0`, so 0 (the detector's "no limit") in the file reads as an absent key *)
Lemma max_edit_distance_zero_is_absent :
  key_model key_clones_max_edit_distance (Some 0) = key_model key_clones_max_edit_distance None.
Proof. reflexivity. Qed.

(* ---------------------------------------------------------------- [output] format *)

Lemma output_format_in_force : forall v, fmt_json <= v <= fmt_html -> key_model key_output_format (Some v) = InForce v.
Proof.
  intros v H. unfold fmt_json, fmt_html in H.
  assert (E : v = 2 \/ v = 3 \/ v = 4 \/ v = 5) by lia.
  destruct E as [E|[E|[E|E]]]; subst v; reflexivity.
Qed.

Lemma output_format_full : forall v, fmt_json <= v <= fmt_html ->
  spec_ok key_output_format (Some v) (key_model key_output_format (Some v)) = true.
Proof. intros v H. rewrite (output_format_in_force v H). apply spec_inforce_refl. Qed.

Lemma output_format_absent : key_model key_output_format None = InForce fmt_html.
Proof. reflexivity. Qed.

Lemma output_format_invalid_rejected : forall v, v <= 0 \/ 6 <= v -> v <> 0 -> key_model key_output_format (Some v) = Rejected.
Proof.
  intros v H N. unfold key_model, loaded. cbn [k_presence key_output_format present].
  destruct (v =? 0) eqn:E; [apply Z.eqb_eq in E; contradiction|]. cbn [negb].
  unfold in_range. cbn [k_lo k_hi k_default key_output_format]. unfold fmt_html.
  change (1 <=? 5) with true. cbv iota.
  destruct H as [H|H].
  - replace (1 <=? v) with false by (symmetry; apply Z.leb_gt; lia).
    replace (v =? 5) with false by (symmetry; apply Z.eqb_neq; lia). reflexivity.
  - replace (v <=? 5) with false by (symmetry; apply Z.leb_gt; lia).
    replace (v =? 5) with false by (symmetry; apply Z.eqb_neq; lia).
    rewrite andb_false_r. reflexivity.
Qed.

(* ---------------------------------------------------------------- [dead_code] enabled *)

Lemma dead_code_enabled_full : forall file,
  spec_ok key_dead_code_enabled file (key_model key_dead_code_enabled file) = true.
Proof. intros file. apply key_pointer_full; reflexivity. Qed.

Lemma dead_code_runs_full : forall select skip file, dead_code_runs select skip file = dead_code_runs_spec select skip file.
Proof. reflexivity. Qed.

(* an analysis named with --select runs whatever the file says; --skip-deadcode wins over enabled = true *)
Lemma dead_code_runs_flags_win : forall file,
  dead_code_runs (Some true) false file = true /\ dead_code_runs (Some false) false file = false /\ dead_code_runs None true file = false.
Proof. intros file. repeat split. Qed.

(* ---------------------------------------------------------------- [dead_code] detect_* *)

Lemma reported_spec : forall d fs, reported d fs = filter (switch_of d) fs.
Proof. reflexivity. Qed.

Lemma reported_iff : forall d fs r, In r (reported d fs) <-> In r fs /\ switch_of d r = true.
Proof. intros d fs r. rewrite reported_spec. apply filter_In. Qed.

Lemma reported_all_on : forall fs, reported (mk_detect true true true true true) fs = fs.
Proof.
  intros fs. rewrite reported_spec. induction fs as [|r fs IH]; [reflexivity|].
  cbn [filter]. replace (switch_of (mk_detect true true true true true) r) with true by (destruct r; reflexivity).
  rewrite IH. reflexivity.
Qed.

(* ---------------------------------------------------------------- file patterns *)

Lemma fallback_patterns_are_config_defaults : fallback_patterns = config_default_patterns.
Proof. reflexivity. Qed.
