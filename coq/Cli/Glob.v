(* Model of the subset of github.com/bmatcuk/doublestar/v4 Match (v4.10.0, match.go) that
   pyscn's file selection uses: literals, `?`, `*` (never crosses a slash), `**` as a whole
   path segment (zero or more segments), `/`.  Strings are lists of character codes (N);
   a path is matched as its list of `/`-separated segments.

   The matcher is *semantic* (segment-wise), not a transcription of doublestar's index
   machine; it is tied to the library by the exhaustive differential test of harness/c18.py
   (all patterns x all names over a small alphabet up to a length bound, plus the realistic
   vocabulary) on the domain [pat_ok p] and names whose last segment is not empty.
   Outside [pat_ok] doublestar has end-of-name quirks that are not modelled:
   "a***" does not match "a", "a*/**" does not match "a", "a/**/**" does not match "a",
   character classes, alternatives and escapes are absent. *)
From Coq Require Import NArith List Bool.
Import ListNotations.
Open Scope N_scope.

Definition str := list N.

Fixpoint str_eqb (a b : str) : bool :=
  match a, b with
  | [], [] => true
  | x :: a', y :: b' => (x =? y) && str_eqb a' b'
  | _, _ => false
  end.

Definition c_slash : N := 47.
Definition c_star : N := 42.
Definition c_quest : N := 63.
Definition c_dot : N := 46.

(* strings.Split(s, sep): at least one segment *)
Fixpoint split_on (sep : N) (s : str) : list str :=
  match s with
  | [] => [[]]
  | c :: s' =>
      if c =? sep then [] :: split_on sep s'
      else match split_on sep s' with
           | h :: t => (c :: h) :: t
           | [] => [[c]]
           end
  end.

Inductive cpat := CLit (c : N) | CAny | CStar.
Inductive spat := SDStar | SSeg (cs : list cpat).

Definition parse_cpat (c : N) : cpat :=
  if c =? c_star then CStar else if c =? c_quest then CAny else CLit c.

Definition is_dstar (s : str) : bool :=
  match s with
  | [a; b] => (a =? c_star) && (b =? c_star)
  | _ => false
  end.

Definition parse_seg (s : str) : spat := if is_dstar s then SDStar else SSeg (map parse_cpat s).
Definition parse_pattern (p : str) : list spat := map parse_seg (split_on c_slash p).

Definition is_nil {A} (l : list A) : bool := match l with [] => true | _ => false end.

(* one segment: `*` any run of characters (a segment never contains a slash), `?` one character *)
Fixpoint seg_match (cs : list cpat) : str -> bool :=
  match cs with
  | [] => fun s => is_nil s
  | CLit c :: cs' => fun s => match s with x :: s' => (c =? x) && seg_match cs' s' | [] => false end
  | CAny :: cs' => fun s => match s with _ :: s' => seg_match cs' s' | [] => false end
  | CStar :: cs' =>
      fix star (s : str) : bool :=
        seg_match cs' s || match s with _ :: s' => star s' | [] => false end
  end.

(* whole pattern: a `**` segment stands for zero or more path segments; as the last
   segment it accepts whatever is left (match.go: "pattern ends in `/**`: return true",
   and isZeroLengthPattern for "/**" when the name is exhausted) *)
Fixpoint segs_match (ps : list spat) : list str -> bool :=
  match ps with
  | [] => fun ns => is_nil ns
  | SDStar :: ps' =>
      match ps' with
      | [] => fun _ => true
      | _ => fix dstar (ns : list str) : bool :=
               segs_match ps' ns || match ns with _ :: ns' => dstar ns' | [] => false end
      end
  | SSeg cs :: ps' => fun ns => match ns with n :: ns' => seg_match cs n && segs_match ps' ns' | [] => false end
  end.

(* doublestar.Match(pattern, path) for a path given by its segments *)
Definition glob (p : str) (path : list str) : bool := segs_match (parse_pattern p) path.
(* ... and for a path given as one string *)
Definition glob_str (p name : str) : bool := glob p (split_on c_slash name).

(* ---- the modelled subset ------------------------------------------------------------ *)
Definition meta_free (c : N) : bool :=   (* no [ ] { } \ *)
  negb ((c =? 91) || (c =? 93) || (c =? 123) || (c =? 125) || (c =? 92)).

Fixpoint has_two_stars (s : str) : bool :=
  match s with
  | a :: ((b :: _) as s') => ((a =? c_star) && (b =? c_star)) || has_two_stars s'
  | _ => false
  end.

Definition ends_with_star (s : str) : bool := match rev s with c :: _ => c =? c_star | [] => false end.

(* segments: no empty one after the first, `**` only as a whole segment, no `**` next to `**`,
   no "x*/**" ending *)
Fixpoint segs_ok (first : bool) (ss : list str) : bool :=
  match ss with
  | [] => true
  | s :: rest =>
      (first || negb (is_nil s)) &&
      (is_dstar s || negb (has_two_stars s)) &&
      match rest with
      | s2 :: rest2 =>
          negb (is_dstar s && is_dstar s2) &&
          negb (is_nil rest2 && is_dstar s2 && negb (is_dstar s) && ends_with_star s)
      | [] => true
      end &&
      segs_ok false rest
  end.

Definition pat_ok (p : str) : bool :=
  negb (is_nil p) && forallb meta_free p && segs_ok true (split_on c_slash p).

(* names the differential covers: last segment not empty (a file always has a base name) *)
Definition name_ok (n : str) : bool := negb (is_nil (last (split_on c_slash n) [])).

(* bit-packing used by the differential test: results of one pattern on a list of names *)
Definition glob_row (p : str) (names : list str) : N :=
  fold_left (fun acc n => 2 * acc + (if glob_str p n then 1 else 0)) names 0.
