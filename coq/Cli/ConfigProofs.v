(* Cli/ConfigProofs.v — lemmas about the option-precedence model Cli/Config.v (cited by Props/C17.v). *)
From Coq Require Import ZArith QArith List Bool Lia ZifyBool.
From PV Require Import Gen.DomainConst Gen.CheckConst Gen.ConfigConst Cli.Gate Cli.Config.
Import ListNotations.
Open Scope Z_scope.

Lemma wiring_ok_lemma : analyze_wiring_ok = true.
Proof. reflexivity. Qed.

(* ---------------------------------------------------------------- min-severity *)

Definition valid_opt (o : option severity) : Prop := forall s, o = Some s -> valid_sev s = true.

Lemma min_severity_full : forall flag file, valid_opt flag -> valid_opt file ->
  analyze_min_severity flag file = eff flag file default_min_severity.
Proof.
  intros flag file Hf Hc.
  destruct flag as [[]|]; destruct file as [[]|]; try reflexivity;
    try (specialize (Hf _ eq_refl); discriminate); try (specialize (Hc _ eq_refl); discriminate).
Qed.

Lemma min_severity_without_tracking_refuted :
  exists flag file, valid_opt flag /\ valid_opt file /\
    analyze_min_severity_with false flag file <> eff flag file default_min_severity.
Proof.
  exists (Some SevWarning), (Some SevCritical). repeat split.
  - intros s E; inversion E; reflexivity.
  - intros s E; inversion E; reflexivity.
  - vm_compute. discriminate.
Qed.

(* an unknown string: the flag falls back to warning, the file key too *)
Lemma min_severity_invalid_strings : forall flag file,
  analyze_min_severity (Some SevOther) file = SevWarning /\
  (valid_opt flag -> analyze_min_severity flag (Some SevOther) = eff flag None default_min_severity).
Proof.
  intros flag file. split.
  - destruct file as [[]|]; reflexivity.
  - intros Hf. destruct flag as [[]|]; try reflexivity. specialize (Hf _ eq_refl); discriminate.
Qed.

(* ---------------------------------------------------------------- min-cbo *)

Lemma min_cbo_full : forall flag file, analyze_min_cbo flag file = eff flag file analyze_flag_default_min_cbo.
Proof. intros [v|] [w|]; reflexivity. Qed.

Lemma min_cbo_without_tracking_refuted :
  exists flag file, analyze_min_cbo_with false flag file <> eff flag file analyze_flag_default_min_cbo.
Proof. exists (Some 0), (Some 3). vm_compute. discriminate. Qed.

(* ---------------------------------------------------------------- clone-threshold *)

Definition positive_file (file : option Q) : Prop := forall v, file = Some v -> (0 < v)%Q.

Lemma clone_threshold_full : forall flag file, positive_file file ->
  analyze_clone_threshold flag file = eff flag file analyze_flag_default_clone_threshold.
Proof.
  intros flag file H. unfold analyze_clone_threshold, analyze_clone_threshold_with, merge_similarity.
  destruct flag as [v|]; cbn [flag_var eff].
  - change analyze_explicit_clone_threshold with true. cbv iota.
    destruct (app_clone_merge_SimilarityThreshold_given v); reflexivity.
  - change (app_clone_merge_SimilarityThreshold_given analyze_flag_default_clone_threshold) with false. cbv iota.
    destruct file as [v|]; [|reflexivity].
    cbn [cfg_similarity]. unfold cfg_key_clones_similarity_threshold_given.
    destruct (Qle_bool v (0 # 1)) eqn:E; cbn [negb]; [|reflexivity].
    exfalso. apply Qle_bool_iff in E. specialize (H v eq_refl). exact (Qlt_not_le _ _ H E).
Qed.

(* `similarity_threshold = 0.0` in the file reads as "key absent" (`> 0` test on a non-pointer float) *)
Lemma clone_threshold_zero_file_refuted :
  exists v, (v == 0)%Q /\
    ~ (analyze_clone_threshold None (Some v) == eff None (Some v) analyze_flag_default_clone_threshold)%Q.
Proof. exists (0 # 1)%Q. split; [reflexivity|]. vm_compute. discriminate. Qed.

Lemma clone_threshold_nonpositive_file_is_absent : forall flag v, (v <= 0)%Q ->
  analyze_clone_threshold flag (Some v) = analyze_clone_threshold flag None.
Proof.
  intros flag v H. unfold analyze_clone_threshold, analyze_clone_threshold_with.
  destruct flag as [w|]; [reflexivity|].
  cbn [cfg_similarity]. unfold cfg_key_clones_similarity_threshold_given.
  apply Qle_bool_iff in H. rewrite H. reflexivity.
Qed.

Lemma clone_threshold_without_tracking_refuted :
  exists flag file, positive_file file /\
    ~ (analyze_clone_threshold_with false flag file == eff flag file analyze_flag_default_clone_threshold)%Q.
Proof.
  exists (Some (13 # 20)%Q), (Some (9 # 10)%Q). split.
  - intros v E; inversion E; reflexivity.
  - vm_compute. discriminate.
Qed.

(* ---------------------------------------------------------------- min-complexity *)

Lemma min_complexity_flag_wins : forall v fcx fout, analyze_min_complexity (Some v) fcx fout = v.
Proof. reflexivity. Qed.

Lemma min_complexity_file_never_read : forall flag fcx fout fcx' fout',
  analyze_min_complexity flag fcx fout = analyze_min_complexity flag fcx' fout'.
Proof. intros [v|] fcx fout fcx' fout'; reflexivity. Qed.

(* whichever key is taken to be "the" file key of the option *)
Lemma min_complexity_partial : forall flag fcx fout key,
  (flag = None -> forall v, key = Some v -> v = analyze_flag_default_min_complexity) ->
  analyze_min_complexity flag fcx fout = eff flag key analyze_flag_default_min_complexity.
Proof.
  intros [v|] fcx fout key H; [reflexivity|].
  destruct key as [w|]; [|reflexivity]. cbn [eff]. rewrite (H eq_refl w eq_refl). reflexivity.
Qed.

Lemma min_complexity_refuted :
  (exists v, analyze_min_complexity None None (Some v) <> eff None (Some v) analyze_flag_default_min_complexity) /\
  (exists v, analyze_min_complexity None (Some v) None <> eff None (Some v) analyze_flag_default_min_complexity).
Proof. split; exists 4; vm_compute; discriminate. Qed.

(* before the explicit-flag wrapper: --min-complexity 1 equals the merge sentinel and loses to [output] min_complexity *)
Lemma min_complexity_without_tracking_refuted :
  exists v w, analyze_min_complexity_with false (Some v) None (Some w) <> v.
Proof. exists 1, 6. vm_compute. discriminate. Qed.

(* ---------------------------------------------------------------- file-only thresholds *)

Lemma complexity_low_threshold_full : forall file,
  analyze_complexity_low_threshold file = eff None file domain_DefaultComplexityLowThreshold.
Proof. intros [v|]; reflexivity. Qed.

Lemma complexity_medium_threshold_full : forall file,
  analyze_complexity_medium_threshold file = eff None file domain_DefaultComplexityMediumThreshold.
Proof. intros [v|]; reflexivity. Qed.

Lemma lcom_low_threshold_full : forall file,
  analyze_lcom_low_threshold file = eff None file domain_DefaultLCOMLowThreshold.
Proof. intros [v|]; reflexivity. Qed.

Lemma lcom_medium_threshold_full : forall file,
  analyze_lcom_medium_threshold file = eff None file domain_DefaultLCOMMediumThreshold.
Proof. intros [v|]; reflexivity. Qed.

Lemma cbo_low_threshold_full : forall file,
  analyze_cbo_low_threshold file = eff None file domain_DefaultCBOLowThreshold.
Proof. intros [v|]; reflexivity. Qed.

Lemma cbo_medium_threshold_full : forall file,
  analyze_cbo_medium_threshold file = eff None file domain_DefaultCBOMediumThreshold.
Proof. intros [v|]; reflexivity. Qed.

(* ---------------------------------------------------------------- check --max-complexity *)

Lemma merged_max_of_file : forall v, merged_max_complexity (check_file_of (Some v)) = if v >? 0 then v else 0.
Proof. intros v. reflexivity. Qed.

Lemma check_max_complexity_full : forall flag file, (forall v, file = Some v -> 0 < v) ->
  check_max_complexity flag file = eff flag file check_flag_default_max_complexity.
Proof.
  intros [f|] file H; [reflexivity|].
  destruct file as [v|]; [|reflexivity].
  specialize (H v eq_refl).
  unfold check_max_complexity, max_complexity_threshold. cbn [check_flags_of f_max_complexity].
  rewrite merged_max_of_file. unfold check_cfg_max_given. cbn [eff].
  destruct (v >? 0) eqn:G; [rewrite G; reflexivity | lia].
Qed.

(* max_complexity = 0 ("no limit") or a negative value in the file reads as "key absent" *)
Lemma check_max_complexity_nonpositive_file : forall flag v, v <= 0 ->
  check_max_complexity flag (Some v) = eff flag None check_flag_default_max_complexity.
Proof.
  intros [f|] v H; [reflexivity|].
  unfold check_max_complexity, max_complexity_threshold. cbn [check_flags_of f_max_complexity].
  rewrite merged_max_of_file. unfold check_cfg_max_given. cbn [eff].
  destruct (v >? 0) eqn:G; [lia | reflexivity].
Qed.

(* the hypotheses are satisfiable *)
Lemma config_examples :
  analyze_min_severity (Some SevWarning) (Some SevCritical) = SevWarning /\
  analyze_min_severity None (Some SevCritical) = SevCritical /\
  analyze_min_cbo (Some 0) (Some 3) = 0 /\ analyze_min_cbo None (Some 3) = 3 /\
  analyze_min_complexity None None (Some 4) = 5 /\
  check_max_complexity None (Some 12) = 12 /\ check_max_complexity (Some 10) (Some 12) = 10.
Proof. repeat split. Qed.
