(* Model of pyscn's file selection: service/file_reader.go (CollectPythonFiles,
   collectFromDirectory, shouldIncludeFile, matchesPattern, shouldSkipDirectory,
   IsValidPythonFile, uniqueFiles) as called by app/analyze_usecase.go:207 with the
   patterns of getFilePatterns (Gen/FileSelConst.v).

   File system: a tree of names (no symlinks, no permission errors, ASCII names).
   A path *as spelled* on the command line is kept as written ([spath]: rooted flag +
   the `/`-separated segments after the leading slash), because the Go code joins,
   cleans and compares spelled paths; path/filepath Clean, Join and Abs are modelled
   ([clean], [join], [abs]).  filepath.Walk visits the entries of a directory in
   sorted order: the model walks the children in the order given (the harness gives
   them sorted); order is not part of the property.

   This file contains the executable model and the specification only; proofs are in
   Cli/FileSelProofs.v. *)
From Coq Require Import NArith List Bool.
From PV Require Import Gen.FileSelConst Cli.Glob Cli.GlobX.
Import ListNotations.
Open Scope N_scope.

Definition name := str.

(* ---- file system ----------------------------------------------------------------- *)
Inductive node := File (n : name) | Dir (n : name) (children : list node).
Definition node_name (nd : node) : name := match nd with File n => n | Dir n _ => n end.

Fixpoint find_child (n : name) (cs : list node) : option node :=
  match cs with
  | [] => None
  | c :: cs' => if str_eqb (node_name c) n then Some c else find_child n cs'
  end.

(* the node at an absolute location (names from the root directory) *)
Fixpoint lookup (nd : node) (loc : list name) : option node :=
  match loc with
  | [] => Some nd
  | n :: rest =>
      match nd with
      | Dir _ cs => match find_child n cs with Some c => lookup c rest | None => None end
      | File _ => None
      end
  end.

(* ---- spelled paths, path/filepath -------------------------------------------------- *)
Record spath := mkpath { rooted : bool; segs : list name }.

Definition dot : name := [c_dot].
Definition dotdot : name := [c_dot; c_dot].
Definition is_skip_seg (s : name) : bool := is_nil s || str_eqb s dot.
Definition is_dotdot (s : name) : bool := str_eqb s dotdot.

(* filepath.Clean, one path element at a time; [st] = cleaned elements so far, last first *)
Definition clean_step (r : bool) (st : list name) (s : name) : list name :=
  if is_skip_seg s then st
  else if is_dotdot s then
    match st with
    | top :: st' => if is_dotdot top then s :: st else st'
    | [] => if r then [] else [s]
    end
  else s :: st.

Definition clean (p : spath) : spath :=
  let st := fold_left (clean_step (rooted p)) (segs p) [] in
  mkpath (rooted p) (if negb (rooted p) && is_nil st then [dot] else rev st).

(* filepath.Join(p, n) *)
Definition join (p : spath) (n : name) : spath := clean (mkpath (rooted p) (segs p ++ [n])).

(* filepath.Abs(p) with working directory cwd (clean, absolute, given by its names) *)
Definition abs (cwd : list name) (p : spath) : spath :=
  if rooted p then clean p else clean (mkpath true (cwd ++ segs p)).

Fixpoint names_eqb (x y : list name) : bool :=
  match x, y with
  | [], [] => true
  | s :: x', t :: y' => str_eqb s t && names_eqb x' y'
  | _, _ => false
  end.
Definition spath_eqb (a b : spath) : bool := Bool.eqb (rooted a) (rooted b) && names_eqb (segs a) (segs b).

(* ---- file_reader.go predicates ----------------------------------------------------- *)
Definition to_lower (c : N) : N := if (65 <=? c) && (c <=? 90) then c + 32 else c.
Definition lower (s : str) : str := map to_lower s.

(* filepath.Ext: from the last dot of the last path element *)
Fixpoint ext (s : str) : str :=
  match s with
  | [] => []
  | c :: s' => match ext s' with
               | [] => if c =? c_dot then s else []
               | e => e
               end
  end.

(* file_reader.go:61 IsValidPythonFile *)
Definition is_valid_python_file (n : name) : bool :=
  existsb (str_eqb (lower (ext n))) filesel_python_exts.

(* strings.HasPrefix(info.Name(), ".") *)
Definition is_hidden (n : name) : bool := match n with c :: _ => c =? c_dot | [] => false end.

(* file_reader.go shouldSkipDirectory: filepath.Match(lower(skipDir), lower(name)) for some entry;
   the entries contain no metacharacter other than `*` *)
Definition should_skip_directory (n : name) : bool :=
  existsb (fun d => seg_match (map parse_cpat (lower d)) (lower n)) filesel_skip_dirs.

(* file_reader.go matchesPattern: the path inside the analysed directory, or — for a
   pattern without a slash — the file name.  doublestar.Match = Cli/GlobX.v [xglob]: the whole
   pattern language ([..], [!..], {..,..}, \c); on patterns without these it is Cli/Glob.v's
   [glob] (GlobXProofs.xglob_conservative). *)
Definition has_slash (p : str) : bool := existsb (N.eqb c_slash) p.
Definition matches_pattern (p : str) (rel : list name) : bool :=
  xglob p rel || (negb (has_slash p) && xglob p [last rel []]).

(* file_reader.go shouldIncludeFile *)
Definition should_include_file (rel : list name) (inc exc : list str) : bool :=
  if existsb (fun p => matches_pattern p rel) exc then false
  else if is_nil inc then true
  else existsb (fun p => matches_pattern p rel) inc.

(* ---- the walk: file_reader.go collectFromDirectory ----------------------------------- *)
Section Walk.
Variable recursive : bool.
Variables inc exc : list str.

(* walkFunc on one directory entry [nd] found in the directory spelled [path], which lies
   [rel] below the walk root (filepath.Rel(dirPath, path)); returns the files appended *)
Fixpoint walk_node (path : spath) (rel : list name) (nd : node) : list spath :=
  match nd with
  | File n =>
      if is_hidden n then []
      else if is_valid_python_file n && should_include_file (rel ++ [n]) inc exc then [join path n]
      else []
  | Dir n sub =>
      if negb recursive then []                       (* SkipDir: not recursive and not the root *)
      else if is_hidden n then []                     (* SkipDir: hidden *)
      else if should_skip_directory n then []         (* SkipDir: __pycache__, venv, build, ... *)
      else flat_map (walk_node (join path n) (rel ++ [n])) sub
  end.

(* the root itself is never skipped, whatever its name *)
Definition collect_from_directory (dir_path : spath) (children : list node) : list spath :=
  flat_map (walk_node dir_path []) children.
End Walk.

(* ---- file_reader.go CollectPythonFiles ------------------------------------------------ *)
Definition ends_with_slash (p : spath) : bool :=
  match rev (segs p) with s :: _ => is_nil s | [] => false end.

(* one command-line argument; None = os.Stat failed (FileNotFoundError) *)
Definition collect_target (w : node) (cwd : list name) (recursive : bool) (inc exc : list str)
           (t : spath) : option (list spath) :=
  match lookup w (segs (abs cwd t)) with
  | None => None
  | Some (Dir _ cs) => Some (collect_from_directory recursive inc exc t cs)
  | Some (File _) =>
      if ends_with_slash t then None                   (* ENOTDIR *)
      else
        let b := last (segs t) [] in                   (* filepath.Base(path) *)
        Some (if is_valid_python_file b && should_include_file [b] inc exc then [t] else [])
  end.

Fixpoint collect_all (w : node) (cwd : list name) (recursive : bool) (inc exc : list str)
         (ts : list spath) : option (list spath) :=
  match ts with
  | [] => Some []
  | t :: rest =>
      match collect_target w cwd recursive inc exc t with
      | None => None
      | Some fs =>
          match collect_all w cwd recursive inc exc rest with
          | None => None
          | Some more => Some (fs ++ more)
          end
      end
  end.

(* file_reader.go uniqueFiles: first spelling of every cleaned absolute path *)
Fixpoint unique_files_from (cwd : list name) (seen : list spath) (fs : list spath) : list spath :=
  match fs with
  | [] => []
  | f :: rest =>
      let k := abs cwd f in
      if existsb (spath_eqb k) seen then unique_files_from cwd seen rest
      else f :: unique_files_from cwd (k :: seen) rest
  end.
Definition unique_files (cwd : list name) (fs : list spath) : list spath := unique_files_from cwd [] fs.

Definition collect_python_files (w : node) (cwd : list name) (ts : list spath) (recursive : bool)
           (inc exc : list str) : option (list spath) :=
  option_map (unique_files cwd) (collect_all w cwd recursive inc exc ts).

(* `pyscn analyze` without configuration file: getFilePatterns defaults *)
Definition analyze_default (w : node) (cwd : list name) (ts : list spath) : option (list spath) :=
  collect_python_files w cwd ts filesel_default_recursive filesel_default_include filesel_default_exclude.

(* ====================================================================================== *)
(* Specification: which files are to be analysed, said without walking, joining, cleaning
   or de-duplicating.  A file is identified by its absolute location (names from "/").   *)

(* rel leads from a directory with entries [cs] to a Python file, through directories that
   are neither hidden nor in the skip list (and only directly, when not recursive) *)
Inductive under (recursive : bool) : list node -> list name -> Prop :=
| under_file : forall cs n,
    In (File n) cs -> is_hidden n = false -> is_valid_python_file n = true ->
    under recursive cs [n]
| under_dir : forall cs d sub rel,
    recursive = true -> In (Dir d sub) cs -> is_hidden d = false -> should_skip_directory d = false ->
    under recursive sub rel ->
    under recursive cs (d :: rel).

(* a pattern selects a file by its path inside the target directory; a pattern without a
   slash selects by file name at any depth *)
Definition pat_selects (p : str) (rel : list name) : Prop :=
  xglob p rel = true \/ (has_slash p = false /\ exists d b, rel = d ++ [b] /\ xglob p [b] = true).

(* matches an include pattern (any file when there is none) and no exclude pattern *)
Definition selected (inc exc : list str) (rel : list name) : Prop :=
  (inc = [] \/ exists p, In p inc /\ pat_selects p rel) /\
  (forall p, In p exc -> ~ pat_selects p rel).

(* the file at location f is selected through one of the targets *)
Definition sel_spec (w : node) (cwd : list name) (ts : list spath) (recursive : bool)
           (inc exc : list str) (f : list name) : Prop :=
  exists t, In t ts /\
    let loc := segs (abs cwd t) in
    ((exists n, lookup w loc = Some (File n) /\ is_valid_python_file n = true /\
                selected inc exc [n] /\ f = loc)
     \/
     (exists n cs rel, lookup w loc = Some (Dir n cs) /\ under recursive cs rel /\
                       selected inc exc rel /\ f = loc ++ rel)).

(* the same specification as an enumeration (what the harness evaluates); proved equivalent
   to [sel_spec] in FileSelProofs.spec_list_correct *)
Fixpoint under_list (recursive : bool) (nd : node) : list (list name) :=
  match nd with
  | File n => if negb (is_hidden n) && is_valid_python_file n then [[n]] else []
  | Dir d sub =>
      if recursive && negb (is_hidden d) && negb (should_skip_directory d)
      then map (cons d) (flat_map (under_list recursive) sub) else []
  end.

Definition selectedb (inc exc : list str) (rel : list name) : bool :=
  (is_nil inc || existsb (fun p => matches_pattern p rel) inc) &&
  negb (existsb (fun p => matches_pattern p rel) exc).

(* files selected through the targets at the given absolute locations *)
Definition spec_locs (w : node) (recursive : bool) (inc exc : list str) (locs : list (list name)) : list (list name) :=
  flat_map (fun loc =>
    match lookup w loc with
    | Some (File n) => if is_valid_python_file n && selectedb inc exc [n] then [loc] else []
    | Some (Dir _ cs) => map (app loc) (filter (selectedb inc exc) (flat_map (under_list recursive) cs))
    | None => []
    end) locs.

Definition spec_list (w : node) (cwd : list name) (ts : list spath) (recursive : bool)
           (inc exc : list str) : list (list name) :=
  spec_locs w recursive inc exc (map (fun t => segs (abs cwd t)) ts).

(* ---- well-formedness of the inputs ---------------------------------------------------- *)
(* a file or directory name: not empty, not "." or "..", no slash *)
Definition plain (n : name) : bool :=
  negb (is_nil n) && negb (str_eqb n dot) && negb (str_eqb n dotdot) && negb (existsb (N.eqb c_slash) n).

Fixpoint wf_node (nd : node) : Prop :=
  match nd with
  | File n => plain n = true
  | Dir n cs =>
      plain n = true /\ NoDup (map node_name cs) /\
      (fix all (l : list node) : Prop := match l with [] => True | c :: l' => wf_node c /\ all l' end) cs
  end.

(* the root directory "/" has no name of its own *)
Definition wf_world (w : node) : Prop :=
  match w with
  | Dir _ cs => NoDup (map node_name cs) /\ Forall wf_node cs
  | File _ => False
  end.

(* an argument that names a file is spelled with that file's name last (not "a.py/." etc.,
   which the operating system rejects) *)
Definition file_target_ok (w : node) (cwd : list name) (t : spath) : Prop :=
  forall n, lookup w (segs (abs cwd t)) = Some (File n) -> last (segs t) [] = n /\ ends_with_slash t = false.
