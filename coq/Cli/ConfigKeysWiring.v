(* Cli/ConfigKeysWiring.v — keys of .pyscn.toml / [tool.pyscn] without a flag of `pyscn analyze` whose way from the loaded
   file into the analysis the translator reads off the code (Gen/ConfigConst.v, section "keys of the file that have no
   flag"), as instances of the generic model Cli/ConfigKeys.v.  These are the keys whose wiring was repaired in the repo;
   with a repair taken out the generated fact is `false` and the instance describes the code without it (the value of the
   file does not arrive).

   Go code mirrored:
     service/clone_config_loader.go  cloneConfigToCloneRequest (SkipDocstrings, MaxEditDistance copied from the file)
     app/clone_usecase.go            mergeConfiguration (starts from the file's request; `requestReq.MaxEditDistance !=
                                     defaultReq.MaxEditDistance`; SkipDocstrings never replaced)
     app/analyze_usecase.go          createAnalysisTasks (clone request: MaxEditDistance = DefaultCloneRequest()'s),
                                     getFilePatterns (patterns without a configuration file)
     cmd/pyscn/analyze.go            generateOutput (no format flag: html/json/csv/yaml of cfg.Output.Format),
                                     createUseCaseConfig (--select sets ExplicitSelection)
     app/analyze_usecase.go          Execute / deadCodeDisabledInConfig ([dead_code] enabled = false skips the analysis)
     service/dead_code_service.go    detectionEnabled, convertToFunctionDeadCode
     internal/config/pyscn_config.go DefaultPyscnConfig (AnalysisIncludePatterns, AnalysisExcludePatterns)

   Values as in Cli/ConfigKeys.v: booleans 0/1, enumerations by index, fractions in 1/10000.  No proofs in this file. *)
From Coq Require Import ZArith QArith Bool List.
From PV Require Import Gen.DomainConst Gen.ConfigConst Cli.ConfigKeys.
Import ListNotations.
Open Scope Z_scope.

Definition plumbing_of (uses_file : bool) (otherwise : plumbing) : plumbing := if uses_file then UsesFile else otherwise.

(* a Q constant of the domain package in the 1/10000 units of Cli/ConfigKeys.v *)
Definition in_10000 (q : Q) : Z := (Qnum q * 10000) / Zpos (Qden q).

(* ---- [clones] skip_docstrings: pointer-typed bool, DefaultPyscnConfig true ------------------------------------- *)
Definition plumb_clones_skip_docstrings : plumbing := plumbing_of clones_skip_docstrings_uses_file (NotCopied 0).
Definition key_clones_skip_docstrings : keyspec := mk_key PPointer plumb_clones_skip_docstrings 1 1 0.

(* ---- [clones] max_edit_distance: float tested with `> 0`, default domain.DefaultCloneMaxEditDistance ------------- *)
Definition plumb_clones_max_edit_distance : plumbing := plumbing_of clones_max_edit_distance_uses_file (RequestWins 0).
Definition default_clones_max_edit_distance : Z := in_10000 domain_DefaultCloneMaxEditDistance.
Definition key_clones_max_edit_distance : keyspec :=
  mk_key PPositive plumb_clones_max_edit_distance default_clones_max_edit_distance 1 0.

(* ---- [output] format: 0 = "", 1 text, 2 json, 3 yaml, 4 csv, 5 html, 6 = anything else (refused by Validate) -------
   analyze's own default is HTML (5).  "text" (1, what DefaultPyscnConfig and `pyscn init` carry) is a format analyze
   cannot write: generateOutput keeps HTML for it, it is outside the formats of analyze and not covered here. *)
Definition fmt_json : Z := 2.
Definition fmt_html : Z := 5.
Definition plumb_output_format : plumbing := plumbing_of analyze_output_format_uses_file (NotCopied fmt_html).
Definition key_output_format : keyspec := mk_key PNonEmpty plumb_output_format fmt_html 1 5.

(* ---- [dead_code] enabled: pointer-typed bool, default true; the file-side counterpart of --skip-deadcode / --select ---- *)
Definition plumb_dead_code_enabled : plumbing := plumbing_of analyze_dead_code_enabled_uses_file (NotCopied 1).
Definition key_dead_code_enabled : keyspec := mk_key PPointer plumb_dead_code_enabled 1 1 0.

(* does dead code detection run?  [select]: None = no --select, Some b = --select given, b = it names deadcode;
   [skip]: --skip-deadcode (only read without --select, createUseCaseConfig); [file]: the key *)
Definition dead_code_runs (select : option bool) (skip : bool) (file : option bool) : bool :=
  match select with
  | Some named => named                                         (* ExplicitSelection: the file is not consulted *)
  | None =>
      if skip then false
      else if analyze_dead_code_enabled_uses_file then match file with Some b => b | None => true end
      else true
  end.

(* the property: what the command line says explicitly, else the file, else the default (on) *)
Definition dead_code_runs_spec (select : option bool) (skip : bool) (file : option bool) : bool :=
  match select with
  | Some named => named
  | None => if skip then false else match file with Some b => b | None => true end
  end.

Definition run_dead_code_runs (select : option bool) (skip : bool) (file : option bool) : bool * bool :=
  (dead_code_runs select skip file, dead_code_runs_spec select skip file).

(* ---- [dead_code] detect_after_return / _break / _continue / _raise, detect_unreachable_branches -------------------- *)
Inductive dead_reason := RAfterReturn | RAfterBreak | RAfterContinue | RAfterRaise | RBranch | ROtherReason.

Record detect_switches := mk_detect { d_return : bool; d_break : bool; d_continue : bool; d_raise : bool; d_branches : bool }.

(* the property: a kind of finding is reported exactly when its switch is on (kinds without a switch: always) *)
Definition switch_of (d : detect_switches) (r : dead_reason) : bool :=
  match r with
  | RAfterReturn => d_return d
  | RAfterBreak => d_break d
  | RAfterContinue => d_continue d
  | RAfterRaise => d_raise d
  | RBranch => d_branches d
  | ROtherReason => true
  end.

(* service.detectionEnabled, applied by convertToFunctionDeadCode to every finding of the analyzer *)
Definition detection_enabled (d : detect_switches) (r : dead_reason) : bool :=
  if svc_dead_detect_switches_applied then switch_of d r else true.

Definition reported (d : detect_switches) (findings : list dead_reason) : list dead_reason := filter (detection_enabled d) findings.

(* entry point of the harness: (model, spec) *)
Definition run_detect (ret brk cont rais branches : bool) (findings : list dead_reason) : list dead_reason * list dead_reason :=
  let d := mk_detect ret brk cont rais branches in
  (reported d findings, filter (switch_of d) findings).

(* ---- file patterns without a configuration file vs. the defaults a configuration file comes with ------------------- *)
Definition fallback_patterns : list (list N) * list (list N) := (analyze_fallback_include, analyze_fallback_exclude).
Definition config_default_patterns : list (list N) * list (list N) := (cfg_default_Analysis_include, cfg_default_Analysis_exclude).

(* ---- entry points of the harness for a key given as an instance: (model outcome, does it satisfy the property) ------- *)
Definition run_keyspec (k : keyspec) (file : option Z) : outcome * bool := (key_model k file, spec_ok k file (key_model k file)).
Definition judge_keyspec (k : keyspec) (file : option Z) (o : outcome) : bool := spec_ok k file o.
