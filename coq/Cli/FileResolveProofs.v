(* Cli/FileResolveProofs.v — ResolveFilePaths hands every file to the analysis once, whichever branch it takes. *)
From Coq Require Import NArith List Bool.
From PV Require Import Gen.FileSelConst Cli.Glob Cli.FileSel Cli.FileSelProofs Cli.FileResolve.
Import ListNotations.
Open Scope N_scope.

Lemma unique_paths_once : forall cwd ts, NoDup (map (fun p => segs (abs cwd p)) (unique_paths cwd ts)).
Proof.
  intros cwd ts.
  assert (Hn : NoDup (map (abs cwd) (unique_files cwd ts))).
  { unfold unique_files. rewrite unique_files_keys. apply dedup_NoDup. }
  rewrite (map_abs_lkey cwd) in Hn. unfold lkey in Hn. unfold unique_paths.
  eapply NoDup_map_inv. eassumption.
Qed.

(* the files named are kept: the result of the shortcut names exactly the targets *)
Lemma unique_paths_same_files : forall cwd ts k,
  In k (map (abs cwd) (unique_paths cwd ts)) <-> In k (map (abs cwd) ts).
Proof.
  intros cwd ts k. unfold unique_paths, unique_files. rewrite unique_files_keys, dedup_In. simpl. tauto.
Qed.

Theorem resolve_each_once : forall w cwd ts rec inc exc v out,
  resolve_file_paths w cwd ts rec inc exc v = Some out ->
  NoDup (map (fun p => segs (abs cwd p)) out).
Proof.
  intros w cwd ts rec inc exc v out H. unfold resolve_file_paths in H.
  destruct (forallb _ ts).
  - inversion H; subst. apply unique_paths_once.
  - eapply each_once. eassumption.
Qed.

(* a file named twice (in any spelling) among plain-file targets: one entry *)
Example resolve_repeated_file :
  let f : name := [102; 46; 112; 121] in                                  (* f.py *)
  let w := Dir [] [Dir [112] [File f]] in                                 (* /p/f.py *)
  resolve_file_paths w [[112]] [mkpath false [f]; mkpath false [[46]; f]; mkpath true [[112]; f]] true [] [] false
  = Some [mkpath false [f]].
Proof. vm_compute. reflexivity. Qed.
