(* Cli/Discovery.v — model of which configuration file `pyscn analyze` / `pyscn check` use (property C17).

   Go code mirrored (read literally):
     internal/config/toml_loader.go   ResolveConfigPath 365-384, FindConfigFileFromPath 390-427, normalizeSearchDir 437-453
     internal/config/pyproject_loader.go  hasPyscnSection 546-564
     app/analyze_usecase.go           Execute 187-198 (ResolveConfigPath(useCaseCfg.ConfigFile, paths[0]))
     cmd/pyscn/check.go               runCheck 136-143 (ResolveConfigPath(c.configFile, args[0]))
     app/*_usecase.go                 loadAndMergeConfig: ConfigPath == "" -> LoadDefaultConfig -> FindConfigFileFromPath("")
                                      (search from the working directory)

   The file system is abstracted to what the search looks at: a chain of directories from the search directory
   (index 0: the target directory, or the directory holding a target file) up to the root, each saying whether it
   holds a .pyscn.toml and what kind of pyproject.toml. No proofs in this file. *)
From Coq Require Import List Bool Arith NArith.
From PV Require Import Gen.ConfigConst.
Import ListNotations.

Inductive pyproject := PPNone | PPPlain | PPTool.   (* absent / without [tool.pyscn] / with [tool.pyscn] *)

Record dir := Build_dir { has_pyscn : bool; pp : pyproject }.

Inductive kind := KPyscn | KPyproject.

Definition kind_eqb (a b : kind) : bool := match a, b with KPyscn, KPyscn | KPyproject, KPyproject => true | _, _ => false end.

(* `os.Stat(pyprojectPath) == nil && hasPyscnSection(pyprojectPath)` *)
Definition has_pyproject (d : dir) : bool :=
  match pp d with
  | PPTool => true
  | PPPlain => negb cfg_discovery_pyproject_needs_section
  | PPNone => false
  end.

Definition has_kind (k : kind) (d : dir) : bool := match k with KPyscn => has_pyscn d | KPyproject => has_pyproject d end.

(* one upward pass: index of the first directory satisfying p *)
Fixpoint first_index (p : dir -> bool) (chain : list dir) : option nat :=
  match chain with
  | [] => None
  | d :: r => if p d then Some 0 else option_map S (first_index p r)
  end.

Definition first_kind : kind := if cfg_discovery_pyscn_toml_first then KPyscn else KPyproject.
Definition second_kind : kind := if cfg_discovery_pyscn_toml_first then KPyproject else KPyscn.

(* FindConfigFileFromPath: a pass over the whole chain for the dedicated file, then a second pass from the start *)
Definition find_config (chain : list dir) : option (nat * kind) :=
  if cfg_discovery_two_passes then
    match first_index (has_kind first_kind) chain with
    | Some i => Some (i, first_kind)
    | None => match first_index (has_kind second_kind) chain with
              | Some i => Some (i, second_kind)
              | None => None
              end
    end
  else None.

(* --config *)
Inductive explicit_arg :=
| ExNone                        (* no --config *)
| ExFile (id : N)               (* an existing file *)
| ExMissing                     (* a path that does not exist *)
| ExDir (chain : list dir).     (* an existing directory: searched like a target *)

Inductive source :=
| SExplicit (id : N)
| SFromExplicitDir (i : nat) (k : kind)
| SFromTarget (i : nat) (k : kind)
| SFromCwd (i : nat) (k : kind)
| SDefaults                     (* no file: built-in defaults *)
| SError.                       (* "config file not found" *)

Definition from_cwd (cwd : list dir) : source :=
  match find_config cwd with Some (i, k) => SFromCwd i k | None => SDefaults end.

(* ResolveConfigPath, then (when it returned "") each analysis' LoadDefaultConfig *)
Definition resolve (ex : explicit_arg) (target cwd : list dir) : source :=
  let searched :=
    match find_config target with Some (i, k) => SFromTarget i k | None => from_cwd cwd end in
  if cfg_resolve_explicit_first then
    match ex with
    | ExFile id => SExplicit id
    | ExMissing => SError
    | ExDir ch => match find_config ch with Some (i, k) => SFromExplicitDir i k | None => from_cwd cwd end
    | ExNone => searched
    end
  else searched.

(* ------------------------------------------------------------------------------------------ *)
(* specification                                                                               *)
(* ------------------------------------------------------------------------------------------ *)

Definition has_any (d : dir) : bool := has_pyscn d || match pp d with PPTool => true | _ => false end.

Definition dir0 : dir := Build_dir false PPNone.

(* the nearest directory holding a configuration file; .pyscn.toml preferred within that directory *)
Definition nearest (chain : list dir) : option (nat * kind) :=
  match first_index has_any chain with
  | Some i => Some (i, if has_pyscn (nth i chain dir0) then KPyscn else KPyproject)
  | None => None
  end.

(* the layout on which the two clauses of the property disagree (F24): the nearest configuration is a
   pyproject.toml and a .pyscn.toml sits further up *)
Definition f24_layout (chain : list dir) : bool :=
  match first_index has_any chain with
  | Some i => negb (has_pyscn (nth i chain dir0)) && existsb has_pyscn (skipn (S i) chain)
  | None => false
  end.

Definition spec_from_cwd (cwd : list dir) : source :=
  match nearest cwd with Some (i, k) => SFromCwd i k | None => SDefaults end.

(* --config always wins; else the nearest file at or above the analysed path; else (no file there) what is
   discoverable from the working directory; else defaults *)
Definition spec_resolve (ex : explicit_arg) (target cwd : list dir) : source :=
  match ex with
  | ExFile id => SExplicit id
  | ExMissing => SError
  | ExDir ch => match nearest ch with Some (i, k) => SFromExplicitDir i k | None => spec_from_cwd cwd end
  | ExNone => match nearest target with Some (i, k) => SFromTarget i k | None => spec_from_cwd cwd end
  end.

Definition only_pyscn (chain : list dir) : bool := forallb (fun d => match pp d with PPTool => false | _ => true end) chain.
Definition only_pyproject (chain : list dir) : bool := forallb (fun d => negb (has_pyscn d)) chain.
