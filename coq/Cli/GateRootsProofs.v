(* Cli/GateRootsProofs.v — the project roots of the dependency step cover every target exactly once, and the step over
   the roots is the step of Cli/Gate.v on the merged results. *)
From Coq Require Import ZArith NArith List Bool Arith Lia.
From PV Require Import Gen.DomainConst Gen.CheckConst Cli.Gate Cli.GateRoots.
Import ListNotations.
Local Open Scope nat_scope.

(* ---- paths ------------------------------------------------------------------------------------------------------- *)
Lemma apath_eqb_eq : forall u t, apath_eqb u t = true <-> u = t.
Proof.
  induction u as [| a u IH]; intros [| b t]; simpl; split; intro H; try reflexivity; try discriminate.
  - apply andb_true_iff in H. destruct H as [H1 H2]. apply N.eqb_eq in H1. apply IH in H2. subst. reflexivity.
  - inversion H; subst. rewrite N.eqb_refl. simpl. apply IH. reflexivity.
Qed.

Lemma is_prefix_refl : forall u, is_prefix u u = true.
Proof. induction u as [| a u IH]; simpl; [reflexivity |]. rewrite N.eqb_refl. exact IH. Qed.

Lemma is_prefix_trans : forall u v t, is_prefix u v = true -> is_prefix v t = true -> is_prefix u t = true.
Proof.
  induction u as [| a u IH]; intros v t H1 H2; simpl; [reflexivity |].
  destruct v as [| b v]; simpl in H1; [discriminate |]. destruct t as [| c t]; simpl in H2; [discriminate |].
  apply andb_true_iff in H1. destruct H1 as [Hab H1]. apply andb_true_iff in H2. destruct H2 as [Hbc H2].
  apply N.eqb_eq in Hab. apply N.eqb_eq in Hbc. subst. rewrite N.eqb_refl. simpl. eapply IH; eassumption.
Qed.

Lemma is_prefix_length : forall u t, is_prefix u t = true -> length u <= length t.
Proof.
  induction u as [| a u IH]; intros t H; simpl; [lia |].
  destruct t as [| b t]; simpl in H; [discriminate |]. apply andb_true_iff in H. destruct H as [_ H].
  apply IH in H. simpl. lia.
Qed.

Lemma is_prefix_same_length : forall u t, is_prefix u t = true -> length u = length t -> u = t.
Proof.
  induction u as [| a u IH]; intros [| b t] H L; simpl in *; try reflexivity; try discriminate.
  apply andb_true_iff in H. destruct H as [Hab H]. apply N.eqb_eq in Hab. subst. f_equal. apply IH; [assumption | lia].
Qed.

(* a proper prefix is strictly shorter *)
Lemma proper_prefix_shorter : forall u t, is_prefix u t = true -> apath_eqb u t = false -> length u < length t.
Proof.
  intros u t H E. pose proof (is_prefix_length u t H) as L.
  destruct (Nat.eq_dec (length u) (length t)) as [Q | Q]; [| lia].
  apply is_prefix_same_length in H; [| assumption]. apply apath_eqb_eq in H. congruence.
Qed.

(* ---- the loops --------------------------------------------------------------------------------------------------- *)
(* target k of the list covers target i *)
Definition covers (k : nat) (tk : apath) (i : nat) (ti : apath) : Prop :=
  k <> i /\ ((tk = ti /\ k < i) \/ (tk <> ti /\ is_prefix tk ti = true)).

Lemma covered_from_spec : forall ts j i ti,
  covered_from j i ti ts = true <-> exists k tk, nth_error ts k = Some tk /\ covers (j + k) tk i ti.
Proof.
  induction ts as [| tj rest IH]; intros j i ti; simpl.
  - split; [discriminate |]. intros [k [tk [H _]]]. destruct k; discriminate.
  - rewrite orb_true_iff, IH. split.
    + intros [H | [k [tk [Hn Hc]]]].
      * exists 0, tj. split; [reflexivity |]. rewrite Nat.add_0_r.
        destruct (Nat.eqb j i) eqn:Eji; [discriminate |]. apply Nat.eqb_neq in Eji. split; [assumption |].
        unfold rel_of in H. destruct (apath_eqb tj ti) eqn:Ee.
        -- left. apply apath_eqb_eq in Ee. apply Nat.ltb_lt in H. split; assumption.
        -- right. destruct (is_prefix tj ti) eqn:Ep; [| discriminate]. split; [| reflexivity].
           intro Q. apply apath_eqb_eq in Q. congruence.
      * exists (S k), tk. split; [assumption |]. replace (j + S k) with (S j + k) by lia. assumption.
    + intros [[| k] [tk [Hn Hc]]]; simpl in Hn.
      * inversion Hn; subst tk. left. rewrite Nat.add_0_r in Hc. destruct Hc as [Hne Hc].
        apply Nat.eqb_neq in Hne. rewrite Hne. unfold rel_of. destruct Hc as [[Q L] | [Q P]].
        -- apply apath_eqb_eq in Q. rewrite Q. apply Nat.ltb_lt. assumption.
        -- destruct (apath_eqb tj ti) eqn:Ee; [apply apath_eqb_eq in Ee; contradiction |]. rewrite P. reflexivity.
      * right. exists k, tk. split; [assumption |]. replace (S j + k) with (j + S k) by lia. assumption.
Qed.

Lemma roots_from_spec : forall all ts i r,
  In r (roots_from all i ts) <-> exists k, nth_error ts k = Some r /\ covered_from 0 (i + k) r all = false.
Proof.
  induction ts as [| ti rest IH]; intros i r; simpl.
  - split; [contradiction |]. intros [k [H _]]. destruct k; discriminate.
  - rewrite in_app_iff, IH. split.
    + intros [H | [k [Hn Hc]]].
      * destruct (covered_from 0 i ti all) eqn:E; simpl in H; [contradiction |]. destruct H as [H | []]. subst.
        exists 0. rewrite Nat.add_0_r. split; [reflexivity | assumption].
      * exists (S k). replace (i + S k) with (S i + k) by lia. split; assumption.
    + intros [[| k] [Hn Hc]]; simpl in Hn.
      * inversion Hn; subst. left. rewrite Nat.add_0_r in Hc. rewrite Hc. left. reflexivity.
      * right. exists k. replace (S i + k) with (i + S k) by lia. split; assumption.
Qed.

(* target i is a project root *)
Definition is_root (ts : list apath) (i : nat) (ti : apath) : Prop :=
  nth_error ts i = Some ti /\ forall k tk, nth_error ts k = Some tk -> ~ covers k tk i ti.

Lemma root_in : forall ts r, In r (roots_from ts 0 ts) <-> exists i, is_root ts i r.
Proof.
  intros ts r. rewrite roots_from_spec. split.
  - intros [k [Hn Hc]]. exists k. split; [assumption |]. intros j tj Hj Hcov. change (0 + k) with k in Hc.
    assert (covered_from 0 k r ts = true) by (apply covered_from_spec; exists j, tj; split; assumption). congruence.
  - intros [i [Hn Hno]]. exists i. split; [assumption |]. simpl.
    destruct (covered_from 0 i r ts) eqn:E; [| reflexivity].
    apply covered_from_spec in E. destruct E as [k [tk [Hk Hc]]]. simpl in Hc. exfalso. eapply Hno; eassumption.
Qed.

(* every target lies in (or is) a project root *)
Lemma roots_cover_nth : forall ts n i ti, length ti * S (length ts) + i < n -> nth_error ts i = Some ti ->
  exists r, In r (roots_from ts 0 ts) /\ is_prefix r ti = true.
Proof.
  intros ts n. induction n as [| n IH]; intros i ti Hm Hn; [lia |].
  assert (Hi : i < length ts) by (apply nth_error_Some; congruence).
  destruct (covered_from 0 i ti ts) eqn:E.
  - apply covered_from_spec in E. destruct E as [k [tk [Hk [Hne Hc]]]]. simpl in Hne, Hc. unfold apath in *.
    assert (Hkl : k < length ts) by (apply (proj1 (nth_error_Some ts k)); rewrite Hk; discriminate).
    destruct Hc as [[Q L] | [Q P]].
    + subst tk. apply (IH k ti); [nia | assumption].
    + assert (Hs : length tk < length ti).
      { apply proper_prefix_shorter; [assumption |]. destruct (apath_eqb tk ti) eqn:Ee; [| reflexivity].
        apply apath_eqb_eq in Ee. contradiction. }
      destruct (IH k tk) as [r [Hr Hp]]; [nia | assumption |].
      exists r. split; [assumption |]. eapply is_prefix_trans; eassumption.
  - exists ti. split; [| apply is_prefix_refl]. apply roots_from_spec. exists i. split; assumption.
Qed.

Theorem roots_cover : forall cwd ts t, In t ts ->
  exists r, In r (dependency_project_roots cwd ts) /\ is_prefix r t = true.
Proof.
  intros cwd ts t Hin. apply In_nth_error in Hin. destruct Hin as [i Hn].
  destruct ts as [| t0 ts']; [destruct i; discriminate |]. unfold dependency_project_roots.
  eapply roots_cover_nth; [| eassumption]. apply Nat.lt_succ_diag_r.
Qed.

(* the roots are targets *)
Theorem roots_are_targets : forall cwd ts r, ts <> [] -> In r (dependency_project_roots cwd ts) -> In r ts.
Proof.
  intros cwd ts r Hne Hin. destruct ts as [| t0 ts']; [contradiction |]. unfold dependency_project_roots in Hin.
  apply roots_from_spec in Hin. destruct Hin as [k [Hn _]]. eapply nth_error_In. eassumption.
Qed.

(* no root lies inside another root, and none is named twice: no file is looked at through two roots *)
Lemma roots_from_NoDup_aux : forall all ts i,
  (forall k tk, nth_error ts k = Some tk -> nth_error all (i + k) = Some tk) ->
  NoDup (roots_from all i ts).
Proof.
  induction ts as [| ti rest IH]; intros i Hall; simpl; [constructor |].
  assert (Hrest : NoDup (roots_from all (S i) rest)).
  { apply IH. intros k tk Hk. replace (S i + k) with (i + S k) by lia. apply Hall. assumption. }
  destruct (covered_from 0 i ti all) eqn:E; simpl; [assumption |].
  constructor; [| assumption]. intro Hin. apply roots_from_spec in Hin. destruct Hin as [k [Hk Hc]].
  assert (covered_from 0 (S i + k) ti all = true).
  { apply covered_from_spec. exists i, ti. split.
    - specialize (Hall 0 ti eq_refl). rewrite Nat.add_0_r in Hall. assumption.
    - simpl. split; [lia |]. left. split; [reflexivity | lia]. }
  congruence.
Qed.

Theorem roots_antichain : forall cwd ts,
  NoDup (dependency_project_roots cwd ts) /\
  forall r r', In r (dependency_project_roots cwd ts) -> In r' (dependency_project_roots cwd ts) ->
               is_prefix r r' = true -> r = r'.
Proof.
  intros cwd ts. destruct ts as [| t0 ts'].
  - simpl. split; [constructor; [intros [] | constructor] |]. intros r r' [H | []] [H' | []] _. congruence.
  - unfold dependency_project_roots. remember (t0 :: ts') as ts. clear Heqts. split.
    + apply roots_from_NoDup_aux. intros k tk Hk. assumption.
    + intros r r' Hr Hr' Hp. apply root_in in Hr. apply root_in in Hr'.
      destruct Hr as [i [Hi _]]. destruct Hr' as [i' [Hi' Hno]].
      destruct (apath_eqb r r') eqn:E; [apply apath_eqb_eq; assumption |]. exfalso.
      apply (Hno i r Hi). split.
      * intro Q. subst i'. rewrite Hi in Hi'. inversion Hi'. subst. rewrite (proj2 (apath_eqb_eq r' r') eq_refl) in E. discriminate.
      * right. split; [| assumption]. intro Q. apply apath_eqb_eq in Q. congruence.
Qed.

(* ---- the step over the roots is check_circular on the merged results --------------------------------------------- *)
Lemma zlen_app : forall (A : Type) (a b : list A), zlen (a ++ b) = (zlen a + zlen b)%Z.
Proof. intros. unfold zlen. rewrite app_length, Nat2Z.inj_add. reflexivity. Qed.

Lemma check_circular_formula : forall f r, r_deps_err r = false ->
  check_circular f r = Some (zlen (r_cycles r),
                             if f_quiet f then [] else map (fun cy => LCycle (fst cy)) (filter (fun cy => snd cy) (r_cycles r))).
Proof.
  intros f r H. unfold check_circular. rewrite H. destruct (r_cycles r); [| reflexivity].
  simpl. destruct (f_quiet f); reflexivity.
Qed.

Theorem check_circular_roots_merged : forall f rs, existsb r_deps_err rs = false ->
  match check_circular f (merge_deps rs) with
  | Some (n, ls) => check_circular_roots f rs = (Some n, ls)
  | None => False
  end.
Proof.
  intros f rs. induction rs as [| r rest IH]; intros He.
  - simpl. reflexivity.
  - simpl in He. apply orb_false_iff in He. destruct He as [Hr Hrest]. specialize (IH Hrest).
    rewrite check_circular_formula in * by (simpl; try rewrite Hr; assumption).
    simpl check_circular_roots. rewrite (check_circular_formula f r Hr). rewrite IH. simpl.
    rewrite zlen_app. f_equal. destruct (f_quiet f); [reflexivity |].
    rewrite filter_app, map_app. reflexivity.
Qed.

Theorem check_circular_roots_failed : forall f rs, existsb r_deps_err rs = true ->
  fst (check_circular_roots f rs) = None /\ check_circular f (merge_deps rs) = None.
Proof.
  intros f rs He. split.
  - induction rs as [| r rest IH]; [discriminate |]. simpl in He. simpl.
    destruct (r_deps_err r) eqn:Er.
    + unfold check_circular. rewrite Er. reflexivity.
    + simpl in He. specialize (IH He). rewrite (check_circular_formula f r Er).
      destruct (check_circular_roots f rest) as [m ls']. simpl in IH. subst m. reflexivity.
  - unfold check_circular, merge_deps. simpl. rewrite He. reflexivity.
Qed.
