(* Cli/DiscoveryProofs.v — lemmas about the config-discovery model Cli/Discovery.v (cited by Props/C17.v). *)
From Coq Require Import List Bool Arith NArith Lia.
From PV Require Import Gen.ConfigConst Cli.Discovery.
Import ListNotations.

Lemma find_config_eq : forall chain,
  find_config chain =
  match first_index has_pyscn chain with
  | Some i => Some (i, KPyscn)
  | None => match first_index has_pyproject chain with
            | Some i => Some (i, KPyproject)
            | None => None
            end
  end.
Proof. reflexivity. Qed.

Lemma has_any_eq : forall d, has_any d = has_pyscn d || has_pyproject d.
Proof. intros [a []]; reflexivity. Qed.

Definition shift (o : option (nat * kind)) : option (nat * kind) :=
  match o with Some (i, k) => Some (S i, k) | None => None end.

Lemma shift_inj : forall a b, shift a = shift b -> a = b.
Proof. intros [[i k]|] [[j l]|] H; cbn in H; try discriminate; [inversion H; reflexivity | reflexivity]. Qed.

Lemma find_cons_none : forall d r, has_pyscn d = false -> has_pyproject d = false ->
  find_config (d :: r) = shift (find_config r).
Proof.
  intros d r H H0. rewrite !find_config_eq. cbn [first_index]. rewrite H, H0.
  destruct (first_index has_pyscn r); cbn; [reflexivity|].
  destruct (first_index has_pyproject r); reflexivity.
Qed.

Lemma nearest_cons_none : forall d r, has_any d = false -> nearest (d :: r) = shift (nearest r).
Proof.
  intros d r H. unfold nearest. cbn [first_index]. rewrite H.
  destruct (first_index has_any r); reflexivity.
Qed.

Lemma f24_cons_none : forall d r, has_any d = false -> f24_layout (d :: r) = f24_layout r.
Proof.
  intros d r H. unfold f24_layout. cbn [first_index]. rewrite H.
  destruct (first_index has_any r); reflexivity.
Qed.

Lemma first_index_none_existsb : forall p l, first_index p l = None <-> existsb p l = false.
Proof.
  intros p l. induction l as [|d r IH]; cbn; [split; reflexivity|].
  destruct (p d); cbn; [split; discriminate|].
  destruct (first_index p r) eqn:F; cbn.
  - split; [discriminate | intros H; apply IH in H; discriminate].
  - split; [intros _; apply IH; reflexivity | reflexivity].
Qed.

Lemma find_nearest_agree : forall chain, f24_layout chain = false -> find_config chain = nearest chain.
Proof.
  induction chain as [|d r IH]; intros H; [reflexivity|].
  destruct (has_pyscn d) eqn:E1.
  - rewrite find_config_eq. unfold nearest. cbn [first_index]. rewrite has_any_eq, E1. cbn [orb nth]. rewrite E1. reflexivity.
  - destruct (has_pyproject d) eqn:E2.
    + unfold f24_layout in H. cbn [first_index] in H. rewrite has_any_eq, E1, E2 in H. cbn [orb nth skipn] in H.
      rewrite E1 in H. cbn [negb andb] in H. apply first_index_none_existsb in H.
      rewrite find_config_eq. unfold nearest. cbn [first_index]. rewrite has_any_eq, E1, E2, H. cbn [orb nth option_map].
      rewrite E1. reflexivity.
    + assert (A : has_any d = false) by (rewrite has_any_eq, E1, E2; reflexivity).
      rewrite find_cons_none, nearest_cons_none by assumption. f_equal. apply IH.
      rewrite f24_cons_none in H by assumption. exact H.
Qed.

Lemma find_nearest_differ : forall chain, f24_layout chain = true -> find_config chain <> nearest chain.
Proof.
  induction chain as [|d r IH]; intros H; [discriminate|].
  destruct (has_pyscn d) eqn:E1.
  - unfold f24_layout in H. cbn [first_index] in H. rewrite has_any_eq, E1 in H. cbn [orb nth] in H. rewrite E1 in H. discriminate.
  - destruct (has_pyproject d) eqn:E2.
    + unfold f24_layout in H. cbn [first_index] in H. rewrite has_any_eq, E1, E2 in H. cbn [orb nth skipn] in H.
      rewrite E1 in H. cbn [negb andb] in H.
      rewrite find_config_eq. unfold nearest. cbn [first_index]. rewrite has_any_eq, E1, E2. cbn [orb nth].
      rewrite E1.
      destruct (first_index has_pyscn r) eqn:F.
      * cbn. discriminate.
      * apply first_index_none_existsb in F. rewrite F in H. discriminate.
    + assert (A : has_any d = false) by (rewrite has_any_eq, E1, E2; reflexivity).
      rewrite find_cons_none, nearest_cons_none by assumption. intros C. apply shift_inj in C. revert C. apply IH.
      rewrite f24_cons_none in H by assumption. exact H.
Qed.

Lemma find_nearest_iff : forall chain, find_config chain = nearest chain <-> f24_layout chain = false.
Proof.
  intros chain. split.
  - intros H. destruct (f24_layout chain) eqn:E; [|reflexivity]. exfalso. exact (find_nearest_differ chain E H).
  - apply find_nearest_agree.
Qed.

Lemma forallb_negb_existsb : forall (p : dir -> bool) l, forallb (fun d => negb (p d)) l = true -> existsb p l = false.
Proof.
  intros p l. induction l as [|d r IH]; cbn; [reflexivity|].
  intros H. apply andb_true_iff in H. destruct H as [H1 H2]. destruct (p d); [discriminate|]. cbn. apply IH. exact H2.
Qed.

Lemma only_pyscn_no_f24 : forall chain, only_pyscn chain = true -> f24_layout chain = false.
Proof.
  induction chain as [|d r IH]; intros H; [reflexivity|].
  unfold only_pyscn in H. cbn [forallb] in H. apply andb_true_iff in H. destruct H as [H1 H2].
  destruct (has_pyscn d) eqn:E1.
  - unfold f24_layout. cbn [first_index]. rewrite has_any_eq, E1. cbn [orb nth]. rewrite E1. reflexivity.
  - assert (A : has_any d = false) by (unfold has_any; rewrite E1; destruct (pp d); [reflexivity|reflexivity|discriminate]).
    rewrite f24_cons_none by assumption. apply IH. exact H2.
Qed.

Lemma only_pyproject_no_f24 : forall chain, only_pyproject chain = true -> f24_layout chain = false.
Proof.
  induction chain as [|d r IH]; intros H; [reflexivity|].
  pose proof H as H0.
  unfold only_pyproject in H. cbn [forallb] in H. apply andb_true_iff in H. destruct H as [H1 H2].
  apply negb_true_iff in H1.
  destruct (has_any d) eqn:A.
  - unfold f24_layout. cbn [first_index]. rewrite A. cbn [nth skipn]. rewrite H1. cbn [negb andb].
    apply forallb_negb_existsb. exact H2.
  - rewrite f24_cons_none by assumption. apply IH. exact H2.
Qed.

Lemma discovery_single_kind : forall chain, only_pyscn chain = true \/ only_pyproject chain = true ->
  find_config chain = nearest chain.
Proof.
  intros chain [H|H]; apply find_nearest_agree; [apply only_pyscn_no_f24 | apply only_pyproject_no_f24]; exact H.
Qed.

Lemma same_dir_pyscn_wins : forall chain i,
  first_index has_any chain = Some i -> has_pyscn (nth i chain dir0) = true -> find_config chain = Some (i, KPyscn).
Proof.
  intros chain i H1 H2.
  rewrite find_nearest_agree.
  - unfold nearest. rewrite H1, H2. reflexivity.
  - unfold f24_layout. rewrite H1, H2. reflexivity.
Qed.

Lemma f24_witness :
  let chain := [Build_dir false PPTool; Build_dir true PPNone] in
  f24_layout chain = true /\ find_config chain = Some (1, KPyscn) /\ nearest chain = Some (0, KPyproject).
Proof. repeat split. Qed.

(* a pyproject.toml without [tool.pyscn] is invisible *)
Lemma plain_pyproject_invisible : forall d r, has_pyscn d = false -> pp d = PPPlain ->
  find_config (d :: r) = shift (find_config r).
Proof. intros d r H1 H2. apply find_cons_none; [exact H1 | unfold has_pyproject; rewrite H2; reflexivity]. Qed.

(* ---------------------------------------------------------------- resolve *)

Lemma explicit_file_wins : forall id target cwd, resolve (ExFile id) target cwd = SExplicit id.
Proof. reflexivity. Qed.

Lemma explicit_missing_errors : forall target cwd, resolve ExMissing target cwd = SError.
Proof. reflexivity. Qed.

Definition explicit_chain_ok (ex : explicit_arg) : Prop :=
  match ex with ExDir ch => f24_layout ch = false | _ => True end.

Lemma from_cwd_spec : forall cwd, f24_layout cwd = false -> from_cwd cwd = spec_from_cwd cwd.
Proof. intros cwd H. unfold from_cwd, spec_from_cwd. rewrite (find_nearest_agree cwd H). reflexivity. Qed.

Lemma resolve_spec : forall ex target cwd,
  explicit_chain_ok ex -> f24_layout target = false -> f24_layout cwd = false ->
  resolve ex target cwd = spec_resolve ex target cwd.
Proof.
  intros ex target cwd He Ht Hc. unfold resolve, spec_resolve.
  change cfg_resolve_explicit_first with true. cbv iota.
  destruct ex as [ | id | | ch ]; try reflexivity.
  - rewrite (find_nearest_agree target Ht), (from_cwd_spec cwd Hc). reflexivity.
  - cbn in He. rewrite (find_nearest_agree ch He), (from_cwd_spec cwd Hc). reflexivity.
Qed.

Lemma target_over_cwd : forall target cwd cwd', find_config target <> None ->
  resolve ExNone target cwd = resolve ExNone target cwd'.
Proof.
  intros target cwd cwd' H. unfold resolve. change cfg_resolve_explicit_first with true. cbv iota.
  destruct (find_config target) as [[i k]|]; [reflexivity | contradiction].
Qed.

Lemma discovery_examples :
  find_config [Build_dir false PPPlain; Build_dir true PPTool; Build_dir true PPNone] = Some (1, KPyscn) /\
  f24_layout [Build_dir false PPPlain; Build_dir true PPTool; Build_dir true PPNone] = false /\
  resolve ExNone [Build_dir false PPNone] [Build_dir false PPTool] = SFromCwd 0 KPyproject.
Proof. repeat split. Qed.
