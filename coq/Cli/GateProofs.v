(* Cli/GateProofs.v — lemmas about the model Cli/Gate.v of `pyscn check` (property C19). *)
From Coq Require Import ZArith List Bool Lia.
From PV Require Import Gen.DomainConst Gen.CheckConst Cli.Gate.
Import ListNotations.
Open Scope Z_scope.

(* ------------------------------------------------------------------------------------------ *)
(* lists                                                                                        *)
(* ------------------------------------------------------------------------------------------ *)

Lemma zlen_nonneg {A} (l : list A) : 0 <= zlen l.
Proof. unfold zlen; lia. Qed.

Lemma zlen_nil_iff {A} (l : list A) : zlen l = 0 <-> l = [].
Proof. unfold zlen; destruct l; cbn [length]; split; intros; try reflexivity; try discriminate; lia. Qed.

Lemma filter_nil_iff {A} (p : A -> bool) l : filter p l = [] <-> forall x, In x l -> p x = false.
Proof.
  induction l as [|a l IH]; cbn.
  - split; [intros _ x []|reflexivity].
  - destruct (p a) eqn:E.
    + split; [discriminate|]. intros H. specialize (H a (or_introl eq_refl)). congruence.
    + rewrite IH. split; intros H x.
      * intros [<-|Hx]; auto.
      * intros Hx; apply H; auto.
Qed.

Lemma zlen_filter_zero {A} (p : A -> bool) l : zlen (filter p l) = 0 <-> forall x, In x l -> p x = false.
Proof. rewrite zlen_nil_iff. apply filter_nil_iff. Qed.

Lemma zlen_pos_iff {A} (l : list A) : 0 < zlen l <-> l <> [].
Proof. pose proof (zlen_nil_iff l). pose proof (zlen_nonneg l). split; intros; [intros ->; cbn in *; lia|].
  destruct (Z.eq_dec (zlen l) 0) as [E|E]; [apply H in E; contradiction|lia]. Qed.

(* ------------------------------------------------------------------------------------------ *)
(* selection                                                                                    *)
(* ------------------------------------------------------------------------------------------ *)

Lemma sel_eqb_eq a b : sel_eqb a b = true <-> a = b.
Proof. destruct a, b; cbn; split; intros; try reflexivity; try discriminate. Qed.

Lemma contains_analysis_iff sel a :
  contains_analysis sel a = true <->
  In a sel \/ (a = SDeps /\ In SCircular sel) \/ (a = SCircular /\ In SDeps sel).
Proof.
  unfold contains_analysis. rewrite existsb_exists. split.
  - intros [x [Hx H]]. apply orb_true_iff in H as [H|H]; [apply orb_true_iff in H as [H|H]|].
    + apply sel_eqb_eq in H; subst; auto.
    + apply andb_true_iff in H as [H1 H2]. apply sel_eqb_eq in H1, H2; subst; auto.
    + apply andb_true_iff in H as [H1 H2]. apply sel_eqb_eq in H1, H2; subst; auto.
  - intros [H|[[-> H]|[-> H]]].
    + exists a; split; auto. destruct a; reflexivity.
    + exists SCircular; split; auto.
    + exists SDeps; split; auto.
Qed.

Lemma contains_simple sel a : a <> SDeps -> a <> SCircular -> (contains_analysis sel a = true <-> In a sel).
Proof. intros H1 H2. rewrite contains_analysis_iff. intuition congruence. Qed.

Lemma validate_selected_iff sel : validate_selected sel = true <-> ~ In SInvalid sel.
Proof.
  unfold validate_selected. rewrite forallb_forall. split.
  - intros H Hin. specialize (H _ Hin). discriminate.
  - intros H x Hx. destruct x; try reflexivity. contradiction.
Qed.

Lemma select_invalid_iff f : select_invalid f = false <-> ~ In SInvalid (f_select f).
Proof.
  unfold select_invalid. destruct (f_select f) as [|a l] eqn:E.
  - split; auto.
  - rewrite negb_false_iff. apply validate_selected_iff.
Qed.

Lemma sk_cx_iff f : sk_cx (determine_enabled f) = false <-> sel_cx f.
Proof.
  unfold determine_enabled, sel_cx. destruct (f_select f) as [|a l] eqn:E; cbn [sk_cx].
  - split; auto.
  - rewrite negb_false_iff, contains_simple by discriminate. split; [auto|intros [H|H]; [discriminate|auto]].
Qed.

Lemma sk_dead_iff f : sk_dead (determine_enabled f) = false <-> sel_dead f.
Proof.
  unfold determine_enabled, sel_dead. destruct (f_select f) as [|a l] eqn:E; cbn [sk_dead].
  - split; auto.
  - rewrite negb_false_iff, contains_simple by discriminate. split; [auto|intros [H|H]; [discriminate|auto]].
Qed.

Lemma sk_mock_iff f : sk_mock (determine_enabled f) = false <-> sel_mock f.
Proof.
  unfold determine_enabled, sel_mock. destruct (f_select f) as [|a l] eqn:E; cbn [sk_mock].
  - split; [discriminate|intros []].
  - rewrite negb_false_iff, contains_simple by discriminate. reflexivity.
Qed.

Lemma sk_clones_iff f : sk_clones (determine_enabled f) = false <-> sel_clones f.
Proof.
  unfold determine_enabled, sel_clones. destruct (f_select f) as [|a l] eqn:E; cbn [sk_clones].
  - split; [auto|intros [[_ H]|[]]; auto].
  - rewrite negb_false_iff, contains_simple by discriminate. split; [auto|intros [[H _]|H]; [discriminate|auto]].
Qed.

Lemma sk_deps_iff f : sk_deps (determine_enabled f) = false <-> sel_deps f.
Proof.
  unfold determine_enabled, sel_deps. destruct (f_select f) as [|a l] eqn:E; cbn [sk_deps].
  - split; [discriminate|intros [[]|[]]].
  - rewrite andb_false_iff, !negb_false_iff, !contains_analysis_iff. split.
    + intros [[H|[[_ H]|[H _]]]|[H|[[H _]|[_ H]]]]; auto; discriminate.
    + intros [H|H]; auto.
Qed.

(* ------------------------------------------------------------------------------------------ *)
(* what the generated constants make of the configuration chain                                 *)
(* ------------------------------------------------------------------------------------------ *)

(* [output] min_complexity never hides a function (complexity >= 1) from the gate *)
Lemma merged_min_complexity_le_1 c : merged_min_complexity c <= 1.
Proof.
  assert (E : merged_min_complexity c = check_req_MinComplexity) by reflexivity.
  rewrite E. unfold check_req_MinComplexity. lia.
Qed.

Lemma resolve_config_spec i : resolve_config i = spec_config i.
Proof. reflexivity. Qed.

(* explicit flag, else positive config value, else the flag default *)
Lemma max_complexity_threshold_eff i :
  max_complexity_threshold (i_flags i) (resolve_config i) = eff_max_complexity i.
Proof.
  rewrite resolve_config_spec. unfold max_complexity_threshold, eff_max_complexity.
  destruct (f_max_complexity (i_flags i)); [reflexivity|].
  unfold merged_max_complexity, check_cfg_max_given.
  change (negb (check_req_MaxComplexity =? svc_merge_sentinel_MaxComplexity)) with false. cbv iota.
  unfold cfg_max_complexity. change domain_DefaultComplexityMaxLimit with 0.
  destruct (spec_config i) as [fc|]; [|reflexivity].
  destruct (fc_max_complexity fc) as [v|]; [|reflexivity].
  rewrite !Z.gtb_ltb. destruct (0 <? v) eqn:E; [rewrite E|]; reflexivity.
Qed.

(* the config file cannot move the dead-code gate: it is always critical *)
Lemma merged_min_severity_critical c : merged_min_severity_level c = dead_level SevCritical.
Proof. reflexivity. Qed.

Lemma dead_gate_critical c : dead_gate_level c = dead_level gate_severity.
Proof. reflexivity. Qed.

Lemma max_cycles_threshold_eff i : max_cycles_threshold (i_flags i) = eff_max_cycles i.
Proof. reflexivity. Qed.

(* ------------------------------------------------------------------------------------------ *)
(* violation sets of the model = violation sets of the specification                            *)
(* ------------------------------------------------------------------------------------------ *)

Lemma filter_filter {A} (p q : A -> bool) l : filter p (filter q l) = filter (fun x => q x && p x) l.
Proof. induction l as [|a l IH]; cbn; [reflexivity|]. destruct (q a); cbn; [destruct (p a)|]; rewrite IH; reflexivity. Qed.

Lemma filter_ext_in' {A} (p q : A -> bool) l : (forall x, In x l -> p x = q x) -> filter p l = filter q l.
Proof. induction l as [|a l IH]; cbn; intros H; [reflexivity|]. rewrite (H a (or_introl eq_refl)), IH; auto. Qed.

Lemma complexity_violations_spec i :
  results_wf (i_res i) ->
  complexity_violations (i_flags i) (resolve_config i) (i_res i) = spec_complexity_violations i.
Proof.
  intros Hwf. unfold complexity_violations, reported_functions, spec_complexity_violations.
  rewrite filter_filter, max_complexity_threshold_eff. apply filter_ext_in'.
  intros [id cx] Hin. cbn [snd]. specialize (Hwf _ _ Hin).
  pose proof (merged_min_complexity_le_1 (resolve_config i)).
  replace (cx <? merged_min_complexity (resolve_config i)) with false by (symmetry; apply Z.ltb_ge; lia).
  unfold check_cx_exceeds. cbn [negb andb]. apply Z.gtb_ltb.
Qed.

Lemma dead_violations_spec i : dead_violations (resolve_config i) (i_res i) = spec_dead_violations i.
Proof.
  unfold dead_violations, reported_findings, spec_dead_violations.
  rewrite filter_filter, dead_gate_critical, merged_min_severity_critical. apply filter_ext_in'.
  intros [id sv] _. cbn [snd]. unfold domain_DeadCodeSeverity_is_at_least, gate_severity.
  rewrite andb_diag. apply Z.geb_leb.
Qed.

(* ------------------------------------------------------------------------------------------ *)
(* the issueCount arithmetic                                                                    *)
(* ------------------------------------------------------------------------------------------ *)

Definition cx_count (i : input) : Z := zlen (complexity_violations (i_flags i) (resolve_config i) (i_res i)).
Definition dead_count (i : input) : Z := zlen (dead_violations (resolve_config i) (i_res i)).
Definition cycles_count (i : input) : Z := zlen (r_cycles (i_res i)).
Definition mock_count (i : input) : Z := zlen (mock_violations (i_res i)).

Definition cx_part (i : input) : Z :=
  if sk_cx (determine_enabled (i_flags i)) then 0 else if r_cx_err (i_res i) then 0 else cx_count i.
Definition dead_part (i : input) : Z :=
  if sk_dead (determine_enabled (i_flags i)) then 0 else if r_dead_err (i_res i) then 0
  else if f_allow_dead_code (i_flags i) then 0 else dead_count i.
Definition deps_part (i : input) : Z :=
  if sk_deps (determine_enabled (i_flags i)) then 0 else if r_deps_err (i_res i) then 0
  else if cycles_count i >? eff_max_cycles i then (if f_allow_circular_deps (i_flags i) then 0 else cycles_count i) else 0.
Definition mock_part (i : input) : Z :=
  if sk_mock (determine_enabled (i_flags i)) then 0 else if r_mock_err (i_res i) then 0 else mock_count i.
Definition err_any (i : input) : bool :=
  let k := determine_enabled (i_flags i) in let r := i_res i in
  (negb (sk_cx k) && r_cx_err r) || (negb (sk_dead k) && r_dead_err r) ||
  (negb (sk_deps k) && r_deps_err r) || (negb (sk_mock k) && r_mock_err r).

Lemma step_complexity_spec f c r s :
  s_issues (step_complexity f c r s) = s_issues s + (if r_cx_err r then 0 else zlen (complexity_violations f c r)) /\
  s_err (step_complexity f c r s) = s_err s || r_cx_err r.
Proof.
  unfold step_complexity, check_complexity, fail_with. destruct (r_cx_err r); cbn [s_issues s_err]; split;
    try lia; auto using orb_true_r, orb_false_r; symmetry; auto using orb_true_r, orb_false_r.
Qed.

Lemma step_dead_code_spec f c r s :
  s_issues (step_dead_code f c r s) =
    s_issues s + (if r_dead_err r then 0 else if f_allow_dead_code f then 0 else zlen (dead_violations c r)) /\
  s_err (step_dead_code f c r s) = s_err s || r_dead_err r.
Proof.
  unfold step_dead_code, check_dead_code, fail_with.
  destruct (r_dead_err r); cbn [s_issues s_err]; [split; [lia|symmetry; apply orb_true_r]|].
  destruct (f_allow_dead_code f); cbn [negb].
  - destruct ((zlen (dead_violations c r) >? 0) && negb (f_quiet f)); cbn [s_issues s_err]; split; try lia;
      symmetry; apply orb_false_r.
  - cbn [s_issues s_err]; split; [lia|symmetry; apply orb_false_r].
Qed.

Lemma step_clones_spec f r s :
  s_issues (step_clones f r s) = s_issues s /\ s_err (step_clones f r s) = s_err s.
Proof.
  unfold step_clones, check_clones. destruct (r_clone_err r); [split; reflexivity|].
  destruct ((zlen (r_clones r) >? 0) && negb (f_quiet f)); split; reflexivity.
Qed.

Lemma check_circular_count f r :
  r_deps_err r = false -> exists ls, check_circular f r = Some (zlen (r_cycles r), ls).
Proof.
  intros E. unfold check_circular. rewrite E. destruct (r_cycles r) eqn:C; eauto.
Qed.

Lemma step_deps_spec f r s :
  s_issues (step_deps f r s) =
    s_issues s + (if r_deps_err r then 0
                  else if zlen (r_cycles r) >? max_cycles_threshold f
                       then (if f_allow_circular_deps f then 0 else zlen (r_cycles r)) else 0) /\
  s_err (step_deps f r s) = s_err s || r_deps_err r.
Proof.
  unfold step_deps. destruct (r_deps_err r) eqn:E.
  - unfold check_circular, fail_with. rewrite E. cbn [s_issues s_err]. split; [lia|symmetry; apply orb_true_r].
  - destruct (check_circular_count f r E) as [ls ->]. unfold check_cycles_exceed.
    destruct (zlen (r_cycles r) >? max_cycles_threshold f).
    + destruct (f_allow_circular_deps f); cbn [negb].
      * destruct ((zlen (r_cycles r) >? 0) && negb (f_quiet f)); cbn [s_issues s_err]; split; try lia;
          symmetry; apply orb_false_r.
      * cbn [s_issues s_err]; split; [lia|symmetry; apply orb_false_r].
    + destruct ((zlen (r_cycles r) >? 0) && negb (f_quiet f)); cbn [s_issues s_err]; split; try lia;
        symmetry; apply orb_false_r.
Qed.

Lemma step_mockdata_spec f r s :
  s_issues (step_mockdata f r s) = s_issues s + (if r_mock_err r then 0 else zlen (mock_violations r)) /\
  s_err (step_mockdata f r s) = s_err s || r_mock_err r.
Proof.
  unfold step_mockdata, check_mockdata, fail_with. destruct (r_mock_err r); cbn [s_issues s_err]; split;
    try lia; symmetry; auto using orb_true_r, orb_false_r.
Qed.

(* issueCount at the end = sum of the four gated contributions; hasErrors = any gated analysis failed *)
Lemma run_steps_sum i :
  s_issues (run_steps i) = cx_part i + dead_part i + deps_part i + mock_part i /\
  s_err (run_steps i) = err_any i.
Proof.
  unfold run_steps, cx_part, dead_part, deps_part, mock_part, err_any, cx_count, dead_count, cycles_count, mock_count.
  rewrite <- max_cycles_threshold_eff.
  set (f := i_flags i). set (c := resolve_config i). set (r := i_res i). set (k := determine_enabled f).
  set (s0 := Build_st 0 false [] []).
  set (s1 := if sk_cx k then s0 else step_complexity f c r s0).
  set (s2 := if sk_dead k then s1 else step_dead_code f c r s1).
  set (s3 := if sk_clones k then s2 else step_clones f r s2).
  set (s4 := if sk_deps k then s3 else step_deps f r s3).
  assert (H1 : s_issues s1 = (if sk_cx k then 0 else if r_cx_err r then 0 else zlen (complexity_violations f c r)) /\
               s_err s1 = negb (sk_cx k) && r_cx_err r).
  { subst s1. destruct (sk_cx k); [split; reflexivity|]. destruct (step_complexity_spec f c r s0) as [-> ->]. split; reflexivity. }
  destruct H1 as [I1 E1].
  assert (H2 : s_issues s2 = s_issues s1 + (if sk_dead k then 0 else if r_dead_err r then 0
                                else if f_allow_dead_code f then 0 else zlen (dead_violations c r)) /\
               s_err s2 = s_err s1 || (negb (sk_dead k) && r_dead_err r)).
  { subst s2. destruct (sk_dead k); [split; [lia|symmetry; apply orb_false_r]|]. destruct (step_dead_code_spec f c r s1) as [-> ->]. split; reflexivity. }
  destruct H2 as [I2 E2].
  assert (H3 : s_issues s3 = s_issues s2 /\ s_err s3 = s_err s2).
  { subst s3. destruct (sk_clones k); [split; reflexivity|]. apply step_clones_spec. }
  destruct H3 as [I3 E3].
  assert (H4 : s_issues s4 = s_issues s3 + (if sk_deps k then 0 else if r_deps_err r then 0
                                else if zlen (r_cycles r) >? max_cycles_threshold f
                                     then (if f_allow_circular_deps f then 0 else zlen (r_cycles r)) else 0) /\
               s_err s4 = s_err s3 || (negb (sk_deps k) && r_deps_err r)).
  { subst s4. destruct (sk_deps k); [split; [lia|symmetry; apply orb_false_r]|]. destruct (step_deps_spec f r s3) as [-> ->]. split; reflexivity. }
  destruct H4 as [I4 E4].
  destruct (sk_mock k).
  - rewrite I4, I3, I2, I1, E4, E3, E2, E1. split; [lia|]. cbn [negb andb]. rewrite orb_false_r. reflexivity.
  - destruct (step_mockdata_spec f r s4) as [-> ->]. rewrite I4, I3, I2, I1, E4, E3, E2, E1. split; reflexivity.
Qed.

Lemma parts_nonneg i : 0 <= cx_part i /\ 0 <= dead_part i /\ 0 <= deps_part i /\ 0 <= mock_part i.
Proof.
  unfold cx_part, dead_part, deps_part, mock_part, cx_count, dead_count, cycles_count, mock_count.
  repeat split;
    repeat match goal with |- context [if ?b then _ else _] => destruct b end; try lia; apply zlen_nonneg.
Qed.

Lemma exit_zero_iff i :
  o_exit (run_check i) = 0 <->
  select_invalid (i_flags i) = false /\ err_any i = false /\
  cx_part i = 0 /\ dead_part i = 0 /\ deps_part i = 0 /\ mock_part i = 0.
Proof.
  unfold run_check. destruct (run_steps_sum i) as [HI HE]. pose proof (parts_nonneg i) as (P1 & P2 & P3 & P4).
  destruct (select_invalid (i_flags i)).
  - cbn [o_exit]. split; [discriminate|intros [H _]; discriminate].
  - rewrite HE. destruct (err_any i).
    + cbn [o_exit]. split; [discriminate|intros (_ & H & _); discriminate].
    + unfold check_has_issues. destruct (s_issues (run_steps i) >? 0) eqn:G; cbn [o_exit].
      * split; [discriminate|]. intros (_ & _ & A & B & C & D). apply Z.gtb_lt in G. lia.
      * rewrite Z.gtb_ltb in G. apply Z.ltb_ge in G. split; [|reflexivity]. intros _. repeat split; lia.
Qed.

(* ------------------------------------------------------------------------------------------ *)
(* gate_exact                                                                                  *)
(* ------------------------------------------------------------------------------------------ *)

Lemma cx_count_zero_iff i :
  results_wf (i_res i) ->
  (cx_count i = 0 <-> forall id cx, In (id, cx) (r_functions (i_res i)) -> cx <= eff_max_complexity i).
Proof.
  intros Hwf. unfold cx_count. rewrite complexity_violations_spec by assumption.
  unfold spec_complexity_violations. rewrite zlen_filter_zero. split.
  - intros H id cx Hin. specialize (H _ Hin). cbn [snd] in H. apply Z.ltb_ge in H. exact H.
  - intros H [id cx] Hin. cbn [snd]. apply Z.ltb_ge. eauto.
Qed.

Lemma dead_count_zero_iff i :
  dead_count i = 0 <->
  forall id sv, In (id, sv) (r_findings (i_res i)) -> dead_level sv < dead_level gate_severity.
Proof.
  unfold dead_count. rewrite dead_violations_spec. unfold spec_dead_violations. rewrite zlen_filter_zero. split.
  - intros H id sv Hin. specialize (H _ Hin). cbn [snd] in H. apply Z.leb_gt in H. exact H.
  - intros H [id sv] Hin. cbn [snd]. apply Z.leb_gt. eauto.
Qed.

Lemma mock_count_zero_iff i :
  mock_count i = 0 <->
  forall id lv, In (id, lv) (r_mock (i_res i)) -> lv < domain_level_MockDataSeverityWarning.
Proof.
  unfold mock_count, mock_violations. rewrite zlen_filter_zero.
  unfold domain_MockDataSeverity_is_at_least. split.
  - intros H id lv Hin. specialize (H _ Hin). cbn [snd] in H. rewrite Z.geb_leb in H. apply Z.leb_gt in H. exact H.
  - intros H [id lv] Hin. cbn [snd]. rewrite Z.geb_leb. apply Z.leb_gt. exact (H _ _ Hin).
Qed.

Lemma err_any_false_iff i :
  err_any i = false <->
  (sk_cx (determine_enabled (i_flags i)) = false -> r_cx_err (i_res i) = false) /\
  (sk_dead (determine_enabled (i_flags i)) = false -> r_dead_err (i_res i) = false) /\
  (sk_deps (determine_enabled (i_flags i)) = false -> r_deps_err (i_res i) = false) /\
  (sk_mock (determine_enabled (i_flags i)) = false -> r_mock_err (i_res i) = false).
Proof.
  unfold err_any. cbv zeta.
  destruct (sk_cx _), (sk_dead _), (sk_deps _), (sk_mock _), (r_cx_err _), (r_dead_err _), (r_deps_err _), (r_mock_err _);
    cbn; split; intros H; try reflexivity; try discriminate; try tauto;
    destruct H as (A & B & C & D); try (specialize (A eq_refl)); try (specialize (B eq_refl));
    try (specialize (C eq_refl)); try (specialize (D eq_refl)); discriminate.
Qed.

Lemma cx_gate i :
  results_wf (i_res i) ->
  ((sk_cx (determine_enabled (i_flags i)) = false -> r_cx_err (i_res i) = false) /\ cx_part i = 0 <->
   (sel_cx (i_flags i) -> r_cx_err (i_res i) = false /\
      forall id cx, In (id, cx) (r_functions (i_res i)) -> cx <= eff_max_complexity i)).
Proof.
  intros Hwf. rewrite <- sk_cx_iff. unfold cx_part. pose proof (cx_count_zero_iff i Hwf) as HC.
  destruct (sk_cx _), (r_cx_err _); split; intros H.
  - intros X; discriminate X.
  - split; [intros X; discriminate X|reflexivity].
  - intros X; discriminate X.
  - split; [intros X; discriminate X|reflexivity].
  - destruct H as [H _]. specialize (H eq_refl). discriminate H.
  - destruct (H eq_refl) as [X _]. discriminate X.
  - intros _. split; [reflexivity|]. apply HC, H.
  - split; [reflexivity|]. apply HC. apply (H eq_refl).
Qed.

Lemma dead_gate i :
  ((sk_dead (determine_enabled (i_flags i)) = false -> r_dead_err (i_res i) = false) /\ dead_part i = 0 <->
   (sel_dead (i_flags i) -> r_dead_err (i_res i) = false /\
      (f_allow_dead_code (i_flags i) = true \/
       forall id sv, In (id, sv) (r_findings (i_res i)) -> dead_level sv < dead_level gate_severity))).
Proof.
  rewrite <- sk_dead_iff. unfold dead_part. pose proof (dead_count_zero_iff i) as HD.
  destruct (sk_dead _), (r_dead_err _); split; intros H.
  - intros X; discriminate X.
  - split; [intros X; discriminate X|reflexivity].
  - intros X; discriminate X.
  - split; [intros X; discriminate X|reflexivity].
  - destruct H as [H _]. specialize (H eq_refl). discriminate H.
  - destruct (H eq_refl) as [X _]. discriminate X.
  - intros _. split; [reflexivity|]. destruct H as [_ H]. destruct (f_allow_dead_code _); [left; reflexivity|right; apply HD, H].
  - split; [reflexivity|]. destruct (H eq_refl) as [_ [A|A]].
    + rewrite A. reflexivity.
    + destruct (f_allow_dead_code _); [reflexivity|apply HD, A].
Qed.

Lemma deps_gate i :
  0 <= eff_max_cycles i ->
  ((sk_deps (determine_enabled (i_flags i)) = false -> r_deps_err (i_res i) = false) /\ deps_part i = 0 <->
   (sel_deps (i_flags i) -> r_deps_err (i_res i) = false /\
      (f_allow_circular_deps (i_flags i) = true \/ zlen (r_cycles (i_res i)) <= eff_max_cycles i))).
Proof.
  intros Hmc. rewrite <- sk_deps_iff. unfold deps_part, cycles_count.
  destruct (sk_deps _), (r_deps_err _); split; intros H.
  - intros X; discriminate X.
  - split; [intros X; discriminate X|reflexivity].
  - intros X; discriminate X.
  - split; [intros X; discriminate X|reflexivity].
  - destruct H as [H _]. specialize (H eq_refl). discriminate H.
  - destruct (H eq_refl) as [X _]. discriminate X.
  - intros _. split; [reflexivity|]. destruct H as [_ H].
    destruct (zlen (r_cycles (i_res i)) >? eff_max_cycles i) eqn:G.
    + apply Z.gtb_lt in G. destruct (f_allow_circular_deps _); [left; reflexivity|lia].
    + rewrite Z.gtb_ltb in G. apply Z.ltb_ge in G. right; exact G.
  - split; [reflexivity|]. destruct (H eq_refl) as [_ A].
    destruct (zlen (r_cycles (i_res i)) >? eff_max_cycles i) eqn:G; [|reflexivity].
    apply Z.gtb_lt in G. destruct A as [A|A]; [rewrite A; reflexivity|lia].
Qed.

Lemma mock_gate i :
  ((sk_mock (determine_enabled (i_flags i)) = false -> r_mock_err (i_res i) = false) /\ mock_part i = 0 <->
   (sel_mock (i_flags i) -> r_mock_err (i_res i) = false /\
      forall id lv, In (id, lv) (r_mock (i_res i)) -> lv < domain_level_MockDataSeverityWarning)).
Proof.
  rewrite <- sk_mock_iff. unfold mock_part. pose proof (mock_count_zero_iff i) as HM.
  destruct (sk_mock _), (r_mock_err _); split; intros H.
  - intros X; discriminate X.
  - split; [intros X; discriminate X|reflexivity].
  - intros X; discriminate X.
  - split; [intros X; discriminate X|reflexivity].
  - destruct H as [H _]. specialize (H eq_refl). discriminate H.
  - destruct (H eq_refl) as [X _]. discriminate X.
  - intros _. split; [reflexivity|]. apply HM, H.
  - split; [reflexivity|]. apply HM. apply (H eq_refl).
Qed.

(* exit status 0 exactly when no gated violation exists *)
Lemma gate_exact_lemma i :
  results_wf (i_res i) -> 0 <= eff_max_cycles i ->
  (o_exit (run_check i) = 0 <-> gate_spec i).
Proof.
  intros Hwf Hmc. rewrite exit_zero_iff, select_invalid_iff, err_any_false_iff. unfold gate_spec. cbv zeta.
  rewrite <- (cx_gate i Hwf), <- (dead_gate i), <- (deps_gate i Hmc), <- (mock_gate i). tauto.
Qed.
