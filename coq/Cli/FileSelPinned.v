(* HISTORICAL: the file selection of the *pinned* tree (before the fix: commits 636a8a7,
   93a9fd8, 6fd6fb0), kept to record why the three repairs were needed.  It differs from
   Cli/FileSel.v in exactly three places:
     - shouldIncludeFile was given the walked path *as spelled* (file_reader.go:124-146 then),
     - shouldSkipDirectory was applied to the walk root as well (info.Name() of the target),
     - CollectPythonFiles concatenated the per-target lists without de-duplication.
   Each C18 statement is refuted for this model by a concrete project; the same inputs were
   replayed on the binary built from the pinned tree (known_findings.d/C18.json).
   Nothing here is tied to the current code. *)
From Coq Require Import NArith List Bool.
From PV Require Import Gen.FileSelConst Cli.Glob Cli.FileSel Cli.PathProofs Cli.FileSelProofs Cli.FileSelExamples.
Import ListNotations.
Open Scope N_scope.

(* the string of a spelled path, split on "/" as doublestar does *)
Definition spath_segments (p : spath) : list str := if rooted p then [] :: segs p else segs p.

Definition should_include_pinned (p : spath) (inc exc : list str) : bool :=
  if existsb (fun pat => glob pat (spath_segments p)) exc then false
  else if is_nil inc then true
  else existsb (fun pat => glob pat (spath_segments p)) inc.

Section Pinned.
Variable recursive : bool.
Variables inc exc : list str.

Fixpoint walk_node_pinned (path : spath) (nd : node) : list spath :=
  match nd with
  | File n =>
      if is_hidden n then []
      else if is_valid_python_file n && should_include_pinned (join path n) inc exc then [join path n]
      else []
  | Dir n sub =>
      if negb recursive then [] else if is_hidden n then [] else if should_skip_directory n then []
      else flat_map (walk_node_pinned (join path n)) sub
  end.

(* os.Lstat(dirPath).Name(): last non-empty element of the spelling *)
Definition root_base (t : spath) : name :=
  match filter (fun s => negb (is_nil s)) (rev (segs t)) with
  | s :: _ => s
  | [] => if rooted t then [c_slash] else dot
  end.

Definition collect_target_pinned (w : node) (cwd : list name) (t : spath) : option (list spath) :=
  match lookup w (segs (abs cwd t)) with
  | None => None
  | Some (Dir _ cs) =>
      Some (if should_skip_directory (root_base t) then [] else flat_map (walk_node_pinned t) cs)
  | Some (File _) =>
      Some (if is_valid_python_file (last (segs t) []) && should_include_pinned t inc exc then [t] else [])
  end.

Fixpoint collect_pinned (w : node) (cwd : list name) (ts : list spath) : option (list spath) :=
  match ts with
  | [] => Some []
  | t :: rest =>
      match collect_target_pinned w cwd t, collect_pinned w cwd rest with
      | Some fs, Some more => Some (fs ++ more)
      | _, _ => None
      end
  end.
End Pinned.

Definition analyze_pinned (w : node) (cwd : list name) (ts : list spath) : option (list spath) :=
  collect_pinned filesel_default_recursive filesel_default_include filesel_default_exclude w cwd ts.

Definition locs (cwd : list name) (o : option (list spath)) : option (list (list name)) :=
  option_map (map (fun p => segs (abs cwd p))) o.

(* F7: "." and "/w" name the same directory and selected different files: test_t.py was
   excluded and s.pyi included only for "." *)
Theorem pinned_spelling_refuted :
  abs [s_w] (rel_path [dot]) = abs [s_w] (mkpath true [s_w]) /\
  locs [s_w] (analyze_pinned ex_world [s_w] [rel_path [dot]]) <>
  locs [s_w] (analyze_pinned ex_world [s_w] [mkpath true [s_w]]).
Proof. split; [vm_compute; reflexivity|vm_compute; discriminate]. Qed.

(* F7: nested test files were analysed although the default exclude names them *)
Theorem pinned_spec_refuted :
  exists out f, locs [s_w] (analyze_pinned ex_world [s_w] [rel_path [dot]]) = Some out /\
    In f out /\ ~ sel_spec ex_world [s_w] [rel_path [dot]] filesel_default_recursive
                           filesel_default_include filesel_default_exclude f.
Proof.
  eexists. exists [s_w; s_sub; s_test_n]. split; [vm_compute; reflexivity|]. split.
  - vm_compute. tauto.
  - rewrite <- spec_list_correct. vm_compute. intuition discriminate.
Qed.

(* F7b: the directory /w/build gave nothing when named "build" and its files when named "." *)
Theorem pinned_root_name_refuted :
  abs [s_w] (rel_path [s_build]) = abs [s_w; s_build] (rel_path [dot]) /\
  locs [s_w] (analyze_pinned ex_world [s_w] [rel_path [s_build]]) = Some [] /\
  locs [s_w; s_build] (analyze_pinned ex_world [s_w; s_build] [rel_path [dot]]) = Some [[s_w; s_build; s_x_py]].
Proof. vm_compute. repeat split; reflexivity. Qed.

(* F18: `analyze . sub` listed the files under sub twice *)
Theorem pinned_each_once_refuted :
  exists out, locs [s_w] (analyze_pinned ex_world [s_w] [rel_path [dot]; rel_path [s_sub]]) = Some out /\ ~ NoDup out.
Proof.
  eexists. split; [vm_compute; reflexivity|].
  intros H.
  inversion H as [|? ? _ H1]; subst. inversion H1 as [|? ? _ H2]; subst. inversion H2 as [|? ? Hn _]; subst.
  apply Hn. vm_compute. tauto.
Qed.
