(* The full pattern language of github.com/bmatcuk/doublestar/v4 Match (v4.10.0, match.go) as
   pyscn's file selection accepts it in include_patterns / exclude_patterns:

     *  ?  /  **            as in Cli/Glob.v
     [abc] [a-c] [!a] [^a]  character classes, ranges, negated classes
     {a,b} {a,{b,c}}        alternatives, nested, with any term inside ({test,spec}_*.py)
     \c                     the character c, literally (also inside a class)

   [xglob p path] is the specification of "pattern p matches path": the pattern is read into
   tokens ([lex]), the alternatives are multiplied out ([expand]), and every alternative-free
   pattern is matched segment by segment exactly like Cli/Glob.v does ([xsegs_match]); a
   character class matches one character of a segment (a path segment never contains '/').
   On patterns without [ ] { } \ it is Cli/Glob.v's [glob] (GlobXProofs.xglob_conservative).

   Tie to the library: harness/c18.py compares doublestar.Match with [xglob_str] for every
   generated (pattern, name) pair with [xpat_ok pattern], [name_ok name] and
   [eats_str pattern name = false].  Outside that domain the library deviates:
   - [xpat_ok] excludes malformed patterns and the end-of-name quirks of match.go
     (isZeroLengthPattern does not look through a brace that is not at the very start of the
     rest: "a*{,b}" does not match "a", "x/{**,a}" does not match "x"; "a***", "a*/**" as in Glob.v);
   - [eats_str p n] says that some partial match lets a character class stand against a '/'
     of the name: doublestar lets a negated class (or a range such as [+-9]) consume the
     path separator, "?[!x]b.py" matches "a/b.py" (known finding C18-G4); the specification
     does not.

   Executable definitions only; proofs are in Cli/GlobXProofs.v. *)
From Coq Require Import NArith List Bool.
From PV Require Import Cli.Glob.
Import ListNotations.
Open Scope N_scope.

Definition c_bslash : N := 92.
Definition c_lbrack : N := 91.
Definition c_rbrack : N := 93.
Definition c_lbrace : N := 123.
Definition c_rbrace : N := 125.
Definition c_comma : N := 44.
Definition c_dash : N := 45.
Definition c_bang : N := 33.
Definition c_caret : N := 94.

(* ---- tokens ----------------------------------------------------------------------------- *)
(* a class is a list of ranges lo-hi (a single character c is c-c) *)
Inductive tok :=
| TLit (c : N) | TAny | TStar | TClass (neg : bool) (items : list (N * N))
| TOpen | TComma | TClose.

(* match.go case '[': the items up to the closing bracket; [last] = the previous single
   character when it can start a range.  Returns the class and the rest of the pattern. *)
Fixpoint lex_class (neg : bool) (items : list (N * N)) (last : option N) (s : str) {struct s}
  : option (tok * str) :=
  match s with
  | [] => None                                                  (* class didn't end *)
  | c :: s1 =>
      if c =? c_rbrack then (if is_nil items then None else Some (TClass neg (rev items), s1))
      else
        let single :=
          if c =? c_bslash
          then match s1 with e :: s2 => lex_class neg ((e, e) :: items) (Some e) s2 | [] => None end
          else lex_class neg ((c, c) :: items) (Some c) s1 in
        match last with
        | Some lo =>
            if c =? c_dash then
              match s1 with
              | d :: s2 =>
                  if d =? c_rbrack then single                  (* "[a-]": the dash is a character *)
                  else if d =? c_bslash
                  then match s2 with e :: s3 => lex_class neg ((lo, e) :: items) None s3 | [] => None end
                  else lex_class neg ((lo, d) :: items) None s2
              | [] => single
              end
            else single
        | None => single
        end
  end.

Definition simple_tok (c : N) : tok :=
  if c =? c_star then TStar else if c =? c_quest then TAny
  else if c =? c_lbrace then TOpen else if c =? c_rbrace then TClose
  else if c =? c_comma then TComma else TLit c.

Fixpoint lex_f (fuel : nat) (s : str) : option (list tok) :=
  match fuel with
  | O => None
  | S f =>
      match s with
      | [] => Some []
      | c :: s1 =>
          if c =? c_bslash then
            match s1 with e :: s2 => option_map (cons (TLit e)) (lex_f f s2) | [] => None end
          else if c =? c_lbrack then
            let '(neg, s2) :=
              match s1 with
              | d :: s2 => if (d =? c_bang) || (d =? c_caret) then (true, s2) else (false, s1)
              | [] => (false, s1)
              end in
            match lex_class neg [] None s2 with
            | Some (t, rest) => option_map (cons t) (lex_f f rest)
            | None => None
            end
          else option_map (cons (simple_tok c)) (lex_f f s1)
      end
  end.

(* None = malformed (class or escape not finished, empty class) *)
Definition lex (p : str) : option (list tok) := lex_f (S (length p)) p.

(* ---- alternatives multiplied out --------------------------------------------------------- *)
Inductive xcpat := XLit (c : N) | XAny | XStar | XClass (neg : bool) (items : list (N * N)).

(* a pattern without alternatives *)
Definition xpat := list xcpat.

(* state: the expansions of the sequence read so far at the current nesting level, and for
   every open brace (innermost first) the expansions read before it and the alternatives
   of the group that are complete *)
Definition xframe : Type := list xpat * list xpat.
Definition xstate : Type := list xpat * list xframe.

Definition xappend (cur : list xpat) (x : xcpat) : list xpat := map (fun e => e ++ [x]) cur.
Definition xproduct (outer alts : list xpat) : list xpat :=
  flat_map (fun o => map (fun a => o ++ a) alts) outer.

Definition xstep (st : xstate) (t : tok) : xstate :=
  let '(cur, stack) := st in
  match t with
  | TLit c => (xappend cur (XLit c), stack)
  | TAny => (xappend cur XAny, stack)
  | TStar => (xappend cur XStar, stack)
  | TClass neg items => (xappend cur (XClass neg items), stack)
  | TOpen => ([[]], (cur, []) :: stack)
  | TComma =>
      match stack with
      | (outer, alts) :: stack' => ([[]], (outer, alts ++ cur) :: stack')
      | [] => (xappend cur (XLit c_comma), [])          (* a comma outside braces is a character *)
      end
  | TClose =>
      match stack with
      | (outer, alts) :: stack' => (xproduct outer (alts ++ cur), stack')
      | [] => (xappend cur (XLit c_rbrace), [])         (* not a valid pattern, see [balanced] *)
      end
  end.

Definition expand_state (ts : list tok) : xstate := fold_left xstep ts ([[]], []).

(* None = a brace is not closed *)
Definition expand (ts : list tok) : option (list xpat) :=
  match expand_state ts with
  | (cur, []) => Some cur
  | _ => None
  end.

(* ---- matching one alternative-free pattern, segment-wise ---------------------------------- *)
Inductive xspat := XDStar | XSeg (cs : xpat).

Definition in_range (c : N) (r : N * N) : bool := (fst r <=? c) && (c <=? snd r).
Definition class_match (neg : bool) (items : list (N * N)) (c : N) : bool :=
  xorb neg (existsb (in_range c) items).

Definition is_xslash (x : xcpat) : bool := match x with XLit c => c =? c_slash | _ => false end.

Fixpoint xsplit (e : xpat) : list xpat :=
  match e with
  | [] => [[]]
  | x :: e' =>
      if is_xslash x then [] :: xsplit e'
      else match xsplit e' with
           | h :: t => (x :: h) :: t
           | [] => [[x]]
           end
  end.

Definition is_xdstar (s : xpat) : bool := match s with [XStar; XStar] => true | _ => false end.
Definition to_xspat (s : xpat) : xspat := if is_xdstar s then XDStar else XSeg s.
Definition xparse (e : xpat) : list xspat := map to_xspat (xsplit e).

Fixpoint xseg_match (cs : xpat) : str -> bool :=
  match cs with
  | [] => fun s => is_nil s
  | XLit c :: cs' => fun s => match s with x :: s' => (c =? x) && xseg_match cs' s' | [] => false end
  | XAny :: cs' => fun s => match s with _ :: s' => xseg_match cs' s' | [] => false end
  | XClass neg items :: cs' =>
      fun s => match s with x :: s' => class_match neg items x && xseg_match cs' s' | [] => false end
  | XStar :: cs' =>
      fix star (s : str) : bool :=
        xseg_match cs' s || match s with _ :: s' => star s' | [] => false end
  end.

Fixpoint xsegs_match (ps : list xspat) : list str -> bool :=
  match ps with
  | [] => fun ns => is_nil ns
  | XDStar :: ps' =>
      match ps' with
      | [] => fun _ => true
      | _ => fix dstar (ns : list str) : bool :=
               xsegs_match ps' ns || match ns with _ :: ns' => dstar ns' | [] => false end
      end
  | XSeg cs :: ps' => fun ns => match ns with n :: ns' => xseg_match cs n && xsegs_match ps' ns' | [] => false end
  end.

(* the expansions of a pattern; a malformed pattern has none (doublestar.Match returns
   ErrBadPattern, which file_reader.go matchesPattern reads as "no match") *)
Definition expansions (p : str) : list xpat :=
  match lex p with
  | Some ts => match expand ts with Some es => es | None => [] end
  | None => []
  end.

(* doublestar.Match(pattern, path), path given by its segments *)
Definition xglob (p : str) (path : list str) : bool :=
  existsb (fun e => xsegs_match (xparse e) path) (expansions p).
Definition xglob_str (p name : str) : bool := xglob p (split_on c_slash name).

(* ---- the domain of the tie to the library ------------------------------------------------- *)
(* a term that cannot match the empty string and is no separator *)
Definition solid (x : xcpat) : bool :=
  match x with XLit c => negb (c =? c_slash) | XAny => true | XClass _ _ => true | XStar => false end.
Definition solid_pat (e : xpat) : bool := existsb solid e.
Definition solid_tok (t : tok) : bool :=
  match t with TLit c => negb (c =? c_slash) | TAny => true | TClass _ _ => true | _ => false end.

(* every alternative of every group contains a solid term in each of its expansions, or is
   empty and the group stands directly after a solid term ("*.py{,i}"): then match.go's
   isZeroLengthPattern and the end of the name are never more than a whole brace apart.
   State: xstate + for every open brace whether an empty alternative is acceptable,
   + was the last token solid, + verdict so far. *)
Definition alt_ok (cur : list xpat) (empty_ok : bool) : bool :=
  forallb solid_pat cur || (empty_ok && match cur with [[]] => true | _ => false end).

Definition astate : Type := xstate * list bool * bool * bool.

Definition astep (a : astate) (t : tok) : astate :=
  let '(st, flags, prev, ok) := a in
  let st' := xstep st t in
  match t with
  | TOpen => (st', prev :: flags, false, ok)
  | TComma =>
      match flags with
      | f :: _ => (st', flags, false, ok && alt_ok (fst st) f)
      | [] => (st', flags, true, ok)
      end
  | TClose =>
      match flags with
      | f :: flags' => (st', flags', false, ok && alt_ok (fst st) f)
      | [] => (st', flags, false, false)                  (* closing brace without opening one *)
      end
  | _ => (st', flags, solid_tok t, ok)
  end.

Definition alts_ok (ts : list tok) : bool :=
  let '(_, flags, _, ok) := fold_left astep ts (([[]], []), [], false, true) in
  ok && is_nil flags.

(* an alternative-free pattern inside Cli/Glob.v's subset, with classes as ordinary terms *)
Fixpoint xhas_two_stars (s : xpat) : bool :=
  match s with
  | XStar :: ((XStar :: _) as s') => true
  | _ :: s' => xhas_two_stars s'
  | [] => false
  end.
Definition xends_with_star (s : xpat) : bool := match rev s with XStar :: _ => true | _ => false end.

Fixpoint xsegs_ok (first : bool) (ss : list xpat) : bool :=
  match ss with
  | [] => true
  | s :: rest =>
      (first || negb (is_nil s)) &&
      (is_xdstar s || negb (xhas_two_stars s)) &&
      match rest with
      | s2 :: rest2 =>
          negb (is_xdstar s && is_xdstar s2) &&
          negb (is_nil rest2 && is_xdstar s2 && negb (is_xdstar s) && xends_with_star s)
      | [] => true
      end &&
      xsegs_ok false rest
  end.
Definition xexp_ok (e : xpat) : bool := negb (is_nil e) && xsegs_ok true (xsplit e).

(* no escaped slash ("**\/" is no doublestar for match.go), no '{' '}' ',' '/' in a class
   (match.go's brace scanner does not know about classes; filepath.Base-like splitting of the
   pattern does not either) *)
Fixpoint no_esc_slash (p : str) : bool :=
  match p with
  | a :: ((b :: _) as p') => negb ((a =? c_bslash) && (b =? c_slash)) && no_esc_slash p'
  | _ => true
  end.
Definition plain_bound (c : N) : bool :=
  negb ((c =? c_lbrace) || (c =? c_rbrace) || (c =? c_comma) || (c =? c_slash)).
Definition class_plain (t : tok) : bool :=
  match t with
  | TClass _ items => forallb (fun r => plain_bound (fst r) && plain_bound (snd r)) items
  | _ => true
  end.

Definition xpat_ok (p : str) : bool :=
  negb (is_nil p) && no_esc_slash p &&
  match lex p with
  | Some ts =>
      forallb class_plain ts && alts_ok ts &&
      match expand ts with Some es => forallb xexp_ok es | None => false end
  | None => false
  end.

(* ---- where a class can meet a separator ---------------------------------------------------- *)
(* [eats e sos s]: some way of matching a beginning of pattern e against a beginning of the
   name s (one string, separators included) brings a class to stand against a '/' it accepts.
   [sos] = at the start of a segment (a "**" counts only there). *)
Fixpoint eats (e : xpat) : bool -> str -> bool :=
  match e with
  | [] => fun _ _ => false
  | XLit c :: e1 =>
      fun _ s => match s with x :: s' => (c =? x) && eats e1 (c =? c_slash) s' | [] => false end
  | XAny :: e1 =>
      fun _ s => match s with x :: s' => negb (x =? c_slash) && eats e1 false s' | [] => false end
  | XClass neg items :: e1 =>
      fun _ s => match s with
                 | x :: s' => class_match neg items x && ((x =? c_slash) || eats e1 false s')
                 | [] => false
                 end
  | XStar :: e1 =>
      fun sos =>
        let star := fix star (s : str) : bool :=
                      eats e1 false s || match s with x :: s' => negb (x =? c_slash) && star s' | [] => false end in
        match e1 with
        | XStar :: e2 =>
            if sos then
              match e2 with
              | [] => fun _ => false
              | XLit c :: e3 =>
                  if c =? c_slash
                  then (fix dstar (at_start : bool) (s : str) : bool :=
                          (at_start && eats e3 true s) ||
                          match s with x :: s' => dstar (x =? c_slash) s' | [] => false end) true
                  else star
              | _ => star
              end
            else star
        | _ => star
        end
  end.

Fixpoint join_slash (path : list str) : str :=
  match path with
  | [] => []
  | [n] => n
  | n :: rest => n ++ c_slash :: join_slash rest
  end.

Definition eats_str (p name : str) : bool := existsb (fun e => eats e true name) (expansions p).
Definition eats_path (p : str) (path : list str) : bool := eats_str p (join_slash path).

(* bit-packing used by the differential test (the pattern is read once per row) *)
Definition xglob_row (p : str) (names : list str) : N :=
  let pss := map xparse (expansions p) in
  fold_left (fun acc n => 2 * acc + (if existsb (fun ps => xsegs_match ps (split_on c_slash n)) pss then 1 else 0)) names 0.
Definition eats_row (p : str) (names : list str) : N :=
  let es := expansions p in
  fold_left (fun acc n => 2 * acc + (if existsb (fun e => eats e true n) es then 1 else 0)) names 0.
