(* Concrete instances: the hypotheses of the C18 theorems are satisfiable, and the model
   does on a small project what the property says (overlapping targets, nested test files,
   hidden and vendor-like directories, a target that is itself called "build"). *)
From Coq Require Import NArith List Bool.
From PV Require Import Gen.FileSelConst Cli.Glob Cli.GlobX Cli.FileSel Cli.PathProofs Cli.FileSelProofs.
Import ListNotations.
Open Scope N_scope.

(* names *)
Definition s_w : name := [119].                                   (* w *)
Definition s_sub : name := [115; 117; 98].                        (* sub *)
Definition s_deep : name := [100; 101; 101; 112].                 (* deep *)
Definition s_build : name := [98; 117; 105; 108; 100].            (* build *)
Definition s_hid : name := [46; 104; 105; 100].                   (* .hid *)
Definition s_a_py : name := [97; 46; 112; 121].                   (* a.py *)
Definition s_b_py : name := [98; 46; 112; 121].
Definition s_c_py : name := [99; 46; 112; 121].
Definition s_x_py : name := [120; 46; 112; 121].
Definition s_h_py : name := [104; 46; 112; 121].
Definition s_s_pyi : name := [115; 46; 112; 121; 105].            (* s.pyi *)
Definition s_t_pyi : name := [116; 46; 112; 121; 105].            (* t.pyi *)
Definition s_test_top : name := [116; 101; 115; 116; 95; 116; 46; 112; 121].   (* test_t.py *)
Definition s_test_n : name := [116; 101; 115; 116; 95; 110; 46; 112; 121].     (* test_n.py *)
Definition s_d_test : name := [100; 95; 116; 101; 115; 116; 46; 112; 121].     (* d_test.py *)

(* /w: a.py s.pyi test_t.py .hid/h.py build/x.py sub/{b.py t.pyi test_n.py deep/{c.py d_test.py}} *)
Definition ex_world : node :=
  Dir [] [Dir s_w
    [Dir s_hid [File s_h_py];
     File s_a_py;
     Dir s_build [File s_x_py];
     File s_s_pyi;
     Dir s_sub [File s_b_py; Dir s_deep [File s_c_py; File s_d_test]; File s_t_pyi; File s_test_n];
     File s_test_top]].

Definition rel_path (l : list name) : spath := mkpath false l.

Ltac names_distinct :=
  repeat (constructor; [cbv; intuition discriminate|]); try constructor.

Example ex_world_wf : wf_world ex_world.
Proof.
  simpl. split; [names_distinct|].
  repeat constructor; simpl; repeat split; try reflexivity; names_distinct; try (cbv; intuition discriminate).
Qed.

(* `pyscn analyze . sub/` in /w with the default patterns: every file once; test files
   excluded at every depth; .pyi stubs not selected by the default include pattern, every .py file at any depth, which
   is the same with and without a configuration file (C17); .hid and build skipped *)
Example ex_overlapping_targets :
  analyze_default ex_world [s_w] [rel_path [dot]; rel_path [s_sub; []]] =
  Some [rel_path [s_a_py]; rel_path [s_sub; s_b_py]; rel_path [s_sub; s_deep; s_c_py]].
Proof. vm_compute. reflexivity. Qed.

Example ex_targets_ok : Forall (file_target_ok ex_world [s_w]) [rel_path [dot]; rel_path [s_sub; []]].
Proof. apply Forall_cons; [|apply Forall_cons; [|apply Forall_nil]]; intros n H; vm_compute in H; discriminate. Qed.

(* the same directory spelled ".", "../w/", "/w", "sub/.." from three working directories *)
Example ex_spellings_same_place :
  abs [s_w] (rel_path [dot]) = abs [s_w; s_sub] (rel_path [dotdot; dotdot; s_w; []]) /\
  abs [s_w] (rel_path [dot]) = abs [] (mkpath true [s_w]) /\
  abs [s_w] (rel_path [dot]) = abs [s_w] (rel_path [s_sub; dotdot]).
Proof. vm_compute. repeat split. Qed.

Example ex_spellings_same_files :
  option_map (map (abs [s_w])) (analyze_default ex_world [s_w] [rel_path [dot]]) =
  option_map (map (abs [s_w; s_sub])) (analyze_default ex_world [s_w; s_sub] [rel_path [dotdot; dotdot; s_w; []]]).
Proof. vm_compute. reflexivity. Qed.

(* a target that is itself called "build" is analysed: only directories below the target are pruned *)
Example ex_target_named_build :
  analyze_default ex_world [s_w] [rel_path [s_build]] = Some [rel_path [s_build; s_x_py]] /\
  analyze_default ex_world [s_w; s_build] [rel_path [dot]] = Some [rel_path [s_x_py]].
Proof. vm_compute. split; reflexivity. Qed.

(* a file argument: selected by its name, however it is spelled *)
Example ex_file_target :
  analyze_default ex_world [s_w] [rel_path [s_sub; s_test_n]] = Some [] /\
  analyze_default ex_world [s_w; s_sub] [mkpath true [s_w; s_sub; s_b_py]] = Some [mkpath true [s_w; s_sub; s_b_py]] /\
  analyze_default ex_world [s_w] [rel_path [s_sub; s_b_py]; rel_path [dot; s_sub; []]; mkpath true [s_w; s_sub; s_b_py]]
    = Some [rel_path [s_sub; s_b_py]; rel_path [s_sub; s_deep; s_c_py]].
Proof. vm_compute. repeat split; reflexivity. Qed.

(* a missing target fails the run *)
Example ex_missing_target : analyze_default ex_world [s_w] [rel_path [dot]; rel_path [s_x_py]] = None.
Proof. vm_compute. reflexivity. Qed.

(* the defaults exclude by file name *)
Lemma default_excludes_have_no_slash : forallb (fun p => negb (has_slash p)) filesel_default_exclude = true.
Proof. vm_compute. reflexivity. Qed.

Theorem default_exclude_any_depth : forall inc p d b,
  In p filesel_default_exclude -> xglob p [b] = true -> ~ selected inc filesel_default_exclude (d ++ [b]).
Proof.
  intros inc p d b Hin Hg. apply (exclude_by_name_any_depth inc _ p d b Hin); [|assumption].
  pose proof default_excludes_have_no_slash as H. rewrite forallb_forall in H.
  specialize (H p Hin). apply negb_true_iff in H. exact H.
Qed.

(* glob sanity on the patterns the documentation uses *)
Example ex_glob_defaults :
  glob (hd [] filesel_default_include) [s_sub; s_deep; s_c_py] = true /\
  glob [116; 101; 115; 116; 95; 42; 46; 112; 121] [s_test_n] = true /\          (* test_*.py *)
  glob [116; 101; 115; 116; 95; 42; 46; 112; 121] [s_sub; s_test_n] = false /\  (* ... matches a name, not a path *)
  glob [115; 117; 98; 47; 42; 42] [s_sub; s_deep; s_c_py] = true /\             (* sub/** *)
  glob [63; 46; 112; 121] [s_a_py] = true /\                                    (* ?.py *)
  glob [63; 46; 112; 121] [s_test_n] = false.
Proof. vm_compute. repeat split; reflexivity. Qed.
