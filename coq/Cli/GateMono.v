(* Cli/GateMono.v — consequences of gate_exact: clones never fail the gate, monotonicity in the
   thresholds and allow flags, configuration facts, and the corners where the literal text fails. *)
From Coq Require Import ZArith List Bool Lia.
From PV Require Import Gen.DomainConst Gen.CheckConst Cli.Gate Cli.GateProofs.
Import ListNotations.
Open Scope Z_scope.

(* ------------------------------------------------------------------------------------------ *)
(* input updates                                                                                *)
(* ------------------------------------------------------------------------------------------ *)

Definition set_clones (i : input) (cl : list N) (ce : bool) : input :=
  let r := i_res i in
  Build_input (i_flags i) (i_cfg_explicit i) (i_cfg_target i) (i_cfg_cwd i)
    (Build_results (r_functions r) (r_cx_err r) (r_findings r) (r_dead_err r) cl ce
                   (r_cycles r) (r_deps_err r) (r_mock r) (r_mock_err r)).

Definition set_flags (i : input) (f : flags) : input :=
  Build_input f (i_cfg_explicit i) (i_cfg_target i) (i_cfg_cwd i) (i_res i).

Definition with_max_complexity (f : flags) (m : option Z) : flags :=
  Build_flags (f_quiet f) m (f_allow_dead_code f) (f_skip_clones f) (f_allow_circular_deps f) (f_max_cycles f) (f_select f).
Definition with_max_cycles (f : flags) (m : option Z) : flags :=
  Build_flags (f_quiet f) (f_max_complexity f) (f_allow_dead_code f) (f_skip_clones f) (f_allow_circular_deps f) m (f_select f).
Definition with_allow_dead (f : flags) (b : bool) : flags :=
  Build_flags (f_quiet f) (f_max_complexity f) b (f_skip_clones f) (f_allow_circular_deps f) (f_max_cycles f) (f_select f).
Definition with_allow_circular (f : flags) (b : bool) : flags :=
  Build_flags (f_quiet f) (f_max_complexity f) (f_allow_dead_code f) (f_skip_clones f) b (f_max_cycles f) (f_select f).
Definition with_quiet (f : flags) (b : bool) : flags :=
  Build_flags b (f_max_complexity f) (f_allow_dead_code f) (f_skip_clones f) (f_allow_circular_deps f) (f_max_cycles f) (f_select f).

Definition set_cwd_config (i : input) (c : option file_cfg) : input :=
  Build_input (i_flags i) (i_cfg_explicit i) (i_cfg_target i) c (i_res i).

(* ------------------------------------------------------------------------------------------ *)
(* exit status and issue count as closed formulas                                               *)
(* ------------------------------------------------------------------------------------------ *)

Definition total_issues (i : input) : Z := cx_part i + dead_part i + deps_part i + mock_part i.

Lemma exit_formula i :
  o_exit (run_check i) =
  if select_invalid (i_flags i) then check_exit_failure
  else if err_any i then check_exit_failure
  else if total_issues i >? 0 then check_exit_failure else 0.
Proof.
  unfold run_check, total_issues. destruct (run_steps_sum i) as [HI HE].
  destruct (select_invalid (i_flags i)); [reflexivity|].
  rewrite HE, HI. destruct (err_any i); [reflexivity|]. unfold check_has_issues.
  destruct (_ >? 0); reflexivity.
Qed.

(* issueCount = complexity violations + dead-code violations (unless allowed) + all cycles when their number
   exceeds the limit (unless allowed) + mock-data violations; clones never enter *)
Lemma issue_count_formula i :
  select_invalid (i_flags i) = false -> o_issues (run_check i) = total_issues i.
Proof.
  intros V. unfold run_check, total_issues. rewrite V. destruct (run_steps_sum i) as [HI HE].
  destruct (s_err (run_steps i)); [exact HI|]. destruct (check_has_issues _ _); exact HI.
Qed.

Lemma exit_zero_or_failure i : o_exit (run_check i) = 0 \/ o_exit (run_check i) = check_exit_failure.
Proof. rewrite exit_formula. repeat match goal with |- context [if ?b then _ else _] => destruct b end; auto. Qed.

Lemma exit_failure_nonzero : check_exit_failure <> 0.
Proof. discriminate. Qed.

(* ------------------------------------------------------------------------------------------ *)
(* clones                                                                                       *)
(* ------------------------------------------------------------------------------------------ *)

(* adding, removing or failing the clone analysis changes neither the exit status nor the issue count *)
Lemma clones_never_fail_lemma i cl ce :
  o_exit (run_check (set_clones i cl ce)) = o_exit (run_check i) /\
  o_issues (run_check (set_clones i cl ce)) = o_issues (run_check i).
Proof.
  split.
  - rewrite !exit_formula. reflexivity.
  - unfold run_check. destruct (run_steps_sum i) as [HI HE]. destruct (run_steps_sum (set_clones i cl ce)) as [HI' HE'].
    change (i_flags (set_clones i cl ce)) with (i_flags i).
    destruct (select_invalid (i_flags i)); [reflexivity|].
    rewrite HE, HE'. change (err_any (set_clones i cl ce)) with (err_any i).
    assert (E : s_issues (run_steps (set_clones i cl ce)) = s_issues (run_steps i)) by (rewrite HI, HI'; reflexivity).
    rewrite E. destruct (err_any i); [reflexivity|]. destruct (check_has_issues _ _); reflexivity.
Qed.

(* ------------------------------------------------------------------------------------------ *)
(* monotonicity                                                                                 *)
(* ------------------------------------------------------------------------------------------ *)

Lemma raise_max_complexity_lemma i m m' :
  results_wf (i_res i) -> 0 <= eff_max_cycles i -> m <= m' ->
  o_exit (run_check (set_flags i (with_max_complexity (i_flags i) (Some m)))) = 0 ->
  o_exit (run_check (set_flags i (with_max_complexity (i_flags i) (Some m')))) = 0.
Proof.
  intros Hwf Hmc Hle H.
  apply gate_exact_lemma in H; [|exact Hwf|exact Hmc].
  apply gate_exact_lemma; [exact Hwf|exact Hmc|].
  unfold gate_spec in *. cbv zeta in *. cbn [i_flags set_flags i_res f_select with_max_complexity f_allow_dead_code f_allow_circular_deps] in *.
  destruct H as (V & C & D & P & M). refine (conj V (conj _ (conj D (conj P M)))).
  intros S. destruct (C S) as [E C']. split; [exact E|].
  intros id cx Hin. specialize (C' id cx Hin).
  unfold eff_max_complexity in *. cbn [i_flags set_flags f_max_complexity with_max_complexity] in *. lia.
Qed.

Lemma raise_max_cycles_lemma i m m' :
  results_wf (i_res i) -> 0 <= m -> m <= m' ->
  o_exit (run_check (set_flags i (with_max_cycles (i_flags i) (Some m)))) = 0 ->
  o_exit (run_check (set_flags i (with_max_cycles (i_flags i) (Some m')))) = 0.
Proof.
  intros Hwf H0 Hle H.
  apply gate_exact_lemma in H; [|exact Hwf|cbn; exact H0].
  apply gate_exact_lemma; [exact Hwf|cbn; lia|].
  unfold gate_spec in *. cbv zeta in *. cbn [i_flags set_flags i_res f_select with_max_cycles f_allow_dead_code f_allow_circular_deps] in *.
  destruct H as (V & C & D & P & M). refine (conj V (conj C (conj D (conj _ M)))).
  intros S. destruct (P S) as [E [A|A]]; (split; [exact E|]); [left; exact A|right].
  unfold eff_max_cycles in *. cbn [i_flags set_flags f_max_cycles with_max_cycles] in *. lia.
Qed.

Lemma allow_dead_code_lemma i :
  results_wf (i_res i) -> 0 <= eff_max_cycles i ->
  o_exit (run_check i) = 0 ->
  o_exit (run_check (set_flags i (with_allow_dead (i_flags i) true))) = 0.
Proof.
  intros Hwf Hmc H.
  apply gate_exact_lemma in H; [|exact Hwf|exact Hmc].
  apply gate_exact_lemma; [exact Hwf|exact Hmc|].
  unfold gate_spec in *. cbv zeta in *. cbn [i_flags set_flags i_res f_select with_allow_dead f_allow_dead_code f_allow_circular_deps] in *.
  destruct H as (V & C & D & P & M). refine (conj V (conj C (conj _ (conj P M)))).
  intros S. destruct (D S) as [E _]. split; [exact E|left; reflexivity].
Qed.

Lemma allow_circular_deps_lemma i :
  results_wf (i_res i) -> 0 <= eff_max_cycles i ->
  o_exit (run_check i) = 0 ->
  o_exit (run_check (set_flags i (with_allow_circular (i_flags i) true))) = 0.
Proof.
  intros Hwf Hmc H.
  apply gate_exact_lemma in H; [|exact Hwf|exact Hmc].
  apply gate_exact_lemma; [exact Hwf|exact Hmc|].
  unfold gate_spec in *. cbv zeta in *. cbn [i_flags set_flags i_res f_select with_allow_circular f_allow_dead_code f_allow_circular_deps] in *.
  destruct H as (V & C & D & P & M). refine (conj V (conj C (conj D (conj _ M)))).
  intros S. destruct (P S) as [E _]. split; [exact E|left; reflexivity].
Qed.

(* --quiet changes what is printed, never the verdict *)
Lemma quiet_same_exit_lemma i b :
  o_exit (run_check (set_flags i (with_quiet (i_flags i) b))) = o_exit (run_check i).
Proof.
  rewrite !exit_formula. unfold total_issues, cx_part, dead_part, deps_part, mock_part, err_any, cx_count, dead_count,
    cycles_count, mock_count, select_invalid, determine_enabled, complexity_violations, max_complexity_threshold, eff_max_cycles.
  reflexivity.
Qed.

(* ------------------------------------------------------------------------------------------ *)
(* configuration                                                                                *)
(* ------------------------------------------------------------------------------------------ *)

(* F16 (repaired): a config file near the analysed path decides; the working directory is not consulted *)
Lemma target_config_wins_lemma i c cwd' :
  i_cfg_target i = Some c -> run_check (set_cwd_config i cwd') = run_check i.
Proof.
  intros H. unfold run_check, run_steps, resolve_config. cbn [i_flags i_res i_cfg_explicit i_cfg_target i_cfg_cwd set_cwd_config].
  rewrite H. reflexivity.
Qed.

(* [dead_code] min_severity and [output] min_complexity cannot move the gate *)
Definition cfg_gate_equiv (a b : option file_cfg) : Prop :=
  match a, b with
  | Some x, Some y => fc_max_complexity x = fc_max_complexity y
  | None, None => True
  | Some x, None => fc_max_complexity x = None
  | None, Some y => fc_max_complexity y = None
  end.

Lemma eff_max_complexity_only_max_key i j :
  i_flags i = i_flags j -> cfg_gate_equiv (spec_config i) (spec_config j) ->
  eff_max_complexity i = eff_max_complexity j.
Proof.
  intros Hf Hc. unfold eff_max_complexity. rewrite Hf. destruct (f_max_complexity (i_flags j)); [reflexivity|].
  unfold cfg_gate_equiv in Hc. destruct (spec_config i), (spec_config j); try rewrite Hc; try reflexivity; try contradiction.
Qed.

Lemma gate_only_max_complexity_key_lemma i j :
  results_wf (i_res i) -> 0 <= eff_max_cycles i ->
  i_flags i = i_flags j -> i_res i = i_res j -> cfg_gate_equiv (spec_config i) (spec_config j) ->
  o_exit (run_check i) = o_exit (run_check j).
Proof.
  intros Hwf Hmc Hf Hr Hc.
  assert (Hwf' : results_wf (i_res j)) by (rewrite <- Hr; exact Hwf).
  assert (Hmc' : 0 <= eff_max_cycles j) by (unfold eff_max_cycles in *; rewrite <- Hf; exact Hmc).
  assert (S : gate_spec i <-> gate_spec j).
  { unfold gate_spec. cbv zeta. rewrite (eff_max_complexity_only_max_key i j Hf Hc).
    unfold eff_max_cycles. rewrite Hf, Hr. reflexivity. }
  destruct (exit_zero_or_failure i) as [A|A], (exit_zero_or_failure j) as [B|B]; try congruence.
  - apply gate_exact_lemma in A; auto. apply S, gate_exact_lemma in A; auto.
    exfalso; apply exit_failure_nonzero; congruence.
  - apply gate_exact_lemma in B; auto. apply S, gate_exact_lemma in B; auto.
    exfalso; apply exit_failure_nonzero; congruence.
Qed.

(* ------------------------------------------------------------------------------------------ *)
(* where the literal text fails                                                                 *)
(* ------------------------------------------------------------------------------------------ *)

Definition no_results (ce : bool) : results := Build_results [] false [] false [] ce [] false [] false.

(* `pyscn check --select clones <missing path>`: the only selected analysis could not run, exit status 0 *)
Definition witness_clone_error : input :=
  Build_input (Build_flags false None false false false None [SClones]) None None None (no_results true).

Lemma clone_error_passes_lemma :
  exists i, results_wf (i_res i) /\ 0 <= eff_max_cycles i /\ sel_clones (i_flags i) /\ r_clone_err (i_res i) = true /\
            o_exit (run_check i) = 0 /\ ~ gate_spec_literal i.
Proof.
  exists witness_clone_error. repeat split.
  - intros id cx [].
  - vm_compute. discriminate.
  - right. cbn. auto.
  - intros [_ H]. assert (X : true = false) by (apply H; right; cbn; auto). discriminate X.
Qed.

Lemma gate_exact_literal_lemma i :
  results_wf (i_res i) -> 0 <= eff_max_cycles i ->
  (sel_clones (i_flags i) -> r_clone_err (i_res i) = false) ->
  (o_exit (run_check i) = 0 <-> gate_spec_literal i).
Proof.
  intros Hwf Hmc Hc. rewrite (gate_exact_lemma i Hwf Hmc). unfold gate_spec_literal. tauto.
Qed.

(* a negative --max-cycles: 0 cycles exceed the limit, runCheck adds 0 issues and passes *)
Definition witness_negative_max_cycles : input :=
  Build_input (Build_flags false None false false false (Some (-1)) [SDeps]) None None None (no_results false).

Lemma negative_max_cycles_lemma :
  exists i, results_wf (i_res i) /\ eff_max_cycles i < 0 /\ o_exit (run_check i) = 0 /\ ~ gate_spec i.
Proof.
  exists witness_negative_max_cycles. repeat split.
  - intros id cx [].
  - intros (_ & _ & _ & H & _). destruct H as [_ [H|H]].
    + left. cbn. auto.
    + discriminate H.
    + cbn in H. lia.
Qed.

(* hypotheses of gate_exact are satisfiable, and both verdicts occur *)
Definition example_pass : input :=
  Build_input (Build_flags false None false false false None []) None (Some (Build_file_cfg (Some 12) None None)) None
    (Build_results [(1%N, 12)] false [(1%N, SevWarning)] false [7%N] false [(1%N, true)] false [] false).
Definition example_fail : input :=
  Build_input (Build_flags false None false false false None []) None None None
    (Build_results [(1%N, 11)] false [] false [] false [] false [] false).

Lemma examples_lemma :
  (results_wf (i_res example_pass) /\ 0 <= eff_max_cycles example_pass /\ o_exit (run_check example_pass) = 0) /\
  (results_wf (i_res example_fail) /\ 0 <= eff_max_cycles example_fail /\ o_exit (run_check example_fail) = 1).
Proof.
  repeat split; try (vm_compute; discriminate).
  - intros id cx [H|[]]. inversion H; lia.
  - intros id cx [H|[]]. inversion H; lia.
Qed.
