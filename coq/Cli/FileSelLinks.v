(* Cli/FileSelLinks.v — symbolic links in the analysed tree (property C18, [analysis] follow_symlinks).

   The model Cli/FileSel.v has files and directories only.  This file adds link entries and reduces both the code and
   the specification to that model by erasing the links in the two ways that matter:

     code_view    what service/file_reader.go sees: filepath.Walk (collectFromDirectory) reports a link with Lstat
                  information, i.e. as an entry that is not a directory, whatever it points to, and never descends into
                  it; nothing in the file reader reads [analysis] follow_symlinks.  A link whose target cannot be
                  stat'ed (a dangling one) is skipped by the walk like any other entry that cannot be read; as a target
                  named on the command line it is an error (CollectPythonFiles: os.Stat fails), as it does not exist in
                  the tree the code sees.  A link to a directory is skipped by the walk as well, whatever its name
                  (before the repair of C18-G5 one that carried a Python file name was collected and then could not
                  be read).
     spec_view    what the property says: with follow_symlinks = false (the documented default) links are not part of
                  the tree; with follow_symlinks = true a link stands for what it points to (a dangling one for nothing).

   No proofs in this file (Cli/FileSelLinksProofs.v). *)
From Coq Require Import NArith List Bool.
From PV Require Import Gen.FileSelConst Cli.Glob Cli.FileSel.
Import ListNotations.
Open Scope N_scope.

Inductive lkind := KFile | KDir | KDangling.

(* LLink n k cs: a link named n; cs = the entries of the directory it points to when k = KDir (else ignored) *)
Inductive lnode :=
| LFile (n : name)
| LDir (n : name) (children : list lnode)
| LLink (n : name) (k : lkind) (target_children : list lnode).

Definition lnode_name (nd : lnode) : name := match nd with LFile n => n | LDir n _ => n | LLink n _ _ => n end.

Fixpoint code_view (t : lnode) : list node :=
  match t with
  | LFile n => [File n]
  | LDir n cs => [Dir n (flat_map code_view cs)]
  | LLink n KDangling _ => []            (* os.Stat(path) fails in walkFunc: skipped *)
  | LLink n KDir _ => []                 (* os.Stat(path) names a directory: no file, and the walk does not enter it (/repo b200a6e+) *)
  | LLink n KFile _ => [File n]
  end.

Definition code_world (w : lnode) : node :=
  match code_view w with x :: _ => x | [] => Dir [] [] end.

Fixpoint spec_view (follow : bool) (t : lnode) : list node :=
  match t with
  | LFile n => [File n]
  | LDir n cs => [Dir n (flat_map (spec_view follow) cs)]
  | LLink n k cs =>
      if follow then
        match k with
        | KFile => [File n]
        | KDir => [Dir n (flat_map (spec_view follow) cs)]
        | KDangling => []
        end
      else []
  end.

Definition spec_world (follow : bool) (w : lnode) : node :=
  match spec_view follow w with x :: _ => x | [] => Dir [] [] end.

Fixpoint no_links (t : lnode) : bool :=
  match t with
  | LFile _ => true
  | LDir _ cs => forallb no_links cs
  | LLink _ _ _ => false
  end.

(* every link of the tree is a dangling one *)
Fixpoint only_dangling_links (t : lnode) : bool :=
  match t with
  | LFile _ => true
  | LDir _ cs => forallb only_dangling_links cs
  | LLink _ KDangling _ => true
  | LLink _ _ _ => false
  end.

(* what is at an absolute location of the tree as the code sees it (links are leaves) *)
Fixpoint lfind_child (n : name) (cs : list lnode) : option lnode :=
  match cs with
  | [] => None
  | c :: cs' => if str_eqb (lnode_name c) n then Some c else lfind_child n cs'
  end.

Fixpoint llookup (nd : lnode) (loc : list name) : option lnode :=
  match loc with
  | [] => Some nd
  | n :: rest =>
      match nd with
      | LDir _ cs => match lfind_child n cs with Some c => llookup c rest | None => None end
      | _ => None
      end
  end.

Definition readable_at (w : lnode) (loc : list name) : bool :=
  match llookup w loc with Some (LFile _) => true | Some (LLink _ KFile _) => true | _ => false end.

(* `pyscn analyze`: the locations whose functions appear in the report; None = the targets cannot be collected *)
Definition analyzed_code (w : lnode) (cwd : list name) (ts : list spath) (recursive : bool) (inc exc : list str)
  : option (list (list name)) :=
  option_map (fun ps => filter (readable_at w) (map (fun p => segs (abs cwd p)) ps))
             (collect_python_files (code_world w) cwd ts recursive inc exc).

Definition analyzed_spec (follow : bool) (w : lnode) (cwd : list name) (ts : list spath) (recursive : bool) (inc exc : list str)
  : list (list name) :=
  spec_list (spec_world follow w) cwd ts recursive inc exc.

(* entry point of the harness *)
Definition run_links (follow : bool) (w : lnode) (cwd : list name) (ts : list spath) (recursive : bool) (inc exc : list str) :=
  (analyzed_code w cwd ts recursive inc exc, analyzed_spec follow w cwd ts recursive inc exc).
