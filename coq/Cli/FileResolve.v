(* Cli/FileResolve.v — app/file_resolution_helper.go ResolveFilePaths, through which every single analysis (and so every
   phase of `pyscn check`) turns its targets into files (properties C19 / C18).

   When every target is an existing plain file (FileExists: os.Stat succeeds and the entry is not a directory; with
   validatePythonFile also a .py/.pyi name) the targets are the files - each once (uniquePaths: first spelling of every
   cleaned absolute path, like uniqueFiles of the file reader); otherwise the targets go through CollectPythonFiles
   (Cli/FileSel.v).  No proofs in this file (Cli/FileResolveProofs.v). *)
From Coq Require Import NArith List Bool.
From PV Require Import Gen.FileSelConst Cli.Glob Cli.FileSel.
Import ListNotations.
Open Scope N_scope.

(* FileExists(path): the path names a file *)
Definition file_exists (w : node) (cwd : list name) (t : spath) : bool :=
  match lookup w (segs (abs cwd t)) with
  | Some (File _) => negb (ends_with_slash t)        (* "f.py/" is ENOTDIR *)
  | _ => false
  end.

(* uniquePaths = uniqueFiles *)
Definition unique_paths (cwd : list name) (ts : list spath) : list spath := unique_files cwd ts.

Definition resolve_file_paths (w : node) (cwd : list name) (ts : list spath) (recursive : bool) (inc exc : list str)
           (validate_python_file : bool) : option (list spath) :=
  if forallb (fun t => (negb validate_python_file || is_valid_python_file (last (segs t) [])) && file_exists w cwd t) ts
  then Some (unique_paths cwd ts)
  else collect_python_files w cwd ts recursive inc exc.
