(* Entry points used by the correspondence check (harness/c18.py). *)
From Coq Require Import NArith List Bool.
From PV Require Import Gen.FileSelConst Cli.Glob Cli.GlobX Cli.FileSel.
Import ListNotations.
Open Scope N_scope.

Definition out_path (p : spath) : bool * list name := (rooted p, segs p).

(* model of FileReader.CollectPythonFiles: the spelled paths in order; None = error *)
Definition run_collect (w : node) (cwd : list name) (ts : list spath) (recursive : bool)
           (inc exc : list str) : option (list (bool * list name)) :=
  option_map (map out_path) (collect_python_files w cwd ts recursive inc exc).

(* the absolute locations the model output denotes (what uniqueFiles keys on) *)
Definition run_collect_abs (w : node) (cwd : list name) (ts : list spath) (recursive : bool)
           (inc exc : list str) : option (list (list name)) :=
  option_map (map (fun p => segs (abs cwd p))) (collect_python_files w cwd ts recursive inc exc).

(* specification: absolute locations of the files to analyse (a set, listed per target) *)
Definition run_spec := spec_list.

(* (model paths, model locations, spec locations) *)
Definition run_case (w : node) (cwd : list name) (ts : list spath) (recursive : bool) (inc exc : list str) :=
  (run_collect w cwd ts recursive inc exc, run_collect_abs w cwd ts recursive inc exc,
   run_spec w cwd ts recursive inc exc).

(* compact output for big trees: every location as its index in a list of candidate files given relative to
   the directory [root] (the number of candidates = not among them) *)
Fixpoint strip_prefix (pre f : list name) : option (list name) :=
  match pre, f with
  | [], _ => Some f
  | p :: pre', x :: f' => if str_eqb p x then strip_prefix pre' f' else None
  | _ :: _, [] => None
  end.
Fixpoint index_of (cands : list (list name)) (f : list name) (i : N) : N :=
  match cands with
  | [] => i
  | c :: cs => if names_eqb c f then i else index_of cs f (i + 1)
  end.
Definition loc_index (root : list name) (cands : list (list name)) (f : list name) : N :=
  match strip_prefix root f with
  | Some r => index_of cands r 0
  | None => N.of_nat (length cands)
  end.
(* (model locations in order, spec locations), as indices *)
Definition run_case_idx (w : node) (root : list name) (cands : list (list name)) (cwd : list name) (ts : list spath)
           (recursive : bool) (inc exc : list str) : option (list N) * list N :=
  (option_map (map (loc_index root cands)) (run_collect_abs w cwd ts recursive inc exc),
   map (loc_index root cands) (run_spec w cwd ts recursive inc exc)).

Definition default_patterns := (filesel_default_include, filesel_default_exclude, filesel_default_recursive).

Definition run_glob (p n : str) : bool * bool := (glob_str p n, pat_ok p && name_ok n).

(* the full pattern language (Cli/GlobX.v): match, inside the compared domain, class against separator *)
Definition run_xglob (p n : str) : bool * bool * bool := (xglob_str p n, xpat_ok p && name_ok n, eats_str p n).
(* one row of the differential test: results of one pattern on chunks of names, bit-packed *)
Definition xrow (p : str) (chunks : list (list str)) : list N * bool := (map (xglob_row p) chunks, xpat_ok p).
Definition xrow_e (p : str) (chunks : list (list str)) : list N * list N * bool :=
  (map (xglob_row p) chunks, map (eats_row p) chunks, xpat_ok p).
(* can some pattern of the list bring a class against a separator of this path (known finding C18-G4)? *)
Definition run_eats (pats : list str) (rels : list (list name)) : list bool :=
  map (fun rel => existsb (fun p => eats_path p rel) pats) rels.
Definition run_include_e (rel : list name) (inc exc : list str) : bool * bool :=
  (should_include_file rel inc exc, existsb (fun p => eats_path p rel) (inc ++ exc)).
Definition run_skipdirs (ns : list name) : list bool := map should_skip_directory ns.
Definition run_include (rel : list name) (inc exc : list str) : bool := should_include_file rel inc exc.
