(* C12 — a file m.py next to a package m/ (F65, repaired by 21fe01e): UNBOUNDED.

   Python never imports the file: the package wins.  The specification's graph of a project with such files is
   therefore the graph of the project without them ([drop_shadowed]).  Proved here, for every project:
     - the model's graph does not change when the shadowed files are removed (edges_model_drop_shadowed): the files are
       skipped (analyzeModuleDependencies) and nothing the resolution looks at (fileExists of <q>.py or <q>/__init__.py,
       dirExists, findInitFile, the node set) tells a project with them from the project without them;
     - hence the unbounded agreement holds under the well-formedness predicate [wf_project_sh], which allows two files
       of one module name when one of them is the package (wf_project requires one file per name), and which is
       implied by wf_project (edges_wf is the special case). *)
From Coq Require Import NArith List Bool Arith Lia.
From PV Require Import Deps.PyImport Deps.Imports Deps.ImportsWf Deps.MetricsProofs Deps.ImportsProofs Deps.ImportsAgree Gen.ImportsConst.
Import ListNotations.

Definition drop_shadowed (pr : project) : project := filter (fun m => negb (shadowed pr m)) pr.

(* the recorded deviation classes F31-F34 are absent and the shape is a file system's, once the files Python never
   imports are set aside *)
Definition wf_project_sh (pr : project) : bool := wf_project (drop_shadowed pr).

Lemma existsb_filter_In : forall {A} (f k : A -> bool) l,
  (forall x, In x l -> f x = true -> k x = true) -> existsb f (filter k l) = existsb f l.
Proof.
  intros A f k l. induction l as [|a l IH]; intro H; simpl; [reflexivity|].
  assert (IH' : existsb f (filter k l) = existsb f l) by (apply IH; intros x Hx; apply H; right; exact Hx).
  destruct (k a) eqn:Ek; simpl; [rewrite IH'; reflexivity|].
  rewrite IH'. destruct (f a) eqn:Ef; [|reflexivity].
  rewrite (H a (or_introl eq_refl) Ef) in Ek. discriminate.
Qed.

Lemma find_filter_In : forall {A} (f k : A -> bool) l,
  (forall x, In x l -> f x = true -> k x = true) -> find f (filter k l) = find f l.
Proof.
  intros A f k l. induction l as [|a l IH]; intro H; simpl; [reflexivity|].
  assert (IH' : find f (filter k l) = find f l) by (apply IH; intros x Hx; apply H; right; exact Hx).
  destruct (k a) eqn:Ek; simpl; [rewrite IH'; reflexivity|].
  rewrite IH'. destruct (f a) eqn:Ef; [|reflexivity].
  rewrite (H a (or_introl eq_refl) Ef) in Ek. discriminate.
Qed.

Section Drop.
  Variable pr : project.

  Lemma shadowed_pkg : forall m, m_is_pkg m = true -> negb (shadowed pr m) = true.
  Proof. intros m H. unfold shadowed. rewrite H. reflexivity. Qed.

  Lemma drop_In : forall m, In m (drop_shadowed pr) <-> In m pr /\ shadowed pr m = false.
  Proof. intro m. unfold drop_shadowed. rewrite filter_In, negb_true_iff. tauto. Qed.

  (* <q>/__init__.py *)
  Lemma init_drop : forall q, init_file_exists (drop_shadowed pr) q = init_file_exists pr q.
  Proof.
    intro q. unfold init_file_exists, drop_shadowed. apply existsb_filter_In.
    intros m _ H. apply andb_true_iff in H. apply shadowed_pkg. apply H.
  Qed.

  (* a file of the name exists (as <q>.py or <q>/__init__.py) *)
  Lemma is_module_drop : forall q, is_module (drop_shadowed pr) q = is_module pr q.
  Proof.
    intro q. destruct (is_module pr q) eqn:E.
    - apply is_module_In in E. destruct E as [m [Hm Hp]]. destruct (shadowed pr m) eqn:Es.
      + unfold shadowed in Es. apply andb_true_iff in Es. destruct Es as [_ Ei]. rewrite Hp in Ei.
        rewrite <- init_drop in Ei. apply init_is_module. exact Ei.
      + apply is_module_In. exists m. split; [apply drop_In; auto|exact Hp].
    - destruct (is_module (drop_shadowed pr) q) eqn:E'; [|reflexivity].
      apply is_module_In in E'. destruct E' as [m [Hm Hp]]. apply drop_In in Hm.
      assert (Hc : is_module pr q = true) by (apply is_module_In; exists m; tauto). congruence.
  Qed.

  (* <q>.py, when there is no package of the name *)
  Lemma py_drop : forall q, init_file_exists pr q = false -> py_file_exists (drop_shadowed pr) q = py_file_exists pr q.
  Proof.
    intros q Hi. unfold py_file_exists, drop_shadowed. apply existsb_filter_In.
    intros m _ H. apply andb_true_iff in H. destruct H as [_ H]. apply path_eqb_eq in H.
    unfold shadowed. rewrite H, Hi, andb_false_r. reflexivity.
  Qed.

  Lemma dir_drop : forall q, dir_exists (drop_shadowed pr) q = dir_exists pr q.
  Proof.
    intro q. unfold dir_exists. destruct (existsb (fun m => strict_prefixb q (m_path m) || (m_is_pkg m && path_eqb (m_path m) q)) pr) eqn:E.
    - apply existsb_exists in E. destruct E as [m [Hm Hq]]. apply existsb_exists. destruct (shadowed pr m) eqn:Es.
      + unfold shadowed in Es. apply andb_true_iff in Es. destruct Es as [Hnp Ei]. apply negb_true_iff in Hnp.
        rewrite Hnp in Hq. cbn [andb] in Hq. rewrite orb_false_r in Hq.
        unfold init_file_exists in Ei. apply existsb_exists in Ei. destruct Ei as [m' [Hm' Hq']].
        apply andb_true_iff in Hq'. destruct Hq' as [Hpk Hp]. apply path_eqb_eq in Hp.
        exists m'. split; [apply drop_In; split; [exact Hm'|]; unfold shadowed; rewrite Hpk; reflexivity|].
        rewrite Hp, Hq. reflexivity.
      + exists m. split; [apply drop_In; auto|exact Hq].
    - destruct (existsb (fun m => strict_prefixb q (m_path m) || (m_is_pkg m && path_eqb (m_path m) q)) (drop_shadowed pr)) eqn:E'; [|reflexivity].
      apply existsb_exists in E'. destruct E' as [m [Hm Hq]]. apply drop_In in Hm.
      assert (Hc : existsb (fun m => strict_prefixb q (m_path m) || (m_is_pkg m && path_eqb (m_path m) q)) pr = true)
        by (apply existsb_exists; exists m; tauto).
      congruence.
  Qed.

  Lemma search_in_drop : forall d p, search_in (drop_shadowed pr) d p = search_in pr d p.
  Proof. intros [dir|] p; [|reflexivity]. rewrite !search_in_spec, is_module_drop. reflexivity. Qed.

  Lemma resolveAbsoluteImport_drop : forall p, resolveAbsoluteImport (drop_shadowed pr) p = resolveAbsoluteImport pr p.
  Proof.
    intro p. unfold resolveAbsoluteImport. rewrite init_drop, dir_drop.
    destruct (init_file_exists pr p) eqn:Ei; [reflexivity|]. rewrite (py_drop p Ei). reflexivity.
  Qed.

  Lemma resolveImport_drop : forall m ii, resolveImport (drop_shadowed pr) m ii = resolveImport pr m ii.
  Proof.
    intros m ii. unfold resolveImport. destruct (Nat.ltb 0 (ii_level ii)); [reflexivity|].
    unfold resolveAbsoluteImportWithProject. destruct (ii_module ii) as [|x p']; [reflexivity|].
    cbn [first_some]. rewrite !search_in_drop, resolveAbsoluteImport_drop. reflexivity.
  Qed.

  (* findInitFile *)
  Lemma ResolveReExport_drop : forall P n, ResolveReExport (drop_shadowed pr) P n = ResolveReExport pr P n.
  Proof.
    intros P n. unfold ResolveReExport, drop_shadowed.
    rewrite (find_filter_In (fun m => m_is_pkg m && path_eqb (m_path m) P) (fun m => negb (shadowed pr m)) pr); [reflexivity|].
    intros m _ H. apply andb_true_iff in H. apply shadowed_pkg. apply H.
  Qed.

  Lemma resolved_modules_drop : forall m ii,
    resolved_modules (drop_shadowed pr) (empty_graph (drop_shadowed pr)) m ii = resolved_modules pr (empty_graph pr) m ii.
  Proof.
    intros m ii. unfold resolved_modules. rewrite resolveImport_drop.
    destruct (resolveImport pr m ii) as [target|]; [|reflexivity].
    destruct (ii_from ii && negb (Nat.eqb (length (ii_names ii)) 0)); [|reflexivity].
    f_equal. apply map_ext. intro x. rewrite ResolveReExport_drop. cbn [g_nodes empty_graph].
    change (mem_path (target ++ [in_orig x]) (module_names (drop_shadowed pr))) with (is_module (drop_shadowed pr) (target ++ [in_orig x])).
    rewrite is_module_drop. reflexivity.
  Qed.

  Lemma shadowed_drop : forall m, shadowed (drop_shadowed pr) m = shadowed pr m.
  Proof. intro m. unfold shadowed. rewrite init_drop. reflexivity. Qed.
End Drop.

(* the model's graph of a project is its graph of the project without the files a package shadows *)
Theorem edges_model_drop_shadowed : forall pr e, In e (edges_model pr) <-> In e (edges_model (drop_shadowed pr)).
Proof.
  intros pr e. rewrite !edges_model_spec. split.
  - intros [m [ii [r [Hm [Hsh [Hii [Htc [Hr [Hskip [Heq [Hmr Hne]]]]]]]]]]]. exists m, ii, r.
    rewrite shadowed_drop, resolved_modules_drop, is_module_drop. repeat split; auto. apply drop_In. auto.
  - intros [m [ii [r [Hm [Hsh [Hii [Htc [Hr [Hskip [Heq [Hmr Hne]]]]]]]]]]]. exists m, ii, r.
    rewrite shadowed_drop in Hsh. rewrite resolved_modules_drop in Hr. rewrite is_module_drop in Hmr.
    apply drop_In in Hm. repeat split; auto; tauto.
Qed.

(* THE UNBOUNDED THEOREM with shadowed files allowed: the analyser's graph is Python's graph of the files Python can
   import *)
Theorem edges_wf_sh : forall pr, wf_project_sh pr = true ->
  same_edges (edges_model pr) (edges_py (drop_shadowed pr)) = true.
Proof.
  intros pr H. apply same_edges_iff. intro e. rewrite edges_model_drop_shadowed.
  apply same_edges_iff. apply edges_wf. exact H.
Qed.

(* with one file per module name nothing is shadowed: wf_project implies wf_project_sh and edges_wf is the special case *)
Lemma drop_shadowed_nodup : forall pr, nodup_paths (module_names pr) = true -> drop_shadowed pr = pr.
Proof.
  intros pr Hn. unfold drop_shadowed.
  assert (H : forall l, (forall m, In m l -> In m pr) -> filter (fun m => negb (shadowed pr m)) l = l).
  { induction l as [|a l IH]; intro Hl; simpl; [reflexivity|].
    rewrite (nodup_not_shadowed pr a Hn (Hl a (or_introl eq_refl))). simpl. f_equal. apply IH. intros m Hm. apply Hl. right. exact Hm. }
  apply H. auto.
Qed.

Lemma wf_project_sh_weaker : forall pr, wf_project pr = true -> wf_project_sh pr = true /\ drop_shadowed pr = pr.
Proof.
  intros pr H. destruct (wf_project_classes pr H) as [Hshape _]. pose proof (shape_nodup pr Hshape) as Hn.
  unfold wf_project_sh. rewrite (drop_shadowed_nodup pr Hn). auto.
Qed.

(* the former witness of F65: dup.py ("import user", "from lib import fa") next to dup/__init__.py ("import lib") and
   dup/part.py; user.py ("import dup", "from dup import part"), lib.py, other.py ("import dup.part").
   dup=1 part=2 user=3 lib=4 other=5 fa=6.  wf_project rejects it (two files named dup), wf_project_sh accepts it,
   and the edges dup -> user of the shadowed file are gone *)
Definition w_shadow : project :=
  [md [1%N] false [stmt (ImportAbs [3%N]); stmt (ImportFrom [4%N] [mk 6%N])];
   md [1%N] true [stmt (ImportAbs [4%N])]; md [1%N; 2%N] false [];
   md [3%N] false [stmt (ImportAbs [1%N]); stmt (ImportFrom [1%N] [mk 2%N])]; md [4%N] false [];
   md [5%N] false [stmt (ImportAbs [1%N; 2%N])]].

Example shadow_witness :
  wf_project w_shadow = false /\ wf_project_sh w_shadow = true /\
  edges_model w_shadow = [([1], [4]); ([3], [1]); ([3], [1; 2]); ([5], [1; 2])]%N /\
  edges_model (rev w_shadow) = [([5], [1; 2]); ([3], [1]); ([3], [1; 2]); ([1], [4])]%N /\
  same_edges (edges_model w_shadow) (edges_py (drop_shadowed w_shadow)) = true /\
  has_edge (edges_py w_shadow) ([1], [3])%N = true.
Proof. vm_compute. repeat split. Qed.
